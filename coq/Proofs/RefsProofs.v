(** Proofs about the metadata store model [PV.Metadata.Refs]:
      A  refs_inv                     guarded histories keep sessions/records attached
      B  remove_scope_clean, delete_scope_clean, no_scope_nothing
      C  last_record_removes_session, delete_record_msg, move_record_msg
      D  indexes_exact                the five lookups hold exactly the keys of stored content
      D' spec_owner_strdiff_refuted   the pre-fix string-diff writers lose a re-spelled owner
      E  keys_unique                  primary keys are unique
    Everything is first proved about the keeper functions; [step] is a thin case analysis. *)
From Coq Require Import ZArith List Bool Lia.
From PV Require Import Metadata.Refs.
Import ListNotations.
Open Scope Z_scope.

(** * Statements' definitions *)
Definition refs_ok (st : state) : Prop :=
  (forall s, In s (sessions st) -> exists sc, In sc (scopes st) /\ sc_id sc = se_scope s) /\
  (forall r, In r (records st) ->
     (exists sc, In sc (scopes st) /\ sc_id sc = r_scope r) /\
     (exists s, In s (sessions st) /\ se_scope s = r_scope r /\ se_uuid s = r_sess r)).

Definition scope_absent (st : state) (id : Z) : Prop :=
  (forall sc, In sc (scopes st) -> sc_id sc <> id) /\
  (forall s, In s (sessions st) -> se_scope s <> id) /\
  (forall r, In r (records st) -> r_scope r <> id) /\
  (forall a, ~ In (a, id) (ix_as st)) /\ (forall x, ~ In (x, id) (ix_ss st)).

Definition index_exact {A} (ix : list key) (items : list A) (keys : A -> list key) : Prop :=
  forall k, In k ix <-> exists a, In a items /\ In k (keys a).

(** * Tactics *)
Ltac splits := repeat match goal with |- _ /\ _ => split end.

Ltac sproj :=
  cbn [scopes sessions records sspecs cspecs rspecs navs ix_as ix_ss ix_asp ix_cs ix_ac locs
       with_scopes with_sessions with_records with_sspecs with_cspecs with_rspecs with_navs
       with_ix_scope with_ix_sspec with_ix_cspec with_locs] in *.

(** * Generic list facts *)
Lemma filter_id : forall {A} (p : A -> bool) l, (forall x, In x l -> p x = true) -> filter p l = l.
Proof.
  intros A p l; induction l as [|a l IH]; intros Hall; simpl; auto.
  rewrite (Hall a (or_introl eq_refl)). f_equal. apply IH. intros x Hx; apply Hall; right; auto.
Qed.

Lemma filter_true : forall {A} (l : list A), filter (fun _ => true) l = l.
Proof. intros; apply filter_id; auto. Qed.

Lemma filter_filter : forall {A} (p q : A -> bool) l,
  filter p (filter q l) = filter (fun x => q x && p x) l.
Proof.
  intros A p q l; induction l as [|a l IH]; simpl; auto.
  destruct (q a) eqn:Eq; simpl; [destruct (p a); rewrite IH; auto | auto].
Qed.

Lemma find_filter_negb : forall {A} (p : A -> bool) l, find p (filter (fun x => negb (p x)) l) = None.
Proof.
  intros A p l; induction l as [|a l IH]; simpl; auto.
  destruct (p a) eqn:Ep; simpl; auto. rewrite Ep; auto.
Qed.

Lemma find_none_filter : forall {A} (p : A -> bool) l,
  find p l = None -> filter (fun x => negb (p x)) l = l.
Proof.
  intros A p l Hf. apply filter_id. intros x Hx. rewrite (find_none _ _ Hf x Hx). reflexivity.
Qed.

Lemma NoDup_map_filter : forall {A K} (f : A -> K) p l, NoDup (map f l) -> NoDup (map f (filter p l)).
Proof.
  intros A K f p l; induction l as [|x l IH]; intros Hnd; simpl in *; auto.
  inversion Hnd as [|? ? Hnin Hnd']; subst.
  destruct (p x); simpl; auto. constructor; auto.
  intros Hin. apply Hnin. apply in_map_iff in Hin. destruct Hin as (y & Hy & Hin).
  apply filter_In in Hin. apply in_map_iff. exists y; tauto.
Qed.

Lemma NoDup_put : forall {A K} (f : A -> K) p l x,
  (forall y, f y = f x -> p y = false) -> NoDup (map f l) -> NoDup (map f (x :: filter p l)).
Proof.
  intros A K f p l x Hp Hnd. simpl. constructor; [|apply NoDup_map_filter; auto].
  intros Hin. apply in_map_iff in Hin. destruct Hin as (y & Hy & Hin).
  apply filter_In in Hin. destruct Hin as [_ Hpy]. rewrite (Hp y Hy) in Hpy. discriminate.
Qed.

Lemma eqb2_true : forall a b c d, (a =? b) && (c =? d) = true <-> a = b /\ c = d.
Proof. intros. rewrite andb_true_iff, !Z.eqb_eq. tauto. Qed.

Lemma negb_eqb2 : forall a b c d, negb ((a =? b) && (c =? d)) = true <-> ~ (a = b /\ c = d).
Proof.
  intros. rewrite negb_true_iff. rewrite <- eqb2_true.
  destruct ((a =? b) && (c =? d)); split; intros H; congruence.
Qed.

(** * Index keys as a set *)
Lemma key_eqb_eq : forall a b : key, key_eqb a b = true <-> a = b.
Proof.
  intros [a1 a2] [b1 b2]; unfold key_eqb; cbn [fst snd].
  rewrite andb_true_iff, !Z.eqb_eq. split.
  - intros [H1 H2]; subst; reflexivity.
  - intros H; inversion H; auto.
Qed.

Lemma memk_In : forall k l, memk k l = true <-> In k l.
Proof.
  intros k l; unfold memk; rewrite existsb_exists; split.
  - intros (x & Hx & He). apply key_eqb_eq in He. subst; auto.
  - intros H; exists k; split; auto. apply key_eqb_eq; auto.
Qed.

Lemma memk_nIn : forall k l, memk k l = false <-> ~ In k l.
Proof. intros k l. rewrite <- memk_In. destruct (memk k l); intuition congruence. Qed.

Lemma In_dec_key : forall (k : key) l, In k l \/ ~ In k l.
Proof.
  intros k l. destruct (memk k l) eqn:E; [left; apply memk_In | right; apply memk_nIn]; auto.
Qed.

Lemma In_idx_add : forall x k ix, In x (idx_add k ix) <-> x = k \/ In x ix.
Proof.
  intros x k ix; unfold idx_add. destruct (memk k ix) eqn:E.
  - apply memk_In in E. split; [auto|]. intros [->|H]; auto.
  - cbn [In]. split; intros [H|H]; auto.
Qed.

Lemma In_idx_del : forall x k ix, In x (idx_del k ix) <-> In x ix /\ x <> k.
Proof.
  intros x k ix; unfold idx_del. rewrite filter_In.
  split; intros [H1 H2]; split; auto.
  - intros ->. rewrite (proj2 (key_eqb_eq k k) eq_refl) in H2. discriminate.
  - destruct (key_eqb k x) eqn:E; auto. apply key_eqb_eq in E. congruence.
Qed.

Lemma In_missing : forall k req found, In k (missing req found) <-> In k req /\ ~ In k found.
Proof. intros; unfold missing. rewrite filter_In, negb_true_iff, memk_nIn. tauto. Qed.

Lemma In_fold_add : forall l ix x,
  In x (fold_left (fun ix k => idx_add k ix) l ix) <-> In x l \/ In x ix.
Proof.
  induction l as [|k l IH]; intros ix x; cbn [fold_left In].
  - tauto.
  - rewrite IH, In_idx_add. intuition (subst; auto).
Qed.

Lemma In_fold_del : forall l ix x,
  In x (fold_left (fun ix k => idx_del k ix) l ix) <-> In x ix /\ ~ In x l.
Proof.
  induction l as [|k l IH]; intros ix x; cbn [fold_left In].
  - tauto.
  - rewrite IH, In_idx_del. intuition (subst; auto).
Qed.

Lemma In_reindex : forall k newk oldk ix,
  In k (reindex newk oldk ix) <->
  (In k ix \/ (In k newk /\ ~ In k oldk)) /\ ~ (In k oldk /\ ~ In k newk).
Proof. intros; unfold reindex. rewrite In_fold_del, In_fold_add, !In_missing. tauto. Qed.

(** * One index family, generically *)
Section Generic.
  Context {A : Type} (id : A -> Z) (keys : A -> list key).
  Hypothesis keys_id : forall a k, In k (keys a) -> snd k = id a.

  Lemma nodup_id_inj : forall l a b,
    NoDup (map id l) -> In a l -> In b l -> id a = id b -> a = b.
  Proof.
    induction l as [|x l IH]; intros a b Hnd Ha Hb Hid; [destruct Ha|].
    cbn [map] in Hnd. inversion Hnd as [|? ? Hnin Hnd']; subst.
    destruct Ha as [->|Ha], Hb as [->|Hb]; auto.
    - exfalso; apply Hnin. rewrite Hid. apply in_map; auto.
    - exfalso; apply Hnin. rewrite <- Hid. apply in_map; auto.
  Qed.

  Lemma index_put : forall l ix x, NoDup (map id l) -> index_exact ix l keys ->
    index_exact (reindex (keys x) (okeys keys (find (fun y => id y =? id x) l)) ix)
                (x :: filter (fun y => negb (id y =? id x)) l) keys.
  Proof.
    intros l ix x Hnd Hix k. rewrite In_reindex.
    destruct (find (fun y => id y =? id x) l) as [a|] eqn:Ef; cbn [okeys].
    - apply find_some in Ef. destruct Ef as [Ha Hida]. apply Z.eqb_eq in Hida.
      split.
      + intros [[Hk|[Hk Hno]] Hn].
        * destruct (In_dec_key k (keys x)) as [Hkx|Hkx].
          -- exists x; split; [left; auto|auto].
          -- apply Hix in Hk. destruct Hk as (b & Hb & Hkb).
             exists b; split; auto. right. apply filter_In; split; auto.
             apply negb_true_iff, Z.eqb_neq. intros Hidb.
             assert (b = a) as -> by (apply (nodup_id_inj l); auto; congruence).
             apply Hn; auto.
        * exists x; split; [left|]; auto.
      + intros (b & [<-|Hb] & Hkb).
        * split; [|tauto]. destruct (In_dec_key k (keys a)) as [Hka|Hka].
          -- left. apply Hix. exists a; auto.
          -- right; auto.
        * apply filter_In in Hb. destruct Hb as [Hb Hne]. apply negb_true_iff, Z.eqb_neq in Hne.
          split.
          -- left. apply Hix; exists b; auto.
          -- intros [Hka _]. apply keys_id in Hka. apply keys_id in Hkb. congruence.
    - pose proof (find_none _ _ Ef) as Hnone. split.
      + intros [[Hk|[Hk _]] _].
        * apply Hix in Hk. destruct Hk as (b & Hb & Hkb). exists b; split; auto. right.
          apply filter_In; split; auto. rewrite (Hnone b Hb). reflexivity.
        * exists x; split; [left|]; auto.
      + intros (b & [<-|Hb] & Hkb).
        * split; [right; split; auto|intros [[] _]].
        * apply filter_In in Hb. destruct Hb as [Hb _].
          split; [left; apply Hix; exists b; auto|intros [[] _]].
  Qed.

  Lemma index_del : forall l ix i a, NoDup (map id l) -> index_exact ix l keys ->
    find (fun y => id y =? i) l = Some a ->
    index_exact (reindex [] (keys a) ix) (filter (fun y => negb (id y =? i)) l) keys.
  Proof.
    intros l ix i a Hnd Hix Ef k. rewrite In_reindex.
    apply find_some in Ef. destruct Ef as [Ha Hida]. apply Z.eqb_eq in Hida.
    split.
    - intros [[Hk|[[] _]] Hn]. apply Hix in Hk. destruct Hk as (b & Hb & Hkb).
      exists b; split; auto. apply filter_In; split; auto.
      apply negb_true_iff, Z.eqb_neq. intros Hidb.
      assert (b = a) as -> by (apply (nodup_id_inj l); auto; congruence).
      apply Hn; split; auto.
    - intros (b & Hb & Hkb). apply filter_In in Hb. destruct Hb as [Hb Hne].
      apply negb_true_iff, Z.eqb_neq in Hne. split.
      + left. apply Hix; exists b; auto.
      + intros [Hka _]. apply keys_id in Hka. apply keys_id in Hkb. congruence.
  Qed.

  (** after [index_del] no key naming [i] is left *)
  Lemma index_del_none : forall l ix i x,
    index_exact ix (filter (fun y => negb (id y =? i)) l) keys -> ~ In (x, i) ix.
  Proof.
    intros l ix i x Hix Hin. apply Hix in Hin. destruct Hin as (b & Hb & Hkb).
    apply filter_In in Hb. destruct Hb as [_ Hne]. apply negb_true_iff, Z.eqb_neq in Hne.
    apply keys_id in Hkb. cbn [snd] in Hkb. congruence.
  Qed.
End Generic.

Lemma keys_as_id : forall a k, In k (scope_keys_as a) -> snd k = sc_id a.
Proof. intros a k H. unfold scope_keys_as in H. apply in_map_iff in H. destruct H as (x & <- & _). reflexivity. Qed.
Lemma keys_ss_id : forall a k, In k (scope_keys_ss a) -> snd k = sc_id a.
Proof. intros a k H. unfold scope_keys_ss in H. destruct H as [<-|[]]. reflexivity. Qed.
Lemma keys_asp_id : forall a k, In k (sspec_keys_asp a) -> snd k = ss_id a.
Proof. intros a k H. unfold sspec_keys_asp in H. apply in_map_iff in H. destruct H as (x & <- & _). reflexivity. Qed.
Lemma keys_cs_id : forall a k, In k (sspec_keys_cs a) -> snd k = ss_id a.
Proof. intros a k H. unfold sspec_keys_cs in H. apply in_map_iff in H. destruct H as (x & <- & _). reflexivity. Qed.
Lemma keys_ac_id : forall a k, In k (cspec_keys_ac a) -> snd k = cs_id a.
Proof. intros a k H. unfold cspec_keys_ac in H. apply in_map_iff in H. destruct H as (x & <- & _). reflexivity. Qed.

(** * The invariant for D and E *)
Definition uniq (st : state) : Prop :=
  NoDup (map sc_id (scopes st)) /\ NoDup (map (fun s => (se_scope s, se_uuid s)) (sessions st)) /\
  NoDup (map (fun r => (r_scope r, r_name r)) (records st)) /\ NoDup (map ss_id (sspecs st)) /\
  NoDup (map cs_id (cspecs st)) /\ NoDup (map (fun r => (rs_cspec r, rs_name r)) (rspecs st)).

Definition idx_ok (st : state) : Prop :=
  index_exact (ix_as st) (scopes st) scope_keys_as /\
  index_exact (ix_ss st) (scopes st) scope_keys_ss /\
  index_exact (ix_asp st) (sspecs st) sspec_keys_asp /\
  index_exact (ix_cs st) (sspecs st) sspec_keys_cs /\
  index_exact (ix_ac st) (cspecs st) cspec_keys_ac.

Definition Inv (st : state) : Prop := uniq st /\ idx_ok st.

Lemma index_exact_nil : forall {A} (keys : A -> list key), index_exact [] [] keys.
Proof. intros A keys k; split; [intros [] | intros (a & [] & _)]. Qed.

Lemma Inv_init : Inv init.
Proof.
  unfold Inv, uniq, idx_ok, init; sproj. cbn [map].
  splits; try apply NoDup_nil; apply index_exact_nil.
Qed.

(** ** [sub]: only sessions / records shrink *)
Definition sub (st st' : state) : Prop :=
  scopes st' = scopes st /\ sspecs st' = sspecs st /\ cspecs st' = cspecs st /\
  rspecs st' = rspecs st /\ navs st' = navs st /\ ix_as st' = ix_as st /\ ix_ss st' = ix_ss st /\
  ix_asp st' = ix_asp st /\ ix_cs st' = ix_cs st /\ ix_ac st' = ix_ac st /\ locs st' = locs st /\
  (exists p, sessions st' = filter p (sessions st)) /\
  (exists q, records st' = filter q (records st)).

Lemma sub_refl : forall st, sub st st.
Proof.
  intros st; unfold sub; splits; auto; exists (fun _ => true); symmetry; apply filter_true.
Qed.

Lemma sub_trans : forall a b c, sub a b -> sub b c -> sub a c.
Proof.
  intros a b c (A1&A2&A3&A4&A5&A6&A7&A8&A9&A10&A11&(p1&Ap)&(q1&Aq))
               (B1&B2&B3&B4&B5&B6&B7&B8&B9&B10&B11&(p2&Bp)&(q2&Bq)).
  unfold sub; splits; try congruence.
  - exists (fun x => p1 x && p2 x). rewrite Bp, Ap. apply filter_filter.
  - exists (fun x => q1 x && q2 x). rewrite Bq, Aq. apply filter_filter.
Qed.

Lemma sub_sessions : forall st st' s, sub st st' -> In s (sessions st') -> In s (sessions st).
Proof.
  intros st st' s (_&_&_&_&_&_&_&_&_&_&_&(p&Hp)&_) Hin. rewrite Hp in Hin.
  apply filter_In in Hin; tauto.
Qed.

Lemma sub_records : forall st st' r, sub st st' -> In r (records st') -> In r (records st).
Proof.
  intros st st' r (_&_&_&_&_&_&_&_&_&_&_&_&(q&Hq)) Hin. rewrite Hq in Hin.
  apply filter_In in Hin; tauto.
Qed.

Lemma sub_scopes : forall st st', sub st st' -> scopes st' = scopes st.
Proof. intros st st' H; apply H. Qed.

Lemma sub_fold : forall {B} (f : state -> B -> state),
  (forall st b, sub st (f st b)) -> forall L st, sub st (fold_left f L st).
Proof.
  intros B f Hf L; induction L as [|b L IH]; intros st; cbn [fold_left].
  - apply sub_refl.
  - eapply sub_trans; [apply Hf | apply IH].
Qed.

Lemma Inv_sub : forall st st', Inv st -> sub st st' -> Inv st'.
Proof.
  intros st st' ((U1&U2&U3&U4&U5&U6)&(I1&I2&I3&I4&I5))
         (E1&E2&E3&E4&E5&E6&E7&E8&E9&E10&E11&(p&Ep)&(q&Eq)).
  unfold Inv, uniq, idx_ok. rewrite E1, E2, E3, E4, E6, E7, E8, E9, E10, Ep, Eq.
  splits; auto using NoDup_map_filter.
Qed.

Lemma sub_remove_session : forall st su ss, sub st (remove_session st su ss).
Proof.
  intros st su ss; unfold remove_session.
  destruct (negb (isSome (find_session st su ss)) || session_has_records st su ss) eqn:E.
  - apply sub_refl.
  - unfold sub; sproj; splits; auto.
    + eexists; reflexivity.
    + exists (fun _ => true); symmetry; apply filter_true.
Qed.

Lemma sub_with_records_filter : forall st q, sub st (with_records st (filter q (records st))).
Proof.
  intros st q; unfold sub; sproj; splits; auto.
  - exists (fun _ => true); symmetry; apply filter_true.
  - eexists; reflexivity.
Qed.

Lemma sub_remove_record : forall st su n, sub st (remove_record st su n).
Proof.
  intros st su n; unfold remove_record. destruct (find_record st su n) as [r|] eqn:E.
  - cbv zeta. eapply sub_trans; [apply sub_with_records_filter | apply sub_remove_session].
  - apply sub_refl.
Qed.

(** ** Keeper functions keep [Inv] *)
Lemma Inv_set_scope : forall st s, Inv st -> Inv (set_scope st s).
Proof.
  intros st s ((U1&U2&U3&U4&U5&U6)&(I1&I2&I3&I4&I5)).
  unfold Inv, uniq, idx_ok, set_scope, find_scope; sproj. splits; auto.
  - apply NoDup_put; auto. intros y Hy. rewrite Hy, Z.eqb_refl; reflexivity.
  - apply (index_put sc_id scope_keys_as keys_as_id); auto.
  - apply (index_put sc_id scope_keys_ss keys_ss_id); auto.
Qed.

Lemma Inv_set_sspec : forall st s, Inv st -> Inv (set_sspec st s).
Proof.
  intros st s ((U1&U2&U3&U4&U5&U6)&(I1&I2&I3&I4&I5)).
  unfold Inv, uniq, idx_ok, set_sspec, find_sspec; sproj. splits; auto.
  - apply NoDup_put; auto. intros y Hy. rewrite Hy, Z.eqb_refl; reflexivity.
  - apply (index_put ss_id sspec_keys_asp keys_asp_id); auto.
  - apply (index_put ss_id sspec_keys_cs keys_cs_id); auto.
Qed.

Lemma Inv_set_cspec : forall st s, Inv st -> Inv (set_cspec st s).
Proof.
  intros st s ((U1&U2&U3&U4&U5&U6)&(I1&I2&I3&I4&I5)).
  unfold Inv, uniq, idx_ok, set_cspec, find_cspec; sproj. splits; auto.
  - apply NoDup_put; auto. intros y Hy. rewrite Hy, Z.eqb_refl; reflexivity.
  - apply (index_put cs_id cspec_keys_ac keys_ac_id); auto.
Qed.

Lemma Inv_set_session : forall st s, Inv st -> Inv (set_session st s).
Proof.
  intros st s ((U1&U2&U3&U4&U5&U6)&(I1&I2&I3&I4&I5)).
  unfold Inv, uniq, idx_ok, set_session; sproj. splits; auto.
  apply NoDup_put; auto. intros y Hy. cbn beta in Hy. inversion Hy as [[H1 H2]].
  rewrite !Z.eqb_refl; reflexivity.
Qed.

Lemma Inv_set_record : forall st r, Inv st -> Inv (set_record st r).
Proof.
  intros st r ((U1&U2&U3&U4&U5&U6)&(I1&I2&I3&I4&I5)).
  unfold Inv, uniq, idx_ok, set_record; sproj. splits; auto.
  apply NoDup_put; auto. intros y Hy. cbn beta in Hy. inversion Hy as [[H1 H2]].
  rewrite !Z.eqb_refl; reflexivity.
Qed.

Lemma Inv_set_rspec : forall st r, Inv st -> Inv (set_rspec st r).
Proof.
  intros st r ((U1&U2&U3&U4&U5&U6)&(I1&I2&I3&I4&I5)).
  unfold Inv, uniq, idx_ok, set_rspec; sproj. splits; auto.
  apply NoDup_put; auto. intros y Hy. cbn beta in Hy. inversion Hy as [[H1 H2]].
  rewrite !Z.eqb_refl; reflexivity.
Qed.

Lemma Inv_with_rspecs_filter : forall st p, Inv st -> Inv (with_rspecs st (filter p (rspecs st))).
Proof.
  intros st p ((U1&U2&U3&U4&U5&U6)&(I1&I2&I3&I4&I5)).
  unfold Inv, uniq, idx_ok; sproj. splits; auto using NoDup_map_filter.
Qed.

Lemma Inv_remove_rspec : forall st cu n st', remove_rspec st cu n = Some st' -> Inv st -> Inv st'.
Proof.
  intros st cu n st' H HI. unfold remove_rspec in H.
  destruct (find_rspec st cu n) as [r|] eqn:E; [|discriminate H].
  inversion H; subst st'. apply Inv_with_rspecs_filter; auto.
Qed.

Lemma Inv_set_nav : forall st sc d p st', set_nav st sc d p = Some st' -> Inv st -> Inv st'.
Proof.
  intros st sc d p st' H HI. unfold set_nav in H.
  destruct (p <? 0) eqn:E; [discriminate H|]. inversion H; subst st'. exact HI.
Qed.

Lemma Inv_remove_navs : forall st sc, Inv st -> Inv (remove_navs st sc).
Proof. intros st sc HI. exact HI. Qed.

Lemma Inv_with_locs : forall st v, Inv st -> Inv (with_locs st v).
Proof. intros st v HI. exact HI. Qed.

Lemma Inv_set_loc : forall st h a u st', set_loc st h a u = Some st' -> Inv st -> Inv st'.
Proof.
  intros st h a u st' H HI. unfold set_loc in H.
  destruct (_ || _); [discriminate H|]. inversion H; subst st'. exact HI.
Qed.

Lemma Inv_remove_loc : forall st a st', remove_loc st a = Some st' -> Inv st -> Inv st'.
Proof.
  intros st a st' H HI. unfold remove_loc in H.
  destruct (isSome _); [|discriminate H]. inversion H; subst st'. exact HI.
Qed.

Lemma Inv_modify_loc : forall st a u st', modify_loc st a u = Some st' -> Inv st -> Inv st'.
Proof.
  intros st a u st' H HI. unfold modify_loc in H.
  destruct (_ || _); [discriminate H|]. inversion H; subst st'. exact HI.
Qed.

Lemma Inv_remove_session : forall st su ss, Inv st -> Inv (remove_session st su ss).
Proof. intros st su ss HI. eapply Inv_sub; [exact HI | apply sub_remove_session]. Qed.

Lemma Inv_remove_record : forall st su n, Inv st -> Inv (remove_record st su n).
Proof. intros st su n HI. eapply Inv_sub; [exact HI | apply sub_remove_record]. Qed.

Lemma Inv_remove_sspec : forall st id st', remove_sspec st id = Some st' -> Inv st -> Inv st'.
Proof.
  intros st id st' H ((U1&U2&U3&U4&U5&U6)&(I1&I2&I3&I4&I5)). unfold remove_sspec in H.
  destruct (sspec_used st id) eqn:Eu; [discriminate H|].
  destruct (find_sspec st id) as [s|] eqn:E; [|discriminate H].
  inversion H; subst st'. unfold find_sspec in E.
  unfold Inv, uniq, idx_ok; sproj. splits; auto using NoDup_map_filter.
  - apply (index_del ss_id sspec_keys_asp keys_asp_id); auto.
  - apply (index_del ss_id sspec_keys_cs keys_cs_id); auto.
Qed.

Lemma Inv_remove_cspec : forall st id st', remove_cspec st id = Some st' -> Inv st -> Inv st'.
Proof.
  intros st id st' H ((U1&U2&U3&U4&U5&U6)&(I1&I2&I3&I4&I5)). unfold remove_cspec in H.
  destruct (cspec_used st id) eqn:Eu; [discriminate H|].
  destruct (find_cspec st id) as [s|] eqn:E; [|discriminate H].
  inversion H; subst st'. unfold find_cspec in E.
  unfold Inv, uniq, idx_ok; sproj. splits; auto using NoDup_map_filter.
  apply (index_del cs_id cspec_keys_ac keys_ac_id); auto.
Qed.

(** ** RemoveScope *)
Definition rm_records (st : state) (id : Z) : state :=
  fold_left (fun st r => remove_record st (r_scope r) (r_name r))
            (filter (fun r => r_scope r =? id) (records st)) st.
Definition rm_sessions (st : state) (id : Z) : state :=
  fold_left (fun st s => remove_session st (se_scope s) (se_uuid s))
            (filter (fun s => se_scope s =? id) (sessions st)) st.

Lemma remove_scope_eq : forall st id sc, find_scope st id = Some sc ->
  remove_scope st id =
  let st2 := rm_sessions (rm_records st id) id in
  with_scopes (with_ix_scope st2 (reindex [] (scope_keys_as sc) (ix_as st2))
                                 (reindex [] (scope_keys_ss sc) (ix_ss st2)))
              (filter (fun x => negb (sc_id x =? id)) (scopes st2)).
Proof. intros st id sc H. unfold remove_scope. rewrite H. reflexivity. Qed.

Lemma sub_rm_records : forall st id, sub st (rm_records st id).
Proof. intros; unfold rm_records. apply sub_fold. intros; apply sub_remove_record. Qed.

Lemma sub_rm_sessions : forall st id, sub st (rm_sessions st id).
Proof. intros; unfold rm_sessions. apply sub_fold. intros; apply sub_remove_session. Qed.

Lemma sub_rm : forall st id, sub st (rm_sessions (rm_records st id) id).
Proof. intros. eapply sub_trans; [apply sub_rm_records | apply sub_rm_sessions]. Qed.

Lemma Inv_remove_scope : forall st id, Inv st -> Inv (remove_scope st id).
Proof.
  intros st id HI. destruct (find_scope st id) as [sc|] eqn:E.
  2:{ unfold remove_scope; rewrite E; exact HI. }
  rewrite (remove_scope_eq _ _ _ E). cbv zeta.
  pose proof (sub_rm st id) as Hsub.
  assert (find (fun y => sc_id y =? id) (scopes (rm_sessions (rm_records st id) id)) = Some sc) as Ef
    by (rewrite (sub_scopes _ _ Hsub); exact E).
  pose proof (Inv_sub _ _ HI Hsub) as ((U1&U2&U3&U4&U5&U6)&(I1&I2&I3&I4&I5)).
  unfold Inv, uniq, idx_ok; sproj. splits; auto using NoDup_map_filter.
  - apply (index_del sc_id scope_keys_as keys_as_id); auto.
  - apply (index_del sc_id scope_keys_ss keys_ss_id); auto.
Qed.

(** ** [step] keeps [Inv] *)
Ltac destruct_matches :=
  repeat match goal with
  | |- context [match ?x with _ => _ end] =>
      lazymatch x with
      | context [match _ with _ => _ end] => fail
      | _ => destruct x eqn:?
      end
  end.

Lemma Inv_step : forall st o, Inv st -> Inv (fst (step st o)).
Proof.
  intros st o HI.
  destruct o; unfold step, ok, of_opt, option_map; destruct_matches; cbn [fst];
    eauto using Inv_set_scope, Inv_remove_scope, Inv_set_session, Inv_remove_session,
      Inv_set_record, Inv_remove_record, Inv_set_sspec, Inv_remove_sspec, Inv_set_cspec,
      Inv_remove_cspec, Inv_set_rspec, Inv_remove_rspec, Inv_set_nav, Inv_remove_navs,
      Inv_with_rspecs_filter, Inv_set_loc, Inv_remove_loc, Inv_modify_loc.
Qed.

Lemma Inv_fold : forall ops st, Inv st -> Inv (fold_left (fun st o => fst (step st o)) ops st).
Proof.
  induction ops as [|o ops IH]; intros st HI; cbn [fold_left]; auto.
  apply IH. apply Inv_step; auto.
Qed.

Lemma Inv_run : forall ops, Inv (run ops).
Proof. intros ops. unfold run. apply Inv_fold. apply Inv_init. Qed.

(** * D, E *)
Lemma indexes_exact : forall ops, let st := run ops in
  index_exact (ix_as st) (scopes st) scope_keys_as /\
  index_exact (ix_ss st) (scopes st) scope_keys_ss /\
  index_exact (ix_asp st) (sspecs st) sspec_keys_asp /\
  index_exact (ix_cs st) (sspecs st) sspec_keys_cs /\
  index_exact (ix_ac st) (cspecs st) cspec_keys_ac.
Proof. intros ops. exact (proj2 (Inv_run ops)). Qed.
Print Assumptions indexes_exact.

(** D': the writers as they were before fix 722f4df35 (owner strings diffed as strings): an owner
    re-spelled across an update is stored but not listed; the current writers list it. *)
Lemma spec_owner_strdiff_refuted :
  (let s := Ss 1 [103] [] in
   let bad := set_sspec_strdiff (set_sspec init (Ss 1 [3] [])) s in
   let good := set_sspec (set_sspec init (Ss 1 [3] [])) s in
   In s (sspecs bad) /\ In (3, 1) (sspec_keys_asp s) /\ ~ In (3, 1) (ix_asp bad) /\
   In (3, 1) (ix_asp good)) /\
  (let c := Cs 1 [103] in
   let bad := set_cspec_strdiff (set_cspec init (Cs 1 [3])) c in
   let good := set_cspec (set_cspec init (Cs 1 [3])) c in
   In c (cspecs bad) /\ In (3, 1) (cspec_keys_ac c) /\ ~ In (3, 1) (ix_ac bad) /\
   In (3, 1) (ix_ac good)).
Proof.
  split; vm_compute; splits; try (left; reflexivity); intros [].
Qed.
Print Assumptions spec_owner_strdiff_refuted.

Lemma keys_unique : forall ops, let st := run ops in
  NoDup (map sc_id (scopes st)) /\ NoDup (map (fun s => (se_scope s, se_uuid s)) (sessions st)) /\
  NoDup (map (fun r => (r_scope r, r_name r)) (records st)) /\ NoDup (map ss_id (sspecs st)) /\
  NoDup (map cs_id (cspecs st)) /\ NoDup (map (fun r => (rs_cspec r, rs_name r)) (rspecs st)).
Proof. intros ops. exact (proj1 (Inv_run ops)). Qed.
Print Assumptions keys_unique.

(** * RemoveScope removes everything under the scope (every state) *)
Lemma records_remove_session : forall st su ss, records (remove_session st su ss) = records st.
Proof. intros st su ss; unfold remove_session. destruct (_ || _); reflexivity. Qed.

Lemma records_remove_record : forall st su n,
  records (remove_record st su n) =
  filter (fun x => negb ((r_scope x =? su) && (r_name x =? n))) (records st).
Proof.
  intros st su n; unfold remove_record. destruct (find_record st su n) as [r|] eqn:E.
  - cbv zeta. rewrite records_remove_session. reflexivity.
  - symmetry. apply (find_none_filter _ _ E).
Qed.

Lemma has_records_false : forall st su ss,
  session_has_records st su ss = false <->
  forall r, In r (records st) -> ~ (r_scope r = su /\ r_sess r = ss).
Proof.
  intros st su ss; unfold session_has_records. split.
  - intros H r Hr Heq. apply eqb2_true in Heq.
    assert (existsb (fun r => (r_scope r =? su) && (r_sess r =? ss)) (records st) = true) as Ht
      by (apply existsb_exists; exists r; auto).
    congruence.
  - intros H. destruct (existsb _ (records st)) eqn:E; auto.
    apply existsb_exists in E. destruct E as (r & Hr & Heq). apply eqb2_true in Heq.
    exfalso; exact (H r Hr Heq).
Qed.

Lemma sessions_remove_session_norec : forall st su ss, session_has_records st su ss = false ->
  sessions (remove_session st su ss) =
  filter (fun x => negb ((se_scope x =? su) && (se_uuid x =? ss))) (sessions st).
Proof.
  intros st su ss H. unfold remove_session. rewrite H, orb_false_r.
  destruct (find_session st su ss) as [s|] eqn:E; cbn [isSome negb].
  - reflexivity.
  - symmetry. apply (find_none_filter _ _ E).
Qed.

Lemma fold_rr_records : forall L st r,
  In r (records (fold_left (fun st r => remove_record st (r_scope r) (r_name r)) L st)) ->
  In r (records st) /\ forall x, In x L -> ~ (r_scope r = r_scope x /\ r_name r = r_name x).
Proof.
  induction L as [|y L IH]; intros st r Hr; cbn [fold_left] in Hr.
  - split; [auto | intros x []].
  - apply IH in Hr. destruct Hr as [Hr Hn]. rewrite records_remove_record in Hr.
    apply filter_In in Hr. destruct Hr as [Hr Hy]. apply negb_eqb2 in Hy.
    split; auto. intros x [<-|Hx]; auto.
Qed.

Lemma rm_records_none : forall st id r, In r (records (rm_records st id)) -> r_scope r <> id.
Proof.
  intros st id r Hr Heq. unfold rm_records in Hr. apply fold_rr_records in Hr.
  destruct Hr as [Hr Hn]. apply (Hn r); auto.
  apply filter_In; split; auto. apply Z.eqb_eq; auto.
Qed.

Lemma fold_rs_sessions : forall id L st,
  (forall r, In r (records st) -> r_scope r <> id) -> (forall x, In x L -> se_scope x = id) ->
  forall s, In s (sessions (fold_left (fun st s => remove_session st (se_scope s) (se_uuid s)) L st)) ->
  In s (sessions st) /\ forall x, In x L -> ~ (se_scope s = se_scope x /\ se_uuid s = se_uuid x).
Proof.
  intros id; induction L as [|y L IH]; intros st Hnr HL s Hs; cbn [fold_left] in Hs.
  - split; [auto | intros x []].
  - apply IH in Hs.
    + destruct Hs as [Hs Hn]. rewrite sessions_remove_session_norec in Hs.
      * apply filter_In in Hs. destruct Hs as [Hs Hy]. apply negb_eqb2 in Hy.
        split; auto. intros x [<-|Hx]; auto.
      * apply has_records_false. intros r Hr [Hsc _]. apply (Hnr r Hr).
        rewrite Hsc. apply HL; left; auto.
    + intros r Hr. rewrite records_remove_session in Hr. auto.
    + intros x Hx; apply HL; right; auto.
Qed.

Lemma rm_sessions_none : forall st id s,
  (forall r, In r (records st) -> r_scope r <> id) ->
  In s (sessions (rm_sessions st id)) -> se_scope s <> id.
Proof.
  intros st id s Hnr Hs Heq. unfold rm_sessions in Hs.
  apply (fold_rs_sessions id) in Hs; auto.
  - destruct Hs as [Hs Hn]. apply (Hn s); auto.
    apply filter_In; split; auto. apply Z.eqb_eq; auto.
  - intros x Hx. apply filter_In in Hx. destruct Hx as [_ Hx]. apply Z.eqb_eq; auto.
Qed.

Lemma rm_no_records : forall st id r,
  In r (records (rm_sessions (rm_records st id) id)) -> r_scope r <> id.
Proof.
  intros st id r Hr. apply (sub_records _ _ _ (sub_rm_sessions _ _)) in Hr.
  eapply rm_records_none; eauto.
Qed.

Lemma rm_no_sessions : forall st id s,
  In s (sessions (rm_sessions (rm_records st id) id)) -> se_scope s <> id.
Proof.
  intros st id s Hs. eapply rm_sessions_none; [|exact Hs]. intros r; apply rm_records_none.
Qed.

(** ** B1 *)
Lemma remove_scope_absent : forall st id sc, Inv st -> find_scope st id = Some sc ->
  scope_absent (remove_scope st id) id.
Proof.
  intros st id sc HI E. rewrite (remove_scope_eq _ _ _ E). cbv zeta.
  pose proof (sub_rm st id) as Hsub.
  assert (find (fun y => sc_id y =? id) (scopes (rm_sessions (rm_records st id) id)) = Some sc) as Ef
    by (rewrite (sub_scopes _ _ Hsub); exact E).
  pose proof (Inv_sub _ _ HI Hsub) as ((U1&U2&U3&U4&U5&U6)&(I1&I2&I3&I4&I5)).
  unfold scope_absent; sproj. splits.
  - intros x Hx. apply filter_In in Hx. destruct Hx as [_ Hx].
    apply negb_true_iff, Z.eqb_neq in Hx. exact Hx.
  - intros s; apply rm_no_sessions.
  - intros r; apply rm_no_records.
  - intros a. eapply (index_del_none sc_id scope_keys_as keys_as_id).
    apply (index_del sc_id scope_keys_as keys_as_id); eauto.
  - intros a. eapply (index_del_none sc_id scope_keys_ss keys_ss_id).
    apply (index_del sc_id scope_keys_ss keys_ss_id); eauto.
Qed.

Lemma remove_scope_clean : forall ops id,
  isSome (find_scope (run ops) id) = true -> scope_absent (remove_scope (run ops) id) id.
Proof.
  intros ops id H. destruct (find_scope (run ops) id) as [sc|] eqn:E; [|discriminate H].
  eapply remove_scope_absent; [apply Inv_run | exact E].
Qed.
Print Assumptions remove_scope_clean.

(** ** B2 *)
Ltac norm_hyps :=
  repeat match goal with
  | H : negb _ = false |- _ => apply negb_false_iff in H
  | H : negb _ = true |- _ => apply negb_true_iff in H
  | H : _ && _ = true |- _ => apply andb_true_iff in H; destruct H
  | H : isSome ?x = true |- _ => destruct x eqn:?; [clear H | discriminate H]
  | H : Some _ = Some _ |- _ => inversion H; subst; clear H
  | H : Some _ = None |- _ => discriminate H
  | H : None = Some _ |- _ => discriminate H
  end.

(** invert [step st o = (st', true)] for a fixed constructor [o] *)
Ltac step_inv H :=
  unfold step, ok, of_opt, option_map in H;
  repeat match type of H with
  | context [match ?x with _ => _ end] =>
      lazymatch x with
      | context [match _ with _ => _ end] => fail
      | _ => destruct x eqn:?
      end
  end; try discriminate H; inversion H; subst; norm_hyps.

Lemma remove_navs_none : forall st id d p, ~ In (id, d, p) (navs (remove_navs st id)).
Proof.
  intros st id d p Hin. unfold remove_navs in Hin; sproj. apply filter_In in Hin.
  destruct Hin as [_ Hin]. cbn [fst] in Hin. rewrite Z.eqb_refl in Hin. discriminate.
Qed.

Lemma scope_absent_remove_navs : forall st x id, scope_absent st id -> scope_absent (remove_navs st x) id.
Proof. intros st x id H. exact H. Qed.

Lemma delete_scope_step : forall st id st', Inv st ->
  step st (MDeleteScope id) = (st', true) ->
  scope_absent st' id /\ (forall d p, ~ In (id, d, p) (navs st')).
Proof.
  intros st id st' HI H. step_inv H. split.
  - apply scope_absent_remove_navs. eapply remove_scope_absent; eauto.
  - apply remove_navs_none.
Qed.

Lemma delete_scope_clean : forall ops id st',
  step (run ops) (MDeleteScope id) = (st', true) ->
  scope_absent st' id /\ (forall d p, ~ In (id, d, p) (navs st')).
Proof. intros ops id st' H. eapply delete_scope_step; [apply Inv_run | exact H]. Qed.
Print Assumptions delete_scope_clean.

(** * C *)
Lemma remove_session_last : forall st su ss,
  session_has_records (remove_session st su ss) su ss = false ->
  find_session (remove_session st su ss) su ss = None.
Proof.
  intros st su ss. unfold remove_session.
  destruct (find_session st su ss) as [s|] eqn:Ef; cbn [isSome negb orb].
  - destruct (session_has_records st su ss) eqn:Eh.
    + intros H; congruence.
    + intros _. unfold find_session; sproj.
      apply (find_filter_negb (fun s => (se_scope s =? su) && (se_uuid s =? ss))).
  - intros _; exact Ef.
Qed.

Lemma find_record_removed : forall st su n, find_record (remove_record st su n) su n = None.
Proof.
  intros st su n. unfold find_record. rewrite records_remove_record.
  apply (find_filter_negb (fun r => (r_scope r =? su) && (r_name r =? n))).
Qed.

Lemma last_record_removes_session : forall st su n r,
  find_record st su n = Some r ->
  let st' := remove_record st su n in
  find_record st' su n = None /\
  (session_has_records st' su (r_sess r) = false -> find_session st' su (r_sess r) = None).
Proof.
  intros st su n r Hf st'. split; [apply find_record_removed|].
  subst st'. unfold remove_record. rewrite Hf. cbv zeta. apply remove_session_last.
Qed.
Print Assumptions last_record_removes_session.

Lemma delete_record_msg : forall st su n r st',
  find_record st su n = Some r -> step st (MDeleteRecord su n) = (st', true) ->
  find_record st' su n = None /\
  (session_has_records st' su (r_sess r) = false -> find_session st' su (r_sess r) = None).
Proof.
  intros st su n r st' Hf H.
  pose proof (last_record_removes_session st su n r Hf) as HL. step_inv H. exact HL.
Qed.
Print Assumptions delete_record_msg.

Lemma find_record_set : forall st r, find_record (set_record st r) (r_scope r) (r_name r) = Some r.
Proof.
  intros st r. unfold find_record, set_record; sproj. cbn [find]. rewrite !Z.eqb_refl. reflexivity.
Qed.

Lemma move_record_msg : forall st r e st',
  find_record st (r_scope r) (r_name r) = Some e -> r_sess e <> r_sess r ->
  step st (MWriteRecord r) = (st', true) ->
  find_record st' (r_scope r) (r_name r) = Some r /\
  (session_has_records st' (r_scope r) (r_sess e) = false -> find_session st' (r_scope r) (r_sess e) = None).
Proof.
  intros st r e st' Hf Hne H. rewrite <- Z.eqb_neq in Hne. step_inv H; try congruence.
  split.
  - unfold find_record. rewrite records_remove_session. apply find_record_set.
  - apply remove_session_last.
Qed.
Print Assumptions move_record_msg.

(** * A: referential integrity in guarded histories *)
Lemma refs_same_core : forall st st',
  scopes st' = scopes st -> sessions st' = sessions st -> records st' = records st ->
  refs_ok st -> refs_ok st'.
Proof. intros st st' E1 E2 E3 H. unfold refs_ok. rewrite E1, E2, E3. exact H. Qed.

Lemma scope_kept : forall st s x,
  (exists sc, In sc (scopes st) /\ sc_id sc = x) ->
  exists sc, In sc (scopes (set_scope st s)) /\ sc_id sc = x.
Proof.
  intros st s x (sc & Hsc & Hid). unfold set_scope; sproj.
  destruct (Z.eq_dec x (sc_id s)) as [Heq|Hne].
  - exists s; split; [left|]; auto.
  - exists sc; split; auto. right. apply filter_In; split; auto.
    apply negb_true_iff, Z.eqb_neq. congruence.
Qed.

Lemma refs_set_scope : forall st s, refs_ok st -> refs_ok (set_scope st s).
Proof.
  intros st s [HS HR]. split.
  - intros x Hx. apply scope_kept. apply HS. exact Hx.
  - intros r Hr. destruct (HR r Hr) as [H1 H2]. split; [apply scope_kept; exact H1 | exact H2].
Qed.

Definition RS_ok (st : state) : Prop :=
  forall r, In r (records st) ->
    exists s, In s (sessions st) /\ se_scope s = r_scope r /\ se_uuid s = r_sess r.

Lemma RS_remove_session : forall st su ss, RS_ok st -> RS_ok (remove_session st su ss).
Proof.
  intros st su ss H. unfold remove_session.
  destruct (negb (isSome (find_session st su ss)) || session_has_records st su ss) eqn:E; auto.
  apply orb_false_iff in E. destruct E as [_ Hhr].
  intros r Hr; sproj. destruct (H r Hr) as (s & Hs & H1 & H2).
  exists s; splits; auto. apply filter_In; split; auto. apply negb_eqb2.
  intros [H3 H4]. apply (proj1 (has_records_false _ _ _) Hhr r Hr). split; congruence.
Qed.

Lemma RS_remove_record : forall st su n, RS_ok st -> RS_ok (remove_record st su n).
Proof.
  intros st su n H. unfold remove_record. destruct (find_record st su n) as [r|] eqn:E; auto.
  cbv zeta. apply RS_remove_session. intros x Hx; sproj. apply filter_In in Hx.
  apply H; tauto.
Qed.

Lemma RS_fold : forall {B} (f : state -> B -> state),
  (forall st b, RS_ok st -> RS_ok (f st b)) -> forall L st, RS_ok st -> RS_ok (fold_left f L st).
Proof.
  intros B f Hf L; induction L as [|b L IH]; intros st H; cbn [fold_left]; auto.
Qed.

Lemma RS_rm : forall st id, RS_ok st -> RS_ok (rm_sessions (rm_records st id) id).
Proof.
  intros st id H. unfold rm_sessions. apply RS_fold; [intros; apply RS_remove_session; auto|].
  unfold rm_records. apply RS_fold; [intros; apply RS_remove_record; auto|]. exact H.
Qed.

Lemma refs_sub : forall st st', sub st st' -> RS_ok st' -> refs_ok st -> refs_ok st'.
Proof.
  intros st st' Hsub HRS [HS HR]. unfold refs_ok. rewrite (sub_scopes _ _ Hsub). split.
  - intros s Hs. apply HS. eapply sub_sessions; eauto.
  - intros r Hr. split; [|apply HRS; exact Hr].
    apply (HR r). eapply sub_records; eauto.
Qed.

Lemma refs_RS : forall st, refs_ok st -> RS_ok st.
Proof. intros st [_ HR] r Hr. apply (HR r Hr). Qed.

Lemma refs_remove_session : forall st su ss, refs_ok st -> refs_ok (remove_session st su ss).
Proof.
  intros st su ss H. apply (refs_sub st); auto using sub_remove_session.
  apply RS_remove_session, refs_RS, H.
Qed.

Lemma refs_remove_record : forall st su n, refs_ok st -> refs_ok (remove_record st su n).
Proof.
  intros st su n H. apply (refs_sub st); auto using sub_remove_record.
  apply RS_remove_record, refs_RS, H.
Qed.

Lemma refs_remove_scope : forall st id, refs_ok st -> refs_ok (remove_scope st id).
Proof.
  intros st id H. destruct (find_scope st id) as [sc|] eqn:E.
  2:{ unfold remove_scope; rewrite E; exact H. }
  rewrite (remove_scope_eq _ _ _ E). cbv zeta.
  pose proof (refs_sub _ _ (sub_rm st id) (RS_rm st id (refs_RS _ H)) H) as [HS HR].
  assert (forall x, x <> id -> (exists c, In c (scopes (rm_sessions (rm_records st id) id)) /\ sc_id c = x) ->
            exists c, In c (filter (fun c => negb (sc_id c =? id)) (scopes (rm_sessions (rm_records st id) id)))
                      /\ sc_id c = x) as Hkeep.
  { intros x Hne (c & Hc & Hid). exists c; split; auto. apply filter_In; split; auto.
    apply negb_true_iff, Z.eqb_neq. congruence. }
  unfold refs_ok; sproj. split.
  - intros s Hs. apply Hkeep; [apply (rm_no_sessions st id s Hs) | apply HS; exact Hs].
  - intros r Hr. destruct (HR r Hr) as [H1 H2]. split; [|exact H2].
    apply Hkeep; [apply (rm_no_records st id r Hr) | exact H1].
Qed.

Lemma refs_set_session : forall st s sc, find_scope st (se_scope s) = Some sc ->
  refs_ok st -> refs_ok (set_session st s).
Proof.
  intros st s sc Hf [HS HR]. apply find_some in Hf. destruct Hf as [Hsc Hid]. apply Z.eqb_eq in Hid.
  unfold refs_ok, set_session; sproj. split.
  - intros x [<-|Hx]; [exists sc; auto|]. apply filter_In in Hx. apply HS; tauto.
  - intros r Hr. destruct (HR r Hr) as [H1 (x & Hx & H2 & H3)]. split; [exact H1|].
    destruct ((se_scope x =? se_scope s) && (se_uuid x =? se_uuid s)) eqn:Ek.
    + apply eqb2_true in Ek. destruct Ek as [K1 K2]. exists s; splits; [left; auto| |]; congruence.
    + exists x; splits; auto. right. apply filter_In; split; auto. rewrite Ek; reflexivity.
Qed.

Lemma refs_set_record : forall st r sc se,
  find_scope st (r_scope r) = Some sc -> find_session st (r_scope r) (r_sess r) = Some se ->
  refs_ok st -> refs_ok (set_record st r).
Proof.
  intros st r sc se Hf Hg [HS HR].
  apply find_some in Hf. destruct Hf as [Hsc Hid]. apply Z.eqb_eq in Hid.
  apply find_some in Hg. destruct Hg as [Hse Hk]. apply eqb2_true in Hk. destruct Hk as [K1 K2].
  unfold refs_ok, set_record; sproj. split; [exact HS|].
  intros x [<-|Hx].
  - split; [exists sc; auto | exists se; auto].
  - apply filter_In in Hx. apply HR; tauto.
Qed.

Lemma refs_set_sspec : forall st s, refs_ok st -> refs_ok (set_sspec st s).
Proof. intros st s; apply refs_same_core; reflexivity. Qed.
Lemma refs_set_cspec : forall st s, refs_ok st -> refs_ok (set_cspec st s).
Proof. intros st s; apply refs_same_core; reflexivity. Qed.
Lemma refs_set_rspec : forall st s, refs_ok st -> refs_ok (set_rspec st s).
Proof. intros st s; apply refs_same_core; reflexivity. Qed.
Lemma refs_remove_navs : forall st x, refs_ok st -> refs_ok (remove_navs st x).
Proof. intros st s; apply refs_same_core; reflexivity. Qed.
Lemma refs_with_rspecs : forall st v, refs_ok st -> refs_ok (with_rspecs st v).
Proof. intros st s; apply refs_same_core; reflexivity. Qed.

Lemma refs_remove_sspec : forall st id st', remove_sspec st id = Some st' -> refs_ok st -> refs_ok st'.
Proof.
  intros st id st' H. unfold remove_sspec in H.
  destruct (sspec_used st id); [discriminate H|].
  destruct (find_sspec st id) as [s|]; [|discriminate H].
  inversion H; subst st'. apply refs_same_core; reflexivity.
Qed.

Lemma refs_remove_cspec : forall st id st', remove_cspec st id = Some st' -> refs_ok st -> refs_ok st'.
Proof.
  intros st id st' H. unfold remove_cspec in H.
  destruct (cspec_used st id); [discriminate H|].
  destruct (find_cspec st id) as [s|]; [|discriminate H].
  inversion H; subst st'. apply refs_same_core; reflexivity.
Qed.

Lemma refs_remove_rspec : forall st cu n st', remove_rspec st cu n = Some st' -> refs_ok st -> refs_ok st'.
Proof.
  intros st cu n st' H. unfold remove_rspec in H.
  destruct (find_rspec st cu n) as [s|]; [|discriminate H].
  inversion H; subst st'. apply refs_same_core; reflexivity.
Qed.

Lemma refs_set_nav : forall st sc d p st', set_nav st sc d p = Some st' -> refs_ok st -> refs_ok st'.
Proof.
  intros st sc d p st' H. unfold set_nav in H.
  destruct (p <? 0); [discriminate H|].
  inversion H; subst st'. apply refs_same_core; reflexivity.
Qed.

Lemma refs_set_loc : forall st h a u st', set_loc st h a u = Some st' -> refs_ok st -> refs_ok st'.
Proof.
  intros st h a u st' H. unfold set_loc in H.
  destruct (_ || _); [discriminate H|]. inversion H; subst st'. apply refs_same_core; reflexivity.
Qed.

Lemma refs_remove_loc : forall st a st', remove_loc st a = Some st' -> refs_ok st -> refs_ok st'.
Proof.
  intros st a st' H. unfold remove_loc in H.
  destruct (isSome _); [|discriminate H]. inversion H; subst st'. apply refs_same_core; reflexivity.
Qed.

Lemma refs_modify_loc : forall st a u st', modify_loc st a u = Some st' -> refs_ok st -> refs_ok st'.
Proof.
  intros st a u st' H. unfold modify_loc in H.
  destruct (_ || _); [discriminate H|]. inversion H; subst st'. apply refs_same_core; reflexivity.
Qed.

Lemma refs_step : forall st o, guarded o = true -> refs_ok st -> refs_ok (fst (step st o)).
Proof.
  intros st o Hg HI.
  destruct o; try discriminate Hg; clear Hg;
    unfold step, ok, of_opt, option_map; destruct_matches; cbn [fst]; norm_hyps;
    eauto using refs_set_scope, refs_remove_scope, refs_set_session, refs_remove_session,
      refs_set_record, refs_remove_record, refs_set_sspec, refs_remove_sspec, refs_set_cspec,
      refs_remove_cspec, refs_set_rspec, refs_remove_rspec, refs_set_nav, refs_remove_navs,
      refs_with_rspecs, refs_set_loc, refs_remove_loc, refs_modify_loc.
Qed.

Lemma refs_init : refs_ok init.
Proof. split; intros x []. Qed.

Lemma refs_fold : forall ops st, forallb guarded ops = true -> refs_ok st ->
  refs_ok (fold_left (fun st o => fst (step st o)) ops st).
Proof.
  induction ops as [|o ops IH]; intros st Hg HI; cbn [fold_left]; auto.
  cbn [forallb] in Hg. apply andb_true_iff in Hg. destruct Hg as [Hg1 Hg2].
  apply IH; auto. apply refs_step; auto.
Qed.

Lemma refs_inv : forall ops, forallb guarded ops = true -> refs_ok (run ops).
Proof. intros ops Hg. unfold run. apply refs_fold; auto. apply refs_init. Qed.
Print Assumptions refs_inv.

(** ** B3 *)
Lemma no_scope_nothing : forall ops id, forallb guarded ops = true ->
  find_scope (run ops) id = None ->
  (forall s, In s (sessions (run ops)) -> se_scope s <> id) /\
  (forall r, In r (records (run ops)) -> r_scope r <> id).
Proof.
  intros ops id Hg Hf. destruct (refs_inv ops Hg) as [HS HR].
  pose proof (find_none _ _ Hf) as Hnone.
  assert (forall x, (exists sc, In sc (scopes (run ops)) /\ sc_id sc = x) -> x <> id) as Hno.
  { intros x (sc & Hsc & Hid) Heq. specialize (Hnone sc Hsc). cbn beta in Hnone.
    apply Z.eqb_neq in Hnone. congruence. }
  split.
  - intros s Hs. apply Hno, HS, Hs.
  - intros r Hr. apply Hno. apply (HR r Hr).
Qed.
Print Assumptions no_scope_nothing.
