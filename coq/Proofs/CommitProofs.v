(** C13 proofs about Exchange/Commit.v: market ids and commitments.

    Along every history: market ids handed out are fresh, the known-market listing is exactly the
    created ids (ascending); the commitment listings (per market, all, per account) show exactly the
    stored non-zero commitments, once each; every stored commitment is a valid non-zero sdk.Coins
    of a known market; the prefix stores the commitment endpoints paginate over satisfy the
    hypotheses of the SDK paging completeness theorem. *)
From Coq Require Import ZArith NArith List Bool Lia Sorted.
From PV Require Import Exchange.KV Exchange.Index Exchange.Paging Exchange.Commit Proofs.KVProofs Proofs.IndexProofs Proofs.PaymentProofs Proofs.PagingProofs.
Import ListNotations.
Open Scope N_scope.

#[local] Arguments u32be : simpl never.
#[local] Arguments u64be : simpl never.

Lemma two32_pos : 0 < two32. Proof. reflexivity. Qed.
Lemma two32_gt1 : 1 < two32. Proof. reflexivity. Qed.
Lemma two32_ne0 : two32 <> 0. Proof. discriminate. Qed.

#[local] Opaque two32 two64 u64max.

(** ================= (A) joint histories decompose ================= *)
Lemma xrun_from_fst : forall xs s, fst (xrun_from s xs) = run_from (fst s) (flat_map proj_o xs).
Proof.
  induction xs as [|x xs IH]; intros s; [reflexivity|].
  unfold xrun_from in *. cbn [fold_left flat_map]. rewrite IH.
  unfold run_from. rewrite fold_left_app. f_equal.
  destruct x as [o|c]; cbn [proj_o fold_left xstep].
  - destruct (step (fst s) o) as [s1 ok]. reflexivity.
  - destruct (cstep (snd s) c) as [c1 ok]. reflexivity.
Qed.

Lemma xrun_from_snd : forall xs s, snd (xrun_from s xs) = crun_from (snd s) (flat_map proj_c xs).
Proof.
  induction xs as [|x xs IH]; intros s; [reflexivity|].
  unfold xrun_from in *. cbn [fold_left flat_map]. rewrite IH.
  unfold crun_from. rewrite fold_left_app. f_equal.
  destruct x as [o|c]; cbn [proj_c fold_left xstep].
  - destruct (step (fst s) o) as [s1 ok]. destruct o; reflexivity.
  - destruct (cstep (snd s) c) as [c1 ok]. reflexivity.
Qed.

Lemma xrun_fst : forall xs, fst (xrun xs) = run (flat_map proj_o xs).
Proof. intros xs. unfold xrun, run. rewrite xrun_from_fst. reflexivity. Qed.

Lemma xrun_snd : forall xs, snd (xrun xs) = crun (flat_map proj_c xs).
Proof. intros xs. unfold xrun, crun. rewrite xrun_from_snd. reflexivity. Qed.

(** ================= generic store facts (any value type) ================= *)
Lemma gse : forall (V : Type) (s : store V) k v, get (set s k v) k = Some v.
Proof. intros. rewrite get_set, key_eqb_refl. reflexivity. Qed.

Lemma gsn : forall (V : Type) (s : store V) k v k', k' <> k -> get (set s k v) k' = get s k'.
Proof. intros V s k v k' H. rewrite get_set. apply key_eqb_neq in H. rewrite H. reflexivity. Qed.

Lemma gde : forall (V : Type) (s : store V) k, get (del s k) k = None.
Proof. intros. rewrite get_del, key_eqb_refl. reflexivity. Qed.

Lemma gdn : forall (V : Type) (s : store V) k k', k' <> k -> get (del s k) k' = get s k'.
Proof. intros V s k k' H. rewrite get_del. apply key_eqb_neq in H. rewrite H. reflexivity. Qed.

Lemma hd_neq : forall (x y : N) (a b : list N), x <> y -> x :: a <> y :: b.
Proof. intros x y a b H E. injection E as E1 _. contradiction. Qed.

(** ================= u32 encoding ================= *)
Lemma u32be_mod : forall m, u32be (m mod two32) = u32be m.
Proof. intros m. unfold u32be. rewrite N.mod_mod by exact two32_ne0. reflexivity. Qed.

Lemma mod_lt32 : forall m, m mod two32 < two32.
Proof. intros m. apply N.mod_lt. exact two32_ne0. Qed.

Lemma decode_u32be : forall m, m < two32 -> be_decode (u32be m) = m.
Proof.
  intros m H. unfold u32be. rewrite N.mod_small by exact H.
  apply be_decode_be. rewrite <- two32_pow. exact H.
Qed.

Lemma firstn4_u32 : forall m (x : list N), firstn 4 (u32be m ++ x) = u32be m.
Proof. intros m x. pose proof (firstn_app_len _ (u32be m) x) as H. rewrite u32be_length in H. exact H. Qed.

Lemma skipn4_u32 : forall m (x : list N), skipn 4 (u32be m ++ x) = x.
Proof. intros m x. pose proof (skipn_app_len _ (u32be m) x) as H. rewrite u32be_length in H. exact H. Qed.

Lemma u32_from_bz_u32be : forall m, m < two32 -> u32_from_bz (u32be m) = Some m.
Proof.
  intros m H. unfold u32_from_bz. rewrite u32be_length. cbn [Nat.leb].
  rewrite <- (app_nil_r (u32be m)), firstn4_u32, decode_u32be by exact H. reflexivity.
Qed.

Lemma u32be_app_inj : forall m m' (x y : list N),
  u32be m ++ x = u32be m' ++ y -> u32be m = u32be m' /\ x = y.
Proof. intros m m' x y H. apply app_eq_len; [rewrite !u32be_length; reflexivity|exact H]. Qed.

Lemma len_prefix_inj0 : forall a b : list N, len_prefix a = len_prefix b -> a = b.
Proof. intros a b H. unfold len_prefix in H. injection H as _ H. exact H. Qed.

Lemma len_prefix_ne : forall a : list N, len_prefix a <> [].
Proof. intros a. unfold len_prefix. discriminate. Qed.

Lemma k_commit_eq : forall m a, k_commit m a = 99 :: (u32be m ++ len_prefix a).
Proof. reflexivity. Qed.

Lemma k_known_mod : forall m, k_known (m mod two32) = k_known m.
Proof. intros m. unfold k_known. rewrite u32be_mod. reflexivity. Qed.

Lemma parse_len_prefix : forall a : list N, a <> [] -> parse_len_prefixed (len_prefix a) = Some (a, []).
Proof. intros a Ha. rewrite <- (app_nil_r (len_prefix a)). apply parse_ok. exact Ha. Qed.

(** ================= sdk.Coins ================= *)
Definition clt (d : bytes) (c : coins) : Prop := forall x, In x (map fst c) -> key_lt d x.
Definition apos (c : coins) : Prop := Forall (fun x => (0 < snd x)%Z) c.
Definition dne (c : coins) : Prop := Forall (fun x => denom_ok (fst x) = true) c.

Lemma csorted_cons : forall r d v, csorted ((d, v) :: r) = true <-> (clt d r /\ csorted r = true).
Proof.
  induction r as [|[d2 v2] r IH]; intros d v.
  - cbn. split; [intros _; split; [intros x []|reflexivity]|reflexivity].
  - change (csorted ((d, v) :: (d2, v2) :: r)) with (key_ltb d d2 && csorted ((d2, v2) :: r)).
    rewrite andb_true_iff, key_ltb_lt. split.
    + intros [Hlt Hs]. split; [|exact Hs]. apply IH in Hs. destruct Hs as [Hc _].
      intros x Hx. cbn [map fst In] in Hx. destruct Hx as [<-|Hx]; [exact Hlt|].
      eapply key_lt_trans; [exact Hlt|apply Hc; exact Hx].
    + intros [Hc Hs]. split; [|exact Hs]. apply Hc. left. reflexivity.
Qed.

Lemma cadd1_keys : forall d v cs x, In x (map fst (cadd1 d v cs)) <-> x = d \/ In x (map fst cs).
Proof.
  intros d v cs x. induction cs as [|[d' v'] r IH]; cbn [cadd1].
  - cbn. intuition.
  - destruct (key_compare d d') eqn:E; cbn [map fst In].
    + apply key_compare_eq in E. subst d'. intuition.
    + intuition.
    + rewrite IH. intuition.
Qed.

Lemma cadd1_sorted : forall d v cs, csorted cs = true -> csorted (cadd1 d v cs) = true.
Proof.
  intros d v cs. induction cs as [|[d' v'] r IH]; intros Hs; cbn [cadd1]; [reflexivity|].
  pose proof Hs as Hs0. apply csorted_cons in Hs. destruct Hs as [Hc Hr].
  destruct (key_compare d d') eqn:E.
  - apply csorted_cons. split; assumption.
  - apply csorted_cons. split; [|exact Hs0].
    intros x Hx. cbn [map fst In] in Hx. destruct Hx as [<-|Hx]; [exact E|].
    eapply key_lt_trans; [exact E|apply Hc; exact Hx].
  - apply csorted_cons. split; [|apply IH; exact Hr].
    intros x Hx. apply cadd1_keys in Hx. destruct Hx as [->|Hx]; [|apply Hc; exact Hx].
    unfold key_lt. rewrite key_compare_antisym, E. reflexivity.
Qed.

Lemma cadd1_apos : forall d v cs, apos cs -> (0 < v)%Z -> apos (cadd1 d v cs).
Proof.
  intros d v cs Hp Hv. unfold apos in *. induction cs as [|[d' v'] r IH]; cbn [cadd1].
  - constructor; [exact Hv|constructor].
  - inversion Hp as [|x l Hx Hl]; subst. cbn [snd] in Hx.
    destruct (key_compare d d').
    + constructor; [cbn [snd]; lia|exact Hl].
    + constructor; [exact Hv|exact Hp].
    + constructor; [exact Hx|apply IH; exact Hl].
Qed.

Lemma cadd1_dne : forall d v cs, dne cs -> denom_ok d = true -> dne (cadd1 d v cs).
Proof.
  intros d v cs Hp Hd. unfold dne in *. induction cs as [|[d' v'] r IH]; cbn [cadd1].
  - constructor; [exact Hd|constructor].
  - inversion Hp as [|x l Hx Hl]; subst. cbn [fst] in Hx.
    destruct (key_compare d d').
    + constructor; [exact Hx|exact Hl].
    + constructor; [exact Hd|exact Hp].
    + constructor; [exact Hx|apply IH; exact Hl].
Qed.

Lemma cadd_raw_cons : forall a x b, cadd_raw a (x :: b) = cadd_raw (cadd1 (fst x) (snd x) a) b.
Proof. reflexivity. Qed.

Lemma cadd_raw_sorted : forall b a, csorted a = true -> csorted (cadd_raw a b) = true.
Proof.
  induction b as [|x b IH]; intros a Ha; [exact Ha|].
  rewrite cadd_raw_cons. apply IH. apply cadd1_sorted. exact Ha.
Qed.

Lemma cadd_raw_apos : forall b a, apos a -> apos b -> apos (cadd_raw a b).
Proof.
  induction b as [|x b IH]; intros a Ha Hb; [exact Ha|].
  rewrite cadd_raw_cons. inversion Hb as [|y l Hy Hl]; subst.
  apply IH; [apply cadd1_apos; assumption|exact Hl].
Qed.

Lemma cadd_raw_dne : forall b a, dne a -> dne b -> dne (cadd_raw a b).
Proof.
  induction b as [|x b IH]; intros a Ha Hb; [exact Ha|].
  rewrite cadd_raw_cons. inversion Hb as [|y l Hy Hl]; subst.
  apply IH; [apply cadd1_dne; assumption|exact Hl].
Qed.

Lemma Forall_filter_sub : forall (A : Type) (P : A -> Prop) f (l : list A),
  Forall P l -> Forall P (filter f l).
Proof.
  intros A P f l H. rewrite Forall_forall in *. intros x Hx. apply filter_In in Hx. apply H, Hx.
Qed.

Lemma ctrim_sorted : forall c, csorted c = true -> csorted (ctrim c) = true.
Proof.
  induction c as [|[d v] r IH]; intros Hs; [reflexivity|].
  apply csorted_cons in Hs. destruct Hs as [Hc Hr].
  unfold ctrim in *. cbn [filter snd].
  destruct (negb (Z.eqb v 0)); [|apply IH; exact Hr].
  apply csorted_cons. split; [|apply IH; exact Hr].
  intros x Hx. apply Hc. apply in_map_iff in Hx. destruct Hx as [e [<- He]].
  apply filter_In in He. apply in_map. apply He.
Qed.

Lemma cvalid_iff : forall c, cvalid c = true <-> (csorted c = true /\ apos c /\ dne c).
Proof.
  intros c. unfold cvalid, apos, dne. rewrite andb_true_iff, forallb_forall, !Forall_forall.
  split.
  - intros [Hs H]. split; [exact Hs|]. split; intros x Hx; specialize (H x Hx);
      apply andb_true_iff in H; destruct H as [H1 H2].
    + apply Z.ltb_lt. exact H1.
    + exact H2.
  - intros [Hs [H1 H2]]. split; [exact Hs|]. intros x Hx. apply andb_true_iff. split.
    + apply Z.ltb_lt. apply H1. exact Hx.
    + exact (H2 x Hx).
Qed.

Lemma cvalid_nil : cvalid [] = true.
Proof. reflexivity. Qed.

Lemma cadd_valid : forall a b, cvalid a = true -> cvalid b = true -> cvalid (cadd a b) = true.
Proof.
  intros a b Ha Hb. apply cvalid_iff in Ha. apply cvalid_iff in Hb.
  destruct Ha as [Sa [Pa Da]]. destruct Hb as [Sb [Pb Db]].
  apply cvalid_iff. unfold cadd. split; [|split].
  - apply ctrim_sorted, cadd_raw_sorted. exact Sa.
  - apply Forall_filter_sub. apply cadd_raw_apos; assumption.
  - apply Forall_filter_sub. apply cadd_raw_dne; assumption.
Qed.

Lemma cneg_dne : forall b, dne b -> dne (cneg b).
Proof.
  intros b H. unfold dne, cneg in *. rewrite Forall_forall in *. intros x Hx.
  apply in_map_iff in Hx. destruct Hx as [y [<- Hy]]. cbn [fst]. apply H. exact Hy.
Qed.

Lemma csub_valid : forall a b d, csub a b = Some d ->
  cvalid a = true -> cvalid b = true -> cvalid d = true.
Proof.
  intros a b d H Ha Hb. apply cvalid_iff in Ha. apply cvalid_iff in Hb.
  destruct Ha as [Sa [Pa Da]]. destruct Hb as [Sb [Pb Db]].
  unfold csub in H. cbv zeta in H.
  remember (ctrim (cadd_raw a (cneg b))) as d0 eqn:Ed.
  destruct (forallb (fun x => Z.ltb 0 (snd x)) d0) eqn:E; [|discriminate].
  injection H as <-. apply cvalid_iff. split; [|split].
  - subst d0. apply ctrim_sorted, cadd_raw_sorted. exact Sa.
  - unfold apos. rewrite Forall_forall. rewrite forallb_forall in E.
    intros x Hx. apply Z.ltb_lt. apply E. exact Hx.
  - subst d0. apply Forall_filter_sub. apply cadd_raw_dne; [exact Da|apply cneg_dne; exact Db].
Qed.

Lemma cis_zero_nil : cis_zero [] = true.
Proof. reflexivity. Qed.

Lemma cis_zero_false_ne : forall c, cis_zero c = false -> c <> [].
Proof. intros c H ->. discriminate. Qed.

Lemma cvalid_ne_nonzero : forall c, cvalid c = true -> c <> [] -> cis_zero c = false.
Proof.
  intros [|[d v] r] Hv Hne; [congruence|].
  apply cvalid_iff in Hv. destruct Hv as [_ [Hp _]].
  inversion Hp as [|x l Hx Hl]; subst. cbn [snd] in Hx.
  cbn [cis_zero forallb snd]. destruct (Z.eqb_spec v 0) as [E|E]; [lia|reflexivity].
Qed.

Lemma cvalid_zero_iff : forall c, cvalid c = true -> (cis_zero c = true <-> c = []).
Proof.
  intros c Hv. split; [|intros ->; reflexivity].
  intros Hz. destruct c as [|x r]; [reflexivity|].
  rewrite cvalid_ne_nonzero in Hz by (try exact Hv; discriminate). discriminate.
Qed.

(** ---- SimplifyAccountAmounts ---- *)
Definition eok (e : bytes * coins) : Prop := fst e <> [] /\ cvalid (snd e) = true.

Lemma simplify_add_ok : forall a c acc, a <> [] -> cvalid c = true ->
  Forall eok acc -> Forall eok (simplify_add a c acc).
Proof.
  intros a c acc Ha Hc. induction acc as [|[a' c'] r IH]; intros H; cbn [simplify_add].
  - constructor; [|constructor]. split; [exact Ha|]. cbn [snd]. apply cadd_valid; [reflexivity|exact Hc].
  - inversion H as [|x l Hx Hl]; subst. destruct Hx as [Hx1 Hx2]. cbn [fst snd] in *.
    destruct (bytes_eqb a a').
    + constructor; [|exact Hl]. split; [exact Hx1|]. cbn [snd]. apply cadd_valid; assumption.
    + constructor; [split; assumption|apply IH; exact Hl].
Qed.

Lemma simplify_fold_ok : forall es acc, Forall eok es -> Forall eok acc ->
  Forall eok (fold_left (fun acc e => simplify_add (fst e) (snd e) acc) es acc).
Proof.
  induction es as [|e es IH]; intros acc He Ha; [exact Ha|].
  inversion He as [|x l Hx Hl]; subst. destruct Hx as [Hx1 Hx2].
  cbn [fold_left]. apply IH; [exact Hl|]. apply simplify_add_ok; assumption.
Qed.

Lemma simplify_ok : forall es, Forall eok es -> Forall eok (simplify es).
Proof. intros es H. unfold simplify. apply simplify_fold_ok; [exact H|constructor]. Qed.

Lemma simplify_add_ne : forall a c acc, simplify_add a c acc <> [].
Proof.
  intros a c [|[a' c'] r]; cbn [simplify_add]; [discriminate|].
  destruct (bytes_eqb a a'); discriminate.
Qed.

Lemma simplify_fold_ne : forall es acc, acc <> [] ->
  fold_left (fun acc e => simplify_add (fst e) (snd e) acc) es acc <> [].
Proof.
  induction es as [|e es IH]; intros acc H; [exact H|].
  cbn [fold_left]. apply IH. apply simplify_add_ne.
Qed.

Lemma simplify_ne : forall es, es <> [] -> simplify es <> [].
Proof.
  intros [|e es] H; [congruence|]. unfold simplify. cbn [fold_left].
  apply simplify_fold_ne. apply simplify_add_ne.
Qed.

Lemma entry_ok_eok : forall es, forallb entry_ok es = true -> Forall eok es.
Proof.
  intros es H. rewrite forallb_forall in H. apply Forall_forall. intros e He.
  specialize (H e He). unfold entry_ok in H. rewrite !andb_true_iff in H.
  destruct H as [[H1 H2] _]. split; [apply addr_ok_ne; exact H1|exact H2].
Qed.

(** ================= the store-level invariant of the commitment entries ================= *)
Definition good_commit (kv : cst) (r : key) (v : cval) : Prop :=
  exists m a c, m < two32 /\ a <> [] /\ r = u32be m ++ len_prefix a /\ v = CCoins c /\
                cvalid c = true /\ c <> [] /\ get kv (k_known m) <> None.

Definition KI (kv : cst) : Prop :=
  sorted_keys kv /\ forall r v, get kv (99 :: r) = Some v -> good_commit kv r v.

Definition same7 (kv kv' : cst) : Prop := forall r, get kv' (7 :: r) = get kv (7 :: r).
Definition kmono (kv kv' : cst) : Prop :=
  forall m, get kv (k_known m) <> None -> get kv' (k_known m) <> None.

Lemma same7_refl : forall kv, same7 kv kv.
Proof. intros kv r. reflexivity. Qed.

Lemma same7_trans : forall a b c, same7 a b -> same7 b c -> same7 a c.
Proof. intros a b c H1 H2 r. rewrite H2. apply H1. Qed.

Lemma same7_kmono : forall kv kv', same7 kv kv' -> kmono kv kv'.
Proof. intros kv kv' H m Hm. unfold k_known in *. rewrite H. exact Hm. Qed.

Lemma same7_known : forall kv kv' m, same7 kv kv' -> get kv' (k_known m) = get kv (k_known m).
Proof. intros kv kv' m H. unfold k_known. apply H. Qed.

Lemma good_mono : forall kv kv' r v, kmono kv kv' -> good_commit kv r v -> good_commit kv' r v.
Proof.
  intros kv kv' r v Hm [m [a [c [H1 [H2 [H3 [H4 [H5 [H6 H7]]]]]]]]].
  exists m, a, c. repeat (split; [assumption|]). apply Hm. exact H7.
Qed.

Lemma KI_frame : forall kv kv', KI kv -> sorted_keys kv' -> kmono kv kv' ->
  (forall r v, get kv' (99 :: r) = Some v -> get kv (99 :: r) = Some v \/ good_commit kv' r v) ->
  KI kv'.
Proof.
  intros kv kv' [Hs Hc] Hs' Hm H. split; [exact Hs'|].
  intros r v G. destruct (H r v G) as [G0|Hg]; [|exact Hg].
  eapply good_mono; [exact Hm|]. apply Hc. exact G0.
Qed.

Lemma KI_nil : KI [].
Proof. split; [exact I|]. intros r v H. discriminate. Qed.

(** writes to keys of the other families *)
Lemma KI_set_other : forall kv x t v, KI kv -> x <> 99 ->
  KI (set kv (x :: t) v) /\ kmono kv (set kv (x :: t) v) /\
  (x <> 7 -> same7 kv (set kv (x :: t) v)).
Proof.
  intros kv x t v HK Hx.
  assert (Hm : kmono kv (set kv (x :: t) v)).
  { intros m Hm. rewrite get_set. destruct (key_eqb (k_known m) (x :: t)); [discriminate|exact Hm]. }
  split; [|split; [exact Hm|]].
  - apply KI_frame with (kv := kv); [exact HK|apply sorted_set; exact (proj1 HK)|exact Hm|].
    intros r v0 G. left. rewrite gsn in G; [exact G|]. apply hd_neq. congruence.
  - intros H7 r. apply gsn. apply hd_neq. congruence.
Qed.

Lemma KI_del_other : forall kv x t, KI kv -> x <> 99 -> x <> 7 ->
  KI (del kv (x :: t)) /\ same7 kv (del kv (x :: t)).
Proof.
  intros kv x t HK Hx H7.
  assert (Hs : same7 kv (del kv (x :: t))).
  { intros r. apply gdn. apply hd_neq. congruence. }
  split; [|exact Hs].
  apply KI_frame with (kv := kv); [exact HK|apply sorted_del; exact (proj1 HK)|apply same7_kmono; exact Hs|].
  intros r v0 G. left. rewrite gdn in G; [exact G|]. apply hd_neq. congruence.
Qed.

Lemma commit_entry : forall kv m a v, KI kv -> get kv (k_commit m a) = Some v ->
  a <> [] /\ exists c, v = CCoins c /\ cvalid c = true /\ c <> [] /\ get kv (k_known m) <> None.
Proof.
  intros kv m a v [_ Hc] G. rewrite k_commit_eq in G.
  destruct (Hc _ _ G) as [m' [a' [c [H1 [H2 [H3 [H4 [H5 [H6 H7]]]]]]]]].
  apply u32be_app_inj in H3. destruct H3 as [Em Ea]. apply len_prefix_inj0 in Ea. subst a'.
  split; [exact H2|]. exists c. repeat (split; [assumption|]).
  unfold k_known in *. rewrite Em. exact H7.
Qed.

Lemma get_commitment_cases : forall kv m a, KI kv ->
  get_commitment kv m a = [] \/
  (a <> [] /\ get kv (k_commit m a) = Some (CCoins (get_commitment kv m a)) /\
   cvalid (get_commitment kv m a) = true /\ get_commitment kv m a <> [] /\
   get kv (k_known m) <> None).
Proof.
  intros kv m a HK. unfold get_commitment.
  destruct (get kv (k_commit m a)) as [v|] eqn:G; [|left; reflexivity].
  destruct (commit_entry _ _ _ _ HK G) as [Ha [c [-> [Hv [Hne Hk]]]]].
  right. repeat (split; [assumption || reflexivity|]). exact Hk.
Qed.

Lemma get_commitment_valid : forall kv m a, KI kv -> cvalid (get_commitment kv m a) = true.
Proof.
  intros kv m a HK. destruct (get_commitment_cases kv m a HK) as [E|[_ [_ [H _]]]]; [|exact H].
  rewrite E. reflexivity.
Qed.

Lemma get_commitment_some : forall kv m a c, c <> [] ->
  (get_commitment kv m a = c <-> get kv (k_commit m a) = Some (CCoins c)).
Proof.
  intros kv m a c Hne. unfold get_commitment. split.
  - intros H. destruct (get kv (k_commit m a)) as [[c0|b]|]; congruence.
  - intros ->. reflexivity.
Qed.

(** setCommitmentAmount *)
Lemma set_commitment_ok : forall kv m a c, KI kv -> a <> [] -> cvalid c = true ->
  (c <> [] -> get kv (k_known m) <> None) ->
  KI (set_commitment kv m a c) /\ same7 kv (set_commitment kv m a c).
Proof.
  intros kv m a c HK Ha Hv Hk. unfold set_commitment. rewrite k_commit_eq.
  destruct (cis_zero c) eqn:Ez.
  - assert (Hs : same7 kv (del kv (99 :: u32be m ++ len_prefix a))).
    { intros r. apply gdn. apply hd_neq. discriminate. }
    split; [|exact Hs].
    apply KI_frame with (kv := kv);
      [exact HK|apply sorted_del; exact (proj1 HK)|apply same7_kmono; exact Hs|].
    intros r v G. left. rewrite get_del in G.
    destruct (key_eqb (99 :: r) (99 :: u32be m ++ len_prefix a)); [discriminate|exact G].
  - assert (Hs : same7 kv (set kv (99 :: u32be m ++ len_prefix a) (CCoins c))).
    { intros r. apply gsn. apply hd_neq. discriminate. }
    split; [|exact Hs].
    apply KI_frame with (kv := kv);
      [exact HK|apply sorted_set; exact (proj1 HK)|apply same7_kmono; exact Hs|].
    intros r v G. rewrite get_set in G.
    destruct (key_eqb (99 :: r) (99 :: u32be m ++ len_prefix a)) eqn:E; [|left; exact G].
    right. apply key_eqb_eq in E. injection E as ->. injection G as <-.
    exists (m mod two32), a, c.
    split; [apply mod_lt32|]. split; [exact Ha|]. split; [rewrite u32be_mod; reflexivity|].
    split; [reflexivity|]. split; [exact Hv|].
    pose proof (cis_zero_false_ne _ Ez) as Hne. split; [exact Hne|].
    rewrite k_known_mod. rewrite (same7_known _ _ m Hs). apply Hk. exact Hne.
Qed.

Lemma add_commitment_ok : forall kv m a amt, KI kv -> a <> [] -> cvalid amt = true ->
  get kv (k_known m) <> None ->
  KI (add_commitment kv m a amt) /\ same7 kv (add_commitment kv m a amt).
Proof.
  intros kv m a amt HK Ha Hv Hk. unfold add_commitment.
  apply set_commitment_ok; [exact HK|exact Ha| |intros _; exact Hk].
  apply cadd_valid; [apply get_commitment_valid; exact HK|exact Hv].
Qed.

Lemma add_fold_ok : forall m es kv, KI kv -> Forall eok es -> get kv (k_known m) <> None ->
  KI (fold_left (fun kv' e => add_commitment kv' m (fst e) (snd e)) es kv) /\
  same7 kv (fold_left (fun kv' e => add_commitment kv' m (fst e) (snd e)) es kv).
Proof.
  intros m. induction es as [|e es IH]; intros kv HK He Hk; [split; [exact HK|apply same7_refl]|].
  inversion He as [|x l [Hx1 Hx2] Hl]; subst. cbn [fold_left].
  destruct (add_commitment_ok kv m (fst e) (snd e) HK Hx1 Hx2 Hk) as [HK1 S1].
  destruct (IH _ HK1 Hl) as [HK2 S2]; [rewrite (same7_known _ _ m S1); exact Hk|].
  split; [exact HK2|]. eapply same7_trans; eassumption.
Qed.

(** ReleaseCommitment *)
Lemma release_one_ok : forall m kv e kv', KI kv -> cvalid (snd e) = true ->
  release_one m kv e = Some kv' ->
  KI kv' /\ same7 kv kv' /\ get kv (k_known m) <> None.
Proof.
  intros m kv [a amt] kv' HK Hv H. cbn [snd] in Hv. unfold release_one in H. cbv zeta in H.
  destruct (get_commitment_cases kv m a HK) as [E|[Ha [G [Hc [Hne Hk]]]]].
  - rewrite E in H. cbn [cis_zero forallb] in H. discriminate.
  - destruct (cis_zero (get_commitment kv m a)) eqn:Ez; [discriminate|].
    destruct (cis_zero amt) eqn:Ea.
    + injection H as <-.
      destruct (set_commitment_ok kv m a [] HK Ha eq_refl) as [K S]; [congruence|].
      split; [exact K|split; [exact S|exact Hk]].
    + destruct (csub (get_commitment kv m a) amt) as [d|] eqn:Es; [|discriminate].
      injection H as <-.
      destruct (set_commitment_ok kv m a d HK Ha) as [K S];
        [exact (csub_valid _ _ _ Es Hc Hv)|intros _; exact Hk|].
      split; [exact K|split; [exact S|exact Hk]].
Qed.

Lemma release_fold_ok : forall m es kv kv', KI kv ->
  Forall (fun e => cvalid (snd e) = true) es ->
  fold_opt (release_one m) es kv = Some kv' ->
  KI kv' /\ same7 kv kv' /\ (es <> [] -> get kv (k_known m) <> None).
Proof.
  intros m. induction es as [|e es IH]; intros kv kv' HK He H.
  - injection H as <-. split; [exact HK|split; [apply same7_refl|congruence]].
  - inversion He as [|x l Hx Hl]; subst. cbn [fold_opt] in H.
    destruct (release_one m kv e) as [kv1|] eqn:E; [|discriminate].
    destruct (release_one_ok _ _ _ _ HK Hx E) as [K1 [S1 Hk]].
    destruct (IH _ _ K1 Hl H) as [K2 [S2 _]].
    split; [exact K2|split; [eapply same7_trans; eassumption|intros _; exact Hk]].
Qed.

Lemma eok_valid : forall es, Forall eok es -> Forall (fun e => cvalid (snd e) = true) es.
Proof. intros es H. eapply Forall_impl; [|exact H]. intros e [_ He]. exact He. Qed.

(** the operations on the key/value store *)
Lemma set_accepting_ok : forall kv m b kv', KI kv -> set_accepting kv m b = Some kv' ->
  KI kv' /\ same7 kv kv'.
Proof.
  intros kv m b kv' HK H. unfold set_accepting in H.
  destruct (negb (mkt_ok m)); [discriminate|].
  destruct (Bool.eqb (has kv (k_accepting m)) b); [discriminate|].
  injection H as <-. unfold k_accepting. destruct b.
  - destruct (KI_set_other kv 1 (u32be m ++ [16]) (CRaw []) HK) as [K [_ S]]; [discriminate|].
    split; [exact K|apply S; discriminate].
  - apply KI_del_other; [exact HK|discriminate|discriminate].
Qed.

Lemma commit_funds_ok : forall kv m a amt kv', KI kv -> commit_funds kv m a amt = Some kv' ->
  KI kv' /\ same7 kv kv'.
Proof.
  intros kv m a amt kv' HK H. unfold commit_funds in H.
  destruct (mkt_ok m && addr_ok a && cvalid amt && negb (cis_zero amt)) eqn:E1; cbn [negb] in H;
    [|discriminate].
  destruct (has kv (k_known m) && has kv (k_accepting m)) eqn:E2; cbn [negb] in H; [|discriminate].
  injection H as <-. rewrite !andb_true_iff in E1. destruct E1 as [[[_ Ha] Hv] _].
  apply andb_true_iff in E2. destruct E2 as [Hk _].
  apply add_commitment_ok; [exact HK|apply addr_ok_ne; exact Ha|exact Hv|].
  unfold has in Hk. destruct (get kv (k_known m)); [discriminate|discriminate].
Qed.

Lemma release_commitments_ok : forall kv m es kv', KI kv ->
  release_commitments kv m es = Some kv' -> KI kv' /\ same7 kv kv'.
Proof.
  intros kv m es kv' HK H. unfold release_commitments in H.
  destruct (mkt_ok m && nonempty es && forallb (fun e => addr_ok (fst e) && cvalid (snd e)) es) eqn:E;
    cbn [negb] in H; [|discriminate].
  rewrite !andb_true_iff in E. destruct E as [_ Hf].
  assert (Hv : Forall (fun e => cvalid (snd e) = true) es).
  { apply Forall_forall. intros e He. rewrite forallb_forall in Hf. specialize (Hf e He).
    apply andb_true_iff in Hf. apply Hf. }
  destruct (release_fold_ok _ _ _ _ HK Hv H) as [K [S _]]. split; assumption.
Qed.

Lemma settle_commitments_ok : forall kv m ins outs fees kv', KI kv ->
  settle_commitments kv m ins outs fees = Some kv' -> KI kv' /\ same7 kv kv'.
Proof.
  intros kv m ins outs fees kv' HK H. unfold settle_commitments in H.
  destruct (mkt_ok m && nonempty ins && nonempty outs && forallb entry_ok ins &&
            forallb entry_ok outs && forallb entry_ok fees && coins_eqb (csum ins) (csum outs)) eqn:E;
    cbn [negb] in H; [|discriminate].
  rewrite !andb_true_iff in E. destruct E as [[[[[[_ Hni] _] Hi] Ho] Hf] _].
  apply entry_ok_eok in Hi, Ho, Hf.
  destruct (fold_opt (release_one m) (simplify (simplify ins ++ simplify fees)) kv) as [kv1|] eqn:E1;
    [|discriminate].
  injection H as <-.
  assert (Hrel : Forall eok (simplify (simplify ins ++ simplify fees))).
  { apply simplify_ok. apply Forall_app. split; apply simplify_ok; assumption. }
  assert (Hne : simplify (simplify ins ++ simplify fees) <> []).
  { apply simplify_ne. intros E0. apply app_eq_nil in E0. destruct E0 as [E0 _].
    revert E0. apply simplify_ne. destruct ins; [discriminate|discriminate]. }
  destruct (release_fold_ok _ _ _ _ HK (eok_valid _ Hrel) E1) as [K1 [S1 Hk]].
  specialize (Hk Hne).
  destruct (add_fold_ok m (simplify outs) kv1 K1 (simplify_ok _ Ho)) as [K2 S2];
    [rewrite (same7_known _ _ m S1); exact Hk|].
  split; [exact K2|eapply same7_trans; eassumption].
Qed.

Lemma close_fold_ok : forall m (l : list (key * cval)) kv, KI kv ->
  let g := fun kv' (e : key * cval) =>
             match parse_len_prefixed (fst e) with
             | Some (a, []) => match release_one m kv' (a, []) with Some kv'' => kv'' | None => kv' end
             | _ => kv'
             end in
  KI (fold_left g l kv) /\ same7 kv (fold_left g l kv).
Proof.
  intros m l. induction l as [|e l IH]; intros kv HK g; [split; [exact HK|apply same7_refl]|].
  cbn [fold_left].
  assert (H1 : KI (g kv e) /\ same7 kv (g kv e)).
  { unfold g. destruct (parse_len_prefixed (fst e)) as [[a [|x t]]|];
      try (split; [exact HK|apply same7_refl]).
    destruct (release_one m kv (a, [])) as [kv1|] eqn:E; [|split; [exact HK|apply same7_refl]].
    destruct (release_one_ok m kv (a, []) kv1 HK eq_refl E) as [K [S _]]. split; assumption. }
  destruct H1 as [K1 S1]. destruct (IH _ K1) as [K2 S2].
  split; [exact K2|eapply same7_trans; eassumption].
Qed.

Lemma close_commitments_ok : forall kv m, KI kv ->
  KI (close_commitments kv m) /\ same7 kv (close_commitments kv m).
Proof.
  intros kv m HK. unfold close_commitments. cbv zeta. unfold k_accepting.
  destruct (KI_del_other kv 1 (u32be m ++ [16]) HK) as [K0 S0]; [discriminate|discriminate|].
  destruct (close_fold_ok m (pstore (del kv (1 :: u32be m ++ [16])) (p_commit_mkt m)) _ K0) as [K1 S1].
  split; [exact K1|eapply same7_trans; eassumption].
Qed.

(** ================= market ids ================= *)
Lemma next_free_spec : forall fuel kv start id,
  next_free fuel kv start = Some id -> start < two32 ->
  id < two32 /\ has kv (k_known id) = false /\
  (start + N.of_nat fuel <= two32 ->
   start <= id /\ forall j, start <= j -> j < id -> has kv (k_known j) = true).
Proof.
  induction fuel as [|fuel IH]; intros kv start id H Hlt; cbn [next_free] in H; [discriminate|].
  destruct (has kv (k_known start)) eqn:Eh.
  - destruct (IH _ _ _ H (mod_lt32 _)) as [A [B C]].
    split; [exact A|]. split; [exact B|]. intros Hb.
    assert (Hs : start + 1 < two32).
    { destruct fuel as [|f]; [cbn in H; discriminate|]. rewrite !Nat2N.inj_succ in Hb. lia. }
    rewrite N.mod_small in C by exact Hs.
    destruct C as [C1 C2]; [rewrite Nat2N.inj_succ in Hb; lia|].
    split; [lia|]. intros j Hj1 Hj2.
    destruct (N.eq_dec j start) as [->|Hne]; [exact Eh|]. apply C2; lia.
  - injection H as <-. split; [exact Hlt|]. split; [exact Eh|]. intros _.
    split; [lia|]. intros j Hj1 Hj2. lia.
Qed.

Lemma next_market_id_spec : forall kv kv' mid,
  next_market_id kv = Some (kv', mid) ->
  mid < two32 /\ has kv (k_known mid) = false /\ last_market_id kv' = mid /\
  (last_market_id kv + N.of_nat (length kv) + 1 < two32 ->
     last_market_id kv < mid /\ forall j, last_market_id kv < j -> j < mid -> has kv (k_known j) = true).
Proof.
  intros kv kv' mid H. unfold next_market_id in H.
  destruct (next_free (S (length kv)) kv ((last_market_id kv + 1) mod two32)) as [id|] eqn:E;
    [|discriminate].
  injection H as <- <-.
  destruct (next_free_spec _ _ _ _ E (mod_lt32 _)) as [A [B C]].
  split; [exact A|]. split; [exact B|]. split.
  - unfold last_market_id. rewrite gse. rewrite u32_from_bz_u32be by exact A. reflexivity.
  - intros Hb. rewrite N.mod_small in C by lia.
    destruct C as [C1 C2]; [rewrite Nat2N.inj_succ; lia|].
    split; [lia|]. intros j Hj1 Hj2. apply C2; lia.
Qed.

(** ---- the invariant of reachable states; [L] = the market ids created so far ---- *)
Record CInv (L : list N) (s : cstate) : Prop := {
  ci_KI : KI (cs_kv s);
  ci_known : forall r v, get (cs_kv s) (7 :: r) = Some v ->
     exists m, m < two32 /\ r = u32be m /\ In m L;
  ci_L : forall m, In m L ->
     m < two32 /\ In m (cs_accts s) /\ get (cs_kv s) (k_known m) <> None;
  ci_nodup : NoDup L }.

Lemma CInv_init : CInv [] cinit.
Proof.
  constructor; cbn [cs_kv cs_accts cinit].
  - exact KI_nil.
  - intros r v H. discriminate.
  - intros m [].
  - constructor.
Qed.

Lemma CInv_lift : forall L s kv', CInv L s -> KI kv' -> same7 (cs_kv s) kv' -> CInv L (with_kv s kv').
Proof.
  intros L s kv' HI K S. constructor; cbn [with_kv cs_kv cs_accts].
  - exact K.
  - intros r v G. rewrite S in G. exact (ci_known _ _ HI _ _ G).
  - intros m Hm. destruct (ci_L _ _ HI _ Hm) as [A [B C]].
    split; [exact A|]. split; [exact B|]. rewrite (same7_known _ _ m S). exact C.
  - exact (ci_nodup _ _ HI).
Qed.

Lemma NoDup_snoc : forall (A : Type) (l : list A) x, NoDup l -> ~ In x l -> NoDup (l ++ [x]).
Proof.
  intros A l x. induction l as [|y l IH]; intros Hn Hx; cbn [app].
  - constructor; [intros []|constructor].
  - inversion Hn as [|z l' Hy Hl]; subst. constructor.
    + intros Hin. apply in_app_or in Hin. destruct Hin as [Hin|[->|[]]]; [contradiction|].
      apply Hx. left. reflexivity.
    + apply IH; [exact Hl|]. intros Hin. apply Hx. right. exact Hin.
Qed.

Lemma mem_id_false : forall x l, mem_id x l = false -> ~ In x l.
Proof.
  intros x l H Hin. unfold mem_id in H.
  assert (E : existsb (N.eqb x) l = true).
  { apply existsb_exists. exists x. split; [exact Hin|apply N.eqb_refl]. }
  congruence.
Qed.

Lemma create_market_inv : forall L s id acc s' mid,
  CInv L s -> create_market s id acc = Some (s', mid) ->
  CInv (L ++ [mid]) s' /\ mid < two32 /\ ~ In mid L /\ (id <> 0 -> mid = id).
Proof.
  intros L s id acc s' mid HI H. unfold create_market in H.
  destruct (id <? two32) eqn:Eid; cbn [negb] in H; [|discriminate]. apply N.ltb_lt in Eid.
  destruct (if id =? 0 then next_market_id (cs_kv s) else Some (cs_kv s, id)) as [[kv1 mid0]|] eqn:E1;
    [|discriminate].
  destruct (mem_id mid0 (cs_accts s)) eqn:Em; [discriminate|].
  apply mem_id_false in Em.
  injection H as <- <-.
  pose proof (ci_KI _ _ HI) as HK.
  assert (H1 : KI kv1 /\ same7 (cs_kv s) kv1 /\ mid0 < two32 /\ (id <> 0 -> mid0 = id)).
  { destruct (id =? 0) eqn:E0.
    - apply N.eqb_eq in E0. pose proof E1 as E1'. apply next_market_id_spec in E1'.
      destruct E1' as [A _]. unfold next_market_id in E1.
      destruct (next_free (S (length (cs_kv s))) (cs_kv s) ((last_market_id (cs_kv s) + 1) mod two32))
        as [n|]; [|discriminate].
      injection E1 as <- <-. unfold k_last_mkt.
      destruct (KI_set_other (cs_kv s) 6 [] (CRaw (u32be n)) HK) as [K [_ S]]; [discriminate|].
      split; [exact K|]. split; [apply S; discriminate|]. split; [exact A|congruence].
    - injection E1 as <- <-. split; [exact HK|]. split; [apply same7_refl|]. split; [exact Eid|auto]. }
  destruct H1 as [K1 [S1 [Hmid Hid]]].
  assert (HnL : ~ In mid0 L).
  { intros Hin. apply Em. exact (proj1 (proj2 (ci_L _ _ HI _ Hin))). }
  unfold k_known at 1 2. unfold k_accepting.
  destruct (KI_set_other kv1 7 (u32be mid0) (CRaw []) K1) as [K2 [M2 _]]; [discriminate|].
  set (kv2 := set kv1 (7 :: u32be mid0) (CRaw [])) in *.
  assert (H3 : KI (if acc then set kv2 (1 :: u32be mid0 ++ [16]) (CRaw [])
                   else del kv2 (1 :: u32be mid0 ++ [16])) /\
               same7 kv2 (if acc then set kv2 (1 :: u32be mid0 ++ [16]) (CRaw [])
                          else del kv2 (1 :: u32be mid0 ++ [16]))).
  { destruct acc.
    - destruct (KI_set_other kv2 1 (u32be mid0 ++ [16]) (CRaw []) K2) as [K [_ S]]; [discriminate|].
      split; [exact K|apply S; discriminate].
    - apply KI_del_other; [exact K2|discriminate|discriminate]. }
  destruct H3 as [K3 S3].
  set (kv3 := if acc then set kv2 (1 :: u32be mid0 ++ [16]) (CRaw [])
              else del kv2 (1 :: u32be mid0 ++ [16])) in *.
  assert (G7 : forall r, get kv3 (7 :: r) =
                         if key_eqb (7 :: r) (7 :: u32be mid0) then Some (CRaw []) else get (cs_kv s) (7 :: r)).
  { intros r. rewrite S3. unfold kv2. rewrite get_set. rewrite S1. reflexivity. }
  split; [|split; [exact Hmid|split; [exact HnL|exact Hid]]].
  constructor; cbn [cs_kv cs_accts].
  - exact K3.
  - intros r v G. rewrite G7 in G.
    destruct (key_eqb (7 :: r) (7 :: u32be mid0)) eqn:E.
    + apply key_eqb_eq in E. injection E as ->. exists mid0.
      split; [exact Hmid|]. split; [reflexivity|]. apply in_or_app. right. left. reflexivity.
    + destruct (ci_known _ _ HI _ _ G) as [m [A [B C]]]. exists m.
      split; [exact A|]. split; [exact B|]. apply in_or_app. left. exact C.
  - intros m Hm. apply in_app_or in Hm. destruct Hm as [Hm|[<-|[]]].
    + destruct (ci_L _ _ HI _ Hm) as [A [B C]]. split; [exact A|]. split; [right; exact B|].
      unfold k_known in *. rewrite G7. destruct (key_eqb (7 :: u32be m) (7 :: u32be mid0)); [discriminate|exact C].
    + split; [exact Hmid|]. split; [left; reflexivity|].
      unfold k_known. rewrite G7, key_eqb_refl. discriminate.
  - apply NoDup_snoc; [exact (ci_nodup _ _ HI)|exact HnL].
Qed.

Definition created1 (s : cstate) (o : cop) : list N :=
  match o with
  | CMarketCreate id acc => match create_market s id acc with Some (_, mid) => [mid] | None => [] end
  | _ => []
  end.

Lemma markets_created_cons : forall s o r,
  markets_created_from s (o :: r) = created1 s o ++ markets_created_from (fst (cstep s o)) r.
Proof. reflexivity. Qed.

Lemma cstep_inv : forall L s o, CInv L s -> CInv (L ++ created1 s o) (fst (cstep s o)).
Proof.
  intros L s o HI. pose proof (ci_KI _ _ HI) as HK.
  destruct o as [id acc|id|m b|m a amt|m es|m ins outs fees|m]; cbn [created1 cstep];
    rewrite ?app_nil_r.
  - destruct (create_market s id acc) as [[s' mid]|] eqn:E; cbn [fst].
    + exact (proj1 (create_market_inv _ _ _ _ _ _ HI E)).
    + rewrite app_nil_r. exact HI.
  - destruct (negb (id <? two32)); cbn [fst]; [exact HI|].
    constructor; cbn [cs_kv cs_accts].
    + exact HK.
    + exact (ci_known _ _ HI).
    + intros m Hm. destruct (ci_L _ _ HI _ Hm) as [A [B C]].
      split; [exact A|]. split; [|exact C].
      destruct (mem_id id (cs_accts s)); [exact B|right; exact B].
    + exact (ci_nodup _ _ HI).
  - destruct (set_accepting (cs_kv s) m b) as [kv'|] eqn:E; cbn [fst]; [|exact HI].
    destruct (set_accepting_ok _ _ _ _ HK E) as [K S]. apply CInv_lift; assumption.
  - destruct (commit_funds (cs_kv s) m a amt) as [kv'|] eqn:E; cbn [fst]; [|exact HI].
    destruct (commit_funds_ok _ _ _ _ _ HK E) as [K S]. apply CInv_lift; assumption.
  - destruct (release_commitments (cs_kv s) m es) as [kv'|] eqn:E; cbn [fst]; [|exact HI].
    destruct (release_commitments_ok _ _ _ _ HK E) as [K S]. apply CInv_lift; assumption.
  - destruct (settle_commitments (cs_kv s) m ins outs fees) as [kv'|] eqn:E; cbn [fst]; [|exact HI].
    destruct (settle_commitments_ok _ _ _ _ _ _ HK E) as [K S]. apply CInv_lift; assumption.
  - destruct (close_commitments_ok (cs_kv s) m HK) as [K S]. apply CInv_lift; assumption.
Qed.

Lemma crun_from_inv : forall ops L s, CInv L s ->
  CInv (L ++ markets_created_from s ops) (crun_from s ops).
Proof.
  induction ops as [|o ops IH]; intros L s HI.
  - cbn [markets_created_from]. rewrite app_nil_r. exact HI.
  - rewrite markets_created_cons, app_assoc.
    change (crun_from s (o :: ops)) with (crun_from (fst (cstep s o)) ops).
    apply IH. apply cstep_inv. exact HI.
Qed.

Lemma crun_inv : forall ops, CInv (markets_created_from cinit ops) (crun ops).
Proof. intros ops. exact (crun_from_inv ops [] cinit CInv_init). Qed.

(** ---- the known-market listing ---- *)
Lemma known_entry : forall L s r v, CInv L s -> In (r, v) (pstore (cs_kv s) p_known) ->
  get (cs_kv s) (7 :: r) = Some v /\ exists m, m < two32 /\ r = u32be m /\ In m L.
Proof.
  intros L s r v HI Hin. apply pstore_In in Hin. unfold p_known in Hin. cbn [app] in Hin.
  apply (sorted_In_get _ _ _ (proj1 (ci_KI _ _ HI))) in Hin.
  split; [exact Hin|exact (ci_known _ _ HI _ _ Hin)].
Qed.

Lemma known_iff : forall L s m, CInv L s -> (In m (known_markets (cs_kv s)) <-> In m L).
Proof.
  intros L s m HI. unfold known_markets. rewrite in_flat_map. split.
  - intros [[r v] [Hin H]]. destruct (known_entry _ _ _ _ HI Hin) as [_ [m' [A [-> C]]]].
    cbn [fst] in H. rewrite u32_from_bz_u32be in H by exact A. destruct H as [<-|[]]. exact C.
  - intros Hm. destruct (ci_L _ _ HI _ Hm) as [A [_ C]].
    destruct (get (cs_kv s) (k_known m)) as [v|] eqn:G; [|congruence].
    exists (u32be m, v). split.
    + apply pstore_In. apply get_In. exact G.
    + cbn [fst]. rewrite u32_from_bz_u32be by exact A. left. reflexivity.
Qed.

Lemma kn_sorted_gen : forall (l : list (key * cval)), sorted_keys l ->
  (forall r v, In (r, v) l -> exists x, x < two32 /\ r = u32be x) ->
  StronglySorted N.lt
    (flat_map (fun e => match u32_from_bz (fst e) with Some m => [m] | None => [] end) l).
Proof.
  induction l as [|[k v] l IH]; intros Hs Hf; [constructor|].
  assert (IH' : StronglySorted N.lt
    (flat_map (fun e => match u32_from_bz (fst e) with Some m => [m] | None => [] end) l)).
  { apply IH; [exact (sorted_tail _ _ Hs)|]. intros r v0 Hin. apply (Hf r v0). right. exact Hin. }
  cbn [flat_map fst].
  destruct (Hf k v (or_introl eq_refl)) as [x [Hx ->]].
  rewrite u32_from_bz_u32be by exact Hx. cbn [app].
  constructor; [exact IH'|]. apply Forall_forall. intros y Hy.
  apply in_flat_map in Hy. destruct Hy as [[k' v'] [Hin Hy]]. cbn [fst] in Hy.
  destruct (Hf k' v' (or_intror Hin)) as [x' [Hx' ->]].
  rewrite u32_from_bz_u32be in Hy by exact Hx'. destruct Hy as [<-|[]].
  pose proof (sorted_head_lt _ _ _ Hs _ _ Hin) as Hlt.
  unfold key_lt, u32be in Hlt. rewrite !N.mod_small in Hlt by assumption.
  rewrite be_compare in Hlt by (rewrite <- two32_pow; assumption). exact Hlt.
Qed.

Lemma known_sorted : forall L s, CInv L s -> StronglySorted N.lt (known_markets (cs_kv s)).
Proof.
  intros L s HI. unfold known_markets. apply kn_sorted_gen.
  - apply pstore_sorted. exact (proj1 (ci_KI _ _ HI)).
  - intros r v Hin. destruct (known_entry _ _ _ _ HI Hin) as [_ [m [A [B _]]]]. exists m. auto.
Qed.

Lemma market_ids : forall ops, let s := crun ops in
  NoDup (markets_created_from cinit ops) /\
  StronglySorted N.lt (known_markets (cs_kv s)) /\
  (forall m, m < two32 -> (In m (known_markets (cs_kv s)) <-> In m (markets_created_from cinit ops))) /\
  (forall m, In m (markets_created_from cinit ops) -> m < two32 /\ In m (cs_accts s)).
Proof.
  intros ops s. pose proof (crun_inv ops : CInv _ s) as HI. clearbody s.
  split; [exact (ci_nodup _ _ HI)|]. split; [exact (known_sorted _ _ HI)|]. split.
  - intros m _. apply known_iff. exact HI.
  - intros m Hm. destruct (ci_L _ _ HI _ Hm) as [A [B _]]. split; assumption.
Qed.

Lemma create_market_fresh : forall ops id acc s' mid,
  create_market (crun ops) id acc = Some (s', mid) ->
  mid < two32 /\
  ~ In mid (known_markets (cs_kv (crun ops))) /\
  In mid (known_markets (cs_kv s')) /\
  (id <> 0 -> mid = id) /\
  (forall m, In m (known_markets (cs_kv (crun ops))) -> In m (known_markets (cs_kv s'))).
Proof.
  intros ops id acc s' mid H. pose proof (crun_inv ops) as HI.
  destruct (create_market_inv _ _ _ _ _ _ HI H) as [HI' [A [B C]]].
  split; [exact A|]. split; [rewrite (known_iff _ _ _ HI); exact B|].
  split; [apply (known_iff _ _ _ HI'); apply in_or_app; right; left; reflexivity|].
  split; [exact C|]. intros m Hm. apply (known_iff _ _ _ HI'). apply in_or_app. left.
  apply (known_iff _ _ _ HI). exact Hm.
Qed.

(** ================= (C) the commitment listings ================= *)
Lemma coe_good : forall a c, a <> [] -> cvalid c = true -> c <> [] ->
  commitment_of_entry (len_prefix a, CCoins c) = [(a, c)].
Proof.
  intros a c Ha Hv Hne. unfold commitment_of_entry. cbn [fst snd].
  rewrite parse_len_prefix by exact Ha. rewrite cvalid_ne_nonzero by assumption. reflexivity.
Qed.

Lemma mkt_entry_c : forall kv m r v, KI kv -> In (r, v) (pstore kv (p_commit_mkt m)) ->
  exists a c, a <> [] /\ r = len_prefix a /\ v = CCoins c /\ cvalid c = true /\ c <> [] /\
              get kv (k_commit m a) = Some (CCoins c) /\ commitment_of_entry (r, v) = [(a, c)].
Proof.
  intros kv m r v HK Hin. apply pstore_In in Hin.
  change (p_commit_mkt m ++ r) with (99 :: (u32be m ++ r)) in Hin.
  apply (sorted_In_get _ _ _ (proj1 HK)) in Hin.
  destruct (proj2 HK _ _ Hin) as [m' [a [c [H1 [H2 [H3 [H4 [H5 [H6 H7]]]]]]]]].
  apply u32be_app_inj in H3. destruct H3 as [_ ->]. subst v.
  exists a, c. split; [exact H2|]. split; [reflexivity|]. split; [reflexivity|].
  split; [exact H5|]. split; [exact H6|].
  split; [rewrite k_commit_eq; exact Hin|apply coe_good; assumption].
Qed.

Lemma all_entry_c : forall kv r v, KI kv -> In (r, v) (pstore kv p_commit_all) ->
  exists m a c, m < two32 /\ a <> [] /\ r = u32be m ++ len_prefix a /\ v = CCoins c /\
                cvalid c = true /\ c <> [] /\
                get kv (k_commit m a) = Some (CCoins c) /\
                commitment_of_entry_all (r, v) = [(m, a, c)].
Proof.
  intros kv r v HK Hin. apply pstore_In in Hin.
  change (p_commit_all ++ r) with (99 :: r) in Hin.
  apply (sorted_In_get _ _ _ (proj1 HK)) in Hin.
  destruct (proj2 HK _ _ Hin) as [m [a [c [H1 [H2 [H3 [H4 [H5 [H6 H7]]]]]]]]].
  subst r v. exists m, a, c. split; [exact H1|]. split; [exact H2|]. split; [reflexivity|].
  split; [reflexivity|]. split; [exact H5|]. split; [exact H6|].
  split; [rewrite k_commit_eq; exact Hin|].
  unfold commitment_of_entry_all. cbn [fst snd].
  assert (Hl : Nat.ltb (length (u32be m ++ len_prefix a)) 6 = false).
  { apply Nat.ltb_ge. rewrite app_length, u32be_length. unfold len_prefix. cbn [length].
    destruct a; [congruence|cbn [length]; lia]. }
  rewrite Hl, firstn4_u32, skipn4_u32, decode_u32be by exact H1.
  rewrite coe_good by assumption. reflexivity.
Qed.

Lemma flat_map_single : forall (A B : Type) (g : A -> list B) (h : A -> B) l,
  (forall e, In e l -> g e = [h e]) -> flat_map g l = map h l.
Proof.
  intros A B g h. induction l as [|e l IH]; intros H; [reflexivity|].
  cbn [flat_map map]. rewrite (H e (or_introl eq_refl)). cbn [app]. f_equal.
  apply IH. intros e' He'. apply H. right. exact He'.
Qed.

Lemma nodup_map_via : forall (A B C : Type) (f : A -> C) (g : A -> B) (k : B -> C) l,
  NoDup (map f l) -> (forall x, In x l -> f x = k (g x)) -> NoDup (map g l).
Proof.
  intros A B C f g k. induction l as [|x l IH]; intros Hn H; cbn [map]; [constructor|].
  cbn [map] in Hn. inversion Hn as [|y l' Hx Hl]; subst. constructor.
  - intros Hin. apply in_map_iff in Hin. destruct Hin as [y [Ey Hy]].
    apply Hx. apply in_map_iff. exists y. split; [|exact Hy].
    rewrite (H y (or_intror Hy)), (H x (or_introl eq_refl)), Ey. reflexivity.
  - apply IH; [exact Hl|]. intros y Hy. apply H. right. exact Hy.
Qed.

Lemma market_ok : forall kv m, KI kv ->
  NoDup (map fst (market_commitments kv m)) /\
  forall a c, In (a, c) (market_commitments kv m) <->
              (a <> [] /\ c <> [] /\ get_commitment kv m a = c).
Proof.
  intros kv m HK. split.
  - unfold market_commitments.
    rewrite (flat_map_single (key * cval) _ commitment_of_entry
               (fun e => hd ([], []) (commitment_of_entry e))).
    + rewrite map_map.
      apply (nodup_map_via (key * cval) _ _ fst _ len_prefix).
      * apply sorted_NoDup_keys. apply pstore_sorted. exact (proj1 HK).
      * intros [r v] Hin. destruct (mkt_entry_c _ _ _ _ HK Hin) as [a [c [_ [Hr [_ [_ [_ [_ E]]]]]]]].
        cbv beta. rewrite E. cbn [hd fst]. exact Hr.
    + intros [r v] Hin. destruct (mkt_entry_c _ _ _ _ HK Hin) as [a [c [_ [_ [_ [_ [_ [_ E]]]]]]]].
      cbv beta. rewrite E. reflexivity.
  - intros a c. unfold market_commitments. rewrite in_flat_map. split.
    + intros [[r v] [Hin H]].
      destruct (mkt_entry_c _ _ _ _ HK Hin) as [a0 [c0 [Ha [_ [_ [_ [Hne [G E]]]]]]]].
      rewrite E in H. destruct H as [H|[]]. injection H as <- <-.
      split; [exact Ha|]. split; [exact Hne|]. apply get_commitment_some; assumption.
    + intros [Ha [Hne G]]. apply get_commitment_some in G; [|exact Hne].
      destruct (commit_entry _ _ _ _ HK G) as [_ [c0 [Ec [Hv _]]]]. injection Ec as <-.
      exists (len_prefix a, CCoins c). split.
      * apply pstore_In. apply get_In. exact G.
      * rewrite coe_good by assumption. left. reflexivity.
Qed.

Lemma all_ok_c : forall kv, KI kv ->
  NoDup (map fst (all_commitments kv)) /\
  (forall m a c, In (m, a, c) (all_commitments kv) -> m < two32) /\
  forall m a c, m < two32 ->
    (In (m, a, c) (all_commitments kv) <-> (a <> [] /\ c <> [] /\ get_commitment kv m a = c)).
Proof.
  intros kv HK. split; [|split].
  - unfold all_commitments.
    rewrite (flat_map_single (key * cval) _ commitment_of_entry_all
               (fun e => hd (0, [], []) (commitment_of_entry_all e))).
    + rewrite map_map.
      apply (nodup_map_via (key * cval) _ _ fst _ (fun ma => u32be (fst ma) ++ len_prefix (snd ma))).
      * apply sorted_NoDup_keys. apply pstore_sorted. exact (proj1 HK).
      * intros [r v] Hin.
        destruct (all_entry_c _ _ _ HK Hin) as [m [a [c [_ [_ [Hr [_ [_ [_ [_ E]]]]]]]]]].
        cbv beta. rewrite E. cbn [hd fst snd]. exact Hr.
    + intros [r v] Hin.
      destruct (all_entry_c _ _ _ HK Hin) as [m [a [c [_ [_ [_ [_ [_ [_ [_ E]]]]]]]]]].
      cbv beta. rewrite E. reflexivity.
  - intros m a c H. unfold all_commitments in H. apply in_flat_map in H.
    destruct H as [[r v] [Hin H]].
    destruct (all_entry_c _ _ _ HK Hin) as [m0 [a0 [c0 [Hm [_ [_ [_ [_ [_ [_ E]]]]]]]]]].
    rewrite E in H. destruct H as [H|[]]. injection H as <- <- <-. exact Hm.
  - intros m a c Hm. unfold all_commitments. rewrite in_flat_map. split.
    + intros [[r v] [Hin H]].
      destruct (all_entry_c _ _ _ HK Hin) as [m0 [a0 [c0 [_ [Ha [_ [_ [_ [Hne [G E]]]]]]]]]].
      rewrite E in H. destruct H as [H|[]]. injection H as <- <- <-.
      split; [exact Ha|]. split; [exact Hne|]. apply get_commitment_some; assumption.
    + intros [Ha [Hne G]]. apply get_commitment_some in G; [|exact Hne].
      exists (@pair key cval (u32be m ++ len_prefix a) (CCoins c)).
      assert (Hin : In (@pair key cval (u32be m ++ len_prefix a) (CCoins c)) (pstore kv p_commit_all)).
      { apply pstore_In. apply get_In. exact G. }
      split; [exact Hin|].
      destruct (all_entry_c _ _ _ HK Hin) as [m0 [a0 [c0 [Hm0 [_ [Hr [Ec [_ [_ [_ E]]]]]]]]]].
      rewrite E. left. apply u32be_app_inj in Hr. destruct Hr as [Em Ea].
      apply u32be_inj in Em; [|assumption|assumption]. apply len_prefix_inj0 in Ea.
      injection Ec as ->. subst. reflexivity.
Qed.

Lemma ssorted_nodup : forall l, StronglySorted N.lt l -> NoDup l.
Proof.
  induction l as [|x l IH]; intros H; [constructor|].
  inversion H as [|y l' Hs Hf]; subst. constructor; [|apply IH; exact Hs].
  intros Hin. rewrite Forall_forall in Hf. specialize (Hf x Hin). lia.
Qed.

Lemma acct_nodup : forall (g : N -> coins) l, NoDup l ->
  NoDup (map fst (flat_map (fun m => if cis_zero (g m) then [] else [(m, g m)]) l)).
Proof.
  intros g. induction l as [|x l IH]; intros Hn; [constructor|].
  inversion Hn as [|y l' Hx Hl]; subst. cbn [flat_map].
  destruct (cis_zero (g x)); cbn [app map fst]; [apply IH; exact Hl|].
  constructor; [|apply IH; exact Hl].
  intros Hin. apply in_map_iff in Hin. destruct Hin as [[m c] [Em Hin]]. cbn [fst] in Em. subst m.
  apply in_flat_map in Hin. destruct Hin as [m' [Hm' Hin]].
  destruct (cis_zero (g m')); [destruct Hin|]. destruct Hin as [E|[]].
  injection E as -> _. contradiction.
Qed.

Lemma known_of_get : forall L s m, CInv L s -> m < two32 ->
  get (cs_kv s) (k_known m) <> None -> In m (known_markets (cs_kv s)).
Proof.
  intros L s m HI Hm G. apply (known_iff _ _ _ HI).
  destruct (get (cs_kv s) (k_known m)) as [v|] eqn:E; [|congruence].
  unfold k_known in E. destruct (ci_known _ _ HI _ _ E) as [m' [A [B C]]].
  apply u32be_inj in B; [|assumption|assumption]. subst m'. exact C.
Qed.

Lemma account_ok : forall L s a, CInv L s ->
  NoDup (map fst (account_commitments (cs_kv s) a)) /\
  forall m c, m < two32 ->
    (In (m, c) (account_commitments (cs_kv s) a) <-> (c <> [] /\ get_commitment (cs_kv s) m a = c)).
Proof.
  intros L s a HI. pose proof (ci_KI _ _ HI) as HK. unfold account_commitments. cbv zeta. split.
  - apply (acct_nodup (fun m => get_commitment (cs_kv s) m a)).
    apply ssorted_nodup. exact (known_sorted _ _ HI).
  - intros m c Hm. rewrite in_flat_map. split.
    + intros [m' [_ H]].
      destruct (cis_zero (get_commitment (cs_kv s) m' a)) eqn:Ez; [destruct H|].
      destruct H as [H|[]]. injection H as -> <-.
      split; [apply cis_zero_false_ne; exact Ez|reflexivity].
    + intros [Hne G]. exists m.
      destruct (get_commitment_cases (cs_kv s) m a HK) as [E|[_ [_ [Hv [_ Hk]]]]]; [congruence|].
      split; [exact (known_of_get _ _ _ HI Hm Hk)|].
      rewrite cvalid_ne_nonzero; [|exact Hv|congruence]. left. rewrite G. reflexivity.
Qed.

Lemma commitments_consistent : forall ops, let kv := cs_kv (crun ops) in
  (forall m, m < two32 ->
     NoDup (map fst (market_commitments kv m)) /\
     forall a c, In (a, c) (market_commitments kv m) <-> (a <> [] /\ c <> [] /\ get_commitment kv m a = c)) /\
  (NoDup (map fst (all_commitments kv)) /\
   (forall m a c, In (m, a, c) (all_commitments kv) -> m < two32) /\
   forall m a c, m < two32 -> (In (m, a, c) (all_commitments kv) <-> (a <> [] /\ c <> [] /\ get_commitment kv m a = c))) /\
  (forall a, a <> [] ->
     NoDup (map fst (account_commitments kv a)) /\
     forall m c, m < two32 -> (In (m, c) (account_commitments kv a) <-> (c <> [] /\ get_commitment kv m a = c))) /\
  (forall m a, m < two32 -> a <> [] -> get_commitment kv m a <> [] ->
     cvalid (get_commitment kv m a) = true /\ In m (known_markets kv)).
Proof.
  intros ops kv. pose proof (crun_inv ops) as HI. pose proof (ci_KI _ _ HI : KI kv) as HK.
  split; [|split; [|split]].
  - intros m _. apply market_ok. exact HK.
  - apply all_ok_c. exact HK.
  - intros a _. exact (account_ok _ _ a HI).
  - intros m a Hm _ Hne.
    destruct (get_commitment_cases kv m a HK) as [E|[_ [_ [Hv [_ Hk]]]]]; [congruence|].
    split; [exact Hv|exact (known_of_get _ _ _ HI Hm Hk)].
Qed.

(** ================= (D) paging of the commitment listings ================= *)
Lemma commit_keys_nonempty : forall ops p k v,
  (p = p_commit_all \/ exists m, p = p_commit_mkt m) ->
  In (k, v) (pstore (cs_kv (crun ops)) p) -> k <> [].
Proof.
  intros ops p k v Hp Hin. pose proof (ci_KI _ _ (crun_inv ops)) as HK.
  destruct Hp as [->|[m ->]].
  - destruct (all_entry_c _ _ _ HK Hin) as [m [a [c [_ [_ [-> _]]]]]].
    intros E. apply app_eq_nil in E. destruct E as [_ E]. exact (len_prefix_ne _ E).
  - destruct (mkt_entry_c _ _ _ _ HK Hin) as [a [c [_ [-> _]]]]. apply len_prefix_ne.
Qed.

Lemma paging_complete_commitments : forall ops p limit reverse fuel,
  let l := pstore (cs_kv (crun ops)) p in
  (p = p_commit_all \/ exists m, p = p_commit_mkt m) ->
  1 <= limit -> N.of_nat (length l) + limit + 1 < two64 -> (length l < fuel)%nat ->
  follow_keys (fun rq => sdk_paginate l rq) fuel limit reverse [] = Some (if reverse then rev l else l) /\
  follow_offsets (fun rq => sdk_paginate l rq) fuel limit reverse 0 = Some (if reverse then rev l else l).
Proof.
  intros ops p limit reverse fuel l Hp HL Hb Hf.
  apply sdk_paging_complete; [|intros k v Hin|exact HL|exact Hb|exact Hf].
  - apply pstore_sorted. exact (proj1 (ci_KI _ _ (crun_inv ops))).
  - exact (commit_keys_nonempty ops p k v Hp Hin).
Qed.

Lemma commitment_entries_listed : forall ops, let kv := cs_kv (crun ops) in
  (forall m e, m < two32 -> In e (pstore kv (p_commit_mkt m)) -> exists a c, commitment_of_entry e = [(a, c)]) /\
  (forall e, In e (pstore kv p_commit_all) -> exists m a c, commitment_of_entry_all e = [(m, a, c)]).
Proof.
  intros ops kv. pose proof (ci_KI _ _ (crun_inv ops) : KI kv) as HK. split.
  - intros m [r v] _ Hin. destruct (mkt_entry_c _ _ _ _ HK Hin) as [a [c [_ [_ [_ [_ [_ [_ E]]]]]]]].
    exists a, c. exact E.
  - intros [r v] Hin. destruct (all_entry_c _ _ _ HK Hin) as [m [a [c [_ [_ [_ [_ [_ [_ [_ E]]]]]]]]]].
    exists m, a, c. exact E.
Qed.

(** ================= (E) non-vacuity ================= *)
Lemma example_chistory_ok :
  let s := crun example_chistory in
  markets_created_from cinit example_chistory = [1; 2; 5] /\
  known_markets (cs_kv s) = [1; 2; 5] /\
  market_commitments (cs_kv s) 1 = [([1;1;1], [(aaa, 5%Z)]); ([2;2;2], [(bbb, 11%Z)])] /\
  account_commitments (cs_kv s) [1;1;1] = [(1, [(aaa, 5%Z)]); (5, [(aaa, 1%Z)])] /\
  market_commitments (cs_kv s) 2 = [].
Proof. vm_compute. repeat split; reflexivity. Qed.

(** ================= nextMarketID always finds an id ================= *)
Lemma next_free_none : forall fuel kv id, next_free fuel kv id = None ->
  forall i, (i < fuel)%nat -> has kv (k_known ((id + N.of_nat i) mod two32)) = true.
Proof.
  induction fuel as [|fuel IH]; intros kv id H i Hi; [lia|].
  cbn [next_free] in H. destruct (has kv (k_known id)) eqn:Eh; [|discriminate].
  destruct i as [|i].
  - cbn [N.of_nat]. rewrite N.add_0_r, k_known_mod. exact Eh.
  - pose proof (IH _ _ H i ltac:(lia)) as Hi'.
    rewrite N.add_mod_idemp_l in Hi' by exact two32_ne0.
    replace (id + N.of_nat (S i)) with (id + 1 + N.of_nat i) by lia. exact Hi'.
Qed.

Lemma mod_cases : forall x, x < 2 * two32 ->
  x mod two32 = x \/ (two32 <= x /\ x mod two32 = x - two32).
Proof.
  intros x Hx. destruct (N.lt_ge_cases x two32) as [H|H].
  - left. apply N.mod_small. exact H.
  - right. split; [exact H|].
    replace x with ((x - two32) + 1 * two32) at 1 by lia.
    rewrite N.mod_add by exact two32_ne0. apply N.mod_small. lia.
Qed.

Lemma NoDup_map_inj : forall (A B : Type) (f : A -> B) l,
  (forall x y, In x l -> In y l -> f x = f y -> x = y) -> NoDup l -> NoDup (map f l).
Proof.
  intros A B f. induction l as [|x l IH]; intros Hinj Hn; cbn [map]; [constructor|].
  inversion Hn as [|y l' Hx Hl]; subst. constructor.
  - intros Hin. apply in_map_iff in Hin. destruct Hin as [y [Ey Hy]].
    assert (y = x) by (apply Hinj; [right; exact Hy|left; reflexivity|exact Ey]).
    subst y. contradiction.
  - apply IH; [|exact Hl]. intros a b Ha Hb. apply Hinj; right; assumption.
Qed.

Lemma next_free_total : forall kv id,
  sorted_keys kv -> id < two32 -> N.of_nat (length kv) < two32 ->
  next_free (S (length kv)) kv id <> None.
Proof.
  intros kv id _ Hid Hlen Hnone.
  pose proof (next_free_none _ _ _ Hnone) as Hall.
  set (f := fun i : nat => k_known ((id + N.of_nat i) mod two32)).
  assert (Hnd : NoDup (map f (seq 0 (S (length kv))))).
  { apply NoDup_map_inj; [|apply seq_NoDup].
    intros i j Hi Hj E. apply in_seq in Hi, Hj. unfold f, k_known in E. apply (f_equal (@tl N)) in E. cbn [tl] in E.
    apply u32be_inj in E; [|apply mod_lt32|apply mod_lt32].
    destruct (mod_cases (id + N.of_nat i)) as [Ei|[Li Ei]]; [lia| |];
      (destruct (mod_cases (id + N.of_nat j)) as [Ej|[Lj Ej]]; [lia| |]); lia. }
  assert (Hincl : incl (map f (seq 0 (S (length kv)))) (map fst kv)).
  { intros k Hk. apply in_map_iff in Hk. destruct Hk as [i [<- Hi]]. apply in_seq in Hi.
    assert (Hh : has kv (f i) = true) by (apply Hall; lia).
    unfold has in Hh. destruct (get kv (f i)) as [c|] eqn:G; [|discriminate].
    apply get_In in G. apply in_map_iff. exists (f i, c). split; [reflexivity|exact G]. }
  pose proof (NoDup_incl_length Hnd Hincl) as Hle.
  rewrite !map_length, seq_length in Hle. lia.
Qed.

Print Assumptions xrun_fst.
Print Assumptions xrun_snd.
Print Assumptions market_ids.
Print Assumptions create_market_fresh.
Print Assumptions next_market_id_spec.
Print Assumptions next_free_total.
Print Assumptions commitments_consistent.
Print Assumptions commit_keys_nonempty.
Print Assumptions paging_complete_commitments.
Print Assumptions commitment_entries_listed.
Print Assumptions example_chistory_ok.
