(** C13 proofs about Exchange/Commit.v: market ids and commitments.

    Along every history: market ids handed out are fresh, the known-market listing is exactly the
    created ids (ascending); the commitment listings (per market, all, per account) show exactly the
    stored non-zero commitments, once each; every stored commitment is a valid non-zero sdk.Coins
    of a known market; the prefix stores the commitment endpoints paginate over satisfy the
    hypotheses of the SDK paging completeness theorem. *)
From Coq Require Import ZArith NArith List Bool Lia Sorted.
From PV Require Import Exchange.KV Exchange.Index Exchange.Paging Exchange.Commit Proofs.KVProofs Proofs.IndexProofs Proofs.PaymentProofs Proofs.PagingProofs.
Import ListNotations.
Open Scope N_scope.

#[local] Arguments u32be : simpl never.
#[local] Arguments u64be : simpl never.

Lemma two32_pos : 0 < two32. Proof. reflexivity. Qed.
Lemma two32_gt1 : 1 < two32. Proof. reflexivity. Qed.
Lemma two32_ne0 : two32 <> 0. Proof. discriminate. Qed.

#[local] Opaque two32 two64 u64max.

(** ================= (A) joint histories decompose ================= *)
Lemma xrun_from_fst : forall xs s, fst (xrun_from s xs) = run_from (fst s) (flat_map proj_o xs).
Proof.
  induction xs as [|x xs IH]; intros s; [reflexivity|].
  unfold xrun_from in *. cbn [fold_left flat_map]. rewrite IH.
  unfold run_from. rewrite fold_left_app. f_equal.
  destruct x as [o|c]; cbn [proj_o fold_left xstep].
  - destruct (step (fst s) o) as [s1 ok]. reflexivity.
  - destruct (cstep (snd s) c) as [c1 ok]. reflexivity.
Qed.

Lemma xrun_from_snd : forall xs s, snd (xrun_from s xs) = crun_from (snd s) (flat_map proj_c xs).
Proof.
  induction xs as [|x xs IH]; intros s; [reflexivity|].
  unfold xrun_from in *. cbn [fold_left flat_map]. rewrite IH.
  unfold crun_from. rewrite fold_left_app. f_equal.
  destruct x as [o|c]; cbn [proj_c fold_left xstep].
  - destruct (step (fst s) o) as [s1 ok]. destruct o; reflexivity.
  - destruct (cstep (snd s) c) as [c1 ok]. reflexivity.
Qed.

Lemma xrun_fst : forall xs, fst (xrun xs) = run (flat_map proj_o xs).
Proof. intros xs. unfold xrun, run. rewrite xrun_from_fst. reflexivity. Qed.

Lemma xrun_snd : forall xs, snd (xrun xs) = crun (flat_map proj_c xs).
Proof. intros xs. unfold xrun, crun. rewrite xrun_from_snd. reflexivity. Qed.

(** ================= generic store facts (any value type) ================= *)
Lemma gse : forall (V : Type) (s : store V) k v, get (set s k v) k = Some v.
Proof. intros. rewrite get_set, key_eqb_refl. reflexivity. Qed.

Lemma gsn : forall (V : Type) (s : store V) k v k', k' <> k -> get (set s k v) k' = get s k'.
Proof. intros V s k v k' H. rewrite get_set. apply key_eqb_neq in H. rewrite H. reflexivity. Qed.

Lemma gde : forall (V : Type) (s : store V) k, get (del s k) k = None.
Proof. intros. rewrite get_del, key_eqb_refl. reflexivity. Qed.

Lemma gdn : forall (V : Type) (s : store V) k k', k' <> k -> get (del s k) k' = get s k'.
Proof. intros V s k k' H. rewrite get_del. apply key_eqb_neq in H. rewrite H. reflexivity. Qed.

Lemma hd_neq : forall (x y : N) (a b : list N), x <> y -> x :: a <> y :: b.
Proof. intros x y a b H E. injection E as E1 _. contradiction. Qed.

(** ================= u32 encoding ================= *)
Lemma u32be_mod : forall m, u32be (m mod two32) = u32be m.
Proof. intros m. unfold u32be. rewrite N.mod_mod by exact two32_ne0. reflexivity. Qed.

Lemma mod_lt32 : forall m, m mod two32 < two32.
Proof. intros m. apply N.mod_lt. exact two32_ne0. Qed.

Lemma decode_u32be : forall m, m < two32 -> be_decode (u32be m) = m.
Proof.
  intros m H. unfold u32be. rewrite N.mod_small by exact H.
  apply be_decode_be. rewrite <- two32_pow. exact H.
Qed.

Lemma firstn4_u32 : forall m (x : list N), firstn 4 (u32be m ++ x) = u32be m.
Proof. intros m x. pose proof (firstn_app_len _ (u32be m) x) as H. rewrite u32be_length in H. exact H. Qed.

Lemma skipn4_u32 : forall m (x : list N), skipn 4 (u32be m ++ x) = x.
Proof. intros m x. pose proof (skipn_app_len _ (u32be m) x) as H. rewrite u32be_length in H. exact H. Qed.

Lemma u32_from_bz_u32be : forall m, m < two32 -> u32_from_bz (u32be m) = Some m.
Proof.
  intros m H. unfold u32_from_bz. rewrite u32be_length. cbn [Nat.leb].
  rewrite <- (app_nil_r (u32be m)), firstn4_u32, decode_u32be by exact H. reflexivity.
Qed.

Lemma u32be_app_inj : forall m m' (x y : list N),
  u32be m ++ x = u32be m' ++ y -> u32be m = u32be m' /\ x = y.
Proof. intros m m' x y H. apply app_eq_len; [rewrite !u32be_length; reflexivity|exact H]. Qed.

Lemma len_prefix_inj0 : forall a b : list N, len_prefix a = len_prefix b -> a = b.
Proof. intros a b H. unfold len_prefix in H. injection H as _ H. exact H. Qed.

Lemma len_prefix_ne : forall a : list N, len_prefix a <> [].
Proof. intros a. unfold len_prefix. discriminate. Qed.

Lemma k_commit_eq : forall m a, k_commit m a = 99 :: (u32be m ++ len_prefix a).
Proof. reflexivity. Qed.

Lemma k_known_mod : forall m, k_known (m mod two32) = k_known m.
Proof. intros m. unfold k_known. rewrite u32be_mod. reflexivity. Qed.

Lemma parse_len_prefix : forall a : list N, a <> [] -> parse_len_prefixed (len_prefix a) = Some (a, []).
Proof. intros a Ha. rewrite <- (app_nil_r (len_prefix a)). apply parse_ok. exact Ha. Qed.

(** ================= sdk.Coins ================= *)
Definition clt (d : bytes) (c : coins) : Prop := forall x, In x (map fst c) -> key_lt d x.
Definition apos (c : coins) : Prop := Forall (fun x => (0 < snd x)%Z) c.
Definition dne (c : coins) : Prop := Forall (fun x => fst x <> []) c.

Lemma csorted_cons : forall r d v, csorted ((d, v) :: r) = true <-> (clt d r /\ csorted r = true).
Proof.
  induction r as [|[d2 v2] r IH]; intros d v.
  - cbn. split; [intros _; split; [intros x []|reflexivity]|reflexivity].
  - change (csorted ((d, v) :: (d2, v2) :: r)) with (key_ltb d d2 && csorted ((d2, v2) :: r)).
    rewrite andb_true_iff, key_ltb_lt. split.
    + intros [Hlt Hs]. split; [|exact Hs]. apply IH in Hs. destruct Hs as [Hc _].
      intros x Hx. cbn [map fst In] in Hx. destruct Hx as [<-|Hx]; [exact Hlt|].
      eapply key_lt_trans; [exact Hlt|apply Hc; exact Hx].
    + intros [Hc Hs]. split; [|exact Hs]. apply Hc. left. reflexivity.
Qed.

Lemma cadd1_keys : forall d v cs x, In x (map fst (cadd1 d v cs)) <-> x = d \/ In x (map fst cs).
Proof.
  intros d v cs x. induction cs as [|[d' v'] r IH]; cbn [cadd1].
  - cbn. intuition.
  - destruct (key_compare d d') eqn:E; cbn [map fst In].
    + apply key_compare_eq in E. subst d'. intuition.
    + intuition.
    + rewrite IH. intuition.
Qed.

Lemma cadd1_sorted : forall d v cs, csorted cs = true -> csorted (cadd1 d v cs) = true.
Proof.
  intros d v cs. induction cs as [|[d' v'] r IH]; intros Hs; cbn [cadd1]; [reflexivity|].
  pose proof Hs as Hs0. apply csorted_cons in Hs. destruct Hs as [Hc Hr].
  destruct (key_compare d d') eqn:E.
  - apply csorted_cons. split; assumption.
  - apply csorted_cons. split; [|exact Hs0].
    intros x Hx. cbn [map fst In] in Hx. destruct Hx as [<-|Hx]; [exact E|].
    eapply key_lt_trans; [exact E|apply Hc; exact Hx].
  - apply csorted_cons. split; [|apply IH; exact Hr].
    intros x Hx. apply cadd1_keys in Hx. destruct Hx as [->|Hx]; [|apply Hc; exact Hx].
    unfold key_lt. rewrite key_compare_antisym, E. reflexivity.
Qed.

Lemma cadd1_apos : forall d v cs, apos cs -> (0 < v)%Z -> apos (cadd1 d v cs).
Proof.
  intros d v cs Hp Hv. unfold apos in *. induction cs as [|[d' v'] r IH]; cbn [cadd1].
  - constructor; [exact Hv|constructor].
  - inversion Hp as [|x l Hx Hl]; subst. cbn [snd] in Hx.
    destruct (key_compare d d').
    + constructor; [cbn [snd]; lia|exact Hl].
    + constructor; [exact Hv|exact Hp].
    + constructor; [exact Hx|apply IH; exact Hl].
Qed.

Lemma cadd1_dne : forall d v cs, dne cs -> d <> [] -> dne (cadd1 d v cs).
Proof.
  intros d v cs Hp Hd. unfold dne in *. induction cs as [|[d' v'] r IH]; cbn [cadd1].
  - constructor; [exact Hd|constructor].
  - inversion Hp as [|x l Hx Hl]; subst. cbn [fst] in Hx.
    destruct (key_compare d d').
    + constructor; [exact Hx|exact Hl].
    + constructor; [exact Hd|exact Hp].
    + constructor; [exact Hx|apply IH; exact Hl].
Qed.

Lemma cadd_raw_cons : forall a x b, cadd_raw a (x :: b) = cadd_raw (cadd1 (fst x) (snd x) a) b.
Proof. reflexivity. Qed.

Lemma cadd_raw_sorted : forall b a, csorted a = true -> csorted (cadd_raw a b) = true.
Proof.
  induction b as [|x b IH]; intros a Ha; [exact Ha|].
  rewrite cadd_raw_cons. apply IH. apply cadd1_sorted. exact Ha.
Qed.

Lemma cadd_raw_apos : forall b a, apos a -> apos b -> apos (cadd_raw a b).
Proof.
  induction b as [|x b IH]; intros a Ha Hb; [exact Ha|].
  rewrite cadd_raw_cons. inversion Hb as [|y l Hy Hl]; subst.
  apply IH; [apply cadd1_apos; assumption|exact Hl].
Qed.

Lemma cadd_raw_dne : forall b a, dne a -> dne b -> dne (cadd_raw a b).
Proof.
  induction b as [|x b IH]; intros a Ha Hb; [exact Ha|].
  rewrite cadd_raw_cons. inversion Hb as [|y l Hy Hl]; subst.
  apply IH; [apply cadd1_dne; assumption|exact Hl].
Qed.

Lemma Forall_filter_sub : forall (A : Type) (P : A -> Prop) f (l : list A),
  Forall P l -> Forall P (filter f l).
Proof.
  intros A P f l H. rewrite Forall_forall in *. intros x Hx. apply filter_In in Hx. apply H, Hx.
Qed.

Lemma ctrim_sorted : forall c, csorted c = true -> csorted (ctrim c) = true.
Proof.
  induction c as [|[d v] r IH]; intros Hs; [reflexivity|].
  apply csorted_cons in Hs. destruct Hs as [Hc Hr].
  unfold ctrim in *. cbn [filter snd].
  destruct (negb (Z.eqb v 0)); [|apply IH; exact Hr].
  apply csorted_cons. split; [|apply IH; exact Hr].
  intros x Hx. apply Hc. apply in_map_iff in Hx. destruct Hx as [e [<- He]].
  apply filter_In in He. apply in_map. apply He.
Qed.

Lemma cvalid_iff : forall c, cvalid c = true <-> (csorted c = true /\ apos c /\ dne c).
Proof.
  intros c. unfold cvalid, apos, dne. rewrite andb_true_iff, forallb_forall, !Forall_forall.
  split.
  - intros [Hs H]. split; [exact Hs|]. split; intros x Hx; specialize (H x Hx);
      apply andb_true_iff in H; destruct H as [H1 H2].
    + apply Z.ltb_lt. exact H1.
    + intros E. rewrite E in H2. discriminate.
  - intros [Hs [H1 H2]]. split; [exact Hs|]. intros x Hx. apply andb_true_iff. split.
    + apply Z.ltb_lt. apply H1. exact Hx.
    + specialize (H2 x Hx). destruct (fst x); [congruence|reflexivity].
Qed.

Lemma cvalid_nil : cvalid [] = true.
Proof. reflexivity. Qed.

Lemma cadd_valid : forall a b, cvalid a = true -> cvalid b = true -> cvalid (cadd a b) = true.
Proof.
  intros a b Ha Hb. apply cvalid_iff in Ha. apply cvalid_iff in Hb.
  destruct Ha as [Sa [Pa Da]]. destruct Hb as [Sb [Pb Db]].
  apply cvalid_iff. unfold cadd. split; [|split].
  - apply ctrim_sorted, cadd_raw_sorted. exact Sa.
  - apply Forall_filter_sub. apply cadd_raw_apos; assumption.
  - apply Forall_filter_sub. apply cadd_raw_dne; assumption.
Qed.

Lemma cneg_dne : forall b, dne b -> dne (cneg b).
Proof.
  intros b H. unfold dne, cneg in *. rewrite Forall_forall in *. intros x Hx.
  apply in_map_iff in Hx. destruct Hx as [y [<- Hy]]. cbn [fst]. apply H. exact Hy.
Qed.

Lemma csub_valid : forall a b d, csub a b = Some d ->
  cvalid a = true -> cvalid b = true -> cvalid d = true.
Proof.
  intros a b d H Ha Hb. apply cvalid_iff in Ha. apply cvalid_iff in Hb.
  destruct Ha as [Sa [Pa Da]]. destruct Hb as [Sb [Pb Db]].
  unfold csub in H. cbv zeta in H.
  remember (ctrim (cadd_raw a (cneg b))) as d0 eqn:Ed.
  destruct (forallb (fun x => Z.ltb 0 (snd x)) d0) eqn:E; [|discriminate].
  injection H as <-. apply cvalid_iff. split; [|split].
  - subst d0. apply ctrim_sorted, cadd_raw_sorted. exact Sa.
  - unfold apos. rewrite Forall_forall. rewrite forallb_forall in E.
    intros x Hx. apply Z.ltb_lt. apply E. exact Hx.
  - subst d0. apply Forall_filter_sub. apply cadd_raw_dne; [exact Da|apply cneg_dne; exact Db].
Qed.

Lemma cis_zero_nil : cis_zero [] = true.
Proof. reflexivity. Qed.

Lemma cis_zero_false_ne : forall c, cis_zero c = false -> c <> [].
Proof. intros c H ->. discriminate. Qed.

Lemma cvalid_ne_nonzero : forall c, cvalid c = true -> c <> [] -> cis_zero c = false.
Proof.
  intros [|[d v] r] Hv Hne; [congruence|].
  apply cvalid_iff in Hv. destruct Hv as [_ [Hp _]].
  inversion Hp as [|x l Hx Hl]; subst. cbn [snd] in Hx.
  cbn [cis_zero forallb snd]. destruct (Z.eqb_spec v 0) as [E|E]; [lia|reflexivity].
Qed.

Lemma cvalid_zero_iff : forall c, cvalid c = true -> (cis_zero c = true <-> c = []).
Proof.
  intros c Hv. split; [|intros ->; reflexivity].
  intros Hz. destruct c as [|x r]; [reflexivity|].
  rewrite cvalid_ne_nonzero in Hz by (try exact Hv; discriminate). discriminate.
Qed.

(** ---- SimplifyAccountAmounts ---- *)
Definition eok (e : bytes * coins) : Prop := fst e <> [] /\ cvalid (snd e) = true.

Lemma simplify_add_ok : forall a c acc, a <> [] -> cvalid c = true ->
  Forall eok acc -> Forall eok (simplify_add a c acc).
Proof.
  intros a c acc Ha Hc. induction acc as [|[a' c'] r IH]; intros H; cbn [simplify_add].
  - constructor; [|constructor]. split; [exact Ha|]. cbn [snd]. apply cadd_valid; [reflexivity|exact Hc].
  - inversion H as [|x l Hx Hl]; subst. destruct Hx as [Hx1 Hx2]. cbn [fst snd] in *.
    destruct (bytes_eqb a a').
    + constructor; [|exact Hl]. split; [exact Hx1|]. cbn [snd]. apply cadd_valid; assumption.
    + constructor; [split; assumption|apply IH; exact Hl].
Qed.

Lemma simplify_fold_ok : forall es acc, Forall eok es -> Forall eok acc ->
  Forall eok (fold_left (fun acc e => simplify_add (fst e) (snd e) acc) es acc).
Proof.
  induction es as [|e es IH]; intros acc He Ha; [exact Ha|].
  inversion He as [|x l Hx Hl]; subst. destruct Hx as [Hx1 Hx2].
  cbn [fold_left]. apply IH; [exact Hl|]. apply simplify_add_ok; assumption.
Qed.

Lemma simplify_ok : forall es, Forall eok es -> Forall eok (simplify es).
Proof. intros es H. unfold simplify. apply simplify_fold_ok; [exact H|constructor]. Qed.

Lemma simplify_add_ne : forall a c acc, simplify_add a c acc <> [].
Proof.
  intros a c [|[a' c'] r]; cbn [simplify_add]; [discriminate|].
  destruct (bytes_eqb a a'); discriminate.
Qed.

Lemma simplify_fold_ne : forall es acc, acc <> [] ->
  fold_left (fun acc e => simplify_add (fst e) (snd e) acc) es acc <> [].
Proof.
  induction es as [|e es IH]; intros acc H; [exact H|].
  cbn [fold_left]. apply IH. apply simplify_add_ne.
Qed.

Lemma simplify_ne : forall es, es <> [] -> simplify es <> [].
Proof.
  intros [|e es] H; [congruence|]. unfold simplify. cbn [fold_left].
  apply simplify_fold_ne. apply simplify_add_ne.
Qed.

Lemma entry_ok_eok : forall es, forallb entry_ok es = true -> Forall eok es.
Proof.
  intros es H. rewrite forallb_forall in H. apply Forall_forall. intros e He.
  specialize (H e He). unfold entry_ok in H. rewrite !andb_true_iff in H.
  destruct H as [[H1 H2] _]. split; [apply addr_ok_ne; exact H1|exact H2].
Qed.

(** ================= the store-level invariant of the commitment entries ================= *)
Definition good_commit (kv : cst) (r : key) (v : cval) : Prop :=
  exists m a c, m < two32 /\ a <> [] /\ r = u32be m ++ len_prefix a /\ v = CCoins c /\
                cvalid c = true /\ c <> [] /\ get kv (k_known m) <> None.

Definition KI (kv : cst) : Prop :=
  sorted_keys kv /\ forall r v, get kv (99 :: r) = Some v -> good_commit kv r v.

Definition same7 (kv kv' : cst) : Prop := forall r, get kv' (7 :: r) = get kv (7 :: r).
Definition kmono (kv kv' : cst) : Prop :=
  forall m, get kv (k_known m) <> None -> get kv' (k_known m) <> None.

Lemma same7_refl : forall kv, same7 kv kv.
Proof. intros kv r. reflexivity. Qed.

Lemma same7_trans : forall a b c, same7 a b -> same7 b c -> same7 a c.
Proof. intros a b c H1 H2 r. rewrite H2. apply H1. Qed.

Lemma same7_kmono : forall kv kv', same7 kv kv' -> kmono kv kv'.
Proof. intros kv kv' H m Hm. unfold k_known in *. rewrite H. exact Hm. Qed.

Lemma same7_known : forall kv kv' m, same7 kv kv' -> get kv' (k_known m) = get kv (k_known m).
Proof. intros kv kv' m H. unfold k_known. apply H. Qed.

Lemma good_mono : forall kv kv' r v, kmono kv kv' -> good_commit kv r v -> good_commit kv' r v.
Proof.
  intros kv kv' r v Hm [m [a [c [H1 [H2 [H3 [H4 [H5 [H6 H7]]]]]]]]].
  exists m, a, c. repeat (split; [assumption|]). apply Hm. exact H7.
Qed.

Lemma KI_frame : forall kv kv', KI kv -> sorted_keys kv' -> kmono kv kv' ->
  (forall r v, get kv' (99 :: r) = Some v -> get kv (99 :: r) = Some v \/ good_commit kv' r v) ->
  KI kv'.
Proof.
  intros kv kv' [Hs Hc] Hs' Hm H. split; [exact Hs'|].
  intros r v G. destruct (H r v G) as [G0|Hg]; [|exact Hg].
  eapply good_mono; [exact Hm|]. apply Hc. exact G0.
Qed.

Lemma KI_nil : KI [].
Proof. split; [exact I|]. intros r v H. discriminate. Qed.

(** writes to keys of the other families *)
Lemma KI_set_other : forall kv x t v, KI kv -> x <> 99 ->
  KI (set kv (x :: t) v) /\ kmono kv (set kv (x :: t) v) /\
  (x <> 7 -> same7 kv (set kv (x :: t) v)).
Proof.
  intros kv x t v HK Hx.
  assert (Hm : kmono kv (set kv (x :: t) v)).
  { intros m Hm. rewrite get_set. destruct (key_eqb (k_known m) (x :: t)); [discriminate|exact Hm]. }
  split; [|split; [exact Hm|]].
  - apply KI_frame with (kv := kv); [exact HK|apply sorted_set; exact (proj1 HK)|exact Hm|].
    intros r v0 G. left. rewrite gsn in G; [exact G|]. apply hd_neq. congruence.
  - intros H7 r. apply gsn. apply hd_neq. congruence.
Qed.

Lemma KI_del_other : forall kv x t, KI kv -> x <> 99 -> x <> 7 ->
  KI (del kv (x :: t)) /\ same7 kv (del kv (x :: t)).
Proof.
  intros kv x t HK Hx H7.
  assert (Hs : same7 kv (del kv (x :: t))).
  { intros r. apply gdn. apply hd_neq. congruence. }
  split; [|exact Hs].
  apply KI_frame with (kv := kv); [exact HK|apply sorted_del; exact (proj1 HK)|apply same7_kmono; exact Hs|].
  intros r v0 G. left. rewrite gdn in G; [exact G|]. apply hd_neq. congruence.
Qed.

Lemma commit_entry : forall kv m a v, KI kv -> get kv (k_commit m a) = Some v ->
  a <> [] /\ exists c, v = CCoins c /\ cvalid c = true /\ c <> [] /\ get kv (k_known m) <> None.
Proof.
  intros kv m a v [_ Hc] G. rewrite k_commit_eq in G.
  destruct (Hc _ _ G) as [m' [a' [c [H1 [H2 [H3 [H4 [H5 [H6 H7]]]]]]]]].
  apply u32be_app_inj in H3. destruct H3 as [Em Ea]. apply len_prefix_inj0 in Ea. subst a'.
  split; [exact H2|]. exists c. repeat (split; [assumption|]).
  unfold k_known in *. rewrite Em. exact H7.
Qed.

Lemma get_commitment_cases : forall kv m a, KI kv ->
  get_commitment kv m a = [] \/
  (a <> [] /\ get kv (k_commit m a) = Some (CCoins (get_commitment kv m a)) /\
   cvalid (get_commitment kv m a) = true /\ get_commitment kv m a <> [] /\
   get kv (k_known m) <> None).
Proof.
  intros kv m a HK. unfold get_commitment.
  destruct (get kv (k_commit m a)) as [v|] eqn:G; [|left; reflexivity].
  destruct (commit_entry _ _ _ _ HK G) as [Ha [c [-> [Hv [Hne Hk]]]]].
  right. repeat (split; [assumption || reflexivity|]). exact Hk.
Qed.

Lemma get_commitment_valid : forall kv m a, KI kv -> cvalid (get_commitment kv m a) = true.
Proof.
  intros kv m a HK. destruct (get_commitment_cases kv m a HK) as [E|[_ [_ [H _]]]]; [|exact H].
  rewrite E. reflexivity.
Qed.

Lemma get_commitment_some : forall kv m a c, c <> [] ->
  (get_commitment kv m a = c <-> get kv (k_commit m a) = Some (CCoins c)).
Proof.
  intros kv m a c Hne. unfold get_commitment. split.
  - intros H. destruct (get kv (k_commit m a)) as [[c0|b]|]; congruence.
  - intros ->. reflexivity.
Qed.

(** setCommitmentAmount *)
Lemma set_commitment_ok : forall kv m a c, KI kv -> a <> [] -> cvalid c = true ->
  (c <> [] -> get kv (k_known m) <> None) ->
  KI (set_commitment kv m a c) /\ same7 kv (set_commitment kv m a c).
Proof.
  intros kv m a c HK Ha Hv Hk. unfold set_commitment. rewrite k_commit_eq.
  destruct (cis_zero c) eqn:Ez.
  - assert (Hs : same7 kv (del kv (99 :: u32be m ++ len_prefix a))).
    { intros r. apply gdn. apply hd_neq. discriminate. }
    split; [|exact Hs].
    apply KI_frame with (kv := kv);
      [exact HK|apply sorted_del; exact (proj1 HK)|apply same7_kmono; exact Hs|].
    intros r v G. left. rewrite get_del in G.
    destruct (key_eqb (99 :: r) (99 :: u32be m ++ len_prefix a)); [discriminate|exact G].
  - assert (Hs : same7 kv (set kv (99 :: u32be m ++ len_prefix a) (CCoins c))).
    { intros r. apply gsn. apply hd_neq. discriminate. }
    split; [|exact Hs].
    apply KI_frame with (kv := kv);
      [exact HK|apply sorted_set; exact (proj1 HK)|apply same7_kmono; exact Hs|].
    intros r v G. rewrite get_set in G.
    destruct (key_eqb (99 :: r) (99 :: u32be m ++ len_prefix a)) eqn:E; [|left; exact G].
    right. apply key_eqb_eq in E. injection E as ->. injection G as <-.
    exists (m mod two32), a, c.
    split; [apply mod_lt32|]. split; [exact Ha|]. split; [rewrite u32be_mod; reflexivity|].
    split; [reflexivity|]. split; [exact Hv|].
    pose proof (cis_zero_false_ne _ Ez) as Hne. split; [exact Hne|].
    rewrite k_known_mod. rewrite (same7_known _ _ m Hs). apply Hk. exact Hne.
Qed.

Lemma add_commitment_ok : forall kv m a amt, KI kv -> a <> [] -> cvalid amt = true ->
  get kv (k_known m) <> None ->
  KI (add_commitment kv m a amt) /\ same7 kv (add_commitment kv m a amt).
Proof.
  intros kv m a amt HK Ha Hv Hk. unfold add_commitment.
  apply set_commitment_ok; [exact HK|exact Ha| |intros _; exact Hk].
  apply cadd_valid; [apply get_commitment_valid; exact HK|exact Hv].
Qed.

Lemma add_fold_ok : forall m es kv, KI kv -> Forall eok es -> get kv (k_known m) <> None ->
  KI (fold_left (fun kv' e => add_commitment kv' m (fst e) (snd e)) es kv) /\
  same7 kv (fold_left (fun kv' e => add_commitment kv' m (fst e) (snd e)) es kv).
Proof.
  intros m. induction es as [|e es IH]; intros kv HK He Hk; [split; [exact HK|apply same7_refl]|].
  inversion He as [|x l [Hx1 Hx2] Hl]; subst. cbn [fold_left].
  destruct (add_commitment_ok kv m (fst e) (snd e) HK Hx1 Hx2 Hk) as [HK1 S1].
  destruct (IH _ HK1 Hl) as [HK2 S2]; [rewrite (same7_known _ _ m S1); exact Hk|].
  split; [exact HK2|]. eapply same7_trans; eassumption.
Qed.

(** ReleaseCommitment *)
Lemma release_one_ok : forall m kv e kv', KI kv -> cvalid (snd e) = true ->
  release_one m kv e = Some kv' ->
  KI kv' /\ same7 kv kv' /\ get kv (k_known m) <> None.
Proof.
  intros m kv [a amt] kv' HK Hv H. cbn [snd] in Hv. unfold release_one in H. cbv zeta in H.
  destruct (get_commitment_cases kv m a HK) as [E|[Ha [G [Hc [Hne Hk]]]]].
  - rewrite E in H. cbn [cis_zero forallb] in H. discriminate.
  - destruct (cis_zero (get_commitment kv m a)) eqn:Ez; [discriminate|].
    destruct (cis_zero amt) eqn:Ea.
    + injection H as <-.
      destruct (set_commitment_ok kv m a [] HK Ha eq_refl) as [K S]; [congruence|].
      split; [exact K|split; [exact S|exact Hk]].
    + destruct (csub (get_commitment kv m a) amt) as [d|] eqn:Es; [|discriminate].
      injection H as <-.
      destruct (set_commitment_ok kv m a d HK Ha) as [K S];
        [exact (csub_valid _ _ _ Es Hc Hv)|intros _; exact Hk|].
      split; [exact K|split; [exact S|exact Hk]].
Qed.

Lemma release_fold_ok : forall m es kv kv', KI kv ->
  Forall (fun e => cvalid (snd e) = true) es ->
  fold_opt (release_one m) es kv = Some kv' ->
  KI kv' /\ same7 kv kv' /\ (es <> [] -> get kv (k_known m) <> None).
Proof.
  intros m. induction es as [|e es IH]; intros kv kv' HK He H.
  - injection H as <-. split; [exact HK|split; [apply same7_refl|congruence]].
  - inversion He as [|x l Hx Hl]; subst. cbn [fold_opt] in H.
    destruct (release_one m kv e) as [kv1|] eqn:E; [|discriminate].
    destruct (release_one_ok _ _ _ _ HK Hx E) as [K1 [S1 Hk]].
    destruct (IH _ _ K1 Hl H) as [K2 [S2 _]].
    split; [exact K2|split; [eapply same7_trans; eassumption|intros _; exact Hk]].
Qed.

Lemma eok_valid : forall es, Forall eok es -> Forall (fun e => cvalid (snd e) = true) es.
Proof. intros es H. eapply Forall_impl; [|exact H]. intros e [_ He]. exact He. Qed.

(** the operations on the key/value store *)
Lemma set_accepting_ok : forall kv m b kv', KI kv -> set_accepting kv m b = Some kv' ->
  KI kv' /\ same7 kv kv'.
Proof.
  intros kv m b kv' HK H. unfold set_accepting in H.
  destruct (negb (mkt_ok m)); [discriminate|].
  destruct (Bool.eqb (has kv (k_accepting m)) b); [discriminate|].
  injection H as <-. unfold k_accepting. destruct b.
  - destruct (KI_set_other kv 1 (u32be m ++ [16]) (CRaw []) HK) as [K [_ S]]; [discriminate|].
    split; [exact K|apply S; discriminate].
  - apply KI_del_other; [exact HK|discriminate|discriminate].
Qed.

Lemma commit_funds_ok : forall kv m a amt kv', KI kv -> commit_funds kv m a amt = Some kv' ->
  KI kv' /\ same7 kv kv'.
Proof.
  intros kv m a amt kv' HK H. unfold commit_funds in H.
  destruct (mkt_ok m && addr_ok a && cvalid amt && negb (cis_zero amt)) eqn:E1; cbn [negb] in H;
    [|discriminate].
  destruct (has kv (k_known m) && has kv (k_accepting m)) eqn:E2; cbn [negb] in H; [|discriminate].
  injection H as <-. rewrite !andb_true_iff in E1. destruct E1 as [[[_ Ha] Hv] _].
  apply andb_true_iff in E2. destruct E2 as [Hk _].
  apply add_commitment_ok; [exact HK|apply addr_ok_ne; exact Ha|exact Hv|].
  unfold has in Hk. destruct (get kv (k_known m)); [discriminate|discriminate].
Qed.

Lemma release_commitments_ok : forall kv m es kv', KI kv ->
  release_commitments kv m es = Some kv' -> KI kv' /\ same7 kv kv'.
Proof.
  intros kv m es kv' HK H. unfold release_commitments in H.
  destruct (mkt_ok m && nonempty es && forallb (fun e => addr_ok (fst e) && cvalid (snd e)) es) eqn:E;
    cbn [negb] in H; [|discriminate].
  rewrite !andb_true_iff in E. destruct E as [_ Hf].
  assert (Hv : Forall (fun e => cvalid (snd e) = true) es).
  { apply Forall_forall. intros e He. rewrite forallb_forall in Hf. specialize (Hf e He).
    apply andb_true_iff in Hf. apply Hf. }
  destruct (release_fold_ok _ _ _ _ HK Hv H) as [K [S _]]. split; assumption.
Qed.

Lemma settle_commitments_ok : forall kv m ins outs fees kv', KI kv ->
  settle_commitments kv m ins outs fees = Some kv' -> KI kv' /\ same7 kv kv'.
Proof.
  intros kv m ins outs fees kv' HK H. unfold settle_commitments in H.
  destruct (mkt_ok m && nonempty ins && nonempty outs && forallb entry_ok ins &&
            forallb entry_ok outs && forallb entry_ok fees && coins_eqb (csum ins) (csum outs)) eqn:E;
    cbn [negb] in H; [|discriminate].
  rewrite !andb_true_iff in E. destruct E as [[[[[[_ Hni] _] Hi] Ho] Hf] _].
  apply entry_ok_eok in Hi, Ho, Hf.
  destruct (fold_opt (release_one m) (simplify (simplify ins ++ simplify fees)) kv) as [kv1|] eqn:E1;
    [|discriminate].
  injection H as <-.
  assert (Hrel : Forall eok (simplify (simplify ins ++ simplify fees))).
  { apply simplify_ok. apply Forall_app. split; apply simplify_ok; assumption. }
  assert (Hne : simplify (simplify ins ++ simplify fees) <> []).
  { apply simplify_ne. intros E0. apply app_eq_nil in E0. destruct E0 as [E0 _].
    revert E0. apply simplify_ne. destruct ins; [discriminate|discriminate]. }
  destruct (release_fold_ok _ _ _ _ HK (eok_valid _ Hrel) E1) as [K1 [S1 Hk]].
  specialize (Hk Hne).
  destruct (add_fold_ok m (simplify outs) kv1 K1 (simplify_ok _ Ho)) as [K2 S2];
    [rewrite (same7_known _ _ m S1); exact Hk|].
  split; [exact K2|eapply same7_trans; eassumption].
Qed.

Lemma close_fold_ok : forall m (l : list (key * cval)) kv, KI kv ->
  let g := fun kv' (e : key * cval) =>
             match parse_len_prefixed (fst e) with
             | Some (a, []) => match release_one m kv' (a, []) with Some kv'' => kv'' | None => kv' end
             | _ => kv'
             end in
  KI (fold_left g l kv) /\ same7 kv (fold_left g l kv).
Proof.
  intros m l. induction l as [|e l IH]; intros kv HK g; [split; [exact HK|apply same7_refl]|].
  cbn [fold_left].
  assert (H1 : KI (g kv e) /\ same7 kv (g kv e)).
  { unfold g. destruct (parse_len_prefixed (fst e)) as [[a [|x t]]|];
      try (split; [exact HK|apply same7_refl]).
    destruct (release_one m kv (a, [])) as [kv1|] eqn:E; [|split; [exact HK|apply same7_refl]].
    destruct (release_one_ok m kv (a, []) kv1 HK eq_refl E) as [K [S _]]. split; assumption. }
  destruct H1 as [K1 S1]. destruct (IH _ K1) as [K2 S2].
  split; [exact K2|eapply same7_trans; eassumption].
Qed.

Lemma close_commitments_ok : forall kv m, KI kv ->
  KI (close_commitments kv m) /\ same7 kv (close_commitments kv m).
Proof.
  intros kv m HK. unfold close_commitments. cbv zeta. unfold k_accepting.
  destruct (KI_del_other kv 1 (u32be m ++ [16]) HK) as [K0 S0]; [discriminate|discriminate|].
  destruct (close_fold_ok m (pstore (del kv (1 :: u32be m ++ [16])) (p_commit_mkt m)) _ K0) as [K1 S1].
  split; [exact K1|eapply same7_trans; eassumption].
Qed.
