(** Lemmas about Exchange/PermCommit.v: the governance-reserved branch of MarketUpdateAcceptingCommitments. *)
From Coq Require Import List String Bool NArith.
From PV Require Import Exchange.Perms Exchange.GovGuards Exchange.GuardPaths Exchange.PermCommit
  Gen.GenExchangePerms Gen.GenHandlerPaths Proofs.PermsProofs.
Import ListNotations.
Open Scope string_scope.

Lemma commit_tables_check :
  commit_rule_checked = true /\ reserved_branch_endpoints = ["MarketUpdateAcceptingCommitments"].
Proof. vm_compute. split; reflexivity. Qed.

Lemma row_of : forall name, lookup_endpoint name <> None -> exists row, In row gen_endpoints /\ ep_name row = name.
Proof.
  intros name H. destruct (lookup_endpoint name) as [row |] eqn:L; [| contradiction].
  unfold lookup_endpoint in L. apply find_some in L as [Hin Hn]. apply String.eqb_eq in Hn.
  exists row. split; assumption.
Qed.

Lemma update_endpoint_sound : forall name, (name = "MarketUpdateAcceptingCommitments" \/ name = "MarketUpdateIntermediaryDenom") ->
  forall auth st m caller, endpoint_allowed name auth st m caller = true -> caller = auth \/ In (m, caller, PUpdate) st.
Proof.
  intros name Hn auth st m caller H.
  assert (Hrow : exists row, In row gen_endpoints /\ ep_name row = name).
  { apply row_of. destruct Hn; subst; vm_compute; discriminate. }
  destruct Hrow as [row [Hin Hname]].
  pose proof (endpoint_needs_its_permission row Hin auth st m caller) as Hp. rewrite Hname in Hp. specialize (Hp H).
  assert (Hd : documented_requirement name = RPerm PUpdate) by (destruct Hn; subst; vm_compute; reflexivity).
  rewrite Hd in Hp. exact Hp.
Qed.

Lemma update_endpoint_complete : forall auth st m caller,
  caller = auth \/ In (m, caller, PUpdate) st ->
  endpoint_allowed "MarketUpdateAcceptingCommitments" auth st m caller = true.
Proof.
  intros auth st m caller H. unfold endpoint_allowed.
  assert (Hr : endpoint_requirement "MarketUpdateAcceptingCommitments" = RPerm PUpdate) by (vm_compute; reflexivity).
  rewrite Hr. cbn. apply has_permission_complete. exact H.
Qed.

Lemma fees_endpoint_sound : forall auth st m caller,
  endpoint_allowed "GovManageFees" auth st m caller = true -> caller = auth.
Proof.
  intros auth st m caller H. unfold endpoint_allowed in H.
  assert (Hr : endpoint_requirement "GovManageFees" = RAuthority) by (vm_compute; reflexivity).
  rewrite Hr in H. cbn in H. apply N.eqb_eq. exact H.
Qed.

(** Exactly who turns the flag, and when. *)
Lemma accepting_iff : forall auth st m c caller new_allow,
  snd (commit_step auth st m c (CoAccepting caller new_allow)) = true <->
  (caller = auth \/ In (m, caller, PUpdate) st) /\
  mc_accepting c <> new_allow /\
  (caller = auth \/ new_allow = false \/ mc_bips c = true \/ mc_cfee c = true).
Proof.
  intros auth st m c caller new_allow. destruct commit_tables_check as [Hc _].
  cbn [commit_step]. rewrite Hc. unfold validate_accepting, is_authority. split.
  - intro H.
    destruct (endpoint_allowed _ auth st m caller) eqn:E; [| discriminate H].
    apply (update_endpoint_sound _ (or_introl eq_refl)) in E.
    destruct (N.eqb caller auth) eqn:Ea; cbn [orb] in H.
    + apply N.eqb_eq in Ea. destruct (Bool.eqb (mc_accepting c) new_allow) eqn:Eb; [discriminate H |].
      split; [exact E |]. split; [intro Hc'; rewrite Hc' in Eb; rewrite Bool.eqb_reflx in Eb; discriminate Eb | left; exact Ea].
    + destruct (Bool.eqb (mc_accepting c) new_allow) eqn:Eb; cbn [negb andb] in H; [discriminate H |].
      destruct (negb new_allow || mc_bips c || mc_cfee c) eqn:Ev; [| discriminate H].
      split; [exact E |]. split; [intro Hc'; rewrite Hc' in Eb; rewrite Bool.eqb_reflx in Eb; discriminate Eb |].
      right. apply orb_true_iff in Ev as [Ev | Ev]; [| right; right; exact Ev].
      apply orb_true_iff in Ev as [Ev | Ev]; [left; apply negb_true_iff; exact Ev | right; left; exact Ev].
  - intros [Hp [Hne Hcond]].
    rewrite (update_endpoint_complete auth st m caller Hp).
    assert (Eb : Bool.eqb (mc_accepting c) new_allow = false).
    { destruct (Bool.eqb (mc_accepting c) new_allow) eqn:Eb; [| reflexivity].
      apply Bool.eqb_prop in Eb. contradiction. }
    rewrite Eb. cbn [negb andb].
    destruct Hcond as [Ha | Hrest].
    + subst caller. rewrite N.eqb_refl. reflexivity.
    + assert (Ev : negb new_allow || mc_bips c || mc_cfee c = true).
      { destruct Hrest as [H | [H | H]]; rewrite H; cbn; try reflexivity.
        - destruct (negb new_allow); reflexivity.
        - destruct (negb new_allow), (mc_bips c); reflexivity. }
      rewrite Ev. destruct (N.eqb caller auth); reflexivity.
Qed.

(** The reserved branch: without commitment fees, only the authority turns commitments on. *)
Lemma reserved_for_authority : forall auth st m c caller c',
  commit_step auth st m c (CoAccepting caller true) = (c', true) ->
  mc_bips c = false -> mc_cfee c = false -> caller = auth.
Proof.
  intros auth st m c caller c' H Hb Hf.
  assert (Hs : snd (commit_step auth st m c (CoAccepting caller true)) = true) by (rewrite H; reflexivity).
  apply accepting_iff in Hs as [_ [_ [Ha | [Hn | [Hx | Hx]]]]]; [exact Ha | discriminate Hn | |].
  - rewrite Hb in Hx. discriminate Hx.
  - rewrite Hf in Hx. discriminate Hx.
Qed.

Lemma fees_only_by_authority : forall auth st m c caller a r sb ub c',
  commit_step auth st m c (CoFees caller a r sb ub) = (c', true) -> caller = auth.
Proof.
  intros auth st m c caller a r sb ub c' H. cbn [commit_step] in H.
  destruct (endpoint_allowed "GovManageFees" auth st m caller) eqn:E; [| inversion H].
  exact (fees_endpoint_sound auth st m caller E).
Qed.

Lemma commit_step_rejected_unchanged : forall auth st m c op c', commit_step auth st m c op = (c', false) -> c' = c.
Proof.
  intros auth st m c op c' H. destruct op as [caller n | caller d | caller a r sb ub]; cbn [commit_step] in H.
  - destruct (endpoint_allowed _ _ _ _ _); [| inversion H; reflexivity].
    destruct (if commit_rule_checked then _ else true); [| inversion H; reflexivity].
    destruct (Bool.eqb _ _); inversion H; reflexivity.
  - destruct (endpoint_allowed _ _ _ _ _); inversion H; reflexivity.
  - destruct (endpoint_allowed _ _ _ _ _); inversion H; reflexivity.
Qed.

(** No history without the authority starts commitments in a market that has no commitment fees -
    whatever the other accounts do to the intermediary denom and however often they try. *)
Lemma no_commitments_without_authority : forall auth st m ops c,
  (forall op, In op ops -> cop_caller op <> auth) ->
  mc_accepting c = false -> mc_bips c = false -> mc_cfee c = false ->
  let c' := commit_run auth st m c ops in
  mc_accepting c' = false /\ mc_bips c' = false /\ mc_cfee c' = false.
Proof.
  intros auth st m ops. unfold commit_run.
  induction ops as [| op ops IH]; intros c Hops Ha Hb Hf; cbn [fold_left]; [auto |].
  assert (Hna : cop_caller op <> auth) by (apply Hops; left; reflexivity).
  assert (Hinv : let c1 := fst (commit_step auth st m c op) in
                 mc_accepting c1 = false /\ mc_bips c1 = false /\ mc_cfee c1 = false).
  { destruct (commit_step auth st m c op) as [c1 ok] eqn:S. cbn [fst].
    destruct ok; [| apply commit_step_rejected_unchanged in S; subst c1; auto].
    destruct op as [caller n | caller d | caller a r sb ub]; cbn [cop_caller] in Hna.
    - destruct n.
      + exfalso. apply Hna. exact (reserved_for_authority auth st m c caller c1 S Hb Hf).
      + assert (Hs : snd (commit_step auth st m c (CoAccepting caller false)) = true) by (rewrite S; reflexivity).
        apply accepting_iff in Hs as [_ [Hne _]]. rewrite Ha in Hne. exfalso. apply Hne. reflexivity.
    - cbn [commit_step] in S. destruct (endpoint_allowed _ _ _ _ _); inversion S; subst c1. cbn. auto.
    - exfalso. apply Hna. exact (fees_only_by_authority auth st m c caller a r sb ub c1 S). }
  destruct Hinv as [H1 [H2 H3]].
  apply IH; [intros op' Hin; apply Hops; right; exact Hin | exact H1 | exact H2 | exact H3].
Qed.
