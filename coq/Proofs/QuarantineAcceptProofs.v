(** A quarantine record with accepted AND unaccepted senders is reachable from a valid genesis
    by one MsgAccept, and the export / import round trip then changes both the state and the
    outcome of later messages (property C18; finding "quarantine export drops accepted senders").
    Closed under the global context (a concrete witness, evaluated by vm_compute). *)
From Coq Require Import ZArith NArith List Bool.
From PV Require Import Genesis.RoundTrip Genesis.QuarantineAccept.
Import ListNotations.
Open Scope Z_scope.

Definition w_hash : key -> key := fun k => k.         (* an injective stand-in for sha256 *)
Definition w_holder : key -> Z := fun _ => 1000.
Definition w_T : key := [7%N].
Definition w_A : key := [3%N].
Definition w_B : key := [4%N].

(** a genesis with ONE record from TWO senders (GenesisState.Validate and InitGenesis accept it) *)
Definition w_genesis : quar_genesis :=
  {| qg_addrs := [w_T]; qg_autos := [];
     qg_funds := [ {| qf_to := w_T; qf_unaccepted := [w_A; w_B]; qf_coins := [([112%N], 9)];
                      qf_declined := false |} ] |}.

Definition w_s0 : quar_state :=
  match quar_import (sorted_rec_id w_hash) w_holder w_genesis with
  | Some s => s
  | None => {| qs_optins := []; qs_autos := []; qs_recs := [] |}
  end.
Definition w_s1 : quar_state := quar_accept w_hash w_T [w_A] w_s0.          (* MsgAccept{to T, from [A]} *)
Definition w_s' : quar_state :=
  match quar_import (sorted_rec_id w_hash) w_holder (quar_export w_s1) with
  | Some s => s
  | None => {| qs_optins := []; qs_autos := []; qs_recs := [] |}
  end.

Lemma quar_reachable_divergence :
  exists hash holder g s0 s1 s',
    quar_import (sorted_rec_id hash) holder g = Some s0 /\
    s1 = quar_accept hash w_T [w_A] s0 /\
    (exists r, In r (map snd (qs_recs s1)) /\ qr_accepted r <> [] /\ qr_unaccepted r <> []) /\
    quar_import (sorted_rec_id hash) holder (quar_export s1) = Some s' /\
    s' <> s1 /\ quar_export s' = quar_export s1 /\
    (* the same two messages, Decline{from [A]} then Accept{from [B]}: the exporting chain keeps
       the funds quarantined, the imported chain has released them *)
    qs_recs (quar_accept hash w_T [w_B] (quar_decline hash w_T [w_A] s1)) <> [] /\
    qs_recs (quar_accept hash w_T [w_B] (quar_decline hash w_T [w_A] s')) = [].
Proof.
  exists w_hash, w_holder, w_genesis, w_s0, w_s1, w_s'.
  split; [vm_compute; reflexivity|].
  split; [reflexivity|].
  split.
  { eexists. split; [vm_compute; left; reflexivity|]. split; vm_compute; discriminate. }
  split; [vm_compute; reflexivity|].
  split; [intro H; apply (f_equal qs_recs) in H; vm_compute in H; discriminate H|].
  split; [vm_compute; reflexivity|].
  split; [vm_compute; discriminate | vm_compute; reflexivity].
Qed.
