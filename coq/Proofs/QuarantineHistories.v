(** The deepened C07 statements lifted over all histories of [PV.Quarantine.Quarantine]:
    each lemma here is the exact statement of a theorem of Properties/C07.v. *)
From Coq Require Import ZArith PArith List Bool Lia ZifyBool Permutation.
From PV Require Import Quarantine.Quarantine Proofs.QuarantineProofs Proofs.QuarantineIndex Proofs.QuarantineSteps
  Proofs.QuarantineTransfers Proofs.QuarantineLiveness.
Import ListNotations.
Open Scope Z_scope.

Section Histories.
Variable h : addr.

Lemma signers_named ops : Forall (signer_ok h) ops -> Forall named_ok ops.
Proof. intros H. eapply Forall_impl; [|exact H]. intros o. apply signer_named. Qed.

(** C07_suffix_index_sound *)
Lemma suffix_index_sound_hist : forall s0 ops,
  good s0 -> Forall named_ok ops ->
  let s := run h s0 ops in
  good s /\
  (forall k r f, rget k (s_recs s) = Some r -> is_multi (all_froms r) = true -> In f (all_froms r) ->
     In (snd k) (idx_get (s_idx s) (fst k) f)) /\
  (forall k r f froms, rget k (s_recs s) = Some r -> In f (all_froms r) -> In f froms ->
     In (k, r) (get_records s (fst k) froms)).
Proof.
  intros s0 ops Hg Hno. cbn zeta. destruct (run_good h ops s0 Hg Hno) as [Hg' _].
  split; [exact Hg'|]. destruct Hg' as (Hw & Hi & _). split; [intros k r f A B C; exact (Hi k r A B f C)|].
  intros k r f froms Hr Hf Hfr. apply (get_records_complete _ _ _ _ _ Hw Hi Hr Hf Hfr).
Qed.

(** C07_transfer_pairs *)
Lemma transfer_pairs_hist : forall s0 ops o s' res,
  good s0 -> Forall named_ok ops -> is_transfer o ->
  let s := run h s0 ops in
  step h s o = (s', Some res) ->
  let ts := transfers_of o in
  (forall a d, s_bal s' a d = s_bal s a d - debited (inputs_of o) a d + credited h s ts a d) /\
  (forall k d, old k (s_recs s') d = old k (s_recs s) d + recorded h s ts k d) /\
  (forall k, (forall t, In t ts -> is_quarantined h s (x_from t) (x_to t) = false \/ k <> rec_key t) ->
             rget k (s_recs s') = rget k (s_recs s)) /\
  (forall to, to <> h -> ~ In to (map fst (inputs_of o)) ->
     (forall t, In t ts -> x_to t = to -> is_quarantined h s (x_from t) to = true) ->
     forall d, s_bal s' to d = s_bal s to d) /\
  (signer_ok h o -> forall d, s_bal s' h d = s_bal s h d + credited h s ts h d) /\
  s_optin s' = s_optin s /\ s_auto s' = s_auto s.
Proof.
  intros s0 ops o s' res Hg Hno Ht. cbn zeta. set (s := run h s0 ops).
  destruct (run_good h ops s0 Hg Hno) as [(Hw & _) _]. fold s in Hw. intros Hst.
  destruct (transfer_spec h s o s' res Hw Ht Hst) as (_ & [Ho Ha] & Hb & Hr & Hk).
  split; [exact Hb|]. split; [exact Hr|]. split; [exact Hk|]. split; [|split; [|split; [exact Ho | exact Ha]]].
  - intros to Hth Hni Hall d. rewrite Hb, (debited_not_input _ _ _ Hni), (credited_all_quarantined h s _ to d Hth Hall). lia.
  - intros Hs d. rewrite Hb, (debited_not_input _ _ _ (signer_inputs h o Hs)). lia.
Qed.

(** C07_only_accept_lowers_holder *)
Definition not_accept (o : op) : Prop := forall to froms perm, o <> OAccept to froms perm.

Lemma only_accept_lowers_holder_hist : forall s0 ops,
  good s0 -> Forall named_ok ops ->
  let s := run h s0 ops in
  (forall o s' res, signer_ok h o -> not_accept o -> step h s o = (s', res) -> forall d, s_bal s h d <= s_bal s' h d) /\
  (forall ops2, Forall (signer_ok h) ops2 -> Forall not_accept ops2 -> forall d, s_bal s h d <= s_bal (run h s ops2) h d).
Proof.
  intros s0 ops Hg Hno. cbn zeta. destruct (run_good h ops s0 Hg Hno) as [Hg' _]. set (s := run h s0 ops) in *.
  split.
  - intros o s' res Hs Hna Hst d. destruct Hg' as (Hw & _). apply (only_accept_lowers_holder h s o s' res Hw Hs Hst Hna d).
  - clearbody s. clear Hg Hno. intros ops2. revert s Hg'. induction ops2 as [|o ops2 IH]; intros s Hg Hs Hna d; cbn [run fold_left]; [lia|].
    inversion Hs as [|? ? Hs1 Hs2]; subst. inversion Hna as [|? ? Hn1 Hn2]; subst.
    destruct (step h s o) as [s1 res] eqn:E. cbn [fst]. fold (run h s1 ops2).
    destruct (step_good h _ _ _ _ Hg (signer_named h o Hs1) E) as [Hg1 _].
    pose proof (only_accept_lowers_holder h s o s1 res (proj1 Hg) Hs1 E Hn1 d).
    specialize (IH s1 Hg1 Hs2 Hn2 d). lia.
Qed.

(** C07_accept_pays_out *)
Lemma accept_pays_out_hist : forall s0 ops to froms perm k r,
  good s0 -> covers h s0 -> Forall (signer_ok h) ops -> to <> h -> inj_named froms ->
  let s := run h s0 ops in
  rget k (s_recs s) = Some r -> fst k = to -> incl (q_unacc r) froms ->
  exists s' rel,
    step h s (OAccept to froms perm) = (s', Some rel) /\
    rget k (s_recs s') = None /\
    (forall d, amt (q_coins r) d <= amt rel d) /\
    (forall d, s_bal s' to d = s_bal s to d + amt rel d) /\
    (forall d, s_bal s' h d = s_bal s h d - amt rel d).
Proof.
  intros s0 ops to froms perm k r Hg Hc Hs Hth Hinj. cbn zeta. set (s := run h s0 ops).
  destruct (run_good h ops s0 Hg (signers_named ops Hs)) as [Hg' _]. fold s in Hg'.
  destruct (holder_covers_records h s0 ops (proj1 Hg) Hc Hs) as (_ & Hc' & _). fold s in Hc'.
  intros Hr Hto Hincl.
  destruct (accept_pays_out h s to froms perm k r Hg' Hc' Hth Hinj Hr Hto Hincl) as (s' & rel & Ha & Hk & Hrel).
  exists s', rel. cbn [step]. rewrite Ha. split; [reflexivity|]. split; [exact Hk|]. split; [exact Hrel|].
  destruct (accept_spec h _ _ _ _ _ _ (proj1 Hg') Hinj Ha) as (_ & _ & Hb & _).
  split; intros d; rewrite Hb; unfold bal_add, bal_sub; rewrite Pos.eqb_refl.
  - destruct (Pos.eqb_spec to h); [contradiction | reflexivity].
  - destruct (Pos.eqb_spec h to); [congruence | reflexivity].
Qed.

(** C07_decline_revokes_acceptance *)
Lemma decline_revokes_hist : forall s0 ops to froms perm k r f,
  good s0 -> Forall named_ok ops -> inj_named froms ->
  let s := run h s0 ops in
  rget k (s_recs s) = Some r -> fst k = to -> In f (all_froms r) -> In f froms ->
  exists s' r',
    step h s (ODecline to froms perm) = (s', Some []) /\
    rget k (s_recs s') = Some r' /\ In f (q_unacc r') /\ incl (q_unacc r) (q_unacc r') /\
    q_coins r' = q_coins r /\ q_declined r' = true /\
    (forall a d, s_bal s' a d = s_bal s a d) /\
    (* the record stays, with [f] unaccepted and no coin lost, through every continuation in
       which [to] does not send an Accept that names [f] *)
    (forall ops2, Forall named_ok ops2 -> Forall (fun o => ~ accepts_sender to f o) ops2 ->
       exists r2, rget k (s_recs (run h s' ops2)) = Some r2 /\ In f (q_unacc r2) /\
                  forall d, amt (q_coins r) d <= amt (q_coins r2) d).
Proof.
  intros s0 ops to froms perm k r f Hg Hno Hinj. cbn zeta. set (s := run h s0 ops).
  destruct (run_good h ops s0 Hg Hno) as [Hg' _]. fold s in Hg'. intros Hr Hto Hf Hfr.
  destruct (decline_revokes s to froms perm k r f Hg' Hinj Hr Hto Hf Hfr) as (s' & Hd & Hb & r' & Hr' & Hf' & Hinc & Hco & Hde).
  exists s', r'. cbn [step]. unfold lift. rewrite Hd. split; [reflexivity|].
  split; [exact Hr'|]. split; [exact Hf'|]. split; [exact Hinc|]. split; [exact Hco|]. split; [exact Hde|].
  split; [exact Hb|].
  intros ops2 Hno2 Hna.
  assert (Hg1 : good s').
  { assert (Hst : step h s (ODecline to froms perm) = (s', Some [])) by (cbn [step]; unfold lift; rewrite Hd; reflexivity).
    apply (step_good h s (ODecline to froms perm) s' (Some []) Hg' Hinj Hst). }
  rewrite <- Hto in Hna.
  destruct (run_keeps h ops2 k f s' Hg1 Hno2 Hna r' Hr' Hf') as (r2 & Hr2 & Hf2 & Hc2).
  exists r2. split; [exact Hr2|]. split; [exact Hf2|]. intros d. rewrite <- Hco. apply Hc2.
Qed.

(** C07_unaccepted_sender_blocks_payout *)
Lemma unaccepted_blocks_payout_hist : forall s0 ops k r f ops2,
  good s0 -> Forall named_ok ops -> Forall named_ok ops2 ->
  let s := run h s0 ops in
  rget k (s_recs s) = Some r -> In f (q_unacc r) ->
  Forall (fun o => ~ accepts_sender (fst k) f o) ops2 ->
  exists r2, rget k (s_recs (run h s ops2)) = Some r2 /\ In f (q_unacc r2) /\
             forall d, amt (q_coins r) d <= amt (q_coins r2) d.
Proof.
  intros s0 ops k r f ops2 Hg Hno Hno2. cbn zeta. destruct (run_good h ops s0 Hg Hno) as [Hg' _].
  intros Hr Hf Hna. apply (run_keeps h ops2 k f _ Hg' Hno2 Hna r Hr Hf).
Qed.

End Histories.
