(** C20: a market created over left-over entries.  storeMarket rewrites every entry of the id, so
    what a created market holds - and hence whom it admits - depends on the creation request only,
    whatever configuration messages were sent for that id before the market existed. *)
From Coq Require Import ZArith List Bool String Ascii Lia.
From PV Require Import Exchange.Arith Exchange.ReqAttr Exchange.FeeCheck Exchange.AdmitSpec
     Proofs.C20Proofs Proofs.C20Defs Proofs.C20Coins Proofs.C20Updates.
Import ListNotations.
Open Scope Z_scope.

Lemma del_flat_comm d1 d2 l : del_flat d1 (del_flat d2 l) = del_flat d2 (del_flat d1 l).
Proof.
  unfold del_flat. induction l as [|c l IH]; cbn [filter]; [reflexivity|].
  destruct (negb (String.eqb (denom_of c) d2)) eqn:E2; destruct (negb (String.eqb (denom_of c) d1)) eqn:E1;
    cbn [filter]; rewrite ?E1, ?E2, IH; reflexivity.
Qed.

(** deleteAll: deleting the denom of every entry leaves nothing. *)
Lemma del_all_flats_sub old : forall l, (forall c, In c l -> In (denom_of c) (map denom_of old)) ->
  fold_left (fun l c => del_flat (denom_of c) l) old l = [].
Proof.
  induction old as [|o old IH]; intros l H; cbn [fold_left].
  - destruct l as [|c l]; [reflexivity|]. destruct (H c (or_introl eq_refl)).
  - apply IH. intros c HI. apply del_flat_in in HI. destruct HI as [HI N].
    destruct (H c HI) as [E|E]; [congruence|exact E].
Qed.
Lemma del_all_flats old : fold_left (fun l c => del_flat (denom_of c) l) old old = [].
Proof. apply del_all_flats_sub. intros c HI. apply in_map. exact HI. Qed.

Lemma del_all_ratios_sub old : forall l, (forall r, In r l -> In (ratio_key r) (map ratio_key old)) ->
  fold_left (fun l r => del_ratio r l) old l = [].
Proof.
  induction old as [|o old IH]; intros l H; cbn [fold_left].
  - destruct l as [|c l]; [reflexivity|]. destruct (H c (or_introl eq_refl)).
  - apply IH. intros c HI. apply del_ratio_in in HI. destruct HI as [HI N].
    destruct (H c HI) as [E|E]; [congruence|exact E].
Qed.
Lemma del_all_ratios old : fold_left (fun l r => del_ratio r l) old old = [].
Proof. apply del_all_ratios_sub. intros c HI. apply in_map. exact HI. Qed.

Lemma set_all_flats_old old new : set_all_flats old new = fold_left (fun l c => set_flat c l) new [].
Proof. unfold set_all_flats. rewrite del_all_flats. reflexivity. Qed.
Lemma set_all_ratios_old old new : set_all_ratios old new = fold_left (fun l r => set_ratio r l) new [].
Proof. unfold set_all_ratios. rewrite del_all_ratios. reflexivity. Qed.

Lemma del_flat_absent d l : ~ In d (map denom_of l) -> del_flat d l = l.
Proof.
  unfold del_flat. induction l as [|c l IH]; cbn [filter map]; intros N; [reflexivity|].
  destruct (String.eqb_spec (denom_of c) d) as [E|NE]; [exfalso; apply N; left; exact E|].
  cbn [negb]. rewrite IH; [reflexivity|]. intros H. apply N. right; exact H.
Qed.
Lemma del_ratio_absent k l : ~ In (ratio_key k) (map ratio_key l) -> del_ratio k l = l.
Proof.
  induction l as [|r l IH]; cbn [del_ratio filter map]; intros N; [reflexivity|].
  fold (del_ratio k l). unfold same_denoms.
  destruct (String.eqb_spec (r_pd r) (r_pd k)) as [E1|N1]; cbn [andb negb].
  - destruct (String.eqb_spec (r_fd r) (r_fd k)) as [E2|N2]; cbn [negb].
    + exfalso. apply N. left. unfold ratio_key. congruence.
    + rewrite IH; [reflexivity|]. intros H. apply N. right; exact H.
  - rewrite IH; [reflexivity|]. intros H. apply N. right; exact H.
Qed.

(** Writing a duplicate-free table entry by entry into the emptied store gives that table. *)
Lemma set_fold_flats new : forall acc,
  NoDup (map denom_of (acc ++ new)) -> fold_left (fun l c => set_flat c l) new acc = acc ++ new.
Proof.
  induction new as [|c new IH]; intros acc ND; cbn [fold_left]; [rewrite app_nil_r; reflexivity|].
  assert (NI : ~ In (denom_of c) (map denom_of acc)).
  { rewrite map_app in ND. cbn [map] in ND. apply NoDup_remove_2 in ND. intros H. apply ND. apply in_or_app. left; exact H. }
  unfold set_flat at 2. rewrite del_flat_absent by exact NI.
  rewrite IH; rewrite <- app_assoc; [reflexivity|exact ND].
Qed.
Lemma set_fold_ratios new : forall acc,
  NoDup (map ratio_key (acc ++ new)) -> fold_left (fun l r => set_ratio r l) new acc = acc ++ new.
Proof.
  induction new as [|c new IH]; intros acc ND; cbn [fold_left]; [rewrite app_nil_r; reflexivity|].
  assert (NI : ~ In (ratio_key c) (map ratio_key acc)).
  { rewrite map_app in ND. cbn [map] in ND. apply NoDup_remove_2 in ND. intros H. apply ND. apply in_or_app. left; exact H. }
  unfold set_ratio at 2. rewrite del_ratio_absent by exact NI.
  rewrite IH; rewrite <- app_assoc; [reflexivity|exact ND].
Qed.

Lemma set_all_flats_wf old new : flats_wf new -> set_all_flats old new = new.
Proof. intros W. rewrite set_all_flats_old. apply (set_fold_flats new []). exact W. Qed.
Lemma set_all_ratios_keys old new : ratio_keys_nodup new -> set_all_ratios old new = new.
Proof. intros W. rewrite set_all_ratios_old. apply (set_fold_ratios new []). exact W. Qed.

(** ** storeMarket does not look at what was there *)
Lemma store_market_ignores_old old1 old2 m : store_market old1 m = store_market old2 m.
Proof.
  unfold store_market.
  destruct (validate_req_attrs _ && validate_req_attrs _ && validate_req_attrs _); [|reflexivity].
  unfold normalize_req_attrs.
  destruct (forallb _ _ && forallb _ _ && forallb _ _); [|reflexivity].
  rewrite !set_all_flats_old, !set_all_ratios_old.
  unfold write_not_accepting_orders, write_indicator, write_bips, write_interm, write_reqs.
  repeat f_equal.
Qed.

Lemma write_flags_id o a : negb (write_not_accepting_orders o a) = a.
Proof. destruct a; reflexivity. Qed.
Lemma write_indicator_id o a : write_indicator o a = a.
Proof. destruct a; reflexivity. Qed.
Lemma write_bips_id o b : write_bips o b = b.
Proof. unfold write_bips. destruct (Z.eqb_spec b 0); congruence. Qed.
Lemma write_interm_id o d : write_interm o d = d.
Proof. unfold write_interm. destruct (String.eqb_spec d ""); congruence. Qed.
Lemma write_reqs_id o l : write_reqs o l = l.
Proof. destruct l; reflexivity. Qed.

(** For a market that passes Market.Validate it stores exactly the request. *)
Lemma store_market_is_create old m : market_ok m -> store_market old m = create_market m.
Proof.
  intros ((W1 & W2 & W3 & W4 & W5 & _ & _) & K1 & K2 & _).
  unfold store_market, create_market.
  destruct (validate_req_attrs _ && validate_req_attrs _ && validate_req_attrs _); [|reflexivity].
  unfold normalize_req_attrs.
  destruct (forallb _ _ && forallb _ _ && forallb _ _); [|reflexivity].
  rewrite !set_all_flats_wf, !set_all_ratios_keys by assumption.
  rewrite write_flags_id, !write_indicator_id, write_bips_id, write_interm_id, !write_reqs_id.
  reflexivity.
Qed.

(** Admission in a market created over ANY left-over entries is the declarative rule evaluated on
    the creation request. *)
Lemma created_market_ignores_earlier_entries (pre : list pre_op) m accs a :
  market_ok m ->
  admits_msg (store_market (run_pre pre) m) accs a =
  admit_spec_msg (is_some (create_market m)) m accs a.
Proof.
  intros W. rewrite store_market_is_create by exact W. apply admission_msg_eq. exact (proj1 W).
Qed.

(** Such left-over entries do exist: the authority can close, and set the user-settle entry of, an
    id that is not a market. *)
Lemma earlier_entries_exist :
  let s := run_pre [PreClose; PreUserSettle true] in
  m_accepting_orders (s_mkt s) = false /\ m_user_settle (s_mkt s) = true.
Proof. vm_compute. split; reflexivity. Qed.
