(** Proofs about [PV.Marker.Lifecycle] (property C05), second part: mint bound, burns, recall,
    and the statements over whole histories. *)
From Coq Require Import ZArith NArith List Bool Lia ZifyBool.
From PV Require Import Marker.Lifecycle Proofs.LifecycleProofs.
Import ListNotations.
Open Scope Z_scope.

#[local] Opaque get set total.

(** * A mint into an active marker adds exactly the amount and respects the maximum *)
Lemma step_opt_mint s o s' amt m :
  step_opt s o = Some s' -> mint_amount o = Some amt -> mk s = Some m -> st m = Active ->
  supply s' = supply s + amt /\ supply s' <= maxsupply s.
Proof.
  intros H Hm Hmk Hst.
  destruct o; cbn [mint_amount] in Hm; try discriminate Hm; injection Hm as ->;
    open_step H; subst; use_specs; simp_state; know_mk; simp_state; try congruence; slim; try lia.
Qed.

(** * Whenever the supply goes down, it comes out of the marker's own account only *)
Lemma step_opt_burn s o s' :
  step_opt s o = Some s' -> supply s' < supply s ->
  get (bal s') (esc s) = get (bal s) (esc s) - (supply s - supply s') /\
  (forall a, a <> esc s -> get (bal s') a = get (bal s) a).
Proof.
  intros H Hlt.
  destruct o; open_step H; subst; use_specs; simp_state; know_mk; simp_state; slim; try lia;
    (split; [lia | intros a Ha;
                   repeat match goal with
                   | Ot : forall a, a <> _ -> get (bal ?x) a = _ |- context [get (bal ?x) a] =>
                       rewrite (Ot a Ha)
                   end; simp_state; try reflexivity; try lia]).
Qed.

(** * Destroyed - or cancelled by an administrator once finalized/active - only after a full recall *)
Lemma step_opt_recall s o s' m m' :
  step_opt s o = Some s' -> BankInv s -> mk s = Some m -> mk s' = Some m' ->
  (st m <> Destroyed /\ st m' = Destroyed) \/
  ((exists c, o = OCancel c) /\ (st m = Finalized \/ st m = Active) /\ st m' = Cancelled) ->
  supply s <= get (bal s) (esc s) /\ (st m' = Destroyed -> supply s' = 0).
Proof.
  intros H HB Hmk Hmk' Hcase.
  destruct o;
    (destruct Hcase as [[Hnd Hd] | [[c Hc] [Hs Hc2]]]; [|try discriminate Hc]);
    open_step H; subst; use_specs; simp_state; know_mk;
    repeat match goal with
    | Hx : Some _ = Some _ |- _ => injection Hx as Hx; subst
    end; simp_state;
    try discriminate; try congruence; try (exfalso; intuition congruence);
    repeat match goal with
    | Hb : NonNeg (bal ?x) /\ _ -> NonNeg (bal ?y) /\ _ |- _ =>
        let Hn := fresh "Hn" in
        assert (NonNeg (bal y)) as Hn by (apply Hb; tauto);
        pose proof (get_nonneg (bal y) (esc y) Hn); clear Hb
    end;
    repeat match goal with Hx : esc _ = esc _ |- _ => rewrite Hx in * end;
    slim; try (split; [lia | let Hx := fresh "Hx" in intros Hx; first [discriminate Hx | lia]]).
Qed.

(** * From successful steps to [step] and to whole histories *)
Lemma step_cases s o : (exists s', step_opt s o = Some s' /\ step s o = (s', true)) \/ (step_opt s o = None /\ step s o = (s, false)).
Proof. unfold step. destruct (step_opt s o) as [s'|]; [left; eauto | right; auto]. Qed.

Lemma step_inv s o : Inv s -> Inv (fst (step s o)).
Proof.
  intros [HB HF]. destruct (step_cases s o) as [(s' & Ho & ->)|(_ & ->)]; cbn [fst]; [|split; assumption].
  split; [eapply step_opt_bank | eapply step_opt_fixed]; eassumption.
Qed.

Lemma run_app s l1 l2 : run s (l1 ++ l2) = run (run s l1) l2.
Proof. unfold run. apply fold_left_app. Qed.

Lemma run_inv ops : forall s, Inv s -> Inv (run s ops).
Proof.
  induction ops as [|o ops IH]; intros s Hs; [exact Hs|].
  change (run s (o :: ops)) with (run (fst (step s o)) ops). apply IH. apply step_inv. exact Hs.
Qed.

Lemma init_inv s : mk s = None -> BankInv s -> Inv s.
Proof. intros Hn HB. split; [exact HB|]. intros m Hm. congruence. Qed.

Lemma run_fixed_exact ops s m :
  Inv s -> mk (run s ops) = Some m -> st m = Active -> fixed m = true -> supply (run s ops) = msupply m.
Proof. intros Hs. destruct (run_inv ops s Hs) as [_ HF]. apply HF. Qed.

Lemma run_fixed_exact_from_start ops s m :
  mk s = None -> BankInv s ->
  mk (run s ops) = Some m -> st m = Active -> fixed m = true -> supply (run s ops) = msupply m.
Proof. intros Hn HB. apply run_fixed_exact. apply init_inv; assumption. Qed.

Lemma run_sum ops s : Inv s -> supply (run s ops) = total (bal (run s ops)) /\ NonNeg (bal (run s ops)).
Proof. intros Hs. destruct (run_inv ops s Hs) as [[Hn He] _]. split; assumption. Qed.

(** The begin-blocker's repair does nothing on a reachable state. *)
Lemma begin_block_noop ops s :
  Inv s -> let s1 := run s ops in
  snd (step s1 OBeginBlock) = true /\
  supply (fst (step s1 OBeginBlock)) = supply s1 /\ bal (fst (step s1 OBeginBlock)) = bal s1.
Proof.
  intros Hs s1. destruct (run_inv ops s Hs) as [_ HF]. fold s1 in HF.
  unfold step, step_opt. destruct (mk s1) as [m|] eqn:Em; [|cbn; auto].
  destruct (status_eqb (st m) Active && fixed m && negb (msupply m =? supply s1)) eqn:Eb.
  - exfalso. assert (st m = Active) as Ha by (unfold status_eqb in Eb; destruct (st m); cbn in Eb; try discriminate; reflexivity).
    assert (fixed m = true) as Hf by (destruct (fixed m); [reflexivity | rewrite andb_false_r in Eb; discriminate]).
    specialize (HF m Em Ha Hf). lia.
  - cbn [bind]. destruct (status_eqb (st m) Destroyed); cbn; auto.
Qed.

Lemma run_mint_le_max ops s o amt m s' :
  let s1 := run s ops in
  mint_amount o = Some amt -> mk s1 = Some m -> st m = Active -> step s1 o = (s', true) ->
  supply s' = supply s1 + amt /\ supply s' <= maxsupply s1.
Proof.
  intros s1 Hm Hmk Hst Hstep.
  destruct (step_cases s1 o) as [(s2 & Ho & He)|(_ & He)]; rewrite He in Hstep; [|discriminate].
  injection Hstep as <-. eapply step_opt_mint; eassumption.
Qed.

Lemma run_burn_only_escrow ops s o :
  let s1 := run s ops in let s' := fst (step s1 o) in
  supply s' < supply s1 ->
  get (bal s') (esc s1) = get (bal s1) (esc s1) - (supply s1 - supply s') /\
  (forall a, a <> esc s1 -> get (bal s') a = get (bal s1) a).
Proof.
  intros s1 s'. subst s'.
  destruct (step_cases s1 o) as [(s2 & Ho & ->)|(_ & ->)]; cbn [fst]; [|lia].
  exact (step_opt_burn s1 o s2 Ho).
Qed.

Lemma step_lifepos s o : lifepos s <= lifepos (fst (step s o)).
Proof.
  destruct (step_cases s o) as [(s2 & Ho & ->)|(_ & ->)]; cbn [fst]; [|lia].
  exact (step_opt_lifepos s o s2 Ho).
Qed.

Lemma run_lifepos ops : forall s, lifepos s <= lifepos (run s ops).
Proof.
  induction ops as [|o ops IH]; intros s; [cbn; lia|].
  change (run s (o :: ops)) with (run (fst (step s o)) ops).
  pose proof (step_lifepos s o). pose proof (IH (fst (step s o))). lia.
Qed.

Lemma run_status_monotone s pre post m1 m2 :
  let s1 := run s pre in let s2 := run s1 post in
  gen s1 = gen s2 -> mk s1 = Some m1 -> mk s2 = Some m2 -> rank (st m1) <= rank (st m2).
Proof.
  intros s1 s2 Hg H1 H2. pose proof (run_lifepos post s1) as Hl. fold s2 in Hl.
  unfold lifepos in Hl. rewrite H1, H2, Hg in Hl. lia.
Qed.

(** A record disappears only at a block boundary and only when destroyed. *)
Lemma removed_only_destroyed ops s o m :
  let s1 := run s ops in
  mk s1 = Some m -> mk (fst (step s1 o)) = None -> st m = Destroyed /\ o = OBeginBlock.
Proof.
  intros s1 Hm Hn.
  destruct (step_cases s1 o) as [(s2 & Ho & He)|(_ & He)]; rewrite He in Hn; cbn [fst] in Hn; [|congruence].
  destruct o; open_step Ho; subst; use_specs; simp_state; know_mk; simp_state; try discriminate; try congruence.
  all: split; [|reflexivity]; unfold status_eqb in *; destruct (st m); cbn in *; try discriminate; reflexivity.
Qed.

Lemma run_recall ops s o m m' :
  Inv s -> let s1 := run s ops in let s' := fst (step s1 o) in
  mk s1 = Some m -> mk s' = Some m' ->
  (st m <> Destroyed /\ st m' = Destroyed) \/
  ((exists c, o = OCancel c) /\ (st m = Finalized \/ st m = Active) /\ st m' = Cancelled) ->
  (forall a, a <> esc s1 -> get (bal s1) a = 0) /\ (st m' = Destroyed -> supply s' = 0).
Proof.
  intros Hs s1 s' Hm Hm' Hc. subst s'.
  destruct (run_inv ops s Hs) as [HB _]. fold s1 in HB.
  destruct (step_cases s1 o) as [(s2 & Ho & He)|(_ & He)]; rewrite He in *; cbn [fst] in *.
  - destruct (step_opt_recall s1 o s2 m m' Ho HB Hm Hm' Hc) as [Hle Hz]. split; [|exact Hz].
    intros a Ha. destruct HB as [Hn Heq]. apply (recalled_all _ (esc s1)); [exact Hn| |exact Ha]. lia.
  - exfalso. rewrite Hm in Hm'. injection Hm' as <-.
    destruct Hc as [[Hnd Hd]|[_ [[Hf|Ha] Hc]]]; congruence.
Qed.
