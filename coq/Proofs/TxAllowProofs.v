(** Fee allowances (C08): what a transaction spends from the allowance it names, in closed form.
    The ante handler uses the grant for the base fee, FeeInvoke uses it again for declared - base; an
    allowance whose spend limit reaches zero is deleted. *)
From Coq Require Import ZArith NArith List Bool Lia.
From PV Require Import Exchange.Arith Fees.TxFees Fees.TxBlocks Proofs.TxFeesProofs Proofs.TxBlocksProofs.
Import ListNotations.
Open Scope Z_scope.

(* the transaction names a fee granter other than its payer *)
Definition names_granter (t : tx) : bool :=
  match t_granter t with Some g => negb (N.eqb g (t_payer t)) | None => false end.

(* [after] is [before] once exactly [fee] was spent from it *)
Definition allow_after (before : allowance) (fee : coins) (after : allowance) : Prop :=
  match before with
  | None => False                                           (* no allowance: it cannot be used *)
  | Some None => after = Some None                          (* no spend limit *)
  | Some (Some lim) =>
      (forall d, amount_of fee d <= amount_of lim d) /\
      match after with
      | None => forall d, amount_of lim d = amount_of fee d   (* used up: deleted *)
      | Some None => False
      | Some (Some l') => (forall d, amount_of l' d = amount_of lim d - amount_of fee d) /\ is_zero l' = false
      end
  end.

Definition grant_effect (t : tx) (s s' : state) (fee : coins) : Prop :=
  if names_granter t
  then allow_after (allow s (fee_source t) (t_payer t)) fee (allow s' (fee_source t) (t_payer t))
  else allow s' = allow s.

Lemma use_grant_allow s t fee s0 src :
  use_grant s t fee = Some (s0, src) -> grant_effect t s s0 fee.
Proof.
  unfold use_grant, grant_effect, names_granter, fee_source. destruct (t_granter t) as [g|].
  - destruct (N.eqb_spec g (t_payer t)) as [->|Hne]; cbn [negb].
    + intros H. inversion H. reflexivity.
    + destruct (allow s g (t_payer t)) as [[lim|]|] eqn:Ea; [| |discriminate].
      * destruct (has_neg (csub lim fee)) eqn:En; [discriminate|]. intros H. inversion H. subst s0 src. clear H.
        cbn [allow_after set_allow allow]. rewrite !N.eqb_refl. cbn [andb].
        pose proof (has_neg_false _ En) as Hnn.
        split; [intros d; specialize (Hnn d); rewrite amount_of_csub in Hnn; lia|].
        destruct (is_zero (csub lim fee)) eqn:Ez.
        -- intros d. pose proof (is_zero_true _ Ez d) as Hz. rewrite amount_of_csub in Hz. lia.
        -- split; [intros d; apply amount_of_csub|exact Ez].
      * intros H. inversion H. subst. cbn [allow_after]. exact Ea.
  - intros H. inversion H. reflexivity.
Qed.

Lemma allow_after_trans a b c fee1 fee2 fee :
  allow_after a fee1 b -> allow_after b fee2 c ->
  (forall d, amount_of fee1 d + amount_of fee2 d = amount_of fee d) ->
  allow_after a fee c.
Proof.
  unfold allow_after. destruct a as [[lim|]|]; [| |tauto].
  - intros (Hle1 & Hb). destruct b as [[l1|]|]; [| tauto | tauto].
    destruct Hb as (Hl1 & _). intros (Hle2 & Hc) Hsum. split.
    + intros d. specialize (Hle2 d). specialize (Hl1 d). specialize (Hsum d). lia.
    + destruct c as [[l2|]|]; [|tauto|].
      * destruct Hc as (Hl2 & Hz). split; [|exact Hz]. intros d. rewrite Hl2, Hl1, <- Hsum. ring.
      * intros d. specialize (Hc d). specialize (Hl1 d). specialize (Hsum d). lia.
  - intros ->. intros -> _. reflexivity.
Qed.

Lemma grant_effect_trans t s s1 s2 fee1 fee2 fee :
  grant_effect t s s1 fee1 -> grant_effect t s1 s2 fee2 ->
  (forall d, amount_of fee1 d + amount_of fee2 d = amount_of fee d) ->
  grant_effect t s s2 fee.
Proof.
  unfold grant_effect. destruct (names_granter t).
  - apply allow_after_trans.
  - intros -> -> _. reflexivity.
Qed.

Lemma ante_allow cfg s t chk s1 :
  ante cfg s t chk = Some s1 -> grant_effect t s s1 (base_fee cfg (t_gas t)).
Proof.
  unfold ante. destruct (t_gas_out t); try discriminate.
  all: destruct (t_gas t <=? 0); [discriminate|]; destruct (negb (only_gov t) && (gas_tx_limit <? t_gas t)); [discriminate|];
    destruct (calc cfg dist0 (routed_top t)) as [fd|]; [|discriminate];
    destruct (chk && negb (ensure cfg (t_fee t) (t_gas t) (d_total fd))); [discriminate|];
    destruct (use_grant s t (base_fee cfg (t_gas t))) as [[s0 src]|] eqn:Eu; [|discriminate];
    destruct (negb (forallb (fun d => amount_of (d_total fd) d <=? bal s0 src d) (cdenoms (d_total fd)))); [discriminate|];
    destruct (exec_moves (bal s0) (base_moves src (base_fee cfg (t_gas t)))) as [b|]; [|discriminate];
    destruct (t_sig_ok t); [|discriminate]; intros H; inversion H; subst s1; clear H;
    apply use_grant_allow in Eu; unfold grant_effect in *; cbn [bump_seq with_bal allow]; exact Eu.
Qed.

Lemma fee_invoke_allow cfg s t base m s' :
  fee_invoke cfg s t base m = Some s' -> grant_effect t s s' (csub (t_fee t) base).
Proof.
  unfold fee_invoke. destruct (use_grant s t (csub (t_fee t) base)) as [[s1 src]|] eqn:Eu; [|discriminate].
  apply use_grant_allow in Eu.
  destruct (is_zero (csub (t_fee t) base) && is_zero (consumed m)).
  - intros H. inversion H. subst. exact Eu.
  - destruct (invoke_moves src (csub (t_fee t) base) m) as [ms|]; [|discriminate].
    destruct (exec_moves (bal s1) ms) as [b|]; [|discriminate].
    intros H. inversion H. subst. unfold grant_effect in *. cbn [with_bal allow]. exact Eu.
Qed.

(** a failed transaction spends exactly the base fee from the allowance it names, a successful one
    exactly the declared fee; a transaction that names none (or its own payer) touches no allowance *)
Lemma deliver_allowance cfg s t s' r :
  deliver cfg s t = (s', r) ->
  (r = RFailed -> grant_effect t s s' (base_fee cfg (t_gas t))) /\
  (r = ROk -> grant_effect t s s' (t_fee t)).
Proof.
  intros H. apply deliver_cases in H.
  destruct H as [(-> & _)|(s1 & Ea & _ & [(-> & ->)|(-> & _ & b2 & m & _ & Ef)])].
  - split; discriminate.
  - split; [intros _; eapply ante_allow; exact Ea|discriminate].
  - split; [discriminate|]. intros _. apply ante_allow in Ea. apply fee_invoke_allow in Ef.
    assert (Ef' : grant_effect t s1 s' (csub (t_fee t) (base_fee cfg (t_gas t)))).
    { unfold grant_effect in *. cbn [with_bal allow] in Ef. exact Ef. }
    eapply grant_effect_trans; [exact Ea|exact Ef'|].
    intros d. rewrite amount_of_csub. ring.
Qed.

(** ... for every executed transaction of every block, against the running state *)
Lemma trace_allowance cfg bs s left :
  Forall (fun e => (ts_res e = RFailed -> grant_effect (ts_tx e) (ts_pre e) (ts_post e) (base_fee cfg (t_gas (ts_tx e)))) /\
                   (ts_res e = ROk -> grant_effect (ts_tx e) (ts_pre e) (ts_post e) (t_fee (ts_tx e))) /\
                   (ts_res e = RAnteFail -> ts_post e = ts_pre e))
         (trace cfg s left bs).
Proof.
  pose proof (trace_deliver cfg bs s left) as Hd. rewrite Forall_forall in *. intros e He.
  specialize (Hd e He). destruct (deliver_allowance _ _ _ _ _ Hd) as (H1 & H2).
  split; [exact H1|split; [exact H2|]]. intros Hr. rewrite Hr in Hd. apply deliver_cases in Hd.
  destruct Hd as [(_ & Hs)|(s1 & _ & _ & [(Hx & _)|(Hx & _)])]; [exact Hs|discriminate|discriminate].
Qed.
