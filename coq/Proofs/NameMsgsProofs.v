(** Lemmas about Name/NameMsgs.v: histories in which the parameters change (MsgUpdateParams) and
    records are imported (InitGenesis).  The invariant of Proofs/NameProofs.v is instantiated with
    "the stored name is a result of Normalize under SOME parameters". *)
From Coq Require Import Arith NArith List String Ascii Bool Lia.
From PV Require Import Name.Name Name.NameMsgs Proofs.NameProofs.
Import ListNotations.
Open Scope string_scope.
Open Scope list_scope.

Definition stored_any (n : string) : Prop := exists p raw, normalize p raw = Some n.

Lemma stored_any_normalize : forall p raw n, normalize p raw = Some n -> stored_any n.
Proof. intros p raw n H. exists p, raw. exact H. Qed.

Section PInv.
  Variable hash : string -> string.

  Definition pinv (ps : pstate) : Prop := invQ hash stored_any (ps_s ps).

  Lemma pinv_start : forall p allow, pinv (pstart p allow).
  Proof. intros p allow. exact (invQ_init hash stored_any). Qed.

  Lemma import_bindings_inv : forall p bs s s',
    invQ hash stored_any s -> import_bindings hash p s bs = Some s' -> invQ hash stored_any s'.
  Proof.
    intros p bs. unfold import_bindings.
    assert (Hnone : forall l, fold_left (fun (acc : option state) (b : binding) =>
                 match acc with
                 | Some s1 => let '(n, a, r) := b in set_name_record hash p s1 n a r
                 | None => None
                 end) l None = None).
    { intros l. induction l as [|b l IH]; [reflexivity|]. cbn [fold_left]. exact IH. }
    induction bs as [|[[n a] r] bs IH]; intros s s' Hi H; cbn [fold_left] in H.
    - injection H as H. subst s'. exact Hi.
    - destruct (set_name_record hash p s n a r) as [s1|] eqn:E.
      + apply (IH s1 s'); [|exact H].
        exact (set_name_record_invQ hash stored_any p (stored_any_normalize p) _ _ _ _ _ Hi E).
      + rewrite Hnone in H. discriminate H.
  Qed.

  Lemma pexec_inv : forall ps m ps', pinv ps -> pexec hash ps m = Some ps' -> pinv ps'.
  Proof.
    intros ps m ps' Hi H. unfold pinv in *. destruct m as [o|signer p allow|p allow bs]; cbn [pexec] in H.
    - destruct (exec hash (ps_p ps) (ps_s ps) o) as [s'|] eqn:E; [|discriminate].
      injection H as H. subst ps'. cbn [ps_s].
      exact (exec_invQ hash stored_any (ps_p ps) (stored_any_normalize (ps_p ps)) _ _ _ Hi E).
    - destruct (N.eqb signer gov_authority); [|discriminate]. injection H as H. subst ps'. exact Hi.
    - destruct (import_bindings hash p (ps_s ps) bs) as [s'|] eqn:E; [|discriminate].
      injection H as H. subst ps'. cbn [ps_s]. exact (import_bindings_inv p bs _ _ Hi E).
  Qed.

  Lemma pstep_inv : forall ps m, pinv ps -> pinv (fst (pstep hash ps m)).
  Proof.
    intros ps m Hi. unfold pstep. destruct (pexec hash ps m) as [ps'|] eqn:E; cbn [fst]; [|exact Hi].
    exact (pexec_inv _ _ _ Hi E).
  Qed.

  Lemma prun_from_inv : forall ms ps, pinv ps -> pinv (prun_from hash ps ms).
  Proof.
    intros ms. unfold prun_from. induction ms as [|m ms IH]; intros ps Hi; cbn [fold_left]; [exact Hi|].
    apply IH. apply pstep_inv. exact Hi.
  Qed.

  Lemma prun_inv : forall p allow ms, pinv (prun hash p allow ms).
  Proof. intros p allow ms. unfold prun. apply prun_from_inv. apply pinv_start. Qed.

  Lemma pstep_err_unchanged : forall ps m, snd (pstep hash ps m) = Err -> fst (pstep hash ps m) = ps.
  Proof. intros ps m. unfold pstep. destruct (pexec hash ps m); cbn [fst snd]; [discriminate|reflexivity]. Qed.

  Lemma pstep_ok_exec : forall ps m, snd (pstep hash ps m) = Ok -> pexec hash ps m = Some (fst (pstep hash ps m)).
  Proof. intros ps m. unfold pstep. destruct (pexec hash ps m); cbn [fst snd]; [reflexivity|discriminate]. Qed.

  (** a name message is the Name.v step under the parameters in force and leaves them alone *)
  Lemma pstep_op : forall ps o,
    fst (pstep hash ps (MOp o)) =
      {| ps_p := ps_p ps; ps_allow := ps_allow ps; ps_s := fst (step hash (ps_p ps) (ps_s ps) o) |} /\
    snd (pstep hash ps (MOp o)) = snd (step hash (ps_p ps) (ps_s ps) o).
  Proof.
    intros [p allow s] o. unfold pstep, step. cbn [pexec ps_p ps_allow ps_s].
    destruct (exec hash p s o) as [s'|]; cbn [fst snd]; split; reflexivity.
  Qed.
End PInv.
