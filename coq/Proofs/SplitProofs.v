(** Proofs about [PV.Exchange.Split] (property C01): coins arithmetic and Order.Split. *)
From Coq Require Import ZArith List Bool Lia ZifyBool PArith.
From PV Require Import Exchange.Arith Exchange.Split Proofs.ArithProofs.
Import ListNotations.
Open Scope Z_scope.
Ltac Zify.zify_post_hook ::= Z.div_mod_to_equations.

(** ** res monad inversion *)
Lemma rbind_ok {A B} (r : res A) (f : A -> res B) b :
  rbind r f = Ok b -> exists a, r = Ok a /\ f a = Ok b.
Proof. destruct r; cbn; intros H; try discriminate. eauto. Qed.

Lemma mulchk_ok a b m : mulchk a b = Ok m -> m = a * b.
Proof.
  unfold mulchk, of_opt, chk. destruct (int_ok (a * b)); intros H; inversion H; reflexivity.
Qed.

(** ** Sorted coins: [coins_add1] adds pointwise. *)
Inductive sorted : coins -> Prop :=
| sorted_nil : sorted []
| sorted_one d a : sorted [(d, a)]
| sorted_cons d a d' a' r : (d < d')%positive -> sorted ((d', a') :: r) -> sorted ((d, a) :: (d', a') :: r).

Definition lower_bound (d : denom) (c : coins) : Prop :=
  match c with [] => True | (d', _) :: _ => (d < d')%positive end.

Lemma sorted_tail d a r : sorted ((d, a) :: r) -> sorted r /\ lower_bound d r.
Proof. intros H; inversion H; subst; cbn; auto using sorted_nil. Qed.

Lemma sorted_build d a r : sorted r -> lower_bound d r -> sorted ((d, a) :: r).
Proof. intros Hs Hl. destruct r as [|[d' a'] r]; [apply sorted_one|apply sorted_cons; assumption]. Qed.

Lemma amount_of_below d c d0 : sorted c -> lower_bound d0 c -> (d <= d0)%positive -> amount_of c d = 0.
Proof.
  revert d0. induction c as [|[d' a'] r IH]; intros d0 Hs Hl Hle; cbn; [reflexivity|].
  cbn in Hl. destruct (Pos.eqb_spec d d') as [->|Hne]; [lia|].
  destruct (sorted_tail _ _ _ Hs) as [Hs' Hl']. apply (IH d'); auto; lia.
Qed.

Lemma lower_bound_add1 d0 c d a :
  sorted c -> lower_bound d0 c -> (d0 < d)%positive -> lower_bound d0 (coins_add1 c d a).
Proof.
  intros Hs Hl Hlt. destruct c as [|[d' a'] r]; cbn.
  - destruct (a =? 0); cbn; auto.
  - cbn in Hl. destruct (Pos.compare_spec d d') as [->|Hc|Hc].
    + destruct (a' + a =? 0); cbn; [|assumption].
      destruct (sorted_tail _ _ _ Hs) as [_ Hl']. destruct r as [|[d2 a2] r2]; cbn in *; auto; lia.
    + destruct (a =? 0); cbn; assumption.
    + cbn; assumption.
Qed.

Lemma coins_add1_spec c d a :
  sorted c ->
  sorted (coins_add1 c d a) /\
  forall d', amount_of (coins_add1 c d a) d' = amount_of c d' + (if Pos.eqb d' d then a else 0).
Proof.
  induction c as [|[d1 a1] r IH]; intros Hs.
  - cbn. destruct (Z.eqb_spec a 0) as [->|Hz]; cbn.
    + split; [apply sorted_nil|]. intros d'; destruct (Pos.eqb d' d); reflexivity.
    + split; [apply sorted_one|]. intros d'; destruct (Pos.eqb d' d); lia.
  - destruct (sorted_tail _ _ _ Hs) as [Hs' Hl']. cbn [coins_add1].
    destruct (Pos.compare_spec d d1) as [->|Hc|Hc].
    + destruct (Z.eqb_spec (a1 + a) 0) as [Hz|Hz].
      * split; [assumption|]. intros d'. cbn [amount_of].
        destruct (Pos.eqb_spec d' d1) as [->|Hne]; [|lia].
        rewrite (amount_of_below d1 r d1) by (auto; lia). lia.
      * split; [apply sorted_build; assumption|]. intros d'. cbn [amount_of].
        destruct (Pos.eqb_spec d' d1); lia.
    + destruct (Z.eqb_spec a 0) as [->|Hz].
      * split; [assumption|]. intros d'. destruct (Pos.eqb d' d); lia.
      * split; [apply sorted_cons; assumption|]. intros d'. cbn [amount_of].
        destruct (Pos.eqb_spec d' d) as [->|Hne].
        -- replace (Pos.eqb d d1) with false by (symmetry; apply Pos.eqb_neq; lia).
           rewrite (amount_of_below d r d1) by (auto; lia). lia.
        -- lia.
    + destruct (IH Hs') as [IHs IHa]. split.
      * apply sorted_build; [assumption|]. apply lower_bound_add1; assumption.
      * intros d'. cbn [amount_of]. rewrite IHa.
        destruct (Pos.eqb_spec d' d1) as [->|Hne]; [|reflexivity].
        replace (Pos.eqb d1 d) with false by (symmetry; apply Pos.eqb_neq; lia). lia.
Qed.

(** Raw per-denom sum of a coin list (no sortedness needed). *)
Definition raw_sum (c : coins) (d : denom) : Z :=
  fold_right (fun x acc => (if Pos.eqb d (fst x) then snd x else 0) + acc) 0 c.

Lemma raw_sum_cons d1 a1 r d :
  raw_sum ((d1, a1) :: r) d = (if Pos.eqb d d1 then a1 else 0) + raw_sum r d.
Proof. reflexivity. Qed.

Lemma coins_add_spec y : forall x, sorted x ->
  sorted (coins_add x y) /\ forall d, amount_of (coins_add x y) d = amount_of x d + raw_sum y d.
Proof.
  unfold coins_add. induction y as [|[d1 a1] r IH]; intros x Hs; cbn [fold_left].
  - split; [assumption|intros; cbn; lia].
  - destruct (coins_add1_spec x d1 a1 Hs) as [Hs1 Ha1].
    destruct (IH _ Hs1) as [Hs2 Ha2]. split; [assumption|].
    intros d. rewrite Ha2, Ha1, raw_sum_cons. cbn [fst snd]. lia.
Qed.

Lemma raw_sum_sorted c : sorted c -> forall d, raw_sum c d = amount_of c d.
Proof.
  induction c as [|[d1 a1] r IH]; intros Hs d; [reflexivity|]. rewrite raw_sum_cons. cbn [amount_of].
  destruct (sorted_tail _ _ _ Hs) as [Hs' Hl']. rewrite (IH Hs').
  destruct (Pos.eqb_spec d d1) as [->|Hne]; [|lia].
  rewrite (amount_of_below d1 r d1) by (auto; lia). lia.
Qed.

Lemma raw_sum_neg c d : raw_sum (coins_neg c) d = - raw_sum c d.
Proof.
  induction c as [|[d1 a1] r IH]; [reflexivity|].
  cbn [coins_neg map fst snd]. fold (coins_neg r). rewrite !raw_sum_cons, IH.
  destruct (Pos.eqb d d1); lia.
Qed.

Lemma coins_eqb_eq x : forall y, coins_eqb x y = true -> x = y.
Proof.
  induction x as [|[d a] r IH]; intros [|[d' a'] r'] H; cbn in H; try discriminate; [reflexivity|].
  apply andb_prop in H as [H1 H2]. unfold coin_eqb in H1; cbn in H1. apply andb_prop in H1 as [Hd Ha].
  apply Pos.eqb_eq in Hd. apply Z.eqb_eq in Ha. subst. f_equal. apply IH; assumption.
Qed.

(** ** Order.Split *)

(** The fee loop: every fee coin is split exactly in the ratio k : assets. *)
Lemma split_fees_spec fees k assets : forall acc out,
  sorted acc -> assets <> 0 ->
  split_fees fees k assets acc = Ok out ->
  sorted out /\ forall d, amount_of out d * assets = amount_of acc d * assets + raw_sum fees d * k.
Proof.
  induction fees as [|[d1 f1] r IH]; intros acc out Hs Hne H; cbn [split_fees] in H.
  - inversion H; subst. split; [assumption|]. intros d; cbn; lia.
  - apply rbind_ok in H as (m & Hm & H). apply mulchk_ok in Hm. subst m.
    unfold quo_rem in H.
    destruct (Z.eqb_spec (Z.rem (f1 * k) assets) 0) as [Hr|Hr]; cbn [negb] in H; [|discriminate].
    destruct (Z.ltb_spec (Z.quot (f1 * k) assets) 0); [discriminate|].
    destruct (coins_add1_spec acc d1 (Z.quot (f1 * k) assets) Hs) as [Hs1 Ha1].
    destruct (IH _ _ Hs1 Hne H) as [Hs2 Ha2]. split; [assumption|].
    intros d. rewrite Ha2, Ha1, raw_sum_cons.
    pose proof (Z.quot_rem' (f1 * k) assets) as Hq. rewrite Hr in Hq.
    destruct (Pos.eqb d d1); nia.
Qed.

Definition same_static (o o' : order) : Prop :=
  o_id o' = o_id o /\ o_ask o' = o_ask o /\ o_owner o' = o_owner o /\ o_ad o' = o_ad o /\
  o_pd o' = o_pd o /\ o_partial o' = o_partial o.

(** A successful split: the filled part has exactly [k] assets, parts add up, and price (and,
    below, fees) are divided exactly in the ratio of the assets. *)
Lemma split_sound o k f u :
  split o k = Ok (f, u) ->
  0 < k < o_assets o /\ o_partial o = true /\
  same_static o f /\ same_static o u /\
  o_assets f = k /\ o_assets u = o_assets o - k /\
  o_price f + o_price u = o_price o /\
  o_price f * o_assets o = o_price o * o_assets f /\
  o_price u * o_assets o = o_price o * o_assets u.
Proof.
  unfold split. intros H.
  destruct (Z.leb_spec k 0); [discriminate|].
  destruct (Z.eqb_spec k (o_assets o)); [discriminate|].
  destruct (Z.ltb_spec (o_assets o) k); [discriminate|].
  destruct (o_partial o) eqn:Hp; cbn [negb] in H; [|discriminate].
  apply rbind_ok in H as (pm & Hm & H). apply mulchk_ok in Hm. subst pm.
  unfold quo_rem in H.
  destruct (Z.eqb_spec (Z.rem (o_price o * k) (o_assets o)) 0) as [Hr|Hr]; cbn [negb] in H; [|discriminate].
  apply rbind_ok in H as ([ff fu] & _ & H). inversion H; subst; clear H.
  pose proof (Z.quot_rem' (o_price o * k) (o_assets o)) as Hq. rewrite Hr in Hq.
  unfold same_static, with_amounts; cbn.
  repeat split; try lia; try assumption; nia.
Qed.

(** Fees of a bid order (an sdk.Coins, sorted) are divided exactly too, coin by coin. *)
Lemma split_fees_sound o k f u :
  o_ask o = false -> sorted (o_fees o) ->
  split o k = Ok (f, u) ->
  forall d,
    amount_of (o_fees f) d + amount_of (o_fees u) d = amount_of (o_fees o) d /\
    amount_of (o_fees f) d * o_assets o = amount_of (o_fees o) d * o_assets f /\
    amount_of (o_fees u) d * o_assets o = amount_of (o_fees o) d * o_assets u.
Proof.
  intros Hbid Hsorted H. pose proof (split_sound _ _ _ _ H) as (Hk & _ & _ & _ & Haf & Hau & _).
  unfold split in H.
  destruct (Z.leb_spec k 0); [discriminate|].
  destruct (Z.eqb_spec k (o_assets o)); [discriminate|].
  destruct (Z.ltb_spec (o_assets o) k); [discriminate|].
  destruct (o_partial o); cbn [negb] in H; [|discriminate].
  apply rbind_ok in H as (pm & Hm & H). unfold quo_rem in H.
  destruct (Z.rem pm (o_assets o) =? 0); cbn [negb] in H; [|discriminate].
  apply rbind_ok in H as ([ff fu] & Hfees & H). rewrite Hbid in H. inversion H; subst f u; clear H.
  cbn [o_fees o_assets with_amounts] in *. intros d.
  destruct (coins_is_zero (o_fees o)) eqn:Hz.
  - inversion Hfees; subst. cbn [amount_of].
    assert (Hzero : forall c, coins_is_zero c = true -> amount_of c d = 0).
    { induction c as [|[d1 a1] r IH]; cbn; intros Hc; [reflexivity|].
      apply andb_prop in Hc as [Hc1 Hc2]. cbn in Hc1. destruct (Pos.eqb d d1); [lia|auto]. }
    rewrite (Hzero _ Hz). lia.
  - apply rbind_ok in Hfees as (ff' & Hsf & Hrest).
    destruct (coins_any_neg (coins_sub (o_fees o) ff')); [discriminate|]. inversion Hrest; subst; clear Hrest.
    assert (Hnz : o_assets o <> 0) by lia.
    destruct (split_fees_spec _ _ _ _ _ sorted_nil Hnz Hsf) as [Hsff Haff].
    unfold coins_sub. destruct (coins_add_spec (coins_neg ff) _ Hsorted) as [_ Hsub].
    rewrite Hsub, raw_sum_neg, (raw_sum_sorted _ Hsff).
    specialize (Haff d). cbn [amount_of] in Haff. rewrite (raw_sum_sorted _ Hsorted) in Haff.
    repeat split; nia.
Qed.
