(** Proofs about [PV.Marker.MultiLifecycle] (property C05), second part: what the maximum supply
    bounds in a world of several markers with parameter changes, and what a block boundary may
    change. *)
From Coq Require Import ZArith NArith List Bool Lia ZifyBool.
From PV Require Import Marker.Lifecycle Marker.MultiLifecycle
     Proofs.LifecycleProofs Proofs.LifecycleProofs2 Proofs.LifecycleProofs3 Proofs.MultiLifecycleProofs.
Import ListNotations.
Open Scope Z_scope.

#[local] Opaque get set total escrow.

(** * The activating step *)
Lemma m_activation ops W o d m' W' :
  let W1 := mrun W ops in
  mstep W1 o = (W', true) -> not_active (view W1 d) ->
  c_mk (cells W' d) = Some m' -> st m' = Active -> c_supply (cells W' d) = msupply m'.
Proof.
  intros W1 Hs Hna Hm' Hst'. apply mstep_last in Hs.
  pose proof (mstep_proj W1 o W' Hs d) as Hp. destruct (proj W1 o d) as [o1|].
  - exact (step_opt_activation (view W1 d) o1 (view W' d) m' Hp Hna Hm' Hst').
  - exfalso. unfold not_active in Hna. rewrite <- Hp in Hna. cbn [view mk] in Hna. rewrite Hm' in Hna. contradiction.
Qed.

(** * The parameters a denom sees along its projected history are among those of the world *)
Lemma max_param_proj ops : forall W d, max_param (view W d) (proj_hist W ops d) <= wmax_param W ops.
Proof.
  induction ops as [|o r IH]; intros W d; [cbn; lia|].
  cbn [proj_hist wmax_param].
  destruct (mstep_cases W o) as [(W' & Ho & He)|(Ho & He)]; rewrite He, Ho; cbn [fst].
  - pose proof (mstep_proj W o W' Ho d) as Hp. destruct (proj W o d) as [o1|].
    + cbn [app max_param]. rewrite (step_of_opt _ _ _ Hp). specialize (IH W' d). cbn [view maxsupply] in *. lia.
    + cbn [app]. rewrite <- Hp. specialize (IH W' d). lia.
  - cbn [app]. specialize (IH W d). lia.
Qed.

Lemma m_active_supply_bound W pre post d m1 m2 :
  let W1 := mrun W pre in let W2 := mrun W1 post in
  c_mk (cells W1 d) = Some m1 -> st m1 = Active -> c_mk (cells W2 d) = Some m2 -> st m2 = Active ->
  c_gen (cells W1 d) = c_gen (cells W2 d) ->
  c_supply (cells W2 d) <= Z.max (Z.max (c_supply (cells W1 d)) (msupply m1)) (wmax_param W1 post).
Proof.
  intros W1 W2 H1 Hs1 H2 Hs2 Hg. subst W2.
  pose proof (mrun_view post W1 d) as Hv.
  pose proof (run_active_supply_bound (view W1 d) [] (proj_hist W1 post d) m1 m2) as Hb.
  cbn [run fold_left] in Hb. cbv zeta in Hb. change (fold_left (fun x o => fst (step x o)) (proj_hist W1 post d) (view W1 d))
    with (run (view W1 d) (proj_hist W1 post d)) in Hb. rewrite <- Hv in Hb.
  specialize (Hb H1 Hs1 H2 Hs2 Hg). pose proof (max_param_proj post W1 d). cbn [view supply] in Hb. lia.
Qed.

Lemma m_bound_since_activation W pre o post d m2 :
  let W0 := mrun W pre in let W1 := fst (mstep W0 o) in let W2 := mrun W1 post in
  not_active (view W0 d) -> (exists m1, c_mk (cells W1 d) = Some m1 /\ st m1 = Active) ->
  c_mk (cells W2 d) = Some m2 -> st m2 = Active -> c_gen (cells W1 d) = c_gen (cells W2 d) ->
  c_supply (cells W2 d) <= Z.max (c_supply (cells W1 d)) (wmax_param W1 post).
Proof.
  intros W0 W1 W2 Hna (m1 & H1 & Hs1) H2 Hs2 Hg.
  assert (c_supply (cells W1 d) = msupply m1) as He.
  { subst W1. destruct (mstep_cases W0 o) as [(Wx & Ho & Hx)|(Ho & Hx)]; rewrite Hx in *; cbn [fst] in *.
    - exact (m_activation pre W o d m1 Wx Hx Hna H1 Hs1).
    - exfalso. unfold not_active in Hna. cbn [view mk] in Hna. rewrite H1 in Hna. contradiction. }
  pose proof (m_active_supply_bound W (pre ++ [o]) post d m1 m2) as Hb. cbv zeta in Hb.
  rewrite mrun_app in Hb. change (mrun (mrun W pre) [o]) with W1 in Hb. fold W2 in Hb.
  specialize (Hb H1 Hs1 H2 Hs2 Hg). lia.
Qed.

(** Without parameter changes the last term is the one MaxSupply. *)
Definition is_mset_params (o : mop) : bool := match o with MSetParams _ _ _ _ => true | _ => false end.

Lemma mstep_keeps_max W o : is_mset_params o = false -> w_max (fst (mstep W o)) = w_max W.
Proof.
  intros Hn. destruct (mstep_cases W o) as [(W' & Ho & He)|(Ho & He)]; rewrite He; cbn [fst]; [|reflexivity].
  destruct o; try discriminate Hn; unfold mstep_opt in Ho; brk; subst; try reflexivity.
  destruct (uses_authz _ _ _); [|reflexivity]. unfold consume_grant. destruct (find_grant _ _ _); reflexivity.
Qed.

Lemma wmax_param_const ops : forall W,
  forallb (fun o => negb (is_mset_params o)) ops = true -> wmax_param W ops = w_max W.
Proof.
  induction ops as [|o r IH]; intros W Hno; [reflexivity|].
  cbn [forallb] in Hno. apply andb_true_iff in Hno. destruct Hno as [Ho Hr].
  cbn [wmax_param]. rewrite IH by exact Hr. rewrite mstep_keeps_max by (destruct (is_mset_params o); [discriminate|reflexivity]). lia.
Qed.

(** * What a block boundary may change on a sound state: nothing but the removal of destroyed records *)
Lemma begin_block_mk s s' :
  step_opt s OBeginBlock = Some s' ->
  mk s' = mk s \/ (exists m, mk s = Some m /\ st m = Destroyed /\ mk s' = None).
Proof.
  intros H. unfold step_opt in H. destruct (mk s) as [m|] eqn:Em.
  - destruct (status_eqb (st m) Destroyed) eqn:Ed.
    + right. exists m. split; [reflexivity|]. split.
      * unfold status_eqb in Ed. destruct (st m); cbn in Ed; try discriminate; reflexivity.
      * brk; subst; reflexivity.
    + left. brk; subst; use_specs; simp_state; intuition congruence.
  - injection H as <-. left. exact Em.
Qed.

Lemma m_begin_block_marker W d :
  let W' := fst (mstep W MBeginBlock) in
  c_mk (cells W' d) = c_mk (cells W d) \/
  (exists m, c_mk (cells W d) = Some m /\ st m = Destroyed /\ c_mk (cells W' d) = None).
Proof.
  intros W'. subst W'.
  destruct (mstep_cases W MBeginBlock) as [(W2 & Ho & He)|(Ho & He)]; rewrite He; cbn [fst]; [|left; reflexivity].
  pose proof (mstep_proj W MBeginBlock W2 Ho d) as Hp. cbn [proj] in Hp.
  destruct (in_dom W d).
  - destruct (begin_block_mk _ _ Hp) as [Hq|(m & Hm & Hd & Hn)]; [left; exact Hq|right].
    exists m. repeat split; assumption.
  - left. change (mk (view W2 d) = mk (view W d)). rewrite Hp. reflexivity.
Qed.
