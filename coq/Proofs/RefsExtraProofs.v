(** Further facts about the metadata store model [PV.Metadata.Refs] (deepening round):
      F  scopes_by_address_lookup   the by-address lookup in "query" form, after ANY history
         (in particular after AddScopeOwner / DeleteScopeOwner / Add/DeleteScopeDataAccess)
      G  add_owners_effect, del_owners_effect, last owner cannot be removed
      H  locs_frame                 only the three locator messages touch object store locators
         (so deleting a scope leaves them: they belong to accounts)
      I  remove_scope_keeps_navs_refuted   the keeper's RemoveScope leaves net asset values *)
From Coq Require Import ZArith List Bool Lia.
From PV Require Import Metadata.Refs Proofs.RefsProofs.
Import ListNotations.
Open Scope Z_scope.

(** * F *)
Lemma find_scope_In : forall st id sc, NoDup (map sc_id (scopes st)) ->
  (find_scope st id = Some sc <-> In sc (scopes st) /\ sc_id sc = id).
Proof.
  intros st id sc Hnd. unfold find_scope. split.
  - intros Hf. apply find_some in Hf. destruct Hf as [Hin He]. apply Z.eqb_eq in He. auto.
  - intros [Hin Hid]. destruct (find (fun s => sc_id s =? id) (scopes st)) as [x|] eqn:Ef.
    + apply find_some in Ef. destruct Ef as [Hx Hex]. apply Z.eqb_eq in Hex.
      f_equal. apply (nodup_id_inj sc_id (scopes st)); auto. congruence.
    + pose proof (find_none _ _ Ef sc Hin) as Hn. cbn beta in Hn.
      apply Z.eqb_neq in Hn. congruence.
Qed.

Lemma scopes_by_address_lookup : forall ops a id, let st := run ops in
  In (a, id) (ix_as st) <->
  exists sc, find_scope st id = Some sc /\ In a (map acct (sc_da sc ++ sc_owners sc)).
Proof.
  intros ops a id st.
  destruct (indexes_exact ops) as (I1 & _). destruct (keys_unique ops) as (U1 & _).
  fold st in I1, U1. rewrite (I1 (a, id)). split.
  - intros (sc & Hin & Hk). unfold scope_keys_as in Hk. apply in_map_iff in Hk.
    destruct Hk as (e & He & Hine). inversion He; subst. exists sc. split.
    + apply find_scope_In; auto.
    + apply in_map; exact Hine.
  - intros (sc & Hf & Ha). apply find_scope_In in Hf; auto. destruct Hf as [Hin Hid].
    exists sc; split; auto. unfold scope_keys_as. apply in_map_iff in Ha.
    destruct Ha as (e & He & Hine). apply in_map_iff. exists e. split; [congruence | exact Hine].
Qed.
Print Assumptions scopes_by_address_lookup.

(** * G *)
Lemma find_scope_set : forall st s, find_scope (set_scope st s) (sc_id s) = Some s.
Proof.
  intros st s. unfold find_scope, set_scope; sproj. cbn [find]. rewrite Z.eqb_refl. reflexivity.
Qed.

Lemma find_scope_id : forall st id sc, find_scope st id = Some sc -> sc_id sc = id.
Proof.
  intros st id sc H. unfold find_scope in H. apply find_some in H. destruct H as [_ H].
  apply Z.eqb_eq; exact H.
Qed.

Lemma add_owners_effect : forall st id l st' sc,
  find_scope st id = Some sc -> step st (MAddOwners id l) = (st', true) ->
  find_scope st' id = Some (ScR id (sc_spec sc) (sc_owners sc ++ l) (sc_da sc) (sc_rollup sc)) /\
  l <> [] /\ (forall a, In a l -> ~ In (p_same a) (map p_same (sc_owners sc))) /\
  optional_ok (sc_rollup sc) (sc_owners sc ++ l) = true /\
  isSome (find_sspec st (sc_spec sc)) = true.
Proof.
  intros st id l st' sc Hf H. pose proof (find_scope_id _ _ _ Hf) as Hid.
  cbn [step] in H. destruct (owners_basic l) eqn:Eb; cbn [negb] in H; [|discriminate H].
  rewrite Hf in H.
  destruct (existsb (fun a => memz (p_same a) (map p_same (sc_owners sc))) l) eqn:Ee; cbn [orb] in H; [discriminate H|].
  destruct (owners_ok (sc_rollup sc) (sc_owners sc ++ l)) eqn:Eo; cbn [negb orb] in H; [|discriminate H].
  destruct (isSome (find_sspec st (sc_spec sc))) eqn:Es; cbn [negb] in H; [|discriminate H].
  unfold ok in H. inversion H; subst st'. clear H. splits.
  - subst id. exact (find_scope_set st (ScR (sc_id sc) (sc_spec sc) (sc_owners sc ++ l) (sc_da sc) (sc_rollup sc))).
  - intros ->. discriminate Eb.
  - intros a Ha Hin.
    assert (existsb (fun a => memz (p_same a) (map p_same (sc_owners sc))) l = true) as Ht.
    { apply existsb_exists. exists a; split; auto. unfold memz. apply existsb_exists.
      exists (p_same a); split; auto. apply Z.eqb_refl. }
    congruence.
  - unfold owners_ok in Eo. apply andb_true_iff in Eo. destruct Eo as [Eo _].
    apply andb_true_iff in Eo. tauto.
  - reflexivity.
Qed.
Print Assumptions add_owners_effect.

Lemma del_owners_effect : forall st id l st' sc,
  find_scope st id = Some sc -> step st (MDelOwners id l) = (st', true) ->
  find_scope st' id = Some (ScR id (sc_spec sc) (drop_addrs l (sc_owners sc)) (sc_da sc) (sc_rollup sc)) /\
  drop_addrs l (sc_owners sc) <> [] /\ (forall a, In a l -> In a (map p_entry (sc_owners sc))).
Proof.
  intros st id l st' sc Hf H. pose proof (find_scope_id _ _ _ Hf) as Hid.
  cbn [step] in H. destruct l as [|x l]; [discriminate H|]. rewrite Hf in H.
  destruct (forallb (fun a => memz a (map p_entry (sc_owners sc))) (x :: l)) eqn:Ef; cbn [negb orb] in H; [|discriminate H].
  destruct (owners_ok (sc_rollup sc) (drop_addrs (x :: l) (sc_owners sc))) eqn:Eo; cbn [negb orb] in H; [|discriminate H].
  destruct (isSome (find_sspec st (sc_spec sc))) eqn:Es; cbn [negb] in H; [|discriminate H].
  unfold ok in H. inversion H; subst st'. clear H. splits.
  - subst id. exact (find_scope_set st (ScR (sc_id sc) (sc_spec sc) (drop_addrs (x :: l) (sc_owners sc)) (sc_da sc) (sc_rollup sc))).
  - intros E. rewrite E in Eo. discriminate Eo.
  - intros a Ha. rewrite forallb_forall in Ef. specialize (Ef a Ha). unfold memz in Ef.
    apply existsb_exists in Ef. destruct Ef as (y & Hy & Heq). apply Z.eqb_eq in Heq. subst; auto.
Qed.
Print Assumptions del_owners_effect.

(** every owner party is listed under its address, optional or not, whatever its role *)
Lemma every_owner_party_listed : forall ops sc p, In sc (scopes (run ops)) -> In p (sc_owners sc) ->
  In (acct p, sc_id sc) (ix_as (run ops)).
Proof.
  intros ops sc p Hsc Hp. destruct (indexes_exact ops) as (I1 & _). apply I1.
  exists sc; split; auto. unfold scope_keys_as. apply in_map_iff. exists p; split; auto.
  apply in_or_app; right; exact Hp.
Qed.
Print Assumptions every_owner_party_listed.

(** the flag flip required -> optional of a party (a WriteScope) keeps its entry *)
Lemma optional_flip_keeps_entry :
  let ops := [MWriteCSpec (Cs 1 [1]); MWriteSSpec (Ss 1 [1] [1]);
              MWriteScope (ScR 1 1 [1; 1002] [] true) 0; MWriteScope (ScR 1 1 [1; 101002] [] true) 0;
              MWriteScope (ScR 1 1 [1; 101002] [] false) 0; MAddOwners 1 [102003]; MAddOwners 1 [103]] in
  map snd (snd (fold_left (fun acc o => let '(st', b) := step (fst acc) o in (st', snd acc ++ [(o, b)])) ops (init, [])))
    = [true; true; true; true; false; true; true] /\
  ix_as (run ops) = [(3, 1); (2, 1); (1, 1)] /\
  scopes (run ops) = [ScR 1 1 [1; 101002; 102003; 103] [] true].
Proof. vm_compute. repeat split. Qed.

(** * G' : deleting a contract specification by message leaves none of its record specifications *)
Lemma delete_cspec_clean : forall st id st', Inv st -> step st (MDeleteCSpec id) = (st', true) ->
  find_cspec st' id = None /\ (forall r, In r (rspecs st') -> rs_cspec r <> id) /\
  (forall a, ~ In (a, id) (ix_ac st')) /\ (forall x, ~ In (id, x) (ix_cs st')).
Proof.
  intros st id st' HI H. cbn [step] in H.
  destruct (isSome (find_cspec st id)) eqn:Ef; [|discriminate H].
  set (st1 := with_rspecs st (filter (fun x => negb (rs_cspec x =? id)) (rspecs st))) in *.
  assert (Inv st1) as HI1 by (apply Inv_with_rspecs_filter; exact HI).
  unfold of_opt in H. destruct (remove_cspec st1 id) as [s2|] eqn:Er; [|discriminate H].
  inversion H; subst s2. clear H.
  pose proof (Inv_remove_cspec _ _ _ Er HI1) as ((_&_&_&_&U5&_)&(_&_&_&_&I5)).
  unfold remove_cspec in Er. destruct (cspec_used st1 id) eqn:Eu; [discriminate Er|].
  destruct (find_cspec st1 id) as [c|] eqn:Ec; [|discriminate Er]. inversion Er; subst st'. clear Er.
  sproj. splits.
  - unfold find_cspec; sproj. apply (find_filter_negb (fun s => cs_id s =? id)).
  - intros r Hr. unfold st1 in Hr; sproj. apply filter_In in Hr. destruct Hr as [_ Hr].
    apply negb_true_iff, Z.eqb_neq in Hr. exact Hr.
  - intros a Hin. apply I5 in Hin. destruct Hin as (b & Hb & Hk). sproj.
    apply filter_In in Hb. destruct Hb as [_ Hb]. apply negb_true_iff, Z.eqb_neq in Hb.
    apply keys_ac_id in Hk. cbn [snd] in Hk. congruence.
  - intros x Hin. unfold cspec_used in Eu.
    assert (existsb (fun k => fst k =? id) (ix_cs st1) = true) as Ht.
    { apply existsb_exists. exists (id, x); split; [exact Hin | apply Z.eqb_refl]. }
    congruence.
Qed.
Print Assumptions delete_cspec_clean.

Lemma delete_cspec_clean_run : forall ops id st', step (run ops) (MDeleteCSpec id) = (st', true) ->
  find_cspec st' id = None /\ (forall r, In r (rspecs st') -> rs_cspec r <> id) /\
  (forall a, ~ In (a, id) (ix_ac st')) /\ (forall x, ~ In (id, x) (ix_cs st')).
Proof. intros ops id st' H. eapply delete_cspec_clean; [apply Inv_run | exact H]. Qed.
Print Assumptions delete_cspec_clean_run.

(** * H *)
Definition loc_op (o : op) : bool :=
  match o with MBindLoc _ _ _ | MDelLoc _ | MModLoc _ _ => true | _ => false end.

Lemma sub_locs : forall st st', sub st st' -> locs st' = locs st.
Proof. intros st st' (_&_&_&_&_&_&_&_&_&_&H&_). exact H. Qed.

Lemma locs_remove_scope : forall st id, locs (remove_scope st id) = locs st.
Proof.
  intros st id. destruct (find_scope st id) as [sc|] eqn:E.
  - rewrite (remove_scope_eq _ _ _ E). cbv zeta. sproj. apply sub_locs. apply sub_rm.
  - unfold remove_scope. rewrite E. reflexivity.
Qed.

Lemma locs_remove_session : forall st a b, locs (remove_session st a b) = locs st.
Proof. intros. apply sub_locs, sub_remove_session. Qed.
Lemma locs_remove_record : forall st a b, locs (remove_record st a b) = locs st.
Proof. intros. apply sub_locs, sub_remove_record. Qed.

Lemma locs_opt : forall (o : option state) st0 L,
  (forall s, o = Some s -> locs s = L) -> locs st0 = L -> locs (fst (of_opt st0 o)) = L.
Proof. intros [s|] st0 L H H0; cbn [of_opt fst]; auto. Qed.

Lemma locs_frame : forall st o, loc_op o = false -> locs (fst (step st o)) = locs st.
Proof.
  intros st o Hl. destruct o; try discriminate Hl; clear Hl; cbn [step];
    unfold ok, option_map, remove_sspec, remove_cspec, remove_rspec, set_nav;
    destruct_matches; cbn [fst of_opt]; sproj;
    rewrite ?locs_remove_session, ?locs_remove_scope, ?locs_remove_record; try reflexivity.
  unfold remove_navs; sproj. apply locs_remove_scope.
Qed.
Print Assumptions locs_frame.

Lemma locs_frame_match : forall st o,
  (match o with MBindLoc _ _ _ | MDelLoc _ | MModLoc _ _ => false | _ => true end) = true ->
  locs (fst (step st o)) = locs st.
Proof. intros st o H. apply locs_frame. destruct o; try reflexivity; discriminate H. Qed.
Print Assumptions locs_frame_match.

Lemma delete_scope_keeps_locators : forall st id,
  locs (fst (step st (MDeleteScope id))) = locs st /\ locs (fst (step st (KRemoveScope id))) = locs st.
Proof. intros; split; apply locs_frame; reflexivity. Qed.

(** the per-scope listing is the locators of the owners' accounts, one per owner ENTRY *)
Lemma locs_by_scope_spec : forall st id sc, find_scope st id = Some sc ->
  locs_by_scope st id =
  Some (flat_map (fun e => match find_loc st (acct e) with Some l => [l] | None => [] end) (sc_owners sc)).
Proof. intros st id sc H. unfold locs_by_scope. rewrite H. reflexivity. Qed.

(** * I *)
Lemma remove_scope_keeps_navs_refuted :
  let ops := [MWriteCSpec (Cs 1 [1]); MWriteSSpec (Ss 1 [1] [1]); MWriteScope (Sc 1 1 [1] []) 25;
              KSetNav 1 1 7] in
  navs (run ops) = [(1, 1, 7); (1, 0, 25)] /\
  (let st' := fst (step (run ops) (KRemoveScope 1)) in
   scopes st' = [] /\ navs st' = [(1, 1, 7); (1, 0, 25)]) /\
  (let st' := fst (step (run ops) (MDeleteScope 1)) in scopes st' = [] /\ navs st' = []).
Proof. vm_compute. repeat split. Qed.
Print Assumptions remove_scope_keeps_navs_refuted.
