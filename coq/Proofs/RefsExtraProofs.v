(** Further facts about the metadata store model [PV.Metadata.Refs] (deepening round):
      F  scopes_by_address_lookup   the by-address lookup in "query" form, after ANY history
         (in particular after AddScopeOwner / DeleteScopeOwner / Add/DeleteScopeDataAccess)
      G  add_owners_effect, del_owners_effect, last owner cannot be removed
      H  locs_frame                 only the three locator messages touch object store locators
         (so deleting a scope leaves them: they belong to accounts)
      I  remove_scope_keeps_navs_refuted   the keeper's RemoveScope leaves net asset values *)
From Coq Require Import ZArith List Bool Lia.
From PV Require Import Metadata.Refs Proofs.RefsProofs.
Import ListNotations.
Open Scope Z_scope.

(** * F *)
Lemma find_scope_In : forall st id sc, NoDup (map sc_id (scopes st)) ->
  (find_scope st id = Some sc <-> In sc (scopes st) /\ sc_id sc = id).
Proof.
  intros st id sc Hnd. unfold find_scope. split.
  - intros Hf. apply find_some in Hf. destruct Hf as [Hin He]. apply Z.eqb_eq in He. auto.
  - intros [Hin Hid]. destruct (find (fun s => sc_id s =? id) (scopes st)) as [x|] eqn:Ef.
    + apply find_some in Ef. destruct Ef as [Hx Hex]. apply Z.eqb_eq in Hex.
      f_equal. apply (nodup_id_inj sc_id (scopes st)); auto. congruence.
    + pose proof (find_none _ _ Ef sc Hin) as Hn. cbn beta in Hn.
      apply Z.eqb_neq in Hn. congruence.
Qed.

Lemma scopes_by_address_lookup : forall ops a id, let st := run ops in
  In (a, id) (ix_as st) <->
  exists sc, find_scope st id = Some sc /\ In a (map acct (sc_da sc ++ sc_owners sc)).
Proof.
  intros ops a id st.
  destruct (indexes_exact ops) as (I1 & _). destruct (keys_unique ops) as (U1 & _).
  fold st in I1, U1. rewrite (I1 (a, id)). split.
  - intros (sc & Hin & Hk). unfold scope_keys_as in Hk. apply in_map_iff in Hk.
    destruct Hk as (e & He & Hine). inversion He; subst. exists sc. split.
    + apply find_scope_In; auto.
    + apply in_map; exact Hine.
  - intros (sc & Hf & Ha). apply find_scope_In in Hf; auto. destruct Hf as [Hin Hid].
    exists sc; split; auto. unfold scope_keys_as. apply in_map_iff in Ha.
    destruct Ha as (e & He & Hine). apply in_map_iff. exists e. split; [congruence | exact Hine].
Qed.
Print Assumptions scopes_by_address_lookup.

(** * G *)
Lemma find_scope_set : forall st s, find_scope (set_scope st s) (sc_id s) = Some s.
Proof.
  intros st s. unfold find_scope, set_scope; sproj. cbn [find]. rewrite Z.eqb_refl. reflexivity.
Qed.

Lemma find_scope_id : forall st id sc, find_scope st id = Some sc -> sc_id sc = id.
Proof.
  intros st id sc H. unfold find_scope in H. apply find_some in H. destruct H as [_ H].
  apply Z.eqb_eq; exact H.
Qed.

Lemma add_owners_effect : forall st id l st' sc,
  find_scope st id = Some sc -> step st (MAddOwners id l) = (st', true) ->
  find_scope st' id = Some (Sc id (sc_spec sc) (sc_owners sc ++ l) (sc_da sc)) /\
  l <> [] /\ (forall a, In a l -> ~ In a (sc_owners sc)) /\
  isSome (find_sspec st (sc_spec sc)) = true.
Proof.
  intros st id l st' sc Hf H. pose proof (find_scope_id _ _ _ Hf) as Hid.
  cbn [step] in H. destruct (owners_basic l) eqn:Eb; cbn [negb] in H; [|discriminate H].
  rewrite Hf in H.
  destruct (existsb (fun a => memz a (sc_owners sc)) l) eqn:Ee; cbn [orb] in H; [discriminate H|].
  destruct (owners_basic (sc_owners sc ++ l)) eqn:Eo; cbn [negb orb] in H; [|discriminate H].
  destruct (isSome (find_sspec st (sc_spec sc))) eqn:Es; cbn [negb] in H; [|discriminate H].
  unfold ok in H. inversion H; subst st'. clear H. splits.
  - subst id. exact (find_scope_set st (Sc (sc_id sc) (sc_spec sc) (sc_owners sc ++ l) (sc_da sc))).
  - intros ->. discriminate Eb.
  - intros a Ha Hin.
    assert (existsb (fun a => memz a (sc_owners sc)) l = true) as Ht.
    { apply existsb_exists. exists a; split; auto. unfold memz. apply existsb_exists.
      exists a; split; auto. apply Z.eqb_refl. }
    congruence.
  - reflexivity.
Qed.
Print Assumptions add_owners_effect.

Lemma del_owners_effect : forall st id l st' sc,
  find_scope st id = Some sc -> step st (MDelOwners id l) = (st', true) ->
  find_scope st' id = Some (Sc id (sc_spec sc) (drop_all l (sc_owners sc)) (sc_da sc)) /\
  drop_all l (sc_owners sc) <> [] /\ (forall a, In a l -> In a (sc_owners sc)).
Proof.
  intros st id l st' sc Hf H. pose proof (find_scope_id _ _ _ Hf) as Hid.
  cbn [step] in H. destruct l as [|x l]; [discriminate H|]. rewrite Hf in H.
  destruct (forallb (fun a => memz a (sc_owners sc)) (x :: l)) eqn:Ef; cbn [negb orb] in H; [|discriminate H].
  destruct (owners_basic (drop_all (x :: l) (sc_owners sc))) eqn:Eo; cbn [negb orb] in H; [|discriminate H].
  destruct (isSome (find_sspec st (sc_spec sc))) eqn:Es; cbn [negb] in H; [|discriminate H].
  unfold ok in H. inversion H; subst st'. clear H. splits.
  - subst id. exact (find_scope_set st (Sc (sc_id sc) (sc_spec sc) (drop_all (x :: l) (sc_owners sc)) (sc_da sc))).
  - intros E. rewrite E in Eo. discriminate Eo.
  - intros a Ha. rewrite forallb_forall in Ef. specialize (Ef a Ha). unfold memz in Ef.
    apply existsb_exists in Ef. destruct Ef as (y & Hy & Heq). apply Z.eqb_eq in Heq. subst; auto.
Qed.
Print Assumptions del_owners_effect.

(** * H *)
Definition loc_op (o : op) : bool :=
  match o with MBindLoc _ _ _ | MDelLoc _ | MModLoc _ _ => true | _ => false end.

Lemma sub_locs : forall st st', sub st st' -> locs st' = locs st.
Proof. intros st st' (_&_&_&_&_&_&_&_&_&_&H&_). exact H. Qed.

Lemma locs_remove_scope : forall st id, locs (remove_scope st id) = locs st.
Proof.
  intros st id. destruct (find_scope st id) as [sc|] eqn:E.
  - rewrite (remove_scope_eq _ _ _ E). cbv zeta. sproj. apply sub_locs. apply sub_rm.
  - unfold remove_scope. rewrite E. reflexivity.
Qed.

Lemma locs_remove_session : forall st a b, locs (remove_session st a b) = locs st.
Proof. intros. apply sub_locs, sub_remove_session. Qed.
Lemma locs_remove_record : forall st a b, locs (remove_record st a b) = locs st.
Proof. intros. apply sub_locs, sub_remove_record. Qed.

Lemma locs_opt : forall (o : option state) st0 L,
  (forall s, o = Some s -> locs s = L) -> locs st0 = L -> locs (fst (of_opt st0 o)) = L.
Proof. intros [s|] st0 L H H0; cbn [of_opt fst]; auto. Qed.

Lemma locs_frame : forall st o, loc_op o = false -> locs (fst (step st o)) = locs st.
Proof.
  intros st o Hl. destruct o; try discriminate Hl; clear Hl; cbn [step];
    unfold ok, option_map, remove_sspec, remove_cspec, remove_rspec, set_nav;
    destruct_matches; cbn [fst of_opt]; sproj;
    rewrite ?locs_remove_session, ?locs_remove_scope, ?locs_remove_record; try reflexivity.
  unfold remove_navs; sproj. apply locs_remove_scope.
Qed.
Print Assumptions locs_frame.

Lemma locs_frame_match : forall st o,
  (match o with MBindLoc _ _ _ | MDelLoc _ | MModLoc _ _ => false | _ => true end) = true ->
  locs (fst (step st o)) = locs st.
Proof. intros st o H. apply locs_frame. destruct o; try reflexivity; discriminate H. Qed.
Print Assumptions locs_frame_match.

Lemma delete_scope_keeps_locators : forall st id,
  locs (fst (step st (MDeleteScope id))) = locs st /\ locs (fst (step st (KRemoveScope id))) = locs st.
Proof. intros; split; apply locs_frame; reflexivity. Qed.

(** the per-scope listing is the locators of the owners' accounts, one per owner ENTRY *)
Lemma locs_by_scope_spec : forall st id sc, find_scope st id = Some sc ->
  locs_by_scope st id =
  Some (flat_map (fun e => match find_loc st (acct e) with Some l => [l] | None => [] end) (sc_owners sc)).
Proof. intros st id sc H. unfold locs_by_scope. rewrite H. reflexivity. Qed.

(** * I *)
Lemma remove_scope_keeps_navs_refuted :
  let ops := [MWriteCSpec (Cs 1 [1]); MWriteSSpec (Ss 1 [1] [1]); MWriteScope (Sc 1 1 [1] []) 25;
              KSetNav 1 1 7] in
  navs (run ops) = [(1, 1, 7); (1, 0, 25)] /\
  (let st' := fst (step (run ops) (KRemoveScope 1)) in
   scopes st' = [] /\ navs st' = [(1, 1, 7); (1, 0, 25)]) /\
  (let st' := fst (step (run ops) (MDeleteScope 1)) in scopes st' = [] /\ navs st' = []).
Proof. vm_compute. repeat split. Qed.
Print Assumptions remove_scope_keeps_navs_refuted.
