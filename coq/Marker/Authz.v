(** Model of the marker transfer authorization and of TransferCoin (property C12).

    Go sources transcribed here:
      x/marker/types/authz.go     MarkerTransferAuthorization.Accept, DecreaseTransferLimit
                                  ([accept]; [accept_prefix] is the code BEFORE the fix commit
                                  24c42e028, whose Updated grant carried no allow list)
      x/marker/keeper/marker.go   TransferCoin, canForceTransferFrom, authzHandler,
                                  validateSendToMarker, WithdrawCoins (recipient checks),
                                  IbcTransferCoin
      x/marker/keeper/msg_server.go Transfer (ValidateBasic first)
      cosmos-sdk x/authz/keeper   DispatchActions / update / DeleteGrant: what is stored after a
                                  use (Delete -> grant removed, otherwise Updated replaces it)

    Assumed about the outside: [sdk.Coins.SafeSub] of one coin subtracts that denom and reports a
    negative result; coins are read through [amount_of] (first entry of a denom; the SDK's
    canonical form has one entry per denom and no zero entries, comparisons with the implementation
    are made through [amount_of] so the representation does not matter); the bank moves the
    coin when the sender's balance covers it and fails otherwise; a failed message leaves no trace
    (tx rollback, also of the grant update).  Denoms and addresses are interned to [N] by the
    harness.  No proofs in this file. *)
From Coq Require Import ZArith NArith List Bool.
From PV Require Import Marker.Access.
Import ListNotations.
Open Scope Z_scope.

Definition denom := N.
Definition addr := N.
Definition coins := list (denom * Z).

Fixpoint amount_of (d : denom) (l : coins) : Z :=
  match l with
  | [] => 0
  | (d', a) :: r => if N.eqb d d' then a else amount_of d r
  end.

Definition set_amt (d : denom) (v : Z) (l : coins) : coins :=
  (d, v) :: filter (fun x => negb (N.eqb d (fst x))) l.

(** Coins.IsZero *)
Definition is_zero (l : coins) : bool := forallb (fun x => Z.eqb (amount_of (fst x) l) 0) l.

(** TransferLimit.SafeSub(coin): (what is left, some amount negative) *)
Definition safe_sub (l : coins) (d : denom) (a : Z) : coins * bool :=
  let rest := amount_of d l - a in
  (set_amt d rest l, Z.ltb rest 0).

Record grant := { g_limit : coins; g_allow : list addr }.
Record tmsg := { m_to : addr; m_denom : denom; m_amt : Z }.

Definition mem (a : addr) (l : list addr) : bool := existsb (N.eqb a) l.
Definition is_nil {A} (l : list A) : bool := match l with [] => true | _ => false end.

(** authz.AcceptResponse for an accepted message; [None] = Accept returned an error. *)
Record accept_res := { ar_delete : bool; ar_updated : grant }.

Definition accept_gen (keep_allow : bool) (g : grant) (m : tmsg) : option accept_res :=
  let '(rest, neg) := safe_sub (g_limit g) (m_denom m) (m_amt m) in
  if neg then None                                           (* ErrInsufficientFunds *)
  else if negb (is_nil (g_allow g)) && negb (mem (m_to m) (g_allow g)) then None (* ErrUnauthorized *)
  else Some {| ar_delete := is_zero rest;
               ar_updated := {| g_limit := rest;
                                g_allow := if keep_allow then g_allow g else [] |} |}.

Definition accept := accept_gen true.          (* the current code *)
Definition accept_prefix := accept_gen false.  (* before fix 24c42e028 *)

(** What the authz store holds after a use: authzHandler (marker keeper) and DispatchActions
    (authz keeper) both delete on [Delete] and otherwise store [Updated]. *)
Definition stored_after (r : accept_res) : option grant :=
  if ar_delete r then None else Some (ar_updated r).

(** ** A sequence of uses of one grant. *)
Record gstate := { gs_grant : option grant; gs_bal : coins (* the granter's balance *) }.

Definition use_gen (acc : grant -> tmsg -> option accept_res) (s : gstate) (m : tmsg)
  : gstate * bool :=
  if Z.ltb (m_amt m) 0 then (s, false)                         (* MsgTransferRequest.ValidateBasic *)
  else
    match gs_grant s with
    | None => (s, false)                                        (* no authorization found *)
    | Some g =>
        match acc g m with
        | None => (s, false)
        | Some r =>
            if Z.ltb (amount_of (m_denom m) (gs_bal s)) (m_amt m) then (s, false)  (* bank: insufficient *)
            else ({| gs_grant := stored_after r;
                     gs_bal := set_amt (m_denom m) (amount_of (m_denom m) (gs_bal s) - m_amt m) (gs_bal s) |},
                  true)
        end
    end.

Definition use := use_gen accept.
Definition use_prefix := use_gen accept_prefix.

(** The history: every message with whether it went through, and the final state. *)
Fixpoint run_gen acc (s : gstate) (ms : list tmsg) : list (tmsg * bool) * gstate :=
  match ms with
  | [] => ([], s)
  | m :: r =>
      let '(s', ok) := use_gen acc s m in
      let '(tr, sf) := run_gen acc s' r in
      ((m, ok) :: tr, sf)
  end.
Definition run := run_gen accept.
Definition run_prefix := run_gen accept_prefix.

(** Total moved in one denom by the accepted messages of a trace. *)
Fixpoint moved (d : denom) (tr : list (tmsg * bool)) : Z :=
  match tr with
  | [] => 0
  | (m, ok) :: r => (if ok && N.eqb d (m_denom m) then m_amt m else 0) + moved d r
  end.

(** Every accepted message went to an address of the list (when there is a list). *)
Definition recipients_in (allow : list addr) (tr : list (tmsg * bool)) : bool :=
  is_nil allow || forallb (fun x => negb (snd x) || mem (m_to (fst x)) allow) tr.

(** ** TransferCoin. *)

(** What canForceTransferFrom reads about the source account. *)
Record acct := {
  a_group : bool;      (* groupChecker.IsGroupAddress *)
  a_exists : bool;     (* authKeeper.GetAccount != nil *)
  a_seq : N;           (* GetSequence *)
  a_marker : bool;     (* a MarkerAccountI *)
  a_market : bool      (* an *exchange.MarketAccount *)
}.

Definition can_force_transfer_from (a : acct) : bool :=
  if a_group a then true
  else if negb (a_exists a) then true
  else if negb (N.eqb (a_seq a) 0) then true
  else if a_marker a then true
  else if a_market a then true
  else false.

(** Module accounts and smart-contract accounts as the chain stores them: an existing account
    that never signed (sequence 0) and is neither a marker, a market nor a group policy. *)
Definition module_or_contract_shape (a : acct) : bool :=
  a_exists a && N.eqb (a_seq a) 0 && negb (a_marker a) && negb (a_market a) && negb (a_group a).

Inductive dest :=
| DPlain                                     (* not a marker, not blocked *)
| DMarker (restricted : bool) (st : status) (admin_rights : N)
                                             (* a marker account of that type in that status; the
                                                admin's rights on it *)
| DBlocked.                                  (* bankKeeper.BlockedAddr *)

(** validateSendToMarker: the type of the receiving marker decides, its STATUS is not read (a
    proposed, finalized, cancelled or not yet removed destroyed restricted marker's account takes
    deposits only from a holder of DEPOSIT on it, like an active one). *)
Definition dest_marker_ok (d : dest) : bool :=
  match d with
  | DMarker true _ rs => has RDeposit rs
  | _ => true
  end.
(** A variant that only guards ACTIVE receiving markers: refuted in Proofs/MarkerAccessProofs.v. *)
Definition dest_marker_ok_active_only (d : dest) : bool :=
  match d with
  | DMarker true SActive rs => has RDeposit rs
  | _ => true
  end.
Definition dest_blocked (d : dest) : bool := match d with DBlocked => true | _ => false end.

Record xfer := {
  x_status : status;
  x_type : mtype;
  x_rights : N;            (* the admin's rights on the marker of the coin *)
  x_forced : bool;         (* marker.AllowsForcedTransfer *)
  x_self : bool;           (* admin = from *)
  x_from : acct;
  x_dest : dest;
  x_grant : option grant;  (* MarkerTransferAuthorization from [from] to the admin, if any *)
  x_msg : tmsg;
  x_frombal : Z            (* from's spendable balance of the denom *)
}.

Inductive path := PSelf | PGrant | PForced.

(** [Some (how, grant stored afterwards)] when the transfer goes through, [None] when it fails. *)
Definition transfer_gen2 (dest_ok : dest -> bool) (acc : grant -> tmsg -> option accept_res) (x : xfer)
  : option (path * option grant) :=
  let m := x_msg x in
  if Z.ltb (m_amt m) 0 then None
  else if negb (status_eqb (x_status x) SActive) then None
  else if negb (is_restricted (x_type x)) then None
  else
    let can_force := has RForceTransfer (x_rights x) in
    if negb (has RTransfer (x_rights x)) && negb can_force then None
    else if negb (dest_ok (x_dest x)) then None
    else
      let how :=
        if x_self x then Some (PSelf, x_grant x)
        else if negb (x_forced x) || negb can_force then
          match x_grant x with
          | None => None
          | Some g => match acc g m with
                      | None => None
                      | Some r => Some (PGrant, stored_after r)
                      end
          end
        else if negb (can_force_transfer_from (x_from x)) then None
        else Some (PForced, x_grant x) in
      match how with
      | None => None
      | Some r =>
          if dest_blocked (x_dest x) then None
          else if Z.ltb (x_frombal x) (m_amt m) then None
          else Some r
      end.

Definition transfer_gen := transfer_gen2 dest_marker_ok.
Definition transfer := transfer_gen accept.

(** ** IbcTransferCoin (marker.go; msg_server.go IbcTransfer runs ValidateBasic first, which wants a
    positive token).  The marker must be restricted (its STATUS is not read), the administrator
    must hold TRANSFER (FORCE_TRANSFER does not stand in), and when the administrator is not the
    sender the sender's MarkerTransferAuthorization has to accept the message (receiver on the allow
    list, limit) -- there is NO forced variant of this endpoint.  The token then goes to the ibc
    transfer module (here: into the channel's escrow account) when the sender's balance covers it.
    [forced_branch = true] is the variant that shares TransferCoin's source logic, refuted in
    Proofs/MarkerTransferProofs.v.  Returns the sender's grant as stored afterwards. *)
Definition ibc_transfer_gen (forced_branch : bool) (acc : grant -> tmsg -> option accept_res) (x : xfer)
  : option (option grant) :=
  let m := x_msg x in
  if Z.leb (m_amt m) 0 then None
  else if negb (is_restricted (x_type x)) then None
  else if negb (has RTransfer (x_rights x)) then None
  else
    let how :=
      if x_self x then Some (x_grant x)
      else if forced_branch && x_forced x && has RForceTransfer (x_rights x) then
        (if can_force_transfer_from (x_from x) then Some (x_grant x) else None)
      else
        match x_grant x with
        | None => None
        | Some g => match acc g m with
                    | None => None
                    | Some r => Some (stored_after r)
                    end
        end in
    match how with
    | None => None
    | Some g' => if Z.ltb (x_frombal x) (m_amt m) then None else Some g'
    end.
Definition ibc_transfer := ibc_transfer_gen false accept.

(** ** WithdrawCoins with its recipient (marker.go WithdrawCoins): WITHDRAW on the source marker,
    validateSendToMarker on the recipient, source marker active, recipient not blocked.  [c] is the
    configuration of the SOURCE marker and the caller's rights on it. *)
Definition withdraw_to_gen (dest_ok : dest -> bool) (c : cfg) (d : dest) : bool :=
  match decide c OWithdraw with
  | Done => dest_ok d && negb (dest_blocked d)
  | _ => false
  end.
Definition withdraw_to := withdraw_to_gen dest_marker_ok.
