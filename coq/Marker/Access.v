(** Model of the access decision of every marker administration endpoint (property C12).

    Go sources transcribed here (branch for branch):
      x/marker/types/marker.go      HasAccess / AddressHasAccess / ValidateAddressHasAccess
                                    (caller's grant contains the role), SetStatus (manager cleared on
                                    activation only)
      x/marker/types/accessgrant.go hasAccess, GrantsForAddress
      x/marker/keeper/marker.go     MintCoin, BurnCoin, WithdrawCoins, FinalizeMarker, ActivateMarker,
                                    CancelMarker, DeleteMarker, AddAccess, RemoveAccess,
                                    SetMarkerDenomMetadata (+ keeper/denom.go ValidateDenomMetadata
                                    status test), accountControlsAllSupply
      x/marker/keeper/msg_server.go GrantAllowance, SetAccountData, UpdateSendDenyList,
                                    UpdateRequiredAttributes, AddNetAssetValues (who may call);
                                    UpdateForcedTransfer, SupplyIncrease/DecreaseProposal,
                                    Set/RemoveAdministratorProposal, ChangeStatusProposal,
                                    WithdrawEscrowProposal, SetDenomMetadataProposal (authority test)
      x/marker/keeper/proposal_handler.go Handle*Proposal (HasGovernanceEnabled test)

    The caller's rights are a bit mask: bit i is the Access enum value i+1
    (MINT=1 .. FORCE_TRANSFER=8 in proto/provenance/marker/v1/accessgrant.proto).

    [decide] says whether the endpoint succeeds GIVEN that everything that does not depend on who
    calls is valid (amounts available, well formed requests, recipient not blocked ...).  The
    harness builds exactly such requests, so that the access decision decides.

    The second half is the DOCUMENTED table, transcribed independently from
      proto/provenance/marker/v1/accessgrant.proto  (meaning of each Access value)
      x/marker/spec/02_state_transitions.md, 03_messages.md, 12_transfers.md
    with the source of each row in a comment.  No proofs in this file. *)
From Coq Require Import ZArith NArith List Bool.
Import ListNotations.
Open Scope N_scope.

Inductive right := RMint | RBurn | RDeposit | RWithdraw | RDelete | RAdmin | RTransfer | RForceTransfer.

Definition right_bit (r : right) : N :=
  match r with
  | RMint => 0 | RBurn => 1 | RDeposit => 2 | RWithdraw => 3
  | RDelete => 4 | RAdmin => 5 | RTransfer => 6 | RForceTransfer => 7
  end.

Definition all_rights : list right :=
  [RMint; RBurn; RDeposit; RWithdraw; RDelete; RAdmin; RTransfer; RForceTransfer].

(** MarkerAccount.HasAccess for the caller's address. *)
Definition has (r : right) (rs : N) : bool := N.testbit rs (right_bit r).

(** len(GrantsForAddress(caller).GetAccessList()) > 0 *)
Definition any_right (rs : N) : bool := existsb (fun r => has r rs) all_rights.

Inductive status := SProposed | SFinalized | SActive | SCancelled | SDestroyed.
Inductive mtype := TCoin | TRestricted.

Definition status_eqb (a b : status) : bool :=
  match a, b with
  | SProposed, SProposed | SFinalized, SFinalized | SActive, SActive
  | SCancelled, SCancelled | SDestroyed, SDestroyed => true
  | _, _ => false
  end.
Definition st_in (s : status) (l : list status) : bool := existsb (status_eqb s) l.
Definition is_restricted (t : mtype) : bool := match t with TRestricted => true | TCoin => false end.

Inductive op :=
| OMint | OBurn | OWithdraw | OFinalize | OActivate | OCancel | ODelete
| OAddAccess | ODeleteAccess | OSetMetadata | OSetAccountData | OUpdateDenyList
| OUpdateReqAttrs | OGrantAllowance | OAddNav
(* governance-only endpoints of the message server (x/marker/keeper/proposal_handler.go) *)
| OUpdateForcedTransfer | OSupplyIncrease | OSupplyDecrease | OSetAdministrator | ORemoveAdministrator
| OChangeStatus          (* MsgChangeStatusProposalRequest to the marker's CURRENT status; the
                            transitions themselves are [life_step] below *)
| OWithdrawEscrow | OSetMetadataProposal.

Definition all_ops : list op :=
  [OMint; OBurn; OWithdraw; OFinalize; OActivate; OCancel; ODelete; OAddAccess; ODeleteAccess;
   OSetMetadata; OSetAccountData; OUpdateDenyList; OUpdateReqAttrs; OGrantAllowance; OAddNav;
   OUpdateForcedTransfer; OSupplyIncrease; OSupplyDecrease; OSetAdministrator; ORemoveAdministrator;
   OChangeStatus; OWithdrawEscrow; OSetMetadataProposal].

(** Everything the access decision reads. *)
Record cfg := {
  c_status : status;
  c_type : mtype;
  c_rights : N;          (* the caller's grant on the marker *)
  c_manager : bool;      (* caller = marker.Manager (empty once the marker was activated) *)
  c_gov : bool;          (* caller = the module's authority (governance account) *)
  c_govctl : bool;       (* marker.AllowGovernanceControl *)
  c_allsupply : bool;    (* marker.Supply (the RECORDED supply) = caller's balance of the denom *)
  c_supply_zero : bool;  (* marker.Supply = 0 (then [c_allsupply] holds for any caller without coins) *)
  c_activated : bool     (* the marker is, or has at some point been, Active (its history, not a
                            stored field; the harness knows it from the lifecycle it drove) *)
}.

(** What MarkerAccount.SetStatus maintains (see [life_step] below): a marker that has been
    activated has no manager any more, and an active marker has been activated. *)
Definition cfg_wfb (c : cfg) : bool :=
  implb (c_activated c) (negb (c_manager c)) &&
  implb (match c_status c with SActive => true | _ => false end) (c_activated c).

(** accountControlsAllSupply: [supply.IsPositive() && supply.Equal(balance)] since fix 374f3de02;
    before it the positivity test was missing ([controls_all_supply_prefix]). *)
Definition controls_all_supply (c : cfg) : bool := negb (c_supply_zero c) && c_allsupply c.
Definition controls_all_supply_prefix (c : cfg) : bool := c_allsupply c.

(** Denied = the handler returns an error; NoOp = it returns success without touching state;
    Done = it succeeds and performs the operation. *)
Inductive outcome := Denied | NoOp | Done.
Definition done (b : bool) : outcome := if b then Done else Denied.

Definition decide_gen (all_supply : cfg -> bool) (c : cfg) (o : op) : outcome :=
  let rs := c_rights c in
  let s := c_status c in
  match o with
  | OMint =>
      (* ValidateAddressHasAccess(Access_Mint); proposed/finalized adjust Supply, active mints,
         anything else: "cannot mint coin for a marker that is not in Active status" *)
      done (has RMint rs && st_in s [SProposed; SFinalized; SActive])
  | OBurn => done (has RBurn rs && st_in s [SProposed; SFinalized; SActive])
  | OWithdraw =>
      (* ValidateAddressHasAccess(Access_Withdraw); status must be Active (for any coin) *)
      done (has RWithdraw rs && status_eqb s SActive)
  | OFinalize => done (c_manager c && status_eqb s SProposed)
  | OActivate => done (c_manager c && status_eqb s SFinalized)
  | OCancel =>
      match s with
      | SFinalized | SActive => done (has RDelete rs)
      | SProposed => done (has RDelete rs || c_manager c)
      | SCancelled => NoOp                       (* "nothing to be done here": return nil *)
      | SDestroyed => Denied
      end
  | ODelete => done ((has RDelete rs || c_manager c) && status_eqb s SCancelled)
  | OAddAccess | ODeleteAccess =>
      let pass_fixed :=
        (c_manager c && status_eqb s SFinalized) || has RAdmin rs || all_supply c in
      match s with
      | SFinalized | SActive => done pass_fixed   (* then falls through; the manager test below only
                                                     applies to proposed markers *)
      | SProposed => done (c_manager c)
      | SCancelled | SDestroyed => Denied
      end
  | OSetMetadata =>
      (* Access_Admin or manager; ValidateDenomMetadata: status proposed, active or finalized *)
      done ((has RAdmin rs || c_manager c) && st_in s [SProposed; SActive; SFinalized])
  | OSetAccountData =>
      done (if c_gov c then c_govctl c else has RDeposit rs)
  | OUpdateDenyList =>
      done (is_restricted (c_type c) && (if c_gov c then c_govctl c else has RTransfer rs))
  | OUpdateReqAttrs =>
      done (is_restricted (c_type c) && (if c_gov c then c_govctl c else has RTransfer rs))
  | OGrantAllowance => done (has RAdmin rs)
  | OAddNav =>
      (* isGovProp := HasGovernanceEnabled && Administrator == authority; otherwise any grant *)
      done ((c_govctl c && c_gov c) || any_right rs)
  (* msg.Authority must be k.GetAuthority(); the Handle*Proposal functions then demand
     HasGovernanceEnabled.  No access right of the caller is read. *)
  | OUpdateForcedTransfer => done (c_gov c && c_govctl c && is_restricted (c_type c))
  | OSupplyIncrease => done (c_gov c && c_govctl c && st_in s [SProposed; SFinalized; SActive])
  | OSupplyDecrease | OSetAdministrator | ORemoveAdministrator | OWithdrawEscrow | OSetMetadataProposal =>
      done (c_gov c && c_govctl c)
  | OChangeStatus =>
      (* to the same status: not "preceding"; Destroyed is only reachable from Cancelled *)
      done (c_gov c && c_govctl c && negb (status_eqb s SDestroyed))
  end.

(** What accountControlsAllSupply reads: the supply RECORDED on the marker (m.GetSupply(); kept in
    step with the bank only for fixed-supply markers -- mint, burn and the governance supply
    proposals leave it alone on a floating marker), and the caller's balance.  What the bank says
    exists ([sf_bank]) is NOT read; a variant comparing the balance with it
    ([with_supply_circulating]) is refuted in Proofs/MarkerTransferProofs.v. *)
Record supply_facts := { sf_record : Z; sf_bank : Z; sf_balance : Z }.

Definition with_supply_flags (c : cfg) (all zero : bool) : cfg :=
  {| c_status := c_status c; c_type := c_type c; c_rights := c_rights c; c_manager := c_manager c;
     c_gov := c_gov c; c_govctl := c_govctl c; c_allsupply := all; c_supply_zero := zero;
     c_activated := c_activated c |}.
Definition with_supply (c : cfg) (sf : supply_facts) : cfg :=
  with_supply_flags c (Z.eqb (sf_record sf) (sf_balance sf)) (Z.eqb (sf_record sf) 0).
Definition with_supply_circulating (c : cfg) (sf : supply_facts) : cfg :=
  with_supply_flags c (Z.eqb (sf_bank sf) (sf_balance sf)) (Z.eqb (sf_bank sf) 0).

Definition decide := decide_gen controls_all_supply.                (* the current code *)
Definition decide_prefix := decide_gen controls_all_supply_prefix.  (* before fix 374f3de02 *)

(** Marker status after the call (lifecycle endpoints), as the harness observes it. *)
Definition status_after (c : cfg) (o : op) : status :=
  match decide c o, o with
  | Done, OFinalize => SFinalized
  | Done, OActivate => SActive
  | Done, OCancel => SCancelled
  | Done, ODelete => SDestroyed
  | _, _ => c_status c
  end.

(** ** The documented table.

    A requirement says what the documentation demands of the caller of an endpoint on a marker in
    a given status: one of a list of access rights, or one of the listed alternatives. *)
Inductive alt :=
| AltManager     (* the caller is the marker's manager, and the marker has never been activated
                    (02_state_transitions "Active": "The manager field is cleared. All management
                    actions require explicit permission grants.") *)
| AltGov         (* the caller is the governance account and the marker allows governance control *)
| AltAllSupply.  (* the caller holds the marker's entire (non-empty) supply *)

Inductive requirement :=
| NotAvailable                                   (* documented to fail for everybody *)
| Needs (rs : list right) (alts : list alt).     (* one of the rights, or one of the alternatives *)

Definition documented (o : op) (s : status) (t : mtype) : requirement :=
  match o with
  | OMint =>
      (* accessgrant.proto: "ACCESS_MINT is the ability to increase the supply of a marker";
         02_state_transitions: a proposed marker accepts mint/burn; 03_messages Msg/Mint *)
      if st_in s [SProposed; SFinalized; SActive] then Needs [RMint] [] else NotAvailable
  | OBurn =>
      (* "ACCESS_BURN is the ability to decrease the supply of the marker using coin held by the marker" *)
      if st_in s [SProposed; SFinalized; SActive] then Needs [RBurn] [] else NotAvailable
  | OWithdraw =>
      (* "ACCESS_WITHDRAW is the ability to transfer funds from this marker account to another
         account"; 12_transfers "Withdraws": the transfer agent must have withdraw permission on
         the source marker (the marker's own denom only when it is active).  No status lifts the
         requirement. *)
      Needs [RWithdraw] []
  | OFinalize =>
      (* 02_state_transitions "Finalized": caller address must match the manager address,
         current status must be Proposed *)
      if status_eqb s SProposed then Needs [] [AltManager] else NotAvailable
  | OActivate =>
      (* 03_messages Msg/Activate: Finalized status, signed by the manager address *)
      if status_eqb s SFinalized then Needs [] [AltManager] else NotAvailable
  | OCancel =>
      (* "ACCESS_DELETE is the ability to move a proposed, finalized or active marker into the
         cancelled state"; 02_state_transitions "Cancelled": delete permission, or the manager
         (applies only to proposed markers) *)
      match s with
      | SProposed => Needs [RDelete] [AltManager]
      | SFinalized | SActive => Needs [RDelete] []
      | SCancelled | SDestroyed => NotAvailable
      end
  | ODelete =>
      (* "This access also allows cancelled markers to be marked for deletion";
         03_messages Msg/Delete: Cancelled status; the manager for a marker that was cancelled
         before it was ever activated (the manager is cleared on activation) *)
      if status_eqb s SCancelled then Needs [RDelete] [AltManager] else NotAvailable
  | OAddAccess | ODeleteAccess =>
      (* "ACCESS_ADMIN is the ability to add access grants for accounts to the list of marker
         permissions"; 03_messages Msg/AddAccess, Msg/DeleteAccess: pending markers by the manager,
         finalized and active markers by a caller with Admin; 02_state_transitions "Active": only
         from activation on do "all management actions require explicit permission grants", i.e.
         the manager still manages a finalized marker.
         DOCUMENTED ALTERNATIVE, stated only in the code comment of accountControlsAllSupply
         (x/marker/keeper/marker.go; no spec file mentions it): an account that "possess[es] 100%
         of the total supply of a marker ... should be able to invoke the operations as an admin
         on the marker" -- the holder of the entire, non-empty supply may add and delete access
         on finalized and active markers without holding ADMIN. *)
      match s with
      | SProposed => Needs [] [AltManager]
      | SFinalized => Needs [RAdmin] [AltManager; AltAllSupply]
      | SActive => Needs [RAdmin] [AltAllSupply]
      | SCancelled | SDestroyed => NotAvailable
      end
  | OSetMetadata =>
      (* "This access (ADMIN) also gives the ability to update the marker's denom metadata";
         03_messages Msg/SetDenomMetadata: manager address or admin access *)
      match s with
      | SProposed | SFinalized => Needs [RAdmin] [AltManager]
      | SActive => Needs [RAdmin] []
      | SCancelled | SDestroyed => NotAvailable
      end
  | OSetAccountData =>
      (* 03_messages Msg/SetAccountData: governance account (marker allowing governance control)
         or deposit access *)
      Needs [RDeposit] [AltGov]
  | OUpdateDenyList | OUpdateReqAttrs =>
      (* ACCESS_TRANSFER: "Update the marker's required attributes. Update the send-deny list.";
         03_messages: restricted markers only; transfer authority or gov proposal *)
      if is_restricted t then Needs [RTransfer] [AltGov] else NotAvailable
  | OGrantAllowance =>
      (* 03_messages Msg/GrantAllowance: the administrator must have ADMIN access *)
      Needs [RAdmin] []
  | OAddNav =>
      (* 03_messages Msg/AddNetAssetValues: governance account, or any access on the marker *)
      Needs all_rights [AltGov]
  | OUpdateForcedTransfer =>
      (* 03_messages Msg/UpdateForcedTransfer: governance proposal, restricted markers that allow
         governance control *)
      if is_restricted t then Needs [] [AltGov] else NotAvailable
  | OSupplyIncrease | OSupplyDecrease | OSetAdministrator | ORemoveAdministrator | OChangeStatus
  | OWithdrawEscrow | OSetMetadataProposal =>
      (* 03_messages / 10_governance: "can only be called via gov proposal", on a marker that
         allows governance control.  No access right stands in for the governance account. *)
      Needs [] [AltGov]
  end.

Definition alt_met (c : cfg) (a : alt) : bool :=
  match a with
  | AltManager => c_manager c && negb (c_activated c)
  | AltGov => c_gov c && c_govctl c
  | AltAllSupply => c_allsupply c && negb (c_supply_zero c)
  end.

Definition req_met (c : cfg) (r : requirement) : bool :=
  match r with
  | NotAvailable => false
  | Needs rs alts => existsb (fun x => has x (c_rights c)) rs || existsb (alt_met c) alts
  end.

(** ** Finite domain used by the exhaustive agreement check. *)
Definition all_status : list status := [SProposed; SFinalized; SActive; SCancelled; SDestroyed].
Definition all_types : list mtype := [TCoin; TRestricted].
Definition all_masks : list N := map N.of_nat (seq 0 256).
Definition bools : list bool := [false; true].

Definition all_cfgs : list cfg :=
  flat_map (fun s => flat_map (fun t => flat_map (fun rs => flat_map (fun m => flat_map (fun g =>
  flat_map (fun gc => flat_map (fun al => flat_map (fun sz => map (fun act =>
    {| c_status := s; c_type := t; c_rights := rs; c_manager := m; c_gov := g; c_govctl := gc;
       c_allsupply := al; c_supply_zero := sz; c_activated := act |}) bools) bools) bools) bools) bools) bools)
  all_masks) all_types) all_status.

(** ** The marker lifecycle: who is still manager.

    Go sources: x/marker/types/marker.go SetStatus (clears Manager on ANY transition to Active),
    NewMarkerAccount (no manager for status >= Active); x/marker/keeper/marker.go FinalizeMarker,
    ActivateMarker, CancelMarker, DeleteMarker (status preconditions; callers here are authorised:
    the manager for finalize / activate, a DELETE holder for cancel / delete);
    x/marker/keeper/proposal_handler.go HandleChangeStatusProposal (governance: any status that
    does not precede the current one; Destroyed only from Cancelled), on a marker that allows
    governance control and whose supply sits in its own account. *)
Record life := { l_status : status; l_manager : bool; l_activated : bool }.

Definition is_active (s : status) : bool := match s with SActive => true | _ => false end.

Definition set_status_gen (clear_when : status -> status -> bool) (l : life) (s : status) : life :=
  {| l_status := s;
     l_manager := l_manager l && negb (clear_when (l_status l) s);
     l_activated := l_activated l || is_active s |}.
(* current code: status == StatusActive *)
Definition set_status := set_status_gen (fun _ s => is_active s).
(* a variant clearing only on Finalized -> Active: refuted below *)
Definition set_status_from_finalized_only :=
  set_status_gen (fun cur s => status_eqb cur SFinalized && is_active s).

Inductive lop := LFinalize | LActivate | LCancel | LDelete | LGov (s : status).

Definition status_rank (s : status) : N :=
  match s with SProposed => 1 | SFinalized => 2 | SActive => 3 | SCancelled => 4 | SDestroyed => 5 end.

Definition life_step_gen (setst : life -> status -> life) (l : life) (o : lop) : life * bool :=
  let s := l_status l in
  match o with
  | LFinalize => if status_eqb s SProposed && l_manager l then (setst l SFinalized, true) else (l, false)
  | LActivate => if status_eqb s SFinalized && l_manager l then (setst l SActive, true) else (l, false)
  | LCancel =>
      match s with
      | SProposed | SFinalized | SActive => (setst l SCancelled, true)
      | SCancelled => (l, true)
      | SDestroyed => (l, false)
      end
  | LDelete => if status_eqb s SCancelled then (setst l SDestroyed, true) else (l, false)
  | LGov t =>
      if N.leb (status_rank s) (status_rank t) &&
         (negb (status_eqb t SDestroyed) || status_eqb s SCancelled)
      then (setst l t, true) else (l, false)
  end.
Definition life_step := life_step_gen set_status.

Definition life_wfb (l : life) : bool :=
  implb (l_activated l) (negb (l_manager l)) && implb (is_active (l_status l)) (l_activated l).

Definition life_run_gen setst (l : life) (ops : list lop) : life :=
  fold_left (fun st o => fst (life_step_gen setst st o)) ops l.
Definition life_run := life_run_gen set_status.
