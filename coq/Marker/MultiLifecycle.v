(** Several markers over one bank (property C05): a finite world of denoms, each with its marker
    record (or none), its balances and its bank supply, sharing the accounts, the module parameters
    and the authz grant store.

    The operations of [PV.Marker.Lifecycle] are run on the view [view W d] of the denom they are
    aimed at; this file adds what depends on OTHER denoms (all transcribed from the same Go files):

      x/marker/keeper/marker.go
          validateSendToMarker   coins withdrawn / transferred INTO the account of a restricted
                                 marker need the caller's deposit access on THAT marker
                                 ([to_marker_ok], in front of OWithdraw / MTransfer / MWithdrawOther)
          WithdrawCoins          any coins in the marker's account, not only its own denom, leave it
                                 by the holder of WITHDRAW on an ACTIVE marker ([MWithdrawOther];
                                 SendCoins under the marker bypass: the moved denom's own marker is
                                 not consulted)
          DeleteMarker           the account must be empty of EVERY denom ([account_empty_of_others])
          TransferCoin+authzHandler   admin <> from without forced transfer needs a
                                 MarkerTransferAuthorization from->admin ([authz_accepts]); the
                                 grant's limit is decreased, the grant deleted when exhausted
      x/marker/types/authz.go     MarkerTransferAuthorization.Accept / ValidateBasic
      x/marker/keeper/proposal_handler.go  HandleWithdrawEscrowProposal for other denoms
                                 ([MGovWithdrawOther]: no status test, no restriction)
      x/marker/keeper/send_restrictions.go SendRestrictionFn for a plain MsgSend of one coin: the
                                 sender must not be ANY marker's account, a restricted marker's
                                 account as receiver needs the sender's deposit access on it
      x/marker/keeper/msg_server.go UpdateParams ([MSetParams]: one parameter set for all denoms)
      x/marker/abci.go           BeginBlocker walks every marker ([MBeginBlock]; a failing repair
                                 panics = the whole step fails)
      cosmos-sdk x/authz         MsgGrant / MsgRevoke with a MarkerTransferAuthorization without
                                 expiry ([MAuthzGrant], [MAuthzRevoke]); modelled and trusted

    The marker account of denom [d] has address [escrow d] (injective).  The denoms of a world are
    fixed ([dom]); operations naming another denom are refused by the model (the harness never
    produces them).  One coin per message (MsgWithdraw / MsgSend / WithdrawEscrow with several coins
    are not modelled).  No proofs in this file. *)
From Coq Require Import ZArith NArith List Bool.
From PV Require Export Marker.Lifecycle.
Import ListNotations.
Open Scope Z_scope.

Definition denom := N.
Definition escrow (d : denom) : addr := (1000 + d)%N.
Definition denom_of (a : addr) : option denom :=
  if N.leb 1000 a then Some (a - 1000)%N else None.

(** What the bank and the account store hold for one denom. *)
Record cell := {
  c_mk : option marker;
  c_bal : list (addr * Z);
  c_supply : Z;
  c_gen : N
}.

(** One MarkerTransferAuthorization: granter -> grantee, remaining limit per denom, allow list
    (empty = any receiver). *)
Record grant := {
  g_granter : addr;
  g_grantee : addr;
  g_limit : list (denom * Z);
  g_allow : list addr
}.

Record world := {
  dom : list denom;
  cells : denom -> cell;
  w_max : Z;                  (* params.MaxSupply *)
  w_gov : bool;               (* params.EnableGovernance *)
  grants : list grant
}.

Definition in_dom (W : world) (d : denom) : bool := existsb (N.eqb d) (dom W).

(** The world as denom [d] sees it. *)
Definition view (W : world) (d : denom) : state :=
  let c := cells W d in
  {| mk := c_mk c; bal := c_bal c; supply := c_supply c; maxsupply := w_max W; govparam := w_gov W;
     gen := c_gen c; esc := escrow d |}.

Definition cell_of (s : state) : cell :=
  {| c_mk := mk s; c_bal := bal s; c_supply := supply s; c_gen := gen s |}.

Definition put (W : world) (d : denom) (s : state) : world :=
  {| dom := dom W; cells := fun x => if N.eqb x d then cell_of s else cells W x;
     w_max := w_max W; w_gov := w_gov W; grants := grants W |}.

Definition with_grants (W : world) (g : list grant) : world :=
  {| dom := dom W; cells := cells W; w_max := w_max W; w_gov := w_gov W; grants := g |}.

(** The marker (of whatever denom) whose account is [a]. *)
Definition marker_at (W : world) (a : addr) : option marker :=
  match denom_of a with Some d => c_mk (cells W d) | None => None end.

(** validateSendToMarker / the to-marker clause of the send restriction. *)
Definition to_marker_ok (W : world) (to who : addr) : bool :=
  match marker_at W to with
  | Some m' => negb (is_restricted (ty m')) || has m' who RDeposit
  | None => true
  end.

(** canForceTransferFrom: a forced transfer may take coins out of accounts that have signed before
    (the users), out of marker accounts, but not out of module accounts (sequence 0); an address
    reserved for a marker that does not exist is treated like an account that never signed (ASSUMED:
    in the code it depends on whether a base account was ever created there by receiving coins;
    the harness does not use such an address as the source of a forced transfer). *)
Definition force_from_ok (W : world) (from : addr) : bool :=
  negb (blocked from) &&
  match denom_of from with
  | Some d' => match c_mk (cells W d') with Some _ => true | None => false end
  | None => true
  end.
(** TransferCoin takes the forced route exactly when the admin moves somebody else's coins, the
    marker allows forced transfer and the admin holds FORCE_TRANSFER. *)
Definition uses_force (s : state) (admin from : addr) : bool :=
  match mk s with
  | Some m => negb (N.eqb admin from) && forced m && has m admin RForce
  | None => false
  end.

(** DeleteMarker: GetAllBalances(marker account) must be zero; this is the part about other denoms. *)
Definition account_empty_of_others (W : world) (d : denom) : bool :=
  forallb (fun e => N.eqb e d || (get (c_bal (cells W e)) (escrow d) =? 0)) (dom W).

(** Operations of Lifecycle.v that are aimed at one marker and decided there (plus the guards of
    [cross_ok]); the other four have their own constructors below. *)
Definition local_op (o : op) : bool :=
  match o with
  | OTransfer _ _ _ _ _ | OMove _ _ _ | OSetParams _ _ _ _ | OBeginBlock => false
  | _ => true
  end.

Definition cross_ok (W : world) (d : denom) (o : op) : bool :=
  match o with
  | OSend from to _ =>
      (N.eqb from (escrow d) || match marker_at W from with Some _ => false | None => true end) &&
      to_marker_ok W to from
  | OWithdraw caller to _ => to_marker_ok W to caller
  | ODelete _ => account_empty_of_others W d
  | _ => true
  end.

(** ** authz *)
Fixpoint lim_get (l : list (denom * Z)) (e : denom) : Z :=
  match l with
  | [] => 0
  | (k, v) :: r => if N.eqb k e then v else lim_get r e
  end.
(** Coins.SafeSub of one coin, zero entries dropped. *)
Definition lim_sub (l : list (denom * Z)) (e : denom) (amt : Z) : list (denom * Z) :=
  filter (fun x => negb (snd x =? 0))
         (map (fun x => if N.eqb (fst x) e then (fst x, snd x - amt) else x) l).

Definition grant_is (granter grantee : addr) (g : grant) : bool :=
  N.eqb (g_granter g) granter && N.eqb (g_grantee g) grantee.
Definition find_grant (gs : list grant) (granter grantee : addr) : option grant :=
  find (grant_is granter grantee) gs.
Definition drop_grant (gs : list grant) (granter grantee : addr) : list grant :=
  filter (fun g => negb (grant_is granter grantee g)) gs.

(** MarkerTransferAuthorization.Accept for a transfer of [amt] of denom [e] to [to]. *)
Definition authz_accepts (W : world) (admin from to : addr) (e : denom) (amt : Z) : bool :=
  match find_grant (grants W) from admin with
  | Some g =>
      (amt <=? lim_get (g_limit g) e) &&
      (match g_allow g with [] => true | l => existsb (N.eqb to) l end)
  | None => false
  end.

(** DeleteGrant when the limit is used up, SaveGrant of the rest otherwise. *)
Definition consume_grant (W : world) (admin from : addr) (e : denom) (amt : Z) : world :=
  match find_grant (grants W) from admin with
  | Some g =>
      let rest := lim_sub (g_limit g) e amt in
      let others := drop_grant (grants W) from admin in
      with_grants W (match rest with
                     | [] => others
                     | _ => {| g_granter := from; g_grantee := admin; g_limit := rest; g_allow := g_allow g |} :: others
                     end)
  | None => W
  end.

(** TransferCoin consults authz exactly when the admin moves somebody else's coins without being
    able to force the transfer. *)
Definition uses_authz (s : state) (admin from : addr) : bool :=
  match mk s with
  | Some m => negb (N.eqb admin from) && negb (forced m && has m admin RForce)
  | None => false
  end.

(** Coins.Validate of a grant's limit: non-empty, strictly ascending denoms, positive amounts. *)
Fixpoint limit_valid_from (lo : option denom) (l : list (denom * Z)) : bool :=
  match l with
  | [] => true
  | (k, v) :: r =>
      (0 <? v) && (match lo with Some p => N.ltb p k | None => true end) && limit_valid_from (Some k) r
  end.
Definition limit_valid (l : list (denom * Z)) : bool :=
  match l with [] => false | _ => limit_valid_from None l end.
Fixpoint nodupb (l : list addr) : bool :=
  match l with
  | [] => true
  | a :: r => negb (existsb (N.eqb a) r) && nodupb r
  end.

(** ** Operations on the world *)
Inductive mop :=
| MOn (d : denom) (o : op)                                   (* a [local_op] aimed at marker / denom [d] *)
| MTransfer (d : denom) (admin from to : addr) (amt : Z)     (* MsgTransferRequest of coins of [d] *)
| MWithdrawOther (d : denom) (caller to : addr) (e : denom) (amt : Z)
        (* MsgWithdrawRequest on marker [d] for coins of ANOTHER denom [e] lying in its account *)
| MGovWithdrawOther (authority : addr) (d : denom) (to : addr) (e : denom) (amt : Z)
        (* MsgWithdrawEscrowProposalRequest on marker [d] for coins of another denom [e] *)
| MAuthzGrant (granter grantee : addr) (limit : list (denom * Z)) (allow : list addr)
| MAuthzRevoke (granter grantee : addr)
| MSetParams (authority : addr) (mx : Z) (mts : Z) (gv : bool)
        (* MsgUpdateParamsRequest: max_supply, deprecated max_total_supply (ignored), enable_governance *)
| MBeginBlock.

Definition bb_cell (W : world) (d : denom) : option state := step_opt (view W d) OBeginBlock.

Definition mstep_opt (W : world) (o : mop) : option world :=
  match o with
  | MOn d o1 =>
      guard (in_dom W d) ;;
      guard (local_op o1) ;;
      guard (cross_ok W d o1) ;;
      s' <- step_opt (view W d) o1 ;;
      Some (put W d s')
  | MTransfer d admin from to amt =>
      guard (in_dom W d) ;;
      guard (to_marker_ok W to admin) ;;
      guard (negb (uses_force (view W d) admin from) || force_from_ok W from) ;;
      let az := authz_accepts W admin from to d amt in
      s' <- step_opt (view W d) (OTransfer admin from to amt az) ;;
      let W1 := put W d s' in
      Some (if uses_authz (view W d) admin from then consume_grant W1 admin from d amt else W1)
  | MWithdrawOther d caller to e amt =>
      guard (in_dom W d) ;;
      guard (in_dom W e) ;;
      guard (negb (N.eqb e d)) ;;
      m <- c_mk (cells W d) ;;
      guard (has m caller RWithdraw) ;;
      guard (to_marker_ok W to caller) ;;
      guard (status_eqb (st m) Active) ;;
      guard (negb (blocked to)) ;;
      s' <- step_opt (view W e) (OMove (escrow d) to amt) ;;
      Some (put W e s')
  | MGovWithdrawOther authority d to e amt =>
      guard (in_dom W d) ;;
      guard (in_dom W e) ;;
      guard (negb (N.eqb e d)) ;;
      guard (N.eqb authority GOV) ;;
      m <- c_mk (cells W d) ;;
      guard (govctl m) ;;
      s' <- step_opt (view W e) (OMove (escrow d) to amt) ;;
      Some (put W e s')
  | MAuthzGrant granter grantee limit allow =>
      guard (negb (N.eqb granter grantee)) ;;
      guard (limit_valid limit) ;;
      guard (nodupb allow) ;;
      Some (with_grants W ({| g_granter := granter; g_grantee := grantee; g_limit := limit; g_allow := allow |}
                           :: drop_grant (grants W) granter grantee))
  | MAuthzRevoke granter grantee =>
      guard (negb (N.eqb granter grantee)) ;;
      g <- find_grant (grants W) granter grantee ;;
      Some (with_grants W (drop_grant (grants W) granter grantee))
  | MSetParams authority mx _ gv =>
      guard (N.eqb authority GOV) ;;
      Some {| dom := dom W; cells := cells W; w_max := mx; w_gov := gv; grants := grants W |}
  | MBeginBlock =>
      guard (forallb (fun d => match bb_cell W d with Some _ => true | None => false end) (dom W)) ;;
      Some {| dom := dom W;
              cells := fun d => if in_dom W d
                                then match bb_cell W d with Some s' => cell_of s' | None => cells W d end
                                else cells W d;
              w_max := w_max W; w_gov := w_gov W; grants := grants W |}
  end.

(** A failing operation keeps the old world. *)
Definition mstep (W : world) (o : mop) : world * bool :=
  match mstep_opt W o with Some W' => (W', true) | None => (W, false) end.
Definition mrun (W : world) (ops : list mop) : world := fold_left (fun x o => fst (mstep x o)) ops W.

(** The one denom whose cell an operation can change (none for the grant store; parameter changes
    and block boundaries concern every denom and have their own statements). *)
Definition touched (o : mop) : option denom :=
  match o with
  | MOn d _ | MTransfer d _ _ _ _ => Some d
  | MWithdrawOther _ _ _ e _ | MGovWithdrawOther _ _ _ e _ => Some e
  | _ => None
  end.

(** A mint of [amt] into marker [d] when it succeeds on an active one. *)
Definition mmint_amount (o : mop) : option (denom * Z) :=
  match o with
  | MOn d o1 => match mint_amount o1 with Some amt => Some (d, amt) | None => None end
  | _ => None
  end.

(** The largest MaxSupply in force at any point of the history [ops] run from [W]. *)
Fixpoint wmax_param (W : world) (ops : list mop) : Z :=
  match ops with
  | [] => w_max W
  | o :: r => Z.max (w_max W) (wmax_param (fst (mstep W o)) r)
  end.

(** ** Invariant (statement only): every denom's view is sound in the sense of Lifecycle.v *)
Definition WInv (W : world) : Prop := forall d, Inv (view W d).
