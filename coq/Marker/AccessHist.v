(** Histories of administration calls on TWO markers with changing access lists (property C12).

    Go sources transcribed here, on top of the decision table of Marker/Access.v ([decide]):
      x/marker/types/marker.go        GrantAccess (the new permissions are MERGED into the
                                      address' existing entry, which moves to the end of the list),
                                      RevokeAccess (the address' entry is dropped whole), SetStatus,
                                      Validate -> ValidateGrantsForMarkerType (Transfer and
                                      ForceTransfer cannot be granted on a coin marker)
      x/marker/types/accessgrant.go   GrantsForAddress (first entry of the address, else none)
      x/marker/keeper/marker.go       AddAccess, RemoveAccess, FinalizeMarker, ActivateMarker,
                                      CancelMarker, DeleteMarker (what they write when allowed)
      x/marker/keeper/proposal_handler.go HandleSetAdministratorProposal (GrantAccess per grant),
                                      HandleRemoveAdministratorProposal (RevokeAccess)

    Every call names the marker it is made on; the caller's rights are looked up in THAT marker's
    access list at the time of the call.  What the decision reads from the bank (whether the caller
    holds the whole supply, whether the supply is zero) and whether the caller is the governance
    account are inputs of each step.  Assumed: the markers' supplies stay positive and in the
    markers' own accounts (the harness checks it), so Validate, CancelMarker and DeleteMarker have
    nothing else to object to.  No proofs in this file. *)
From Coq Require Import ZArith NArith List Bool.
From PV Require Import Marker.Access Marker.Authz.
Import ListNotations.
Open Scope N_scope.

Record mk := {
  mk_status : status;
  mk_type : mtype;
  mk_manager : option addr;
  mk_access : list (addr * N);      (* address -> rights mask, at most one entry per address *)
  mk_govctl : bool;
  mk_activated : bool               (* history: is or has been active *)
}.

Inductive which := MA | MB.
Record hstate := { h_a : mk; h_b : mk }.

Definition other (w : which) : which := match w with MA => MB | MB => MA end.
Definition get (w : which) (s : hstate) : mk := match w with MA => h_a s | MB => h_b s end.
Definition set (w : which) (m : mk) (s : hstate) : hstate :=
  match w with
  | MA => {| h_a := m; h_b := h_b s |}
  | MB => {| h_a := h_a s; h_b := m |}
  end.

(** GrantsForAddress *)
Fixpoint rights_of (a : addr) (l : list (addr * N)) : N :=
  match l with
  | [] => 0
  | (b, rs) :: r => if N.eqb a b then rs else rights_of a r
  end.

Definition revoke (a : addr) (l : list (addr * N)) : list (addr * N) :=
  filter (fun x => negb (N.eqb a (fst x))) l.
Definition grant_access (a : addr) (mask : N) (l : list (addr * N)) : list (addr * N) :=
  revoke a l ++ [(a, N.lor (rights_of a l) mask)].

Record henv := { e_gov : bool; e_allsupply : bool; e_supply_zero : bool }.

Record hop := {
  ho_on : which;          (* the marker named by the message *)
  ho_caller : addr;
  ho_op : op;
  ho_target : addr;       (* AddAccess / DeleteAccess / Set- / RemoveAdministrator: whose entry *)
  ho_mask : N;            (* AddAccess / SetAdministrator: the permissions of the request *)
  ho_env : henv
}.

Definition oaddr_eqb (o : option addr) (a : addr) : bool :=
  match o with Some b => N.eqb a b | None => false end.

Definition cfg_of (m : mk) (a : addr) (e : henv) : cfg :=
  {| c_status := mk_status m; c_type := mk_type m; c_rights := rights_of a (mk_access m);
     c_manager := oaddr_eqb (mk_manager m) a; c_gov := e_gov e; c_govctl := mk_govctl m;
     c_allsupply := e_allsupply e; c_supply_zero := e_supply_zero e; c_activated := mk_activated m |}.

(** ValidateGrantsForMarkerType on the changed access list *)
Definition mask_ok (t : mtype) (mask : N) : bool := is_restricted t || N.ltb mask 64.

Definition request_ok (m : mk) (o : hop) : bool :=
  match ho_op o with
  | OAddAccess | OSetAdministrator => mask_ok (mk_type m) (N.lor (rights_of (ho_target o) (mk_access m)) (ho_mask o))
  | _ => true
  end.

Definition with_status (m : mk) (s : status) : mk :=
  {| mk_status := s; mk_type := mk_type m;
     mk_manager := if is_active s then None else mk_manager m;
     mk_access := mk_access m; mk_govctl := mk_govctl m;
     mk_activated := mk_activated m || is_active s |}.
Definition with_access (m : mk) (l : list (addr * N)) : mk :=
  {| mk_status := mk_status m; mk_type := mk_type m; mk_manager := mk_manager m;
     mk_access := l; mk_govctl := mk_govctl m; mk_activated := mk_activated m |}.

(** What a call that is let through writes. *)
Definition apply_op (m : mk) (o : hop) : mk :=
  match ho_op o with
  | OFinalize => with_status m SFinalized
  | OActivate => with_status m SActive
  | OCancel => with_status m SCancelled
  | ODelete => with_status m SDestroyed
  | OAddAccess | OSetAdministrator => with_access m (grant_access (ho_target o) (ho_mask o) (mk_access m))
  | ODeleteAccess | ORemoveAdministrator => with_access m (revoke (ho_target o) (mk_access m))
  | _ => m
  end.

Definition hstep (s : hstate) (o : hop) : hstate * outcome :=
  let m := get (ho_on o) s in
  match decide (cfg_of m (ho_caller o) (ho_env o)) (ho_op o) with
  | Done => if request_ok m o then (set (ho_on o) (apply_op m o) s, Done) else (s, Denied)
  | r => (s, r)
  end.

Record hevent := { he_op : hop; he_before : hstate; he_out : outcome }.

Fixpoint hrun (s : hstate) (ops : list hop) : list hevent * hstate :=
  match ops with
  | [] => ([], s)
  | o :: r =>
      let '(s', out) := hstep s o in
      let '(tr, sf) := hrun s' r in
      ({| he_op := o; he_before := s; he_out := out |} :: tr, sf)
  end.

(** The lifecycle invariant of Marker/Access.v, per marker. *)
Definition mk_wfb (m : mk) : bool :=
  implb (mk_activated m) (match mk_manager m with None => true | Some _ => false end) &&
  implb (is_active (mk_status m)) (mk_activated m).
Definition hwfb (s : hstate) : bool := mk_wfb (h_a s) && mk_wfb (h_b s).

(** A call that was let through is justified by the documented requirement, evaluated on the
    access list of the marker it was made on, as it stood right before the call. *)
Definition justified (e : hevent) : bool :=
  match he_out e with
  | Done =>
      let m := get (ho_on (he_op e)) (he_before e) in
      req_met (cfg_of m (ho_caller (he_op e)) (ho_env (he_op e)))
              (documented (ho_op (he_op e)) (mk_status m) (mk_type m))
  | _ => true
  end.

(** Met through an alternative (manager, governance, whole supply), not through a right. *)
Definition via_alternative (c : cfg) (r : requirement) : bool :=
  match r with
  | NotAvailable => false
  | Needs _ alts => existsb (alt_met c) alts
  end.

Definition on_marker (w : which) (o : hop) : bool :=
  match w, ho_on o with MA, MA | MB, MB => true | _, _ => false end.
