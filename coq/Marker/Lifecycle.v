(** Model of the marker supply / lifecycle machinery as ONE denom sees it (property C05).
    The world of several denoms / markers sharing one bank is [PV.Marker.MultiLifecycle]; it runs
    the operations of this file on the view of the denom concerned.

    Go sources transcribed (branch for branch; a failing or panicking handler = [None] = the
    transaction is rolled back and the old state is kept):
      x/marker/keeper/marker.go
          AddMarkerAccount, AddAccess, RemoveAccess, WithdrawCoins, MintCoin, BurnCoin,
          AdjustCirculation, IncreaseSupply (the only max-supply check), DecreaseSupply,
          FinalizeMarker, ActivateMarker, CancelMarker, DeleteMarker, TransferCoin,
          AddFinalizeAndActivateMarker, accountControlsAllSupply, validateSendToMarker
      x/marker/keeper/msg_server.go
          AddMarker (gov may create in any status; Active => AdjustCirculation to the amount),
          AddFinalizeActivateMarker, Mint/Burn/Withdraw/... wrappers (ValidateBasic first),
          the governance endpoints (authority test first)
      x/marker/keeper/proposal_handler.go
          HandleSupplyIncreaseProposal, HandleSupplyDecreaseProposal (no status test),
          HandleSetAdministratorProposal, HandleRemoveAdministratorProposal,
          HandleChangeStatusProposal (any status >= the current one; ->Active adjusts circulation
          to the configured supply; ->Destroyed only from Cancelled and burns the whole supply out
          of the marker account; ->Cancelled has NO recall check), HandleWithdrawEscrowProposal
      x/marker/abci.go  BeginBlocker (repair of active fixed-supply markers, removal of destroyed)
      x/marker/keeper/send_restrictions.go  SendRestrictionFn/validateSendDenom as far as a plain
          bank send without transfer agents, required attributes, deny list or bypass address needs
      x/marker/types/marker.go  Validate, SetStatus (manager cleared on activation),
          NewMarkerAccount (manager cleared for status >= Active), GrantAccess, RevokeAccess
      x/marker/types/msgs.go    the ValidateBasic of each message (zero mint/burn amounts are valid,
          withdraw/send amounts must be positive, a proposed marker needs a manager ...)

    External, modelled and trusted (forked cosmos-sdk bank): balances per account and the total
    supply of the denom; MintCoins+SendCoinsFromModuleToAccount = credit of the marker account and
    of the supply; SendCoinsFromAccountToModule+BurnCoins = debit of both, failing when the marker
    account holds less; SendCoins = debit/credit, failing on insufficient balance.  No account in
    the model has vesting, holds, quarantine or sanctions.

    Scope: the state is what ONE denom sees: its marker record (or none), the bank's balances and
    supply of that denom, the two module parameters read by the handlers, a count [gen] of
    markers of this denom removed so far (a marker's lifetime ends when the begin-blocker removes
    it) and [esc], the address of the marker's own account (derived from the denom, so constant).
    Addresses are interned; [GOV] is the governance module account (the `authority`).  What depends
    on OTHER denoms (coins of other denoms in the marker account at DeleteMarker, deposit access on
    another marker when coins are sent into its account, authz grants) is decided in
    MultiLifecycle.v: it adds guards in front of these operations, supplies the authz answer [az]
    of [OTransfer], and uses [OMove] for coins of this denom that leave ANOTHER marker's account
    by that marker's withdraw routes.  Accounts are assumed to have signed at least one tx
    (canForceTransferFrom is true for them).
    x/marker/keeper/msg_server.go UpdateParams = [OSetParams] (authority test, then SetParams);
    x/marker/keeper/params.go GetMaxSupply = params.MaxSupply (the deprecated uint64
    params.MaxTotalSupply is carried by the operation and ignored).
    No proofs in this file. *)
From Coq Require Import ZArith NArith List Bool.
Import ListNotations.
Open Scope Z_scope.

Definition addr := N.
Definition GOV : addr := 100%N.
(** The marker module account (the coin pool mints and burns pass through).  Like every module
    account it is a BLOCKED address of the bank: MsgSend, MsgWithdrawRequest and MsgTransferRequest
    refuse it as receiver (BlockedAddr); the governance routes (WithdrawEscrow proposal,
    SupplyIncrease proposal with a target) use SendCoins directly and do not.  Coins of the denom
    may therefore sit in it (also from genesis); mints and burns pass THROUGH it and leave them alone.
    ASSUMED: the module account exists (it is created by the first mint of the module or at genesis).
    If coins are sent to its address before that, the bank creates a plain account there and every
    later mint / burn of the marker module panics - an environment the model does not describe. *)
Definition MODULE : addr := 99%N.
Definition blocked (a : addr) : bool := N.eqb a MODULE || N.eqb a GOV.

(** ** Access rights: a bit mask, bit i = Access enum value i+1 (accessgrant.proto). *)
Inductive right := RMint | RBurn | RDeposit | RWithdraw | RDelete | RAdmin | RTransfer | RForce.
Definition right_bit (r : right) : N :=
  match r with
  | RMint => 0 | RBurn => 1 | RDeposit => 2 | RWithdraw => 3
  | RDelete => 4 | RAdmin => 5 | RTransfer => 6 | RForce => 7
  end%N.
Definition rights := N.
Definition has_bit (rs : rights) (r : right) : bool := N.testbit rs (right_bit r).

Inductive status := Proposed | Finalized | Active | Cancelled | Destroyed.
Definition rank (s : status) : Z :=
  match s with Proposed => 1 | Finalized => 2 | Active => 3 | Cancelled => 4 | Destroyed => 5 end.
Definition status_eqb (a b : status) : bool := rank a =? rank b.
Inductive mtype := Coin | Restricted.
Definition is_restricted (t : mtype) : bool := match t with Restricted => true | Coin => false end.

Record marker := {
  st : status;
  msupply : Z;                       (* the supply recorded on the marker *)
  fixed : bool;                      (* SupplyFixed *)
  govctl : bool;                     (* AllowGovernanceControl *)
  ty : mtype;
  forced : bool;                     (* AllowForcedTransfer *)
  manager : option addr;
  access : list (addr * rights)
}.

Record state := {
  mk : option marker;
  bal : list (addr * Z);             (* balances of the denom; see [get] *)
  supply : Z;                        (* bank total supply of the denom *)
  maxsupply : Z;                     (* params.MaxSupply *)
  govparam : bool;                   (* params.EnableGovernance *)
  gen : N;                           (* markers of this denom removed so far *)
  esc : addr                         (* the marker account's address (MarkerAddress(denom)) *)
}.

(** ** Balances: an association list; the balance of [a] is the sum of the entries keyed [a]
    ([set] keeps at most one), so that the total is the sum of all entries unconditionally. *)
Fixpoint get (m : list (addr * Z)) (a : addr) : Z :=
  match m with
  | [] => 0
  | (k, v) :: r => (if N.eqb k a then v else 0) + get r a
  end.
Definition set (m : list (addr * Z)) (a : addr) (v : Z) : list (addr * Z) :=
  (a, v) :: filter (fun e => negb (N.eqb (fst e) a)) m.
Definition total (m : list (addr * Z)) : Z := fold_right (fun e acc => snd e + acc) 0 m.

Definition set_mk (s : state) (m : option marker) : state :=
  {| mk := m; bal := bal s; supply := supply s; maxsupply := maxsupply s; govparam := govparam s; gen := gen s;
     esc := esc s |}.
Definition set_bank (s : state) (b : list (addr * Z)) (sup : Z) : state :=
  {| mk := mk s; bal := b; supply := sup; maxsupply := maxsupply s; govparam := govparam s; gen := gen s;
     esc := esc s |}.
Definition set_params (s : state) (mx : Z) (gv : bool) : state :=
  {| mk := mk s; bal := bal s; supply := supply s; maxsupply := mx; govparam := gv; gen := gen s; esc := esc s |}.

Definition with_status (m : marker) (x : status) : marker :=   (* SetStatus *)
  {| st := x; msupply := msupply m; fixed := fixed m; govctl := govctl m; ty := ty m; forced := forced m;
     manager := (match x with Active => None | _ => manager m end); access := access m |}.
Definition with_supply (m : marker) (z : Z) : marker :=
  {| st := st m; msupply := z; fixed := fixed m; govctl := govctl m; ty := ty m; forced := forced m;
     manager := manager m; access := access m |}.
Definition with_access (m : marker) (l : list (addr * rights)) : marker :=
  {| st := st m; msupply := msupply m; fixed := fixed m; govctl := govctl m; ty := ty m; forced := forced m;
     manager := manager m; access := l |}.

(** ** Option plumbing *)
Definition bind {A B} (o : option A) (f : A -> option B) : option B :=
  match o with Some a => f a | None => None end.
Notation "x <- e ;; k" := (bind e (fun x => k)) (at level 61, e at next level, right associativity).
Notation "'guard' b ;; k" := (if b then k else None) (at level 61, b at next level, right associativity).

(** ** Bank primitives *)
Definition mint_escrow (s : state) (d : Z) : state :=
  set_bank s (set (bal s) (esc s) (get (bal s) (esc s) + d)) (supply s + d).
Definition burn_escrow (s : state) (d : Z) : option state :=
  guard (d <=? get (bal s) (esc s)) ;;
  Some (set_bank s (set (bal s) (esc s) (get (bal s) (esc s) - d)) (supply s - d)).
Definition move (s : state) (from to : addr) (amt : Z) : option state :=
  guard (amt <=? get (bal s) from) ;;
  let b1 := set (bal s) from (get (bal s) from - amt) in
  Some (set_bank s (set b1 to (get b1 to + amt)) (supply s)).

(** AdjustCirculation: mint into / burn out of the marker account until the bank supply is [want]. *)
Definition adjust (s : state) (want : Z) : option state :=
  if supply s <? want then Some (mint_escrow s (want - supply s))
  else if want <? supply s then burn_escrow s (supply s - want)
  else Some s.

(** ** Access *)
Definition has (m : marker) (a : addr) (r : right) : bool :=
  existsb (fun e => N.eqb (fst e) a && has_bit (snd e) r) (access m).
Definition any_with (m : marker) (r : right) : bool :=       (* len(AddressListForPermission(r)) > 0 *)
  existsb (fun e => has_bit (snd e) r) (access m).
Definition is_manager (m : marker) (a : addr) : bool :=
  match manager m with Some x => N.eqb x a | None => false end.
Definition revoke (l : list (addr * rights)) (a : addr) : list (addr * rights) :=
  filter (fun e => negb (N.eqb (fst e) a)) l.
(** GrantAccess: merge with what the address already has, drop its old entry, append. *)
Definition old_rights (l : list (addr * rights)) (a : addr) : rights :=
  fold_left (fun acc e => if N.eqb (fst e) a then N.lor acc (snd e) else acc) l 0%N.
Definition grant (l : list (addr * rights)) (a : addr) (rs : rights) : list (addr * rights) :=
  revoke l a ++ [(a, N.lor rs (old_rights l a))].

(** MarkerAccount.Validate, the clauses that can depend on modelled fields. *)
Definition rights_ok_for (t : mtype) (rs : rights) : bool :=
  (N.ltb rs 256) && (is_restricted t || (negb (has_bit rs RTransfer) && negb (has_bit rs RForce))).
Definition validate_at (ESCROW : addr) (m : marker) : bool :=
  (0 <=? msupply m) &&
  negb ((rank (st m) <? 3) && (match manager m with None => true | Some _ => false end) && negb (any_with m RAdmin)) &&
  negb (status_eqb (st m) Finalized && negb (any_with m RMint) && (msupply m =? 0)) &&
  forallb (fun e => rights_ok_for (ty m) (snd e)) (access m) &&
  negb (existsb (fun e => N.eqb (fst e) ESCROW && negb (N.eqb (snd e) 0)) (access m)) &&
  negb (match manager m with Some x => N.eqb x ESCROW | None => false end) &&
  negb (forced m && negb (is_restricted (ty m))).

(** accountControlsAllSupply (with the zero-supply rule of 374f3de02). *)
Definition controls_all (s : state) (m : marker) (a : addr) : bool :=
  (0 <? msupply m) && (msupply m =? get (bal s) a).

(** ** Supply changes on a marker [m] that is the current record *)
Definition increase_supply (s : state) (m : marker) (amt : Z) : option state :=
  let tot := supply s + amt in
  guard (tot <=? maxsupply s) ;;
  if fixed m then
    let m' := with_supply m tot in
    guard (validate_at (esc s) m') ;; adjust (set_mk s (Some m')) tot
  else adjust s tot.

Definition decrease_supply (s : state) (m : marker) (amt : Z) : option state :=
  guard (amt <=? supply s) ;;
  guard (amt <=? get (bal s) (esc s)) ;;
  let rest := supply s - amt in
  if fixed m then
    let m' := with_supply m rest in
    guard (validate_at (esc s) m') ;; adjust (set_mk s (Some m')) rest
  else adjust s rest.

(** ** Operations *)
Inductive op :=
| OAdd (from : addr) (status0 : status) (amt : Z) (fx gv : bool) (t : mtype) (fr : bool)
       (mgr : option addr) (acl : list (addr * rights))             (* MsgAddMarkerRequest *)
| OAddFinAct (amt : Z) (fx gv : bool) (t : mtype) (fr : bool) (mgr : option addr)
       (acl : list (addr * rights))                                  (* MsgAddFinalizeActivateMarkerRequest *)
| OFinalize (caller : addr)
| OActivate (caller : addr)
| OMint (caller : addr) (amt : Z)
| OBurn (caller : addr) (amt : Z)
| OWithdraw (caller to : addr) (amt : Z)
| OCancel (caller : addr)
| ODelete (caller : addr)
| OTransfer (admin from to : addr) (amt : Z) (az : bool)
       (* MsgTransferRequest; [az] = "an authz grant from->admin accepts this transfer" (computed
          from the grant store in MultiLifecycle.v; only read when admin <> from and the admin
          cannot force the transfer) *)
| OGrant (caller grantee : addr) (rs : rights)                      (* MsgAddAccessRequest, one grant *)
| ORevoke (caller a : addr)                                         (* MsgDeleteAccessRequest *)
| OGovSupplyIncrease (authority : addr) (amt : Z) (target : option addr)
| OGovSupplyDecrease (authority : addr) (amt : Z)
| OGovChangeStatus (authority : addr) (newst : status)
| OGovWithdrawEscrow (authority to : addr) (amt : Z)
| OGovSetAdmin (authority grantee : addr) (rs : rights)
| OGovRemoveAdmin (authority a : addr)
| OSend (from to : addr) (amt : Z)                                  (* bank MsgSend of this denom *)
| OMove (from to : addr) (amt : Z)
       (* coins of this denom moved by a route authorised on ANOTHER marker: MsgWithdrawRequest /
          WithdrawEscrow proposal on the marker whose account [from] is (SendCoins under the marker
          bypass: this denom's own marker is not consulted) *)
| OSetParams (authority : addr) (mx : Z) (mts : Z) (gv : bool)
       (* MsgUpdateParamsRequest: max_supply, the DEPRECATED max_total_supply, enable_governance.
          SetParams stores [mts]; nothing reads it (GetMaxSupply = params.MaxSupply), so it is
          not part of the state and no step depends on it. *)
| OBeginBlock.

(** AddMarkerAccount: the record validates and nothing is registered at the address yet. *)
Definition add_account (s : state) (m : marker) : option state :=
  guard (validate_at (esc s) m) ;;
  match mk s with Some _ => None | None => Some (set_mk s (Some m)) end.

(** FinalizeMarker / ActivateMarker for the current record [m]. *)
Definition finalize (s : state) (m : marker) (caller : addr) : option state :=
  guard (is_manager m caller) ;;
  guard (status_eqb (st m) Proposed) ;;
  guard (validate_at (esc s) m) ;;
  guard (supply s <=? msupply m) ;;
  let m' := with_status m Finalized in
  guard (validate_at (esc s) m') ;; Some (set_mk s (Some m')).

Definition activate (s : state) (m : marker) (caller : addr) : option state :=
  guard (is_manager m caller) ;;
  guard (status_eqb (st m) Finalized) ;;
  guard (supply s <=? msupply m) ;;
  s1 <- adjust s (msupply m) ;;
  let m' := with_status m Active in
  guard (validate_at (esc s) m') ;; Some (set_mk s1 (Some m')).

(** AddAccess / RemoveAccess authorisation. *)
Definition may_change_access (s : state) (m : marker) (caller : addr) : bool :=
  match st m with
  | Proposed => is_manager m caller
  | Finalized => is_manager m caller || has m caller RAdmin || controls_all s m caller
  | Active => has m caller RAdmin || controls_all s m caller
  | _ => false
  end.

(** What the marker send restriction says about a plain bank send of this denom (no transfer
    agents, no required attributes, no deny list, no bypass address). *)
Definition send_allowed (s : state) (from to : addr) : bool :=
  match mk s with
  | None => true
  | Some m =>
      negb (N.eqb from (esc s)) &&
      (negb (N.eqb to (esc s) && is_restricted (ty m)) || has m from RDeposit) &&
      status_eqb (st m) Active &&
      (negb (is_restricted (ty m)) || has m from RTransfer)
  end.

Definition step_opt (s : state) (o : op) : option state :=
  match o with
  | OAdd from st0 amt fx gv t fr mgr acl =>
      let isgov := N.eqb from GOV in
      guard (negb ((match mgr with None => true | _ => false end) && status_eqb st0 Proposed)) ;;
      guard (0 <=? amt) ;;
      guard (negb (fr && negb (is_restricted t))) ;;
      guard (isgov || status_eqb st0 Proposed || status_eqb st0 Finalized) ;;
      let mg := if 3 <=? rank st0 then None
                else match mgr with Some x => Some x | None => Some from end in
      let m := {| st := st0; msupply := amt; fixed := fx; govctl := gv || (negb isgov && govparam s);
                  ty := t; forced := fr; manager := mg; access := acl |} in
      s1 <- add_account s m ;;
      if status_eqb st0 Active then adjust s1 amt else Some s1
  | OAddFinAct amt fx gv t fr mgr acl =>
      guard (0 <=? amt) ;;
      mg <- mgr ;;
      guard (match acl with [] => false | _ => true end) ;;
      guard (negb (fr && negb (is_restricted t))) ;;
      let m := {| st := Proposed; msupply := amt; fixed := fx; govctl := gv || govparam s;
                  ty := t; forced := fr; manager := Some mg; access := acl |} in
      s1 <- add_account s m ;;
      s2 <- finalize s1 m mg ;;
      m2 <- mk s2 ;;
      activate s2 m2 mg
  | OFinalize caller => m <- mk s ;; finalize s m caller
  | OActivate caller => m <- mk s ;; activate s m caller
  | OMint caller amt =>
      guard (0 <=? amt) ;;
      m <- mk s ;;
      guard (has m caller RMint) ;;
      match st m with
      | Proposed | Finalized =>
          let m' := with_supply m (msupply m + amt) in
          guard (validate_at (esc s) m') ;; Some (set_mk s (Some m'))
      | Active => increase_supply s m amt
      | _ => None
      end
  | OBurn caller amt =>
      guard (0 <=? amt) ;;
      m <- mk s ;;
      guard (has m caller RBurn) ;;
      match st m with
      | Proposed | Finalized =>
          guard (amt <=? msupply m) ;;                 (* Coin.Sub panics below zero *)
          let m' := with_supply m (msupply m - amt) in
          guard (validate_at (esc s) m') ;; Some (set_mk s (Some m'))
      | Active => decrease_supply s m amt
      | _ => None
      end
  | OWithdraw caller to amt =>
      guard (0 <? amt) ;;
      m <- mk s ;;
      guard (has m caller RWithdraw) ;;
      guard (negb (N.eqb to (esc s) && is_restricted (ty m)) || has m caller RDeposit) ;;
      guard (status_eqb (st m) Active) ;;
      guard (negb (blocked to)) ;;
      move s (esc s) to amt
  | OCancel caller =>
      m <- mk s ;;
      match st m with
      | Finalized | Active =>
          guard (has m caller RDelete) ;;
          guard (supply s - get (bal s) (esc s) <=? 0) ;;
          let m' := with_status m Cancelled in
          guard (validate_at (esc s) m') ;; Some (set_mk s (Some m'))
      | Proposed =>
          guard (has m caller RDelete || is_manager m caller) ;;
          let m' := with_status m Cancelled in
          guard (validate_at (esc s) m') ;; Some (set_mk s (Some m'))
      | Cancelled => Some s
      | Destroyed => None
      end
  | ODelete caller =>
      m <- mk s ;;
      guard (has m caller RDelete || is_manager m caller) ;;
      guard (status_eqb (st m) Cancelled) ;;
      guard (supply s - get (bal s) (esc s) <=? 0) ;;
      s1 <- decrease_supply s m (supply s) ;;
      guard (get (bal s1) (esc s) =? 0) ;;
      m1 <- mk s1 ;;
      let m' := with_status m1 Destroyed in
      guard (validate_at (esc s) m') ;; Some (set_mk s1 (Some m'))
  | OTransfer admin from to amt az =>
      guard (0 <=? amt) ;;
      m <- mk s ;;
      guard (status_eqb (st m) Active) ;;
      guard (is_restricted (ty m)) ;;
      guard (has m admin RTransfer || has m admin RForce) ;;
      guard (negb (N.eqb to (esc s)) || has m admin RDeposit) ;;
      guard (N.eqb admin from || (forced m && has m admin RForce) || az) ;;   (* else the authz grant decides *)
      guard (negb (blocked to)) ;;
      move s from to amt
  | OGrant caller grantee rs =>
      m <- mk s ;;
      guard (may_change_access s m caller) ;;
      let m' := with_access m (grant (access m) grantee rs) in
      guard (validate_at (esc s) m') ;; Some (set_mk s (Some m'))
  | ORevoke caller a =>
      m <- mk s ;;
      guard (may_change_access s m caller) ;;
      let m' := with_access m (revoke (access m) a) in
      guard (validate_at (esc s) m') ;; Some (set_mk s (Some m'))
  | OGovSupplyIncrease authority amt target =>
      guard (N.eqb authority GOV) ;;
      guard (0 <=? amt) ;;
      m <- mk s ;;
      guard (govctl m) ;;
      match st m with
      | Proposed | Finalized =>
          let m' := with_supply m (msupply m + amt) in
          guard (validate_at (esc s) m') ;; Some (set_mk s (Some m'))
      | Active =>
          s1 <- increase_supply s m amt ;;
          match target with
          | Some t => move s1 (esc s) t amt
          | None => Some s1
          end
      | _ => None
      end
  | OGovSupplyDecrease authority amt =>
      guard (N.eqb authority GOV) ;;
      guard (0 <=? amt) ;;
      m <- mk s ;;
      guard (govctl m) ;;
      decrease_supply s m amt
  | OGovChangeStatus authority newst =>
      guard (N.eqb authority GOV) ;;
      m <- mk s ;;
      guard (govctl m) ;;
      guard (rank (st m) <=? rank newst) ;;
      s1 <- (match newst with
             | Active => adjust s (msupply m)
             | Destroyed => guard (status_eqb (st m) Cancelled) ;; adjust s 0
             | _ => Some s
             end) ;;
      let m' := with_status m newst in
      guard (validate_at (esc s) m') ;; Some (set_mk s1 (Some m'))
  | OGovWithdrawEscrow authority to amt =>
      guard (N.eqb authority GOV) ;;
      guard (0 <? amt) ;;
      m <- mk s ;;
      guard (govctl m) ;;
      move s (esc s) to amt
  | OGovSetAdmin authority grantee rs =>
      guard (N.eqb authority GOV) ;;
      m <- mk s ;;
      guard (govctl m) ;;
      let m' := with_access m (grant (access m) grantee rs) in
      guard (validate_at (esc s) m') ;; Some (set_mk s (Some m'))
  | OGovRemoveAdmin authority a =>
      guard (N.eqb authority GOV) ;;
      m <- mk s ;;
      guard (govctl m) ;;
      let m' := with_access m (revoke (access m) a) in
      guard (validate_at (esc s) m') ;; Some (set_mk s (Some m'))
  | OSend from to amt =>
      guard (0 <? amt) ;;
      guard (negb (blocked to)) ;;                                  (* bank MsgSend: BlockedAddr(to) *)
      guard (send_allowed s from to) ;;
      move s from to amt
  | OMove from to amt =>
      guard (0 <? amt) ;;
      move s from to amt
  | OSetParams authority mx _ gv =>
      guard (N.eqb authority GOV) ;;
      Some (set_params s mx gv)
  | OBeginBlock =>
      match mk s with
      | None => Some s
      | Some m =>
          s1 <- (if status_eqb (st m) Active && fixed m && negb (msupply m =? supply s)
                 then adjust s (msupply m) else Some s) ;;
          if status_eqb (st m) Destroyed
          then Some {| mk := None; bal := bal s1; supply := supply s1; maxsupply := maxsupply s1;
                       govparam := govparam s1; gen := N.succ (gen s1); esc := esc s1 |}
          else Some s1
      end
  end.

(** A failing operation keeps the old state. *)
Definition step (s : state) (o : op) : state * bool :=
  match step_opt s o with Some s' => (s', true) | None => (s, false) end.
Definition run (s : state) (ops : list op) : state := fold_left (fun x o => fst (step x o)) ops s.

(** Ops that are a mint (of [amt]) into an active marker when they succeed on one. *)
Definition mint_amount (o : op) : option Z :=
  match o with
  | OMint _ amt => Some amt
  | OGovSupplyIncrease _ amt _ => Some amt
  | _ => None
  end.

(** ** Invariants (statements only) *)
Definition NonNeg (m : list (addr * Z)) : Prop := Forall (fun e => 0 <= snd e) m.
Definition BankInv (s : state) : Prop := NonNeg (bal s) /\ supply s = total (bal s).
Definition FixedExact (s : state) : Prop :=
  forall m, mk s = Some m -> st m = Active -> fixed m = true -> supply s = msupply m.
Definition Inv (s : state) : Prop := BankInv s /\ FixedExact s.

(** Position of a state in the lifetime order: removals first, then the status of the record. *)
Definition lifepos (s : state) : Z :=
  8 * Z.of_N (gen s) + match mk s with Some m => rank (st m) | None => 0 end.

(** No marker, or one that is not active. *)
Definition not_active (s : state) : Prop :=
  match mk s with None => True | Some m => st m <> Active end.

(** The largest MaxSupply in force at any point of the history [ops] run from [s]. *)
Fixpoint max_param (s : state) (ops : list op) : Z :=
  match ops with
  | [] => maxsupply s
  | o :: r => Z.max (maxsupply s) (max_param (fst (step s o)) r)
  end.
