(** Model of the marker module's bank send restriction (property C04).

    Go sources transcribed here, branch for branch:
      x/marker/keeper/send_restrictions.go   Keeper.SendRestrictionFn, Keeper.validateSendDenom,
                                             findMissingAttributes, MatchAttribute
      x/marker/types/marker.go               MarkerAccount.HasAccess / AddressHasAccess /
                                             ValidateAddressHasAccess, AtLeastOneAddrHasAccess,
                                             ValidateAtLeastOneAddrHasAccess
      x/marker/keeper/keeper.go              Keeper.GetMarker, IsSendDeny, IsReqAttrBypassAddr
      x/marker/types/send_restrictions.go    HasBypass, GetTransferAgents (context values)
      internal/sdk/context.go                HasFeeGrantInUse (context value)

    Everything the Go code reads is a field of the abstract configuration [config]:
      - the auth account store restricted to what matters here: at an address there is no
        account, a non-marker account, or a marker account ([cfg_accounts]);
      - a marker's address is a function of its denom (types.MustGetMarkerAddress, a hash; assumed
        injective and disjoint from ordinary addresses): address [AMarker d] for denom [d];
      - the send deny list (marker store), the attribute names held by each account
        (attribute keeper's GetAllAttributesAddr; assumed not to fail for a valid address);
      - the keeper's constants: required-attribute bypass addresses, fee collector, marker module
        and ibc transfer module addresses;
      - the context values: bypass flag, fee-grant-in-use flag, transfer agents.
    sdk.Coins is a list of (denom, amount); [Coins.Find] is transcribed as the first entry with the
    denom (the SDK does a binary search over the sorted, duplicate-free list the bank passes in).
    The Go function returns (toAddr, nil) or (nil, err): [Some to] / [None].  No proofs here. *)
From Coq Require Import ZArith PArith List Bool Ascii.
Import ListNotations.

Definition denom := positive.

Inductive addr :=
| AMarker (d : denom)          (* types.MustGetMarkerAddress(d) *)
| AAcct (n : positive).        (* any other 20-byte address *)

Definition addr_eqb (a b : addr) : bool :=
  match a, b with
  | AMarker x, AMarker y => Pos.eqb x y
  | AAcct x, AAcct y => Pos.eqb x y
  | _, _ => false
  end.

(** Attribute names are byte strings. *)
Definition name := list ascii.

Inductive mtype := MCoin | MRestricted.
Inductive mstatus := SProposed | SFinalized | SActive | SCancelled | SDestroyed.
Inductive access := AcMint | AcBurn | AcDeposit | AcWithdraw | AcDelete | AcAdmin | AcTransfer | AcForceTransfer.

Definition access_eqb (x y : access) : bool :=
  match x, y with
  | AcMint, AcMint | AcBurn, AcBurn | AcDeposit, AcDeposit | AcWithdraw, AcWithdraw
  | AcDelete, AcDelete | AcAdmin, AcAdmin | AcTransfer, AcTransfer
  | AcForceTransfer, AcForceTransfer => true
  | _, _ => false
  end.

Definition is_active (s : mstatus) : bool := match s with SActive => true | _ => false end.
Definition is_restricted (t : mtype) : bool := match t with MRestricted => true | MCoin => false end.

Record marker := {
  m_denom : denom;
  m_type : mtype;
  m_status : mstatus;
  m_req_attrs : list name;                    (* RequiredAttributes, in order *)
  m_access : list (addr * list access);       (* AccessControl grants, in order *)
  m_forced : bool                             (* AllowForcedTransfer; never read by the restriction *)
}.

Inductive account := AcctOther | AcctMarker (m : marker).

Record config := {
  cfg_accounts : list (addr * account);
  cfg_deny : list (addr * addr);              (* (marker address, denied sender) *)
  cfg_attrs : list (addr * list name);        (* attribute names on an account *)
  cfg_bypass_addrs : list addr;               (* reqAttrBypassAddrs *)
  cfg_fee_collector : addr;
  cfg_marker_module : addr;
  cfg_ibc_module : addr;
  cfg_ctx_bypass : bool;                      (* types.HasBypass(ctx) *)
  cfg_fee_grant : bool;                       (* internalsdk.HasFeeGrantInUse(ctx) *)
  cfg_agents : list addr                      (* types.GetTransferAgents(ctx) *)
}.

Definition coins := list (denom * Z).

(** ** Store reads *)
Fixpoint lookup_acct (a : addr) (l : list (addr * account)) : option account :=
  match l with
  | [] => None
  | (b, x) :: r => if addr_eqb a b then Some x else lookup_acct a r
  end.

(** Keeper.GetMarker: (nil, nil) without an account, an error when the account is not a marker. *)
Inductive gm_result := GMErr | GMNone | GMSome (m : marker).

Definition get_marker (c : config) (a : addr) : gm_result :=
  match lookup_acct a (cfg_accounts c) with
  | None => GMNone
  | Some AcctOther => GMErr
  | Some (AcctMarker m) => GMSome m
  end.

(** [m, _ := k.GetMarker(...)]: the error is dropped, m is nil. *)
Definition get_marker_ign (c : config) (a : addr) : option marker :=
  match get_marker c a with GMSome m => Some m | _ => None end.

Definition is_send_deny (c : config) (marker_addr sender : addr) : bool :=
  existsb (fun p => addr_eqb (fst p) marker_addr && addr_eqb (snd p) sender) (cfg_deny c).

Definition is_req_attr_bypass (c : config) (a : addr) : bool :=
  existsb (addr_eqb a) (cfg_bypass_addrs c).

Definition attributes_of (c : config) (a : addr) : list name :=
  flat_map (fun p => if addr_eqb (fst p) a then snd p else []) (cfg_attrs c).

(** ** Access (types/marker.go) *)
Definition has_access (m : marker) (a : addr) (role : access) : bool :=
  existsb (fun g => addr_eqb (fst g) a && existsb (access_eqb role) (snd g)) (m_access m).

Definition at_least_one_has_access (m : marker) (addrs : list addr) (role : access) : bool :=
  existsb (fun a => has_access m a role) addrs.

(** ValidateAtLeastOneAddrHasAccess: [true] = nil error. *)
Definition validate_at_least_one (m : marker) (addrs : list addr) (role : access) : bool :=
  match addrs with
  | [a] => has_access m a role
  | _ => at_least_one_has_access m addrs role
  end.

(** ** MatchAttribute / findMissingAttributes *)
Definition ascii_eqb (x y : ascii) : bool := Ascii.eqb x y.

Fixpoint bytes_eqb (x y : name) : bool :=
  match x, y with
  | [], [] => true
  | a :: x', b :: y' => ascii_eqb a b && bytes_eqb x' y'
  | _, _ => false
  end.

Fixpoint has_prefix (s p : name) {struct p} : bool :=        (* strings.HasPrefix(s, p) *)
  match p, s with
  | [], _ => true
  | b :: p', a :: s' => ascii_eqb a b && has_prefix s' p'
  | _ :: _, [] => false
  end.

Definition has_suffix (s p : name) : bool :=      (* strings.HasSuffix(s, p) *)
  has_prefix (rev s) (rev p).

Definition star : ascii := "*"%char.
Definition dot : ascii := "."%char.

Definition match_attribute (req attr : name) : bool :=
  match req with
  | [] => false                                              (* len(reqAttr) < 1 *)
  | _ :: tl =>
      if has_prefix req [star; dot] then has_suffix attr tl  (* reqAttr[1:] keeps the '.' *)
      else bytes_eqb req attr
  end.

Definition find_missing_attributes (required attributes : list name) : list name :=
  filter (fun req => negb (existsb (match_attribute req) attributes)) required.

(** ** sdk.Coins helpers *)
Fixpoint coins_find (d : denom) (amt : coins) : option Z :=
  match amt with
  | [] => None
  | (d', a) :: r => if Pos.eqb d d' then Some a else coins_find d r
  end.

(** ** validateSendDenom: [true] = nil error.  (After fix commit f4bdf3346 the GetMarker error
    is dropped here too: an account at the marker address that is not a marker = no marker.) *)
Definition validate_send_denom (c : config) (from to : addr) (admins : list addr) (d : denom)
           (to_marker : option marker) : bool :=
  let marker_addr := AMarker d in
  match get_marker_ign c marker_addr with
  | None => true
  | Some m =>
      if negb (is_active (m_status m)) then false
      else if negb (is_restricted (m_type m)) then true
      else if addr_eqb to (cfg_fee_collector c) then false
      else if negb (Nat.eqb (length admins) 0) && at_least_one_has_access m admins AcTransfer then true
      else if is_send_deny c marker_addr from then false
      else if has_access m from AcTransfer then true
      else
        match to_marker with
        | Some _ => false
        | None =>
            match m_req_attrs m with
            | [] => if is_req_attr_bypass c from then true else false
            | req =>
                if is_req_attr_bypass c to then true
                else
                  match find_missing_attributes req (attributes_of c to) with
                  | [] => true
                  | _ => false
                  end
            end
        end
  end.

(** The fee-collector guard of the bypass branch: a loop over the coins that stops at the first
    restricted marker. *)
Fixpoint bypass_fee_collector_loop (c : config) (amt : coins) : bool :=
  match amt with
  | [] => true
  | (d, _) :: r =>
      match get_marker_ign c (AMarker d) with
      | Some m => if is_restricted (m_type m) then false else bypass_fee_collector_loop c r
      | None => bypass_fee_collector_loop c r
      end
  end.

Fixpoint denom_loop (c : config) (from to : addr) (admins : list addr) (to_marker : option marker)
         (amt : coins) : bool :=
  match amt with
  | [] => true
  | (d, _) :: r =>
      if validate_send_denom c from to admins d to_marker
      then denom_loop c from to admins to_marker r else false
  end.

(** The sender-marker block of SendRestrictionFn: [true] = fall through. *)
Definition sender_marker_block (c : config) (from : addr) (admins : list addr) (amt : coins) : bool :=
  match get_marker_ign c from with
  | None => true
  | Some fm =>
      if (if negb (cfg_fee_grant c)
          then if Nat.eqb (length admins) 0 then false
               else validate_at_least_one fm admins AcWithdraw
          else true)
      then
        if negb (is_active (m_status fm)) then
          match coins_find (m_denom fm) amt with
          | Some a => if negb (Z.eqb a 0) then false else true
          | None => true
          end
        else true
      else false
  end.

(** The receiver-marker block: [true] = fall through. *)
Definition receiver_marker_block (c : config) (from : addr) (admins : list addr)
           (to_marker : option marker) : bool :=
  match to_marker with
  | Some tm =>
      if is_restricted (m_type tm) then
        if negb (Nat.eqb (length admins) 0) then validate_at_least_one tm admins AcDeposit
        else has_access tm from AcDeposit
      else true
  | None => true
  end.

Definition send_restriction (c : config) (from to : addr) (amt : coins) : option addr :=
  if cfg_ctx_bypass c || addr_eqb from (cfg_marker_module c) || addr_eqb from (cfg_ibc_module c) then
    if addr_eqb to (cfg_fee_collector c) then
      if bypass_fee_collector_loop c amt then Some to else None
    else Some to
  else
    let admins := cfg_agents c in
    if sender_marker_block c from admins amt then
      let to_marker := get_marker_ign c to in
      if receiver_marker_block c from admins to_marker then
        if denom_loop c from to admins to_marker amt then Some to else None
      else None
    else None.

Definition allowed (c : config) (from to : addr) (amt : coins) : bool :=
  match send_restriction c from to amt with Some _ => true | None => false end.
