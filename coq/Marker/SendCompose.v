(** The three bank send restrictions of the application composed, and the endpoints that reach the
    bank with marker context flags set (property C04, deepening).

    Go sources transcribed here, branch for branch:
      forked cosmos-sdk x/bank/types/restrictions.go   ComposeSendRestrictions (run in order, each
                                                       restriction sees the destination returned by the
                                                       previous one, first error stops), AppendSendRestriction
      forked cosmos-sdk x/bank/keeper/send.go          SendCoins / InputOutputCoinsProv: funds are credited to
                                                       the address the composed restriction returns;
                              keeper.go                DelegateCoins: the returned address is DROPPED, the
                                                       module account is credited ([delegate_dest])
      x/sanction/keeper/send_restriction.go            Keeper.SendRestrictionFn
      x/quarantine/keeper/send_restriction.go          Keeper.SendRestrictionFn
      app/app.go                                       registration order, read from the REVIEWED wiring table
                                                       (Base/WiringDoc.v, proved equal to the table regenerated
                                                       from the source on every run): marker, sanction, quarantine
      x/marker/keeper/marker.go                        Keeper.TransferCoin (guards + bank send under
                                                       markertypes.WithBypass), validateSendToMarker
      x/exchange/keeper/fulfillment.go, keeper.go      SettleOrders -> closeSettlement -> DoTransfer: every
                                                       transfer runs with WithTransferAgents(admin) and
                                                       quarantine.WithBypass, blocked receivers refused
      x/metadata/keeper/msg_server.go, scope.go, signers.go   UpdateValueOwners: ValidateUpdateValueOwners
                                                       (owner signs, or the owner is a marker account) then
                                                       SendCoins of the scope coin with the signers as agents

    What is abstract:
      - [sc_sanctioned]: the addresses for which Keeper.IsSanctionedAddr answers true (permanent entry or latest
        temporary entry, never an unsanctionable address).  How that set evolves is property C06's subject.
      - [qc_optin], [qc_auto_accept]: the quarantine opt-in set and the (receiver, sender) pairs with
        auto-response ACCEPT.  AddQuarantinedCoins fails only when the record it is about to write is fully
        accepted; the store never holds such a record (SetQuarantineRecord deletes them) and a new
        single-sender record is unaccepted because IsAutoAccept was false one line earlier: that error, and
        the "no funds holder" error (NewKeeper refuses an empty holder), are unreachable and not modelled.
      - authz (MarkerTransferAuthorization accepted for this transfer), "funds may be forced out of this
        account" (canForceTransferFrom: group address / no account / sequence <> 0 / marker / market account)
        and bank BlockedAddr are inputs of the endpoint models: booleans the harness knows from what it set up.
    No proofs in this file. *)
From Coq Require Import ZArith PArith List Bool Ascii String.
From PV Require Import Marker.SendRestr Base.WiringTypes Base.WiringDoc.
Import ListNotations.

(** ** Sanction *)
Record sanction_cfg := {
  sc_sanctioned : list addr;                  (* IsSanctionedAddr = true *)
  sc_bypass : bool                            (* sanction.HasBypass(ctx) *)
}.

Definition is_sanctioned (sc : sanction_cfg) (a : addr) : bool := existsb (addr_eqb a) (sc_sanctioned sc).

Definition sanction_restriction (sc : sanction_cfg) (from to : addr) (amt : coins) : option addr :=
  if negb (sc_bypass sc) && is_sanctioned sc from then None else Some to.

(** ** Quarantine *)
Record quarantine_cfg := {
  qc_optin : list addr;                       (* IsQuarantinedAddr = true *)
  qc_auto_accept : list (addr * addr);        (* (receiver, sender) with AUTO_RESPONSE_ACCEPT *)
  qc_holder : addr;                           (* GetFundsHolder() *)
  qc_bypass : bool                            (* quarantine.HasBypass(ctx) *)
}.

Definition is_quarantined (qc : quarantine_cfg) (a : addr) : bool := existsb (addr_eqb a) (qc_optin qc).

(** GetAutoResponse: an address always accepts itself; IsAutoAccept for one sender. *)
Definition is_auto_accept (qc : quarantine_cfg) (to from : addr) : bool :=
  addr_eqb to from ||
  existsb (fun p => addr_eqb (fst p) to && addr_eqb (snd p) from) (qc_auto_accept qc).

Definition quarantine_restriction (qc : quarantine_cfg) (from to : addr) (amt : coins) : option addr :=
  if qc_bypass qc then Some to
  else if addr_eqb from to || addr_eqb from (qc_holder qc) then Some to
  else if negb (is_quarantined qc to) || is_auto_accept qc to from then Some to
  else Some (qc_holder qc).                   (* AddQuarantinedCoins(amt, to, from); new destination *)

(** Derived notions used by the statements: the quarantine restriction redirects to the holder;
    the destination it returns; the sanction restriction lets the sender through. *)
Definition q_redirects (qc : quarantine_cfg) (from to : addr) : bool :=
  negb (qc_bypass qc) && negb (addr_eqb from to) && negb (addr_eqb from (qc_holder qc)) &&
  is_quarantined qc to && negb (is_auto_accept qc to from).

Definition q_dest (qc : quarantine_cfg) (from to : addr) : addr :=
  if q_redirects qc from to then qc_holder qc else to.

Definition sanction_passes (sc : sanction_cfg) (from : addr) : bool :=
  sc_bypass sc || negb (is_sanctioned sc from).

(** ** Composition (bank) *)
Definition restriction := addr -> addr -> coins -> option addr.

Fixpoint compose (rs : list restriction) (from to : addr) (amt : coins) : option addr :=
  match rs with
  | [] => Some to
  | r :: rest =>
      match r from to amt with
      | None => None
      | Some to' => compose rest from to' amt
      end
  end.

Record app_config := {
  ac_marker : config;
  ac_sanction : sanction_cfg;
  ac_quar : quarantine_cfg
}.

(** The restriction a keeper package registers in its constructor (reviewed_hook_registrations); a
    package this file does not know registers a restriction about which nothing can be said: deny. *)
Definition restriction_of_pkg (ac : app_config) (pkg : string) : restriction :=
  if String.eqb pkg "x/marker/keeper" then send_restriction (ac_marker ac)
  else if String.eqb pkg "x/sanction/keeper" then sanction_restriction (ac_sanction ac)
  else if String.eqb pkg "x/quarantine/keeper" then quarantine_restriction (ac_quar ac)
  else fun _ _ _ => None.

(** The restriction the application's bank keeper applies: the registered ones in the effective order
    of the reviewed wiring table. *)
Definition app_restriction (ac : app_config) : restriction :=
  compose (map (restriction_of_pkg ac) (send_restriction_order reviewed_wiring)).

(** The same, written out (equal by [app_restriction_unfold], Proofs/SendComposeProofs.v); the
    correspondence evaluates this one. *)
Definition app_restriction_seq (ac : app_config) (from to : addr) (amt : coins) : option addr :=
  match send_restriction (ac_marker ac) from to amt with
  | None => None
  | Some to1 =>
      match sanction_restriction (ac_sanction ac) from to1 amt with
      | None => None
      | Some to2 => quarantine_restriction (ac_quar ac) from to2 amt
      end
  end.

Definition app_permits (ac : app_config) (from to : addr) (amt : coins) : bool :=
  match app_restriction_seq ac from to amt with Some _ => true | None => false end.

(** DelegateCoins applies the restriction for its verdict only. *)
Definition delegate_dest (ac : app_config) (from to : addr) (amt : coins) : option addr :=
  match app_restriction_seq ac from to amt with Some _ => Some to | None => None end.

(** ** Context flags set by endpoints (the reviewed setter sites of Base/WiringDoc.v) *)
Definition mc_with (c : config) (bypass fg : bool) (agents : list addr) : config :=
  {| cfg_accounts := cfg_accounts c; cfg_deny := cfg_deny c; cfg_attrs := cfg_attrs c;
     cfg_bypass_addrs := cfg_bypass_addrs c; cfg_fee_collector := cfg_fee_collector c;
     cfg_marker_module := cfg_marker_module c; cfg_ibc_module := cfg_ibc_module c;
     cfg_ctx_bypass := bypass; cfg_fee_grant := fg; cfg_agents := agents |}.

Definition qc_with_bypass (qc : quarantine_cfg) (b : bool) : quarantine_cfg :=
  {| qc_optin := qc_optin qc; qc_auto_accept := qc_auto_accept qc; qc_holder := qc_holder qc; qc_bypass := b |}.

(** markertypes.WithBypass(ctx) *)
Definition with_marker_bypass (ac : app_config) : app_config :=
  {| ac_marker := mc_with (ac_marker ac) true (cfg_fee_grant (ac_marker ac)) (cfg_agents (ac_marker ac));
     ac_sanction := ac_sanction ac; ac_quar := ac_quar ac |}.

(** markertypes.WithTransferAgents(ctx, agents...) *)
Definition with_agents (ac : app_config) (agents : list addr) : app_config :=
  {| ac_marker := mc_with (ac_marker ac) (cfg_ctx_bypass (ac_marker ac)) (cfg_fee_grant (ac_marker ac)) agents;
     ac_sanction := ac_sanction ac; ac_quar := ac_quar ac |}.

(** quarantine.WithBypass(ctx) *)
Definition with_quarantine_bypass (ac : app_config) : app_config :=
  {| ac_marker := ac_marker ac; ac_sanction := ac_sanction ac; ac_quar := qc_with_bypass (ac_quar ac) true |}.

(** ** Marker MsgTransferRequest: Keeper.TransferCoin *)
Definition validate_send_to_marker (c : config) (to admin : addr) : bool :=
  match get_marker_ign c to with
  | None => true
  | Some tm => if negb (is_restricted (m_type tm)) then true else has_access tm admin AcDeposit
  end.

(** Everything TransferCoin checks before the bank send: [true] = reaches SendCoins. *)
Definition transfer_coin_guard (c : config) (admin from to : addr) (d : denom)
           (authz_ok from_forcible to_blocked : bool) : bool :=
  match get_marker c (AMarker d) with                    (* GetMarkerByDenom: error without a marker *)
  | GMSome m =>
      if negb (is_active (m_status m)) then false
      else if negb (is_restricted (m_type m)) then false
      else
        let can_force := has_access m admin AcForceTransfer in
        if negb (has_access m admin AcTransfer) && negb can_force then false
        else if negb (validate_send_to_marker c to admin) then false
        else if negb (addr_eqb admin from) &&
                (if negb (m_forced m) || negb can_force then negb authz_ok else negb from_forcible)
        then false
        else negb to_blocked
  | _ => false
  end.

(** The destination the coin is credited to, [None] = the message fails. *)
Definition transfer_coin (ac : app_config) (admin from to : addr) (d : denom) (a : Z)
           (authz_ok from_forcible to_blocked : bool) : option addr :=
  if transfer_coin_guard (ac_marker ac) admin from to d authz_ok from_forcible to_blocked
  then app_restriction_seq (with_marker_bypass ac) from to [(d, a)]
  else None.

(** ** Exchange settlement: every transfer of closeSettlement *)
Definition settle_ctx (ac : app_config) (admin : addr) : app_config :=
  with_quarantine_bypass (with_agents ac [admin]).

(** A transfer (from, to, coins, receiver is bank-blocked) goes through. *)
Definition leg_ok (ac : app_config) (l : addr * addr * coins * bool) : bool :=
  let '(from, to, amt, blocked) := l in
  negb blocked && app_permits ac from to amt.

Definition settle_ok (ac : app_config) (admin : addr) (legs : list (addr * addr * coins * bool)) : bool :=
  forallb (leg_ok (settle_ctx ac admin)) legs.

(** ** Metadata MsgUpdateValueOwners for one scope held by [owner] *)
Definition value_owner_guard (c : config) (signers : list addr) (owner to : addr) (to_blocked : bool) : bool :=
  negb (addr_eqb owner to) &&                               (* "already has the proposed value owner" *)
  (existsb (addr_eqb owner) signers ||                      (* the owner signed (no authz grants in play) *)
   match get_marker_ign c owner with Some _ => true | None => false end) &&   (* IsMarkerAccount *)
  negb to_blocked.

Definition update_value_owner (ac : app_config) (signers : list addr) (owner to : addr) (d : denom)
           (to_blocked : bool) : option addr :=
  if value_owner_guard (ac_marker ac) signers owner to to_blocked
  then app_restriction_seq (with_agents ac signers) owner to [(d, 1%Z)]
  else None.
