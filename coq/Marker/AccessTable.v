(** The access guards of the marker keeper and message server, function by function (property C12).

    [access_row] is what the extractor translate/markeraccess reads off the Go source of
    x/marker/keeper/marker.go and msg_server.go for every method mentioning a guard; the generated
    table is coq/Gen/GenMarkerAccess.v.  Unexported helpers of the package have no rows: what they
    test is attributed to the functions calling them (transitively), so that extracting or
    inlining a helper does not change the table.  [documented_access_table] is the hand-written side:
    for the twenty-three endpoints of Marker/Access.v ([all_ops]) the row is COMPUTED from the documented requirement
    table of Marker/Access.v ([documented], transcribed from accessgrant.proto and the spec files),
    the remaining rows (transfers, helper functions, governance-only endpoints) are written out
    with their source.  No proofs in this file. *)
From Coq Require Import NArith List String Bool.
From PV Require Import Marker.Access.
Import ListNotations.
Open Scope string_scope.

Record access_row := {
  row_func : string;
  row_tests : list right;          (* Access_* constants passed to an access predicate, enum order *)
  row_manager : bool;              (* compares with marker.GetManager() *)
  row_authority : bool;            (* reads GetAuthority() / calls ValidateAuthority *)
  row_all_supply : bool;           (* calls accountControlsAllSupply *)
  row_any_grant : bool;            (* calls GrantsForAddress: any access on the marker *)
  row_unrecognised : list string   (* any other mention of an Access_* constant, as source text *)
}.

Definition right_eqb (a b : right) : bool := N.eqb (right_bit a) (right_bit b).
Definition alt_eqb (a b : alt) : bool :=
  match a, b with
  | AltManager, AltManager | AltGov, AltGov | AltAllSupply, AltAllSupply => true
  | _, _ => false
  end.

Definition doc_reqs (o : op) : list requirement :=
  flat_map (fun s => map (fun t => documented o s t) all_types) all_status.
Definition doc_rights (o : op) : list right :=
  let named := flat_map (fun r => match r with Needs rs _ => rs | NotAvailable => [] end) (doc_reqs o) in
  filter (fun r => existsb (right_eqb r) named) all_rights.
Definition doc_alt (o : op) (a : alt) : bool :=
  existsb (fun r => match r with Needs _ alts => existsb (alt_eqb a) alts | NotAvailable => false end) (doc_reqs o).

(** The row an endpoint must have according to the documentation: the rights it names (all eight
    = "any access"), and which alternatives it admits. *)
Definition row_of_op (name : string) (o : op) : access_row :=
  let rs := doc_rights o in
  let any := Nat.eqb (List.length rs) 8 in
  {| row_func := name;
     row_tests := if any then [] else rs;
     row_manager := doc_alt o AltManager;
     row_authority := doc_alt o AltGov;
     row_all_supply := doc_alt o AltAllSupply;
     row_any_grant := any;
     row_unrecognised := [] |}.

(** The rights an endpoint tests through helpers on OTHER markers come on top of its own. *)
Definition with_tests (r : access_row) (extra : list right) : access_row :=
  {| row_func := row_func r;
     row_tests := filter (fun x => existsb (right_eqb x) (row_tests r ++ extra)) all_rights;
     row_manager := row_manager r; row_authority := row_authority r; row_all_supply := row_all_supply r;
     row_any_grant := row_any_grant r; row_unrecognised := row_unrecognised r |}.

Definition plain_row (name : string) (tests : list right) (mgr auth : bool) (unrec : list string) : access_row :=
  {| row_func := name; row_tests := tests; row_manager := mgr; row_authority := auth;
     row_all_supply := false; row_any_grant := false; row_unrecognised := unrec |}.

(** Sorted by function name, like the generated table. *)
Definition documented_access_table : list access_row := [
  row_of_op "Keeper.ActivateMarker" OActivate;
  row_of_op "Keeper.AddAccess" OAddAccess;
  (* passes marker.GetManager() on to FinalizeMarker / ActivateMarker *)
  plain_row "Keeper.AddFinalizeAndActivateMarker" [] true false [];
  (* reads the manager only for the event *)
  plain_row "Keeper.AddMarkerAccount" [] true false [];
  row_of_op "Keeper.BurnCoin" OBurn;
  row_of_op "Keeper.CancelMarker" OCancel;
  row_of_op "Keeper.DeleteMarker" ODelete;
  row_of_op "Keeper.FinalizeMarker" OFinalize;
  (* 03_messages Msg/IbcTransfer: "requires a signature from an account with the transfer
     permission"; the keeper also GRANTS transfer to the ibc escrow account (not a test) *)
  plain_row "Keeper.IbcTransferCoin" [RTransfer] false false
    ["types.NewAccessGrant(escrowAccount, []types.Access{types.Access_Transfer})"];
  row_of_op "Keeper.MintCoin" OMint;
  row_of_op "Keeper.RemoveAccess" ODeleteAccess;
  row_of_op "Keeper.SetMarkerDenomMetadata" OSetMetadata;
  (* 12_transfers.md MsgTransferRequest flow: "Does Admin have transfer or force-transfer", then
     checkReceiverMarker; "Deposits": deposit permission on a restricted destination marker
     (the helper validateSendToMarker, attributed to its callers) *)
  plain_row "Keeper.TransferCoin" [RDeposit; RTransfer; RForceTransfer] false false [];
  (* withdraw on the source marker, plus deposit on a restricted destination marker *)
  with_tests (row_of_op "Keeper.WithdrawCoins" OWithdraw) [RDeposit];
  (* governance-only or authority-aware endpoints of the message server *)
  plain_row "msgServer.AddMarker" [] false true [];
  row_of_op "msgServer.AddNetAssetValues" OAddNav;
  row_of_op "msgServer.ChangeStatusProposal" OChangeStatus;
  row_of_op "msgServer.GrantAllowance" OGrantAllowance;
  row_of_op "msgServer.RemoveAdministratorProposal" ORemoveAdministrator;
  row_of_op "msgServer.SetAccountData" OSetAccountData;
  row_of_op "msgServer.SetAdministratorProposal" OSetAdministrator;
  row_of_op "msgServer.SetDenomMetadataProposal" OSetMetadataProposal;
  row_of_op "msgServer.SupplyDecreaseProposal" OSupplyDecrease;
  row_of_op "msgServer.SupplyIncreaseProposal" OSupplyIncrease;
  row_of_op "msgServer.UpdateForcedTransfer" OUpdateForcedTransfer;
  plain_row "msgServer.UpdateParams" [] false true [];
  row_of_op "msgServer.UpdateRequiredAttributes" OUpdateReqAttrs;
  row_of_op "msgServer.UpdateSendDenyList" OUpdateDenyList;
  row_of_op "msgServer.WithdrawEscrowProposal" OWithdrawEscrow
].

(** ** The endpoints of the module: every rpc of `service Msg` (proto/provenance/marker/v1/tx.proto),
    what decides who may call it, and the rows of the table above that stand in front of it.
    Sorted by rpc name, like the lists the extractor generates
    ([generated_marker_rpcs], [generated_marker_endpoints] in Gen/GenMarkerAccess.v). *)
Inductive ep_kind :=
| EOp (o : op)      (* an administration endpoint of Marker/Access.v: [decide] / [documented] *)
| ECreate           (* creates a marker: there is no access list to hold a right on yet; the sender
                       becomes the manager.  03_messages Msg/AddMarker, Msg/AddFinalizeActivateMarker *)
| ETransfer         (* MsgTransferRequest: Marker/Authz.v [transfer] *)
| EIbcTransfer      (* MsgIbcTransferRequest: Marker/Authz.v [ibc_transfer]: TRANSFER on the marker and
                       the sender's authz grant when the administrator is not the sender (no forced
                       variant); run by the harness on a second marker keeper whose ibc transfer
                       server escrows the token *)
| EModuleGov.       (* module parameters: the governance account; no marker is involved *)

Record endpoint := { ep_rpc : string; ep_kind_of : ep_kind; ep_guards : list string }.

Definition ep (rpc : string) (k : ep_kind) (guards : list string) : endpoint :=
  {| ep_rpc := rpc; ep_kind_of := k; ep_guards := guards |}.

Definition documented_endpoints : list endpoint := [
  ep "Activate" (EOp OActivate) ["Keeper.ActivateMarker"];
  ep "AddAccess" (EOp OAddAccess) ["Keeper.AddAccess"];
  ep "AddFinalizeActivateMarker" ECreate ["Keeper.AddFinalizeAndActivateMarker"];
  ep "AddMarker" ECreate ["Keeper.AddMarkerAccount"; "msgServer.AddMarker"];
  ep "AddNetAssetValues" (EOp OAddNav) ["msgServer.AddNetAssetValues"];
  ep "Burn" (EOp OBurn) ["Keeper.BurnCoin"];
  ep "Cancel" (EOp OCancel) ["Keeper.CancelMarker"];
  ep "ChangeStatusProposal" (EOp OChangeStatus) ["msgServer.ChangeStatusProposal"];
  ep "Delete" (EOp ODelete) ["Keeper.DeleteMarker"];
  ep "DeleteAccess" (EOp ODeleteAccess) ["Keeper.RemoveAccess"];
  ep "Finalize" (EOp OFinalize) ["Keeper.FinalizeMarker"];
  (* the allowance is paid out of the MARKER's account (feegrant granter = marker address):
     03_messages Msg/GrantAllowance, ADMIN on the marker *)
  ep "GrantAllowance" (EOp OGrantAllowance) ["msgServer.GrantAllowance"];
  ep "IbcTransfer" EIbcTransfer ["Keeper.IbcTransferCoin"];
  ep "Mint" (EOp OMint) ["Keeper.MintCoin"];
  ep "RemoveAdministratorProposal" (EOp ORemoveAdministrator) ["msgServer.RemoveAdministratorProposal"];
  ep "SetAccountData" (EOp OSetAccountData) ["msgServer.SetAccountData"];
  ep "SetAdministratorProposal" (EOp OSetAdministrator) ["msgServer.SetAdministratorProposal"];
  ep "SetDenomMetadata" (EOp OSetMetadata) ["Keeper.SetMarkerDenomMetadata"];
  ep "SetDenomMetadataProposal" (EOp OSetMetadataProposal) ["msgServer.SetDenomMetadataProposal"];
  ep "SupplyDecreaseProposal" (EOp OSupplyDecrease) ["msgServer.SupplyDecreaseProposal"];
  ep "SupplyIncreaseProposal" (EOp OSupplyIncrease) ["msgServer.SupplyIncreaseProposal"];
  ep "Transfer" ETransfer ["Keeper.TransferCoin"];
  ep "UpdateForcedTransfer" (EOp OUpdateForcedTransfer) ["msgServer.UpdateForcedTransfer"];
  ep "UpdateParams" EModuleGov ["msgServer.UpdateParams"];
  ep "UpdateRequiredAttributes" (EOp OUpdateReqAttrs) ["msgServer.UpdateRequiredAttributes"];
  ep "UpdateSendDenyList" (EOp OUpdateDenyList) ["msgServer.UpdateSendDenyList"];
  ep "Withdraw" (EOp OWithdraw) ["Keeper.WithdrawCoins"];
  ep "WithdrawEscrowProposal" (EOp OWithdrawEscrow) ["msgServer.WithdrawEscrowProposal"]
].

Definition op_eqb (a b : op) : bool :=
  match a, b with
  | OMint, OMint | OBurn, OBurn | OWithdraw, OWithdraw | OFinalize, OFinalize | OActivate, OActivate
  | OCancel, OCancel | ODelete, ODelete | OAddAccess, OAddAccess | ODeleteAccess, ODeleteAccess
  | OSetMetadata, OSetMetadata | OSetAccountData, OSetAccountData | OUpdateDenyList, OUpdateDenyList
  | OUpdateReqAttrs, OUpdateReqAttrs | OGrantAllowance, OGrantAllowance | OAddNav, OAddNav
  | OUpdateForcedTransfer, OUpdateForcedTransfer | OSupplyIncrease, OSupplyIncrease
  | OSupplyDecrease, OSupplyDecrease | OSetAdministrator, OSetAdministrator
  | ORemoveAdministrator, ORemoveAdministrator | OChangeStatus, OChangeStatus
  | OWithdrawEscrow, OWithdrawEscrow | OSetMetadataProposal, OSetMetadataProposal => true
  | _, _ => false
  end.

Definition find_row (name : string) (t : list access_row) : option access_row :=
  find (fun r => String.eqb name (row_func r)) t.

Definition subset_rights (a b : list right) : bool := forallb (fun x => existsb (right_eqb x) b) a.

(** An endpoint is well placed in the table: every guard it names has a row; when it is an
    administration endpoint, exactly one of these rows is the row computed from the documented
    requirement of its operation (same manager / authority / whole-supply / any-grant flags, the
    documented rights among the tested ones). *)
Definition row_is_of_op (r : access_row) (o : op) : bool :=
  let d := row_of_op (row_func r) o in
  subset_rights (row_tests d) (row_tests r) &&
  Bool.eqb (row_manager r) (row_manager d) && Bool.eqb (row_authority r) (row_authority d) &&
  Bool.eqb (row_all_supply r) (row_all_supply d) && Bool.eqb (row_any_grant r) (row_any_grant d).

Definition endpoint_ok (t : list access_row) (e : endpoint) : bool :=
  forallb (fun g => match find_row g t with Some _ => true | None => false end) (ep_guards e) &&
  negb (match ep_guards e with [] => true | _ => false end) &&
  match ep_kind_of e with
  | EOp o => existsb (fun g => match find_row g t with Some r => row_is_of_op r o | None => false end) (ep_guards e)
  | _ => true
  end.

(** Every operation of the decision table is reachable through exactly one rpc, and every row of
    the guard table stands in front of some rpc. *)
Definition ops_of_endpoints : list op :=
  flat_map (fun e => match ep_kind_of e with EOp o => [o] | _ => [] end) documented_endpoints.
Definition count_op (o : op) (l : list op) : nat := List.length (filter (op_eqb o) l).
Definition endpoints_cover_ops : bool :=
  forallb (fun o => Nat.eqb (count_op o ops_of_endpoints) 1) all_ops &&
  forallb (fun o => existsb (op_eqb o) all_ops) ops_of_endpoints.
Definition rows_all_reachable (t : list access_row) : bool :=
  forallb (fun r => existsb (fun e => existsb (String.eqb (row_func r)) (ep_guards e)) documented_endpoints) t.
