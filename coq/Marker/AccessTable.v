(** The access guards of the marker keeper and message server, function by function (property C12).

    [access_row] is what the extractor translate/markeraccess reads off the Go source of
    x/marker/keeper/marker.go and msg_server.go for every method mentioning a guard; the generated
    table is coq/Gen/GenMarkerAccess.v.  Unexported helpers of the package have no rows: what they
    test is attributed to the functions calling them (transitively), so that extracting or
    inlining a helper does not change the table.  [documented_access_table] is the hand-written side:
    for the fifteen administration endpoints the row is COMPUTED from the documented requirement
    table of Marker/Access.v ([documented], transcribed from accessgrant.proto and the spec files),
    the remaining rows (transfers, helper functions, governance-only endpoints) are written out
    with their source.  No proofs in this file. *)
From Coq Require Import NArith List String Bool.
From PV Require Import Marker.Access.
Import ListNotations.
Open Scope string_scope.

Record access_row := {
  row_func : string;
  row_tests : list right;          (* Access_* constants passed to an access predicate, enum order *)
  row_manager : bool;              (* compares with marker.GetManager() *)
  row_authority : bool;            (* reads GetAuthority() / calls ValidateAuthority *)
  row_all_supply : bool;           (* calls accountControlsAllSupply *)
  row_any_grant : bool;            (* calls GrantsForAddress: any access on the marker *)
  row_unrecognised : list string   (* any other mention of an Access_* constant, as source text *)
}.

Definition right_eqb (a b : right) : bool := N.eqb (right_bit a) (right_bit b).
Definition alt_eqb (a b : alt) : bool :=
  match a, b with
  | AltManager, AltManager | AltGov, AltGov | AltAllSupply, AltAllSupply => true
  | _, _ => false
  end.

Definition doc_reqs (o : op) : list requirement :=
  flat_map (fun s => map (fun t => documented o s t) all_types) all_status.
Definition doc_rights (o : op) : list right :=
  let named := flat_map (fun r => match r with Needs rs _ => rs | NotAvailable => [] end) (doc_reqs o) in
  filter (fun r => existsb (right_eqb r) named) all_rights.
Definition doc_alt (o : op) (a : alt) : bool :=
  existsb (fun r => match r with Needs _ alts => existsb (alt_eqb a) alts | NotAvailable => false end) (doc_reqs o).

(** The row an endpoint must have according to the documentation: the rights it names (all eight
    = "any access"), and which alternatives it admits. *)
Definition row_of_op (name : string) (o : op) : access_row :=
  let rs := doc_rights o in
  let any := Nat.eqb (List.length rs) 8 in
  {| row_func := name;
     row_tests := if any then [] else rs;
     row_manager := doc_alt o AltManager;
     row_authority := doc_alt o AltGov;
     row_all_supply := doc_alt o AltAllSupply;
     row_any_grant := any;
     row_unrecognised := [] |}.

(** The rights an endpoint tests through helpers on OTHER markers come on top of its own. *)
Definition with_tests (r : access_row) (extra : list right) : access_row :=
  {| row_func := row_func r;
     row_tests := filter (fun x => existsb (right_eqb x) (row_tests r ++ extra)) all_rights;
     row_manager := row_manager r; row_authority := row_authority r; row_all_supply := row_all_supply r;
     row_any_grant := row_any_grant r; row_unrecognised := row_unrecognised r |}.

Definition plain_row (name : string) (tests : list right) (mgr auth : bool) (unrec : list string) : access_row :=
  {| row_func := name; row_tests := tests; row_manager := mgr; row_authority := auth;
     row_all_supply := false; row_any_grant := false; row_unrecognised := unrec |}.

(** Sorted by function name, like the generated table. *)
Definition documented_access_table : list access_row := [
  row_of_op "Keeper.ActivateMarker" OActivate;
  row_of_op "Keeper.AddAccess" OAddAccess;
  (* passes marker.GetManager() on to FinalizeMarker / ActivateMarker *)
  plain_row "Keeper.AddFinalizeAndActivateMarker" [] true false [];
  (* reads the manager only for the event *)
  plain_row "Keeper.AddMarkerAccount" [] true false [];
  row_of_op "Keeper.BurnCoin" OBurn;
  row_of_op "Keeper.CancelMarker" OCancel;
  row_of_op "Keeper.DeleteMarker" ODelete;
  row_of_op "Keeper.FinalizeMarker" OFinalize;
  (* 03_messages Msg/IbcTransfer: "requires a signature from an account with the transfer
     permission"; the keeper also GRANTS transfer to the ibc escrow account (not a test) *)
  plain_row "Keeper.IbcTransferCoin" [RTransfer] false false
    ["types.NewAccessGrant(escrowAccount, []types.Access{types.Access_Transfer})"];
  row_of_op "Keeper.MintCoin" OMint;
  row_of_op "Keeper.RemoveAccess" ODeleteAccess;
  row_of_op "Keeper.SetMarkerDenomMetadata" OSetMetadata;
  (* 12_transfers.md MsgTransferRequest flow: "Does Admin have transfer or force-transfer", then
     checkReceiverMarker; "Deposits": deposit permission on a restricted destination marker
     (the helper validateSendToMarker, attributed to its callers) *)
  plain_row "Keeper.TransferCoin" [RDeposit; RTransfer; RForceTransfer] false false [];
  (* withdraw on the source marker, plus deposit on a restricted destination marker *)
  with_tests (row_of_op "Keeper.WithdrawCoins" OWithdraw) [RDeposit];
  (* governance-only or authority-aware endpoints of the message server *)
  plain_row "msgServer.AddMarker" [] false true [];
  row_of_op "msgServer.AddNetAssetValues" OAddNav;
  plain_row "msgServer.ChangeStatusProposal" [] false true [];
  row_of_op "msgServer.GrantAllowance" OGrantAllowance;
  plain_row "msgServer.RemoveAdministratorProposal" [] false true [];
  row_of_op "msgServer.SetAccountData" OSetAccountData;
  plain_row "msgServer.SetAdministratorProposal" [] false true [];
  plain_row "msgServer.SetDenomMetadataProposal" [] false true [];
  plain_row "msgServer.SupplyDecreaseProposal" [] false true [];
  plain_row "msgServer.SupplyIncreaseProposal" [] false true [];
  plain_row "msgServer.UpdateForcedTransfer" [] false true [];
  plain_row "msgServer.UpdateParams" [] false true [];
  row_of_op "msgServer.UpdateRequiredAttributes" OUpdateReqAttrs;
  row_of_op "msgServer.UpdateSendDenyList" OUpdateDenyList;
  plain_row "msgServer.WithdrawEscrowProposal" [] false true []
].
