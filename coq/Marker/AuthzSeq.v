(** Histories of ONE MarkerTransferAuthorization (granter -> grantee) with block time, expiration,
    re-grants and revocation (property C12).

    Go sources transcribed here, on top of Marker/Authz.v ([accept], [transfer]):
      x/marker/keeper/marker.go     authzHandler: GetAuthorization (nil once the expiration is before
                                    the block time), Accept, DeleteGrant on Delete, otherwise
                                    SaveGrant(Updated, SAME expiration)
      cosmos-sdk x/authz/keeper     GetAuthorization, SaveGrant -> authz.NewGrant (an expiration
                                    that is not AFTER the block time is an error: at block time =
                                    expiration the keeper path can exhaust a grant but not write a
                                    reduced one back), DeleteGrant, DispatchActions (MsgExec:
                                    expired when expiration.Before(now); Delete -> DeleteGrant,
                                    Updated -> update, which keeps the stored expiration), msg server
                                    Grant (MsgGrant: ValidateBasic of the authorization, SaveGrant
                                    REPLACES what is stored), Revoke
      x/marker/types/authz.go       ValidateBasic (limit valid and not zero, allow list without
                                    duplicates)

    Two routes, fixed per history:
      ViaKeeper  the grantee is the administrator of a MsgTransferRequest whose source is the
                 granter (the marker keeper consults authz itself);
      ViaExec    the grantee sends authz MsgExec carrying a MsgTransferRequest of the granter
                 (administrator = source = granter); authz consumes the grant, then the inner
                 transfer runs as the granter's own.

    What every use reads besides the grant is an input of the step: the administrator's rights on
    the marker of the coin and whether that marker allows forced transfers (the markers are active
    restricted markers, the source is an account that has signed, the recipient is a plain
    account).  Time is in seconds; block time never goes back.  Expired grants stay in the store
    until the authz BeginBlocker prunes them (not run here), the Grants query still shows them.
    No proofs in this file. *)
From Coq Require Import ZArith NArith List Bool.
From PV Require Import Marker.Access Marker.Authz.
Import ListNotations.
Open Scope Z_scope.

Record tgrant := { tg_grant : grant; tg_exp : option Z }.
Inductive route := ViaKeeper | ViaExec.

Record tstate := { ts_grant : option tgrant; ts_bal : coins (* the granter's *); ts_now : Z }.

Inductive sop :=
| SUse (m : tmsg) (rights : N) (forced : bool)
| SGrant (g : grant) (exp : option Z)      (* MsgGrant by the granter *)
| SRevoke                                  (* MsgRevoke by the granter *)
| STick (dt : Z).                          (* block time moves on *)

(** How a use ended: refused; went through by consuming the grant; went through without touching
    it (forced transfer by a holder of FORCE_TRANSFER on a marker allowing it). *)
Inductive ures := URefused | UGrant | UOther.

(** expiration.Before(block time) *)
Definition expired (e : option Z) (now : Z) : bool :=
  match e with Some t => Z.ltb t now | None => false end.
(** authz.NewGrant: expiration != nil && !expiration.After(block time) is an error *)
Definition exp_writable (e : option Z) (now : Z) : bool :=
  match e with Some t => Z.ltb now t | None => true end.

Definition live_grant (s : tstate) : option grant :=
  match ts_grant s with
  | Some tg => if expired (tg_exp tg) (ts_now s) then None else Some (tg_grant tg)
  | None => None
  end.

(** An account that has signed a transaction. *)
Definition signed_acct : acct :=
  {| a_group := false; a_exists := true; a_seq := 1%N; a_marker := false; a_market := false |}.

Definition debit (s : tstate) (m : tmsg) (g : option tgrant) : tstate :=
  {| ts_grant := g;
     ts_bal := set_amt (m_denom m) (amount_of (m_denom m) (ts_bal s) - m_amt m) (ts_bal s);
     ts_now := ts_now s |}.

Definition xfer_of (s : tstate) (m : tmsg) (rights : N) (forced self : bool) (g : option grant) : xfer :=
  {| x_status := SActive; x_type := TRestricted; x_rights := rights; x_forced := forced;
     x_self := self; x_from := signed_acct; x_dest := DPlain; x_grant := g; x_msg := m;
     x_frombal := amount_of (m_denom m) (ts_bal s) |}.

(** [keep_exp]: what authzHandler passes to SaveGrant for the reduced grant: the expiration
    GetAuthorization returned (the code), or nil ([false], the variant refuted in
    Proofs/AuthzSeqProofs.v). *)
Definition suse_gen (keep_exp : bool) (r : route) (s : tstate) (m : tmsg) (rights : N) (forced : bool)
  : tstate * ures :=
  match r with
  | ViaKeeper =>
      match transfer (xfer_of s m rights forced false (live_grant s)) with
      | None => (s, URefused)
      | Some (PGrant, g') =>
          match ts_grant s, g' with
          | None, _ => (s, URefused)                       (* not reachable: PGrant needs a grant *)
          | Some _, None => (debit s m None, UGrant)       (* DeleteGrant *)
          | Some tg, Some gr =>
              let e := if keep_exp then tg_exp tg else None in
              if exp_writable e (ts_now s)
              then (debit s m (Some {| tg_grant := gr; tg_exp := e |}), UGrant)
              else (s, URefused)                           (* SaveGrant: invalid expiration *)
          end
      | Some (_, _) => (debit s m (ts_grant s), UOther)
      end
  | ViaExec =>
      match ts_grant s with
      | None => (s, URefused)
      | Some tg =>
          if expired (tg_exp tg) (ts_now s) then (s, URefused)
          else
            match accept (tg_grant tg) m with
            | None => (s, URefused)
            | Some ar =>
                (* the inner message: the granter's own transfer *)
                match transfer (xfer_of s m rights forced true None) with
                | None => (s, URefused)
                | Some _ =>
                    (debit s m (if ar_delete ar then None
                                else Some {| tg_grant := ar_updated ar; tg_exp := tg_exp tg |}), UGrant)
                end
            end
      end
  end.

(** MarkerTransferAuthorization.ValidateBasic on the canonical coins the harness writes (one entry
    per denom): every amount positive, not empty; allow list without duplicates. *)
Fixpoint nodupb (l : list addr) : bool :=
  match l with
  | [] => true
  | a :: r => negb (mem a r) && nodupb r
  end.
Definition grant_valid (g : grant) : bool :=
  negb (is_nil (g_limit g)) && forallb (fun x => Z.ltb 0 (snd x)) (g_limit g) && nodupb (g_allow g).

Definition sstep_gen (keep_exp : bool) (r : route) (s : tstate) (o : sop) : tstate * ures :=
  match o with
  | SUse m rights forced => suse_gen keep_exp r s m rights forced
  | SGrant g e =>
      if grant_valid g && exp_writable e (ts_now s)
      then ({| ts_grant := Some {| tg_grant := g; tg_exp := e |}; ts_bal := ts_bal s; ts_now := ts_now s |}, UOther)
      else (s, URefused)
  | SRevoke =>
      match ts_grant s with
      | Some _ => ({| ts_grant := None; ts_bal := ts_bal s; ts_now := ts_now s |}, UOther)
      | None => (s, URefused)
      end
  | STick dt => ({| ts_grant := ts_grant s; ts_bal := ts_bal s; ts_now := ts_now s + Z.max 0 dt |}, UOther)
  end.

Definition sstep := sstep_gen true.
Definition sstep_nil_exp := sstep_gen false.    (* reduced grants written back without expiration *)

(** The history: every operation with the block time it ran at and how it ended. *)
Record sevent := { se_op : sop; se_now : Z; se_res : ures }.

Fixpoint srun_gen keep r (s : tstate) (ops : list sop) : list sevent * tstate :=
  match ops with
  | [] => ([], s)
  | o :: rest =>
      let '(s', res) := sstep_gen keep r s o in
      let '(tr, sf) := srun_gen keep r s' rest in
      ({| se_op := o; se_now := ts_now s; se_res := res |} :: tr, sf)
  end.
Definition srun := srun_gen true.
Definition srun_nil_exp := srun_gen false.

(** ** The property's bookkeeping, on a history alone.

    An ISSUE is what the granter signed last: the initial grant, replaced by every accepted
    MsgGrant; a revocation leaves the issue in place (nothing can be used under it any more).
    [used] is what went through under the current issue, per denom. *)
Record issue := { is_grant : grant; is_exp : option Z }.

Definition add_amt (d : denom) (a : Z) (l : coins) : coins := set_amt d (amount_of d l + a) l.

Fixpoint account (i : issue) (used : coins) (tr : list sevent) : issue * coins :=
  match tr with
  | [] => (i, used)
  | e :: r =>
      match se_op e, se_res e with
      | SGrant g ex, UOther => account {| is_grant := g; is_exp := ex |} [] r
      | SUse m _ _, UGrant => account i (add_amt (m_denom m) (m_amt m) used) r
      | _, _ => account i used r
      end
  end.

(** Every use that consumed the grant: not after the expiration of the issue it ran under, and to an
    address of that issue's allow list (when it has one). *)
Fixpoint uses_ok (i : issue) (tr : list sevent) : bool :=
  match tr with
  | [] => true
  | e :: r =>
      match se_op e, se_res e with
      | SGrant g ex, UOther => uses_ok {| is_grant := g; is_exp := ex |} r
      | SUse m _ _, UGrant =>
          negb (expired (is_exp i) (se_now e)) &&
          (is_nil (g_allow (is_grant i)) || mem (m_to m) (g_allow (is_grant i))) &&
          uses_ok i r
      | _, _ => uses_ok i r
      end
  end.

(** A use that went through without the grant was a forced transfer. *)
Definition other_use_ok (r : route) (e : sevent) : bool :=
  match se_op e, se_res e with
  | SUse _ rights forced, UOther =>
      match r with ViaKeeper => forced && has RForceTransfer rights | ViaExec => false end
  | _, _ => true
  end.

(** The stored grant is what the issue says, less what was used: limit per denom, allow list and
    expiration as issued. *)
Definition stored_matches (i : issue) (used : coins) (tg : tgrant) : Prop :=
  (forall d, amount_of d (g_limit (tg_grant tg)) = amount_of d (g_limit (is_grant i)) - amount_of d used) /\
  g_allow (tg_grant tg) = g_allow (is_grant i) /\ tg_exp tg = is_exp i.
