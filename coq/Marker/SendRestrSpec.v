(** The DOCUMENTED marker transfer rules (property C04), transcribed from the flowcharts of
    x/marker/spec/12_transfers.md ("The SendRestrictionFn", "checkSenderMarker",
    "checkReceiverMarker", "validateSendDenom") box by box, independently of the Go code, and the
    documented wildcard rule of x/marker/spec/01_state.md ("Required Attributes": a single leading
    "*" stands for any number (one or more) of child level names).

    Each definition below names the flowchart box it stands for.  The vocabulary of the document
    is given a meaning over the same abstract configuration as the code model:
      "a marker"             an account that is a marker account
      "marker for Denom"     the marker account at the denom's marker address
      "restricted coin"      a denom whose marker is of the restricted type
      "bypass account"       a member of the hard-coded bypass list (12_transfers.md, Bypass Accounts)
      "has the attributes"   every required attribute is matched by an attribute of the account
    No proofs in this file. *)
From Coq Require Import ZArith PArith List Bool Ascii.
From PV Require Import Marker.SendRestr.
Import ListNotations.

(** ** Vocabulary *)
Definition marker_at (c : config) (a : addr) : option marker :=
  match lookup_acct a (cfg_accounts c) with
  | Some (AcctMarker m) => Some m
  | _ => None
  end.

Definition marker_for_denom (c : config) (d : denom) : option marker := marker_at c (AMarker d).

Definition restricted_coin (c : config) (d : denom) : bool :=
  match marker_for_denom c d with
  | Some m => match m_type m with MRestricted => true | MCoin => false end
  | None => false
  end.

Definition has_role (m : marker) (a : addr) (r : access) : bool :=
  existsb (fun g => addr_eqb (fst g) a && existsb (access_eqb r) (snd g)) (m_access m).

Definition some_agent_has (m : marker) (agents : list addr) (r : access) : bool :=
  existsb (fun a => has_role m a r) agents.

Definition marker_active (m : marker) : bool :=
  match m_status m with SActive => true | _ => false end.

Definition amount_has_denom (amt : coins) (d : denom) : bool :=
  existsb (fun p => Pos.eqb (fst p) d) amt.

Definition on_deny_list (c : config) (d : denom) (sender : addr) : bool :=
  existsb (fun p => addr_eqb (fst p) (AMarker d) && addr_eqb (snd p) sender) (cfg_deny c).

Definition bypass_account (c : config) (a : addr) : bool :=
  existsb (fun b => addr_eqb b a) (cfg_bypass_addrs c).

(** ** Documented attribute matching (01_state.md): names are dot-separated levels. *)
Fixpoint split_levels (s : name) : list name :=
  match s with
  | [] => [[]]
  | ch :: r =>
      if Ascii.eqb ch "."%char then [] :: split_levels r
      else match split_levels r with
           | h :: t => (ch :: h) :: t
           | [] => [[ch]]
           end
  end.

Fixpoint levels_eqb (x y : list name) : bool :=
  match x, y with
  | [], [] => true
  | a :: x', b :: y' => bytes_eqb a b && levels_eqb x' y'
  | _, _ => false
  end.

(** [attr] is [base] with one or more extra leading levels. *)
Definition extends_levels (attr base : list name) : bool :=
  Nat.ltb (length base) (length attr) &&
  levels_eqb (skipn (length attr - length base) attr) base.

Definition doc_match (req attr : name) : bool :=
  match split_levels req with
  | first :: ((_ :: _) as base) =>
      if bytes_eqb first ["*"%char] then extends_levels (split_levels attr) base
      else bytes_eqb req attr
  | _ => match req with [] => false | _ => bytes_eqb req attr end
  end.

Definition has_required_attributes (c : config) (m : marker) (receiver : addr) : bool :=
  forallb (fun req => existsb (doc_match req) (attributes_of c receiver)) (m_req_attrs m).

(** ** Flowchart "checkSenderMarker(Sender, Transfer Agents)" — [true] = Proceed. *)
Definition check_sender_marker (c : config) (sender : addr) (agents : list addr) (amt : coins) : bool :=
  match marker_at c sender with                                  (* Is Sender a marker? *)
  | None => true
  | Some sm =>
      let continue_ :=                                            (* isasm / issma *)
        if amount_has_denom amt (m_denom sm) then marker_active sm else true in
      if cfg_fee_grant c then continue_                           (* Is a fee grant in use? *)
      else if some_agent_has sm agents AcWithdraw then continue_  (* agent with withdraw? *)
      else false
  end.

(** ** Flowchart "checkReceiverMarker(Receiver, Sender, Transfer Agents)". *)
Definition check_receiver_marker (c : config) (receiver sender : addr) (agents : list addr) : bool :=
  match marker_at c receiver with
  | Some rm =>
      match m_type rm with
      | MRestricted =>                                            (* Is Receiver a restricted marker? *)
          match agents with
          | [] => has_role rm sender AcDeposit                    (* Does Sender have deposit access? *)
          | _ => some_agent_has rm agents AcDeposit               (* Does a Transfer Agent have deposit? *)
          end
      | MCoin => true
      end
  | None => true
  end.

(** ** Flowchart "validateSendDenom(Sender, Receiver, Denom, Transfer Agents)". *)
Definition doc_validate_send_denom (c : config) (sender receiver : addr) (d : denom)
           (agents : list addr) : bool :=
  match marker_for_denom c d with
  | None => true                                                  (* Is there a marker for Denom? no *)
  | Some m =>
      if negb (marker_active m) then false                        (* Is the marker active? *)
      else if negb (restricted_coin c d) then true                (* Is Denom a restricted coin? *)
      else if addr_eqb receiver (cfg_fee_collector c) then false  (* Is Receiver the fee collector? *)
      else if some_agent_has m agents AcTransfer then true        (* agent with transfer access? *)
      else if on_deny_list c d sender then false                  (* Sender on marker's deny list? *)
      else if has_role m sender AcTransfer then true              (* Sender has transfer for Denom? *)
      else
        match marker_at c receiver with                           (* Is Receiver a marker account? *)
        | Some _ => false
        | None =>
            match m_req_attrs m with                              (* Does Denom have required attributes? *)
            | [] => bypass_account c sender                       (* Is Sender a bypass account? *)
            | _ :: _ =>
                if bypass_account c receiver then true            (* Is Receiver a bypass account? *)
                else has_required_attributes c m receiver         (* Receiver has the attributes? *)
            end
        end
  end.

(** ** Flowchart "SendRestrictionFn(Sender, Receiver, Amount)" — [true] = Send allowed. *)
Definition doc_send_allowed (c : config) (sender receiver : addr) (amt : coins) : bool :=
  if cfg_ctx_bypass c || addr_eqb sender (cfg_marker_module c) || addr_eqb sender (cfg_ibc_module c)
  then
    if addr_eqb receiver (cfg_fee_collector c)                    (* Is the Receiver the fee collector? *)
    then negb (existsb (fun p => restricted_coin c (fst p)) amt)  (* a restricted coin in the Amount? *)
    else true
  else
    let agents := cfg_agents c in                                 (* Get Transfer Agents *)
    if check_sender_marker c sender agents amt then
      if check_receiver_marker c receiver sender agents then
        forallb (fun p => doc_validate_send_denom c sender receiver (fst p) agents) amt
      else false
    else false.

(** ** "The receiver's attributes decide": the documented situation in which a one-coin send stands or
    falls with the required attributes alone — an ordinary sender (no marker, no context bypass, not a
    module sender) without transfer permission and not deny-listed, no transfer agent with transfer
    permission, an ordinary receiver (no marker, no bypass account, not the fee collector), an active
    restricted marker with at least one required attribute. *)
Definition attribute_decided (c : config) (sender receiver : addr) (d : denom) : bool :=
  negb (cfg_ctx_bypass c || addr_eqb sender (cfg_marker_module c) || addr_eqb sender (cfg_ibc_module c)) &&
  match marker_at c sender with Some _ => false | None => true end &&
  match marker_at c receiver with Some _ => false | None => true end &&
  match marker_for_denom c d with
  | Some m =>
      marker_active m && restricted_coin c d &&
      negb (addr_eqb receiver (cfg_fee_collector c)) &&
      negb (some_agent_has m (cfg_agents c) AcTransfer) &&
      negb (on_deny_list c d sender) &&
      negb (has_role m sender AcTransfer) &&
      negb (bypass_account c receiver) &&
      match m_req_attrs m with [] => false | _ :: _ => true end
  | None => false
  end.

(** The documented verdict there, from the two lists of names alone: every requirement has SOME
    attribute of the receiver that matches it (an attribute may serve several requirements). *)
Definition each_requirement_matched (required attrs : list name) : bool :=
  forallb (fun r => existsb (doc_match r) attrs) required.

