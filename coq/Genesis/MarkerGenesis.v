(** Genesis export / import of the marker module (property C18).

    Transcribed from /repo/x/marker/keeper/genesis.go (InitGenesis / ExportGenesis),
    keeper.go (SetMarker, IterateMarkers, AddSendDeny, IterateSendDeny, IterateNetAssetValues) and
    types/key.go (MarkerStoreKey 0x02|len|addr, DenySendKey 0x03|len|marker|len|denied,
    NetAssetValueKey 0x04|len|marker|denom).

    Marker accounts are auth-module accounts: [mks_accounts] is the part of the auth account store
    that holds MarkerAccounts (key 0x01|address, the order GetAllAccounts walks), [mks_index] the
    marker module's registry 0x02|len|address => address that IterateMarkers walks (and looks every
    address up in the account store, panicking when it is not a marker account).
    InitGenesis runs AFTER the auth module's.  What auth's InitGenesis left behind enters as
      [pre]          the MarkerAccounts it put into the account store.  app/export.go replaces every
                     marker account of the exported auth genesis by its bare BaseAccount, so for a
                     genesis made by ExportAppStateAndValidators this is EMPTY; a hand-written
                     genesis may list MarkerAccounts among the auth accounts;
      [other_accnum] the account number of an account of another type stored at an address
                     (the BaseAccount the export left in place of the marker account);
      [next_acc]     the next free account number.
    The registry is rebuilt from [pre], then every marker of the marker genesis is written over
    whatever account is there (keeping that account's number, else taking a fresh one).
    ExportGenesis writes sequence 0 for every marker.

    Assumed / external: [marker_valid] (MarkerAccount.Validate), [nav_valid] (NetAssetValue.Validate),
    the params as an opaque value; the auth module's own genesis round trip (SDK); an account of
    another type at a marker's address is not modelled.  No proofs in this file. *)
From Coq Require Import ZArith NArith List Bool.
From PV Require Export Genesis.Indexed.
Import ListNotations.
Open Scope Z_scope.

Record access := { ac_addr : key; ac_perms : list N }.
Record marker := {
  mr_addr : key; mr_accnum : N; mr_seq : N; mr_manager : key; mr_access : list access;
  mr_status : N; mr_denom : key; mr_supply : Z; mr_type : N;
  mr_fixed : bool; mr_gov : bool; mr_forced : bool; mr_req : list key }.
Record mnav := { nv_denom : key; nv_amount : Z; nv_volume : N; nv_height : N }.

Record marker_state := {
  mks_params : key;
  mks_accounts : table marker;          (* auth store: 0x01 | address *)
  mks_index : index;                    (* 0x02 | len | address => address *)
  mks_deny : table (key * key);         (* 0x03 | len | marker | len | denied => (marker, denied) *)
  mks_navs : table (key * mnav) }.      (* 0x04 | len | marker | price denom => (marker, nav) *)

Record marker_genesis := {
  mkg_params : key; mkg_markers : list marker; mkg_deny : list (key * key);
  mkg_navs : list (key * list mnav) }.

Definition k_account (a : key) : key := 1%N :: a.
Definition k_marker (a : key) : key := 2%N :: len_prefixed a.
Definition k_deny (m d : key) : key := 3%N :: len_prefixed m ++ len_prefixed d.
Definition k_nav (m d : key) : key := 4%N :: len_prefixed m ++ d.

Section Marker.
  Variable marker_valid : marker -> bool.
  Variable nav_valid : mnav -> bool.

  (** the exported form of a marker account *)
  Definition exported (m : marker) : marker :=
    {| mr_addr := mr_addr m; mr_accnum := mr_accnum m; mr_seq := 0%N; mr_manager := mr_manager m;
       mr_access := mr_access m; mr_status := mr_status m; mr_denom := mr_denom m;
       mr_supply := mr_supply m; mr_type := mr_type m; mr_fixed := mr_fixed m; mr_gov := mr_gov m;
       mr_forced := mr_forced m; mr_req := mr_req m |}.
  Definition with_accnum (m : marker) (n : N) : marker :=
    {| mr_addr := mr_addr m; mr_accnum := n; mr_seq := mr_seq m; mr_manager := mr_manager m;
       mr_access := mr_access m; mr_status := mr_status m; mr_denom := mr_denom m;
       mr_supply := mr_supply m; mr_type := mr_type m; mr_fixed := mr_fixed m; mr_gov := mr_gov m;
       mr_forced := mr_forced m; mr_req := mr_req m |}.

  (** IterateMarkers: [None] = the registry names an address without a marker account (panic). *)
  Fixpoint export_markers (accounts : table marker) (ix : list (key * key)) : option (list marker) :=
    match ix with
    | [] => Some []
    | (_, a) :: r =>
        match tget (k_account a) accounts, export_markers accounts r with
        | Some m, Some ms => Some (exported m :: ms)
        | _, _ => None
        end
    end.

  Definition marker_export (s : marker_state) : option marker_genesis :=
    match export_markers (mks_accounts s) (mks_index s) with
    | None => None
    | Some ms =>
        Some {| mkg_params := mks_params s; mkg_markers := ms;
                mkg_deny := texport (fun e => e) (mks_deny s);
                mkg_navs := map (fun g => (fst g, map snd (snd g)))
                                (regroup mr_addr fst ms (texport (fun e => e) (mks_navs s))) |}
    end.

  (** registry entries for the marker accounts of the auth genesis that validate *)
  Definition registry_of (pre : table marker) : list (key * key) :=
    flat_map (fun kr => if marker_valid (snd kr) then [(k_marker (mr_addr (snd kr)), mr_addr (snd kr))] else []) pre.

  (** one marker of the marker genesis: account number, SetMarker (Validate or panic); the
      accumulator is (marker accounts, registry, number of fresh account numbers handed out). *)
  Definition marker_step (other_accnum : key -> option N) (next_acc : N)
             (acc : option (table marker * index * N)) (m : marker) : option (table marker * index * N) :=
    match acc with
    | None => None
    | Some (accounts, ix, fresh) =>
        let '(n, fresh') :=
          match tget (k_account (mr_addr m)) accounts with
          | Some ex => (mr_accnum ex, fresh)
          | None => match other_accnum (mr_addr m) with
                    | Some n => (n, fresh)
                    | None => ((next_acc + fresh)%N, (fresh + 1)%N)
                    end
          end in
        let m' := with_accnum m n in
        if marker_valid m' then
          Some (tset (k_account (mr_addr m)) m' accounts, tset (k_marker (mr_addr m)) (mr_addr m) ix, fresh')
        else None
    end.

  Definition deny_key (e : key * key) : option key :=
    if addr_ok (fst e) && addr_ok (snd e) then Some (k_deny (fst e) (snd e)) else None.
  Definition nav_entries (g : key * list mnav) : list (key * mnav) := map (fun n => (fst g, n)) (snd g).
  Definition nav_key (e : key * mnav) : option key :=
    if addr_ok (fst e) then Some (k_nav (fst e) (nv_denom (snd e))) else None.

  Definition marker_import (pre : table marker) (other_accnum : key -> option N) (next_acc : N)
             (g : marker_genesis) : option marker_state :=
    if forallb marker_valid (mkg_markers g) && forallb (fun grp => forallb nav_valid (snd grp)) (mkg_navs g) then
      match fold_left (marker_step other_accnum next_acc) (mkg_markers g)
                      (Some (pre, tbuild (registry_of pre), 0%N)) with
      | None => None
      | Some (accounts, ix, _) =>
          match timport deny_key (fun e _ => Some (Some e)) (mkg_deny g),
                timport nav_key (fun e _ => Some (Some e)) (flat_map nav_entries (mkg_navs g)) with
          | Some deny, Some navs =>
              Some {| mks_params := mkg_params g; mks_accounts := accounts; mks_index := ix;
                      mks_deny := deny; mks_navs := navs |}
          | _, _ => None
          end
      end
    else None.

  Definition marker_wf (s : marker_state) : Prop :=
    tsorted (mks_accounts s) /\
    Forall (fun kr => fst kr = k_account (mr_addr (snd kr)) /\ marker_valid (snd kr) = true /\
                      mr_seq (snd kr) = 0%N) (mks_accounts s) /\
    (* the registry is what the marker accounts give rise to *)
    mks_index s = tbuild (registry_of (mks_accounts s)) /\
    tsorted (mks_deny s) /\
    Forall (fun kr => fst kr = k_deny (fst (snd kr)) (snd (snd kr)) /\
                      addr_ok (fst (snd kr)) = true /\ addr_ok (snd (snd kr)) = true) (mks_deny s) /\
    tsorted (mks_navs s) /\
    Forall (fun kr => fst kr = k_nav (fst (snd kr)) (nv_denom (snd (snd kr))) /\
                      addr_ok (fst (snd kr)) = true /\ nav_valid (snd (snd kr)) = true /\
                      (* RemoveMarker deletes a marker's net asset values: none without a marker *)
                      (exists m, tget (k_account (fst (snd kr))) (mks_accounts s) = Some m))
           (mks_navs s).
End Marker.
