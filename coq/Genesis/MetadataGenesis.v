(** Genesis export / import of the metadata module (property C18).

    Transcribed from /repo/x/metadata/keeper:
      genesis.go        InitGenesis / ExportGenesis
      scope.go          SetScope, SetScopeValueOwner, writeScopeToState, indexScope, getScopeIndexValues,
                        getMissingScopeIndexValues, scopeIndexValues.IndexKeys, IterateScopes,
                        PopulateScopeValueOwner, SetNetAssetValueWithBlockHeight, IterateNetAssetValues
      session.go        SetSession, IterateSessions;   record.go  SetRecord, IterateRecords
      specification.go  SetScopeSpecification / SetContractSpecification / SetRecordSpecification and
                        their index functions, Iterate*Specs
      objectstore.go    ImportOSLocatorRecord, IterateOSLocators
      types/keys.go     primary keys = the metadata address itself (first byte 0x00 scope, 0x01
                        session, 0x02 record, 0x03 contract spec, 0x04 scope spec, 0x05 record spec),
                        0x17 address->scope, 0x11 scope spec->scope, 0x19 address->scope spec,
                        0x14 contract spec->scope spec, 0x20 address->contract spec, 0x21 OS locator,
                        0x22 scope net asset values.

    One table per primary key family, ONE table [md_index] for all secondary-index entries (raw
    bytes, value 0x01).  A scope's value owner is not in the metadata store: it is the holder of
    the scope's coin in the bank module; [md_vo] (scope id -> owner) stands for that part of the
    bank.  InitGenesis runs after the bank's, so it finds the coins already placed ([vo0]).

    InitGenesis handles one scope at a time (value owner, then the scope and its index entries);
    the model runs the value-owner pass over all scopes first.  Both fail together (a failed
    InitGenesis leaves no state) and touch disjoint tables, so the outcome is the same.

    Assumed / external: the content of sessions, records and specifications that no key or index
    is computed from is an opaque value ([*_body]); [rec_addr] (the record address: scope uuid +
    hash of the lower-cased name; [None] = MustGetAsRecordAddress panics); [blocked]
    (bank.BlockedAddr); [vo_send_ok scope from to] (the bank's SendCoins of the scope coin with
    all send restrictions; from = [] means mint-and-send); [snav_valid] (NetAssetValue.Validate);
    addresses are bytes, [] or an over-long value standing for a string that does not decode.
    No proofs in this file. *)
From Coq Require Import ZArith NArith List Bool.
From PV Require Export Genesis.Indexed.
Import ListNotations.
Open Scope Z_scope.

Record party := { pt_addr : key; pt_role : N; pt_optional : bool }.
Record scope := { sc_id : key; sc_spec : key; sc_owners : list party; sc_access : list key;
                  sc_vo : key; sc_rollup : bool }.
Record session := { se_id : key; se_body : key }.
Record mrecord := { rc_session : key; rc_name : key; rc_body : key }.
Record sspec := { ss_id : key; ss_owners : list key; ss_cspecs : list key; ss_body : key }.
Record cspec := { cs_id : key; cs_owners : list key; cs_body : key }.
Record rspec := { rs_id : key; rs_body : key }.
Record locator := { lo_owner : key; lo_uri : key; lo_enc : key }.
Record snav := { sn_denom : key; sn_amount : Z; sn_volume : N; sn_height : N }.

Record md_state := {
  md_params : key;
  md_scopes : table scope; md_vo : table key;
  md_sessions : table session; md_records : table mrecord;
  md_sspecs : table sspec; md_cspecs : table cspec; md_rspecs : table rspec;
  md_locators : table locator; md_navs : table (key * snav);
  md_index : index }.

Record md_genesis := {
  mg_params' : key;
  mg_scopes : list scope; mg_sessions : list session; mg_records : list mrecord;
  mg_sspecs : list sspec; mg_cspecs : list cspec; mg_rspecs : list rspec;
  mg_locators : list locator; mg_navs : list (key * list snav) }.

Definition one : key := [1%N].

(* ---------- scopes ---------- *)

(** getScopeIndexValues: data access first, then owners; every string once; undecodable ones skipped *)
Definition scope_addrs (s : scope) : list key :=
  filter addr_ok (dedup (sc_access s ++ map pt_addr (sc_owners s)) []).

Definition k_addr_scope (a id : key) : key := 23%N :: len_prefixed a ++ id.
Definition k_spec_scope (spec id : key) : key := 17%N :: spec ++ id.

Definition scope_ix_keys (id : key) (addrs : list key) (spec : key) : list key :=
  if is_nil id then []
  else map (fun a => k_addr_scope a id) addrs ++ (if is_nil spec then [] else [k_spec_scope spec id]).

Definition scope_add_keys (s : scope) (old : option scope) : list key :=
  match old with
  | None => scope_ix_keys (sc_id s) (scope_addrs s) (sc_spec s)
  | Some o => scope_ix_keys (sc_id s) (missing (scope_addrs s) (scope_addrs o))
                            (if keqb (sc_spec s) (sc_spec o) then [] else sc_spec s)
  end.
Definition scope_add (s : scope) (old : option scope) : list (key * key) :=
  map (fun k => (k, one)) (scope_add_keys s old).
Definition scope_rem (s : scope) (old : option scope) : list key :=
  match old with
  | None => []
  | Some o => scope_ix_keys (sc_id o) (missing (scope_addrs o) (scope_addrs s))
                            (if keqb (sc_spec o) (sc_spec s) then [] else sc_spec o)
  end.

Definition strip_vo (s : scope) : scope :=
  {| sc_id := sc_id s; sc_spec := sc_spec s; sc_owners := sc_owners s; sc_access := sc_access s;
     sc_vo := []; sc_rollup := sc_rollup s |}.
Definition with_vo (vo : table key) (s : scope) : scope :=
  {| sc_id := sc_id s; sc_spec := sc_spec s; sc_owners := sc_owners s; sc_access := sc_access s;
     sc_vo := match tget (sc_id s) vo with Some a => a | None => [] end; sc_rollup := sc_rollup s |}.

(** MetadataAddress.ValidateIsScopeAddress: type byte 0x00 and a 16-byte uuid *)
Definition scope_id_ok (id : key) : bool :=
  (length id =? 17)%nat && match id with b :: _ => (b =? 0)%N | [] => false end.

Section Metadata.
  Variable rec_addr : key -> key -> option key.
  Variable blocked : key -> bool.
  Variable vo_send_ok : key -> key -> key -> bool.
  Variable snav_valid : snav -> bool.

  (** SetScopeValueOwner for a scope that names a value owner *)
  Definition vo_step (acc : option (table key)) (s : scope) : option (table key) :=
    match acc with
    | None => None
    | Some vo =>
        if is_nil (sc_vo s) then Some vo
        else if negb (scope_id_ok (sc_id s)) then None
        else if negb (addr_ok (sc_vo s)) then None
        else if blocked (sc_vo s) then None
        else match tget (sc_id s) vo with
             | Some cur =>
                 if keqb cur (sc_vo s) then Some vo
                 else if vo_send_ok (sc_id s) cur (sc_vo s) then Some (tset (sc_id s) (sc_vo s) vo) else None
             | None =>
                 if vo_send_ok (sc_id s) [] (sc_vo s) then Some (tset (sc_id s) (sc_vo s) vo) else None
             end
    end.

  (* ---------- specifications ---------- *)

  Definition k_addr_sspec (a id : key) : key := 25%N :: len_prefixed a ++ id.
  Definition k_cspec_sspec (c id : key) : key := 20%N :: c ++ id.
  Definition k_addr_cspec (a id : key) : key := 32%N :: len_prefixed a ++ id.

  Definition sspec_ix_keys (id : key) (owners cspecs : list key) : list key :=
    if is_nil id then []
    else map (fun a => k_addr_sspec a id) (filter addr_ok owners) ++ map (fun c => k_cspec_sspec c id) cspecs.
  Definition sspec_add (s : sspec) (old : option sspec) : list (key * key) :=
    map (fun k => (k, one))
        match old with
        | None => sspec_ix_keys (ss_id s) (ss_owners s) (ss_cspecs s)
        | Some o => sspec_ix_keys (ss_id s) (missing (ss_owners s) (ss_owners o)) (missing (ss_cspecs s) (ss_cspecs o))
        end.
  Definition sspec_rem (s : sspec) (old : option sspec) : list key :=
    match old with
    | None => []
    | Some o => sspec_ix_keys (ss_id o) (missing (ss_owners o) (ss_owners s)) (missing (ss_cspecs o) (ss_cspecs s))
    end.

  Definition cspec_ix_keys (id : key) (owners : list key) : list key :=
    if is_nil id then [] else map (fun a => k_addr_cspec a id) (filter addr_ok owners).
  Definition cspec_add (s : cspec) (old : option cspec) : list (key * key) :=
    map (fun k => (k, one))
        match old with
        | None => cspec_ix_keys (cs_id s) (cs_owners s)
        | Some o => cspec_ix_keys (cs_id s) (missing (cs_owners s) (cs_owners o))
        end.
  Definition cspec_rem (s : cspec) (old : option cspec) : list key :=
    match old with
    | None => []
    | Some o => cspec_ix_keys (cs_id o) (missing (cs_owners o) (cs_owners s))
    end.

  (* ---------- object store locators, net asset values ---------- *)

  Definition k_locator (a : key) : key := 33%N :: len_prefixed a.
  Definition locator_key (l : locator) : option key :=
    if addr_ok (lo_owner l) then Some (k_locator (lo_owner l)) else None.
  (** ImportOSLocatorRecord: already bound = error; an encryption key that does not decode is dropped *)
  Definition locator_upd (l : locator) (ex : option locator) : option (option locator) :=
    match ex with
    | Some _ => None
    | None => Some (Some {| lo_owner := lo_owner l; lo_uri := lo_uri l;
                            lo_enc := if addr_ok (lo_enc l) then lo_enc l else [] |})
    end.

  Definition k_snav (id d : key) : key := 34%N :: len_prefixed id ++ d.
  Definition snav_entries (g : key * list snav) : list (key * snav) := map (fun n => (fst g, n)) (snd g).
  Definition snav_fix (n : snav) : snav :=
    {| sn_denom := sn_denom n; sn_amount := sn_amount n;
       sn_volume := if (sn_volume n <? 1)%N then 1%N else sn_volume n; sn_height := sn_height n |}.
  Definition snav_key (e : key * snav) : option key :=
    if is_nil (fst e) then None
    else if snav_valid (snav_fix (snd e)) then Some (k_snav (fst e) (sn_denom (snd e))) else None.
  Definition snav_upd (e : key * snav) (_ : option (key * snav)) : option (option (key * snav)) :=
    Some (Some (fst e, snav_fix (snd e))).

  (* ---------- the module ---------- *)

  Definition md_export (s : md_state) : md_genesis :=
    let scopes := texport (with_vo (md_vo s)) (md_scopes s) in
    {| mg_params' := md_params s;
       mg_scopes := scopes;
       mg_sessions := texport (fun x => x) (md_sessions s);
       mg_records := texport (fun x => x) (md_records s);
       mg_sspecs := texport (fun x => x) (md_sspecs s);
       mg_cspecs := texport (fun x => x) (md_cspecs s);
       mg_rspecs := texport (fun x => x) (md_rspecs s);
       mg_locators := texport (fun x => x) (md_locators s);
       mg_navs := map (fun g => (fst g, map snd (snd g)))
                      (regroup sc_id fst scopes (texport (fun e => e) (md_navs s))) |}.

  Definition md_import (vo0 : table key) (g : md_genesis) : option md_state :=
    match fold_left vo_step (mg_scopes g) (Some vo0) with
    | None => None
    | Some vo =>
    match iimport (fun s => Some (sc_id s)) (fun s _ _ => strip_vo s) (fun _ _ _ => true)
                  scope_add scope_rem (mg_scopes g) [] [] with
    | None => None
    | Some (scopes, ix1) =>
    match timport (fun x => Some (se_id x)) (fun x _ => Some (Some x)) (mg_sessions g),
          timport (fun r => rec_addr (rc_session r) (rc_name r)) (fun r _ => Some (Some r)) (mg_records g) with
    | Some sessions, Some records =>
    match iimport (fun s => Some (ss_id s)) (fun s _ _ => s) (fun _ _ _ => true)
                  sspec_add sspec_rem (mg_sspecs g) [] ix1 with
    | None => None
    | Some (sspecs, ix2) =>
    match iimport (fun s => Some (cs_id s)) (fun s _ _ => s) (fun _ _ _ => true)
                  cspec_add cspec_rem (mg_cspecs g) [] ix2 with
    | None => None
    | Some (cspecs, ix3) =>
    match timport (fun x => Some (rs_id x)) (fun x _ => Some (Some x)) (mg_rspecs g),
          timport locator_key locator_upd (mg_locators g),
          timport snav_key snav_upd (flat_map snav_entries (mg_navs g)) with
    | Some rspecs, Some locs, Some navs =>
        Some {| md_params := mg_params' g; md_scopes := scopes; md_vo := vo;
                md_sessions := sessions; md_records := records;
                md_sspecs := sspecs; md_cspecs := cspecs; md_rspecs := rspecs;
                md_locators := locs; md_navs := navs; md_index := ix3 |}
    | _, _, _ => None
    end end end
    | _, _ => None
    end end end.

  Definition md_index_of (scopes : table scope) (sspecs : table sspec) (cspecs : table cspec) : index :=
    set_all (derived_index (fun x => x) cspec_add cspecs)
      (set_all (derived_index (fun x => x) sspec_add sspecs)
         (tbuild (derived_index (fun x => x) scope_add scopes))).

  Definition md_wf (s : md_state) : Prop :=
    tsorted (md_scopes s) /\
    Forall (fun kr => fst kr = sc_id (snd kr) /\ sc_vo (snd kr) = [] /\ scope_id_ok (sc_id (snd kr)) = true)
           (md_scopes s) /\
    (* every recorded value owner is an address that may hold the scope coin *)
    Forall (fun kr => forall a, tget (fst kr) (md_vo s) = Some a ->
                      addr_ok a = true /\ blocked a = false) (md_scopes s) /\
    tsorted (md_sessions s) /\ Forall (fun kr => fst kr = se_id (snd kr)) (md_sessions s) /\
    tsorted (md_records s) /\
    Forall (fun kr => rec_addr (rc_session (snd kr)) (rc_name (snd kr)) = Some (fst kr)) (md_records s) /\
    tsorted (md_sspecs s) /\ Forall (fun kr => fst kr = ss_id (snd kr)) (md_sspecs s) /\
    tsorted (md_cspecs s) /\ Forall (fun kr => fst kr = cs_id (snd kr)) (md_cspecs s) /\
    tsorted (md_rspecs s) /\ Forall (fun kr => fst kr = rs_id (snd kr)) (md_rspecs s) /\
    tsorted (md_locators s) /\
    Forall (fun kr => fst kr = k_locator (lo_owner (snd kr)) /\ addr_ok (lo_owner (snd kr)) = true /\
                      (lo_enc (snd kr) = [] \/ addr_ok (lo_enc (snd kr)) = true)) (md_locators s) /\
    tsorted (md_navs s) /\
    Forall (fun kr => fst kr = k_snav (fst (snd kr)) (sn_denom (snd (snd kr))) /\
                      snav_valid (snd (snd kr)) = true /\ (1 <= sn_volume (snd (snd kr)))%N /\
                      (* the DeleteScope endpoint removes a scope's net asset values *)
                      (exists sc, tget (fst (snd kr)) (md_scopes s) = Some sc)) (md_navs s) /\
    md_index s = md_index_of (md_scopes s) (md_sspecs s) (md_cspecs s).
End Metadata.
