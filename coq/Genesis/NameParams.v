(** Name module: histories that CHANGE THE PARAMS under existing names (property C18).

    x/name/keeper/genesis.go InitGenesis stores the exported params and then passes every exported
    name through SetNameRecord, whose Keeper.Normalize re-validates the name under those params
    (minimum / maximum segment length, maximum number of segments).  MsgUpdateParams (governance)
    replaces the params without looking at the names that exist.  So:
      - a history whose parameter changes only LOOSEN the three limits leaves a store that its own
        export rebuilds ([name_wf] holds, C18_name_import_export applies);
      - a parameter change that tightens a limit under an existing name leaves a reachable state
        whose export InitGenesis REJECTS (panic "segment of name is too short"): refuted clause
        "the re-initialised chain accepts its own export" (findings/C18.md).

    [norm_len] is the part of Keeper.Normalize (x/name/keeper/keeper.go) that depends on the params.
    Assumed: names are already in normal form (lower case, trimmed, valid characters), no segment
    is a UUID (those are exempt from the maximum length).  [NBind] is SetNameRecord as the message
    server reaches it (authorisation is not modelled: it does not depend on the params).
    No proofs in this file. *)
From Coq Require Import ZArith NArith List Bool.
From PV Require Export Genesis.RoundTrip.
Import ListNotations.
Open Scope N_scope.

(** strings.Split(name, ".") *)
Fixpoint split_dot (l : key) : list key :=
  match l with
  | [] => [[]]
  | x :: r =>
      if x =? 46 then [] :: split_dot r
      else match split_dot r with
           | s :: ss => (x :: s) :: ss
           | [] => [[x]]
           end
  end.

Definition seg_ok (p : name_params) (seg : key) : bool :=
  (np_min_seg p <=? N.of_nat (length seg)) && (N.of_nat (length seg) <=? np_max_seg p).

Definition norm_len (p : name_params) (n : key) : option key :=
  let segs := split_dot n in
  if forallb (seg_ok p) segs && (N.of_nat (length segs) <=? np_max_levels p) then Some n else None.

Inductive nop := NBind (r : name_rec) | NSetParams (p : name_params).

Section NameHistory.
  Variable name_key : key -> key.
  Variable addr_valid : key -> bool.

  Definition nstep (s : name_state) (op : nop) : name_state :=
    match op with
    | NSetParams p => {| ns_params := p; ns_records := ns_records s |}
    | NBind r =>
        match name_rec_key name_key norm_len addr_valid (ns_params s) r with
        | None => s
        | Some k =>
            match talter (name_upd norm_len (ns_params s) r) k (ns_records s) with
            | Some t => {| ns_params := ns_params s; ns_records := t |}
            | None => s
            end
        end
    end.
  Definition nrun (ops : list nop) (s : name_state) : name_state := fold_left nstep ops s.
End NameHistory.

(** [q] allows every name [p] allows *)
Definition loosens (p q : name_params) : Prop :=
  np_min_seg q <= np_min_seg p /\ np_max_seg p <= np_max_seg q /\ np_max_levels p <= np_max_levels q.

(** every parameter change of the history loosens the limits in force when it happens *)
Fixpoint loosening (p : name_params) (ops : list nop) : Prop :=
  match ops with
  | [] => True
  | NBind _ :: r => loosening p r
  | NSetParams q :: r => loosens p q /\ loosening q r
  end.
