(** The product of all ten custom modules' genesis models, in app.go's moduleGenesisOrder
    (property C18): ... auth, bank, marker, ... quarantine, sanction, name, attribute (which then
    makes sure of the accountdata name record), metadata, msgfees, hold, exchange (must come after
    hold: it checks the holds its records need), ... trigger.

    The auth and bank modules are the SDK's: what their InitGenesis leaves behind enters as
    [fx_pre_markers] (MarkerAccounts in the account store: none for a genesis made by
    app/export.go, which leaves bare BaseAccounts in their place), [fx_other_accnum] (the account
    number of the account of another type at an address), [fx_next_acc] (the next account number)
    and [fx_vo0] (the holders of the scope coins).  No proofs in this file. *)
From Coq Require Import ZArith NArith List Bool.
From PV Require Export Genesis.RoundTrip Genesis.Indexed Genesis.ExchangeGenesis Genesis.MarkerGenesis
                       Genesis.MetadataGenesis.
Import ListNotations.
Open Scope Z_scope.

Record full_ext := {
  fx_base : ext;
  fx_marker_valid : marker -> bool; fx_nav_valid : mnav -> bool;
  fx_pre_markers : table marker; fx_other_accnum : key -> option N; fx_next_acc : N;
  fx_rec_addr : key -> key -> option key; fx_blocked : key -> bool;
  fx_vo_send_ok : key -> key -> key -> bool; fx_snav_valid : snav -> bool;
  fx_vo0 : table key }.

Record full_state := { f_base : app_state; f_marker : marker_state; f_md : md_state; f_exch : exch_state }.
Record full_genesis := { fg_base : app_genesis; fg_marker : marker_genesis; fg_md : md_genesis;
                         fg_exch : exch_genesis }.

(** hold.Keeper.GetHoldCoin on the hold module's imported state *)
Definition held_of (h : hold_state) (a d : key) : Z :=
  match tget (hold_key a) h with
  | Some r => coin_amt d (ah_coins r)
  | None => 0
  end.

Definition full_export (x : full_ext) (s : full_state) : option full_genesis :=
  match marker_export (f_marker s) with
  | None => None
  | Some mg =>
      Some {| fg_base := app_export (fx_base x) (f_base s); fg_marker := mg;
              fg_md := md_export (f_md s); fg_exch := exch_export (f_exch s) |}
  end.

Definition full_import (x : full_ext) (g : full_genesis) : option full_state :=
  let b := fx_base x in
  let gb := fg_base g in
  match marker_import (fx_marker_valid x) (fx_nav_valid x) (fx_pre_markers x) (fx_other_accnum x) (fx_next_acc x) (fg_marker g) with None => None | Some mk =>
  match quar_import (x_rec_id b) (x_holder b) (g_quar gb) with None => None | Some q =>
  match sanc_import (x_unsanctionable b) (g_sanc gb) with None => None | Some sa =>
  match name_import (x_name_key b) (x_name_norm b) (x_addr_valid b) (g_name gb) with None => None | Some n0 =>
  match attr_import (x_attr_key b) (x_attr_valid b) (x_attr_norm b) (x_now b) (g_attr gb) with None => None | Some at' =>
  match ensure_accountdata (x_name_key b) (x_name_norm b) (x_addr_valid b) (x_acctdata b) (x_attr_modaddr b) n0 with None => None | Some n =>
  match md_import (fx_rec_addr x) (fx_blocked x) (fx_vo_send_ok x) (fx_snav_valid x) (fx_vo0 x) (fg_md g) with None => None | Some md =>
  match msgfee_import (x_msgfee_key b) (x_msgfee_valid b) (g_fees gb) with None => None | Some f =>
  match hold_import (x_spend b) (g_hold gb) with None => None | Some h =>
  match exch_import (held_of h) (fg_exch g) with None => None | Some ex =>
  match trig_import (x_trig_valid b) (g_trig gb) with None => None | Some tr =>
  Some {| f_base := {| a_quar := q; a_sanc := sa; a_name := n; a_attr := at'; a_fees := f; a_hold := h; a_trig := tr |};
          f_marker := mk; f_md := md; f_exch := ex |}
  end end end end end end end end end end end.

Definition full_wf (x : full_ext) (s : full_state) : Prop :=
  app_wf (fx_base x) (f_base s) /\
  marker_wf (fx_marker_valid x) (fx_nav_valid x) (f_marker s) /\
  md_wf (fx_rec_addr x) (fx_blocked x) (fx_snav_valid x) (f_md s) /\
  exch_wf (held_of (a_hold (f_base s))) (f_exch s) /\
  (* the SDK's auth and bank modules have put the accounts and the scope coins back: the marker
     accounts travel through the auth genesis as BaseAccounts with their account numbers *)
  fx_pre_markers x = [] /\
  (forall k m, In (k, m) (mks_accounts (f_marker s)) -> fx_other_accnum x (mr_addr m) = Some (mr_accnum m)) /\
  fx_vo0 x = md_vo (f_md s).
