(** The marker life cycle as far as it decides which fields a stored marker account carries in
    which status (property C18: the export must carry the manager for EVERY status reached by
    EVERY route).

    Transcribed from /repo/x/marker/types/marker.go
      SetStatus            clears the manager on the transition to ACTIVE only;
      NewMarkerAccount     clears the manager when status >= ACTIVE (CANCELLED = 4 and DESTROYED = 5
                           sort above ACTIVE = 3);
      Validate             (the clauses about manager / admin / mint / supply);
      HasAccess            (address has the permission in the access list);
    and /repo/x/marker/keeper/marker.go
      FinalizeMarker       manager only, status PROPOSED, Validate before and after;
      ActivateMarker       manager only, status FINALIZED;
      CancelMarker         FINALIZED / ACTIVE: ACCESS_DELETE; PROPOSED: ACCESS_DELETE or the manager;
                           CANCELLED: accepted, nothing changes;
      DeleteMarker         ACCESS_DELETE or the manager, status CANCELLED.
    and /repo/x/marker/keeper/genesis.go ExportGenesis, which copies every field of the stored
    account into a MarkerAccount LITERAL ([exported] of Genesis/MarkerGenesis.v; sequence 0).

    Assumed (the harness keeps its life-cycle markers inside these assumptions): none of the
    marker's coins circulates (supply checks of cancel / delete pass), the supply is within the
    MaxSupply parameter (AdjustCirculation of activate succeeds), callers are non-empty addresses.
    The supply is not tracked beyond "is it zero" (DeleteMarker burns what the bank holds).
    No proofs in this file. *)
From Coq Require Import ZArith NArith List Bool.
From PV Require Export Genesis.MarkerGenesis.
Import ListNotations.
Open Scope N_scope.

Definition st_proposed : N := 1.
Definition st_finalized : N := 2.
Definition st_active : N := 3.
Definition st_cancelled : N := 4.
Definition st_destroyed : N := 5.
Definition acc_mint : N := 1.
Definition acc_delete : N := 5.
Definition acc_admin : N := 6.

Record lmarker := {
  lm_status : N; lm_manager : key; lm_access : list access; lm_supply_zero : bool }.

(** the part of a stored marker account the life cycle looks at *)
Definition lm_of (m : marker) : lmarker :=
  {| lm_status := mr_status m; lm_manager := mr_manager m; lm_access := mr_access m;
     lm_supply_zero := (mr_supply m =? 0)%Z |}.

Definition perm_in (p : N) (a : access) : bool := existsb (N.eqb p) (ac_perms a).
(** MarkerAccount.HasAccess *)
Definition lm_has (m : lmarker) (who : key) (p : N) : bool :=
  existsb (fun a => keqb (ac_addr a) who && perm_in p a) (lm_access m).
(** len(AddressListForPermission(p)) > 0 *)
Definition lm_any (m : lmarker) (p : N) : bool := existsb (perm_in p) (lm_access m).

(** MarkerAccount.Validate, the clauses over the modelled fields *)
Definition lm_valid (m : lmarker) : bool :=
  (1 <=? lm_status m) && (lm_status m <=? 5) &&
  negb ((lm_status m <? st_active) && is_nil (lm_manager m) && negb (lm_any m acc_admin)) &&
  negb ((lm_status m =? st_finalized) && negb (lm_any m acc_mint) && lm_supply_zero m).

(** MarkerAccount.SetStatus *)
Definition lm_set_status (m : lmarker) (s : N) : lmarker :=
  {| lm_status := s; lm_manager := if s =? st_active then [] else lm_manager m;
     lm_access := lm_access m; lm_supply_zero := lm_supply_zero m |}.

Inductive lop :=
| LFinalize (caller : key) | LActivate (caller : key) | LCancel (caller : key) | LDelete (caller : key).

Definition checked (m : lmarker) : option lmarker := if lm_valid m then Some m else None.

(** one keeper call; [None] = it returns an error (the transaction is rolled back) *)
Definition lm_step (m : lmarker) (op : lop) : option lmarker :=
  match op with
  | LFinalize c =>
      if keqb (lm_manager m) c && (lm_status m =? st_proposed) && lm_valid m
      then checked (lm_set_status m st_finalized) else None
  | LActivate c =>
      if keqb (lm_manager m) c && (lm_status m =? st_finalized)
      then checked (lm_set_status m st_active) else None
  | LCancel c =>
      if (lm_status m =? st_finalized) || (lm_status m =? st_active) then
        if lm_has m c acc_delete then checked (lm_set_status m st_cancelled) else None
      else if lm_status m =? st_proposed then
        if lm_has m c acc_delete || keqb (lm_manager m) c then checked (lm_set_status m st_cancelled) else None
      else if lm_status m =? st_cancelled then Some m
      else None
  | LDelete c =>
      if (lm_has m c acc_delete || keqb (lm_manager m) c) && (lm_status m =? st_cancelled)
      then checked (lm_set_status m st_destroyed) else None
  end.

Definition lm_apply (m : lmarker) (op : lop) : lmarker :=
  match lm_step m op with Some m' => m' | None => m end.
Definition lm_run (ops : list lop) (m : lmarker) : lmarker := fold_left lm_apply ops m.

(** a marker as a MsgAddMarker of an ordinary sender creates it: PROPOSED or FINALIZED, the
    manager set (the sender when none is given), valid *)
Definition lm_init_ok (m : lmarker) : Prop :=
  (lm_status m = st_proposed \/ lm_status m = st_finalized) /\ lm_manager m <> [] /\ lm_valid m = true.

(** DeleteMarker's decision about a caller *)
Definition delete_allowed (m : lmarker) (c : key) : bool :=
  (lm_has m c acc_delete || keqb (lm_manager m) c) && (lm_status m =? st_cancelled).

(** what an export through the constructor NewMarkerAccount would write instead of the literal *)
Definition ctor_manager (status : N) (manager : key) : key := if st_active <=? status then [] else manager.
Definition ctor_exported (m : marker) : marker :=
  {| mr_addr := mr_addr m; mr_accnum := mr_accnum m; mr_seq := 0%N;
     mr_manager := ctor_manager (mr_status m) (mr_manager m);
     mr_access := mr_access m; mr_status := mr_status m; mr_denom := mr_denom m;
     mr_supply := mr_supply m; mr_type := mr_type m; mr_fixed := mr_fixed m; mr_gov := mr_gov m;
     mr_forced := mr_forced m; mr_req := mr_req m |}.
Definition lm_ctor (m : lmarker) : lmarker :=
  {| lm_status := lm_status m; lm_manager := ctor_manager (lm_status m) (lm_manager m);
     lm_access := lm_access m; lm_supply_zero := lm_supply_zero m |}.

(** the observations of a life-cycle history on the real chain: per operation, was it accepted,
    and the marker's status and manager after the block (0 / [] when the marker is gone) *)
Definition lobs := (lop * bool * N * key)%type.

Fixpoint lm_check (i : nat) (m : lmarker) (l : list lobs) : option nat :=
  match l with
  | [] => None
  | (op, ok, st, mg) :: r =>
      match lm_step m op with
      | Some m' =>
          if ok && (lm_status m' =? st) && keqb (lm_manager m') mg then lm_check (S i) m' r else Some i
      | None =>
          if negb ok && (lm_status m =? st) && keqb (lm_manager m) mg then lm_check (S i) m r else Some i
      end
  end.
