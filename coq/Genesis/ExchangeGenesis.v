(** Genesis export / import of the exchange module (property C18).

    Transcribed from /repo/x/exchange/keeper:
      genesis.go     InitGenesis / ExportGenesis
      params.go      SetParams, GetParams, getParamsSplits, setParamsFeePaymentFlat, getParamsPaymentFlatFee
      market.go      initMarket, nextMarketID, storeMarket and the sixteen setters it calls
                     (setAllFlatFees, setAllFeeRatios, setMarketAcceptingOrders, setUserSettlementAllowed,
                     setAccessGrants, setReqAttrs, setMarketAcceptingCommitments, setCommitmentSettlementBips,
                     setIntermediaryDenom), GetMarket, getAllFlatFees, getAllFeeRatios, getAccessGrants,
                     IterateKnownMarketIDs / IterateMarkets
      orders.go      setOrderInStore, createConstantIndexEntries, createMarketExternalIDToOrderEntry,
                     IterateOrders;  x/exchange/orders.go  AskOrder.GetHoldAmount, BidOrder.GetHoldAmount
      commitments.go addCommitmentAmount, setCommitmentAmount, IterateCommitments
      payments.go    createPaymentInStore, setPaymentInStore, IteratePayments
      keys.go        the key layouts (byte for byte; the constant leading "params" strings are dropped)

    The module's single KV store is kept as one table per key family (their first bytes differ):
    params splits, known markets (a market's entries 0x01|id|... are the fields of [smarket]: one
    table per flat-fee / ratio family, the permission entries, the flags as key presence), orders,
    commitments, payments, and ONE table [xs_index] with all secondary-index entries as raw bytes
    (0x03 market->order, 0x04 owner->order, 0x05 asset->order, 0x09 market+external id->order,
    0x10 target->payment).  Last market id / last order id: an absent key reads as 0.

    Assumed / external:
      - MarketDetails live in the auth module's MarketAccount; [sm_details] stands for them
        (initMarket makes the account's details equal to the genesis ones in both of its branches);
      - amounts, uint16/uint32 numbers and coins print and parse back exactly (sdkmath.Int strings);
        denoms and required-attribute strings do not contain the record separator 0x1E, so the
        ratio key and the joined attribute list parse back to what was written (the stored value is
        kept structured);
      - genesis coin lists are denom-sorted where the Go code adds them as sdk.Coins
        (Coins.Add panics otherwise): part of the well-formedness premise;
      - [held a d]: hold.Keeper.GetHoldCoin, the amount of denom d on hold for account a when the
        exchange module is initialised (the hold module comes earlier in the genesis order);
      - addresses are address BYTES (an undecodable bech32 string cannot be written down);
        MustAccAddressFromBech32 of an empty / over-long address panics: [addr_ok].

    No proofs in this file. *)
From Coq Require Import ZArith NArith List Bool.
From PV Require Export Genesis.Indexed.
Import ListNotations.
Open Scope Z_scope.

(* ------------------------------------------------------------------ params *)

Record xparams := { xp_default : N; xp_splits : list (key * N);
                    xp_fee_create : list coin; xp_fee_accept : list coin }.
(** the stored form: 0x00|"split"|denom => uint16 (the default split under the empty denom) and
    the two payment-fee entries ([] = key absent) *)
Record sparams := { sp_splits : table (key * N); sp_fee_create : list coin; sp_fee_accept : list coin }.

Definition u16 (n : N) : N := N.modulo n 65536.

Definition split_entries (p : xparams) : list (key * (key * N)) :=
  ([], ([], u16 (xp_default p))) :: map (fun ds => (fst ds, (fst ds, u16 (snd ds)))) (xp_splits p).

(** setParamsFeePaymentFlat: nothing or only zero coins => the key is deleted *)
Definition fee_store (l : list coin) : list coin :=
  if is_nil l || coins_all_zero l then [] else l.

Definition params_import (p : option xparams) : sparams :=
  match p with
  | None => {| sp_splits := []; sp_fee_create := []; sp_fee_accept := [] |}
  | Some p => {| sp_splits := tbuild (split_entries p);
                 sp_fee_create := fee_store (xp_fee_create p);
                 sp_fee_accept := fee_store (xp_fee_accept p) |}
  end.

Definition params_export (s : sparams) : option xparams :=
  let dflt := match tget [] (sp_splits s) with Some (_, v) => v | None => 0%N end in
  let ds := filter (fun e => negb (is_nil (fst e))) (texport (fun e => e) (sp_splits s)) in
  let fc := coins_nonzero (sp_fee_create s) in
  let fa := coins_nonzero (sp_fee_accept s) in
  if is_nil (sp_splits s) && is_nil fc && is_nil fa then None
  else Some {| xp_default := dflt; xp_splits := ds; xp_fee_create := fc; xp_fee_accept := fa |}.

(* ------------------------------------------------------------------ markets *)

Record ratio := { rt_price : coin; rt_fee : coin }.
Record grant := { gr_addr : key; gr_perms : list N }.

Record market := {
  mk_id : N; mk_details : key;
  mk_ask_flat : list coin; mk_bid_flat : list coin; mk_seller_flat : list coin;
  mk_buyer_flat : list coin; mk_commit_flat : list coin;
  mk_seller_ratios : list ratio; mk_buyer_ratios : list ratio;
  mk_accepting_orders : bool; mk_user_settle : bool; mk_accepting_commitments : bool;
  mk_grants : list grant;
  mk_req_ask : list key; mk_req_bid : list key; mk_req_commit : list key;
  mk_bips : N; mk_intermediary : key }.

Record smarket := {
  sm_id : N; sm_details : key;
  sm_ask_flat : table coin; sm_bid_flat : table coin; sm_seller_flat : table coin;
  sm_buyer_flat : table coin; sm_commit_flat : table coin;          (* key = denom *)
  sm_seller_ratios : table ratio; sm_buyer_ratios : table ratio;    (* key = price denom | 0x1E | fee denom *)
  sm_not_accepting_orders : bool; sm_user_settle : bool; sm_accepting_commitments : bool;
  sm_perms : table (key * N);                                       (* key = len | addr | permission byte *)
  sm_req_ask : list key; sm_req_bid : list key; sm_req_commit : list key;   (* [] = key absent *)
  sm_bips : N; sm_intermediary : key }.                             (* 0 / [] = key absent *)

Definition k_known (id : N) : key := 7%N :: be32 id.

Definition flat_entries (l : list coin) : list (key * coin) := map (fun c => (fst c, c)) l.
Definition ratio_key (r : ratio) : key := fst (rt_price r) ++ 30%N :: fst (rt_fee r).
Definition ratio_entries (l : list ratio) : list (key * ratio) := map (fun r => (ratio_key r, r)) l.
Definition perm_byte (p : N) : N := N.modulo p 256.
Definition perm_key (a : key) (p : N) : key := len_prefixed a ++ [perm_byte p].
Definition grant_entries (g : grant) : list (key * (key * N)) :=
  map (fun p => (perm_key (gr_addr g) p, (gr_addr g, perm_byte p))) (gr_perms g).

(** storeMarket: every family is cleared and rewritten; setAccessGrants panics on a bad address. *)
Definition store_market (id : N) (m : market) : option smarket :=
  if forallb (fun g => addr_ok (gr_addr g)) (mk_grants m) then
    Some {| sm_id := id; sm_details := mk_details m;
            sm_ask_flat := tbuild (flat_entries (mk_ask_flat m));
            sm_bid_flat := tbuild (flat_entries (mk_bid_flat m));
            sm_seller_flat := tbuild (flat_entries (mk_seller_flat m));
            sm_buyer_flat := tbuild (flat_entries (mk_buyer_flat m));
            sm_commit_flat := tbuild (flat_entries (mk_commit_flat m));
            sm_seller_ratios := tbuild (ratio_entries (mk_seller_ratios m));
            sm_buyer_ratios := tbuild (ratio_entries (mk_buyer_ratios m));
            sm_not_accepting_orders := negb (mk_accepting_orders m);
            sm_user_settle := mk_user_settle m;
            sm_accepting_commitments := mk_accepting_commitments m;
            sm_perms := tbuild (flat_map grant_entries (mk_grants m));
            sm_req_ask := mk_req_ask m; sm_req_bid := mk_req_bid m; sm_req_commit := mk_req_commit m;
            sm_bips := mk_bips m; sm_intermediary := mk_intermediary m |}
  else None.

(** getAccessGrants: consecutive permission entries of one address make one grant. *)
Fixpoint group_perms (l : list (key * N)) : list grant :=
  match l with
  | [] => []
  | (a, p) :: r =>
      match group_perms r with
      | g :: gs =>
          if keqb (gr_addr g) a then {| gr_addr := a; gr_perms := p :: gr_perms g |} :: gs
          else {| gr_addr := a; gr_perms := [p] |} :: g :: gs
      | [] => [ {| gr_addr := a; gr_perms := [p] |} ]
      end
  end.

(** GetMarket *)
Definition load_market (s : smarket) : market :=
  {| mk_id := sm_id s; mk_details := sm_details s;
     mk_ask_flat := texport (fun c => c) (sm_ask_flat s);
     mk_bid_flat := texport (fun c => c) (sm_bid_flat s);
     mk_seller_flat := texport (fun c => c) (sm_seller_flat s);
     mk_buyer_flat := texport (fun c => c) (sm_buyer_flat s);
     mk_commit_flat := texport (fun c => c) (sm_commit_flat s);
     mk_seller_ratios := texport (fun r => r) (sm_seller_ratios s);
     mk_buyer_ratios := texport (fun r => r) (sm_buyer_ratios s);
     mk_accepting_orders := negb (sm_not_accepting_orders s);
     mk_user_settle := sm_user_settle s;
     mk_accepting_commitments := sm_accepting_commitments s;
     mk_grants := group_perms (texport (fun e => e) (sm_perms s));
     mk_req_ask := sm_req_ask s; mk_req_bid := sm_req_bid s; mk_req_commit := sm_req_commit s;
     mk_bips := sm_bips s; mk_intermediary := sm_intermediary s |}.

(** nextMarketID: the first id after the last auto-selected one that is not a known market. *)
Fixpoint next_free (known : table smarket) (id : N) (fuel : nat) : N :=
  match fuel with
  | O => id
  | S f => if thas (k_known id) known then next_free known (id + 1)%N f else id
  end.

(** initMarket for one genesis market; the accumulator is (last auto market id, known markets). *)
Definition market_step (acc : option (N * table smarket)) (m : market) : option (N * table smarket) :=
  match acc with
  | None => None
  | Some (last, t) =>
      let id := if (mk_id m =? 0)%N then next_free t (last + 1)%N (S (length t)) else mk_id m in
      let last' := if (mk_id m =? 0)%N then id else last in
      match store_market id m with
      | Some sm => Some (last', tset (k_known id) sm t)
      | None => None
      end
  end.

(* ------------------------------------------------------------------ orders *)

Record order := {
  od_id : N; od_bid : bool; od_market : N; od_owner : key;
  od_assets : coin; od_price : coin;
  od_fees : list coin;        (* ask: the seller settlement flat fee (at most one); bid: buyer settlement fees *)
  od_partial : bool; od_ext : key }.

Definition k_order (id : N) : key := 2%N :: be64 id.
Definition k_ix_market (m id : N) : key := 3%N :: be32 m ++ be64 id.
Definition k_ix_owner (a : key) (id : N) : key := 4%N :: len_prefixed a ++ be64 id.
Definition k_ix_asset (d : key) (id : N) : key := 5%N :: d ++ be64 id.
Definition k_ix_ext (m : N) (e : key) : key := 9%N :: be32 m ++ e.
Definition type_byte (o : order) : N := if od_bid o then 1%N else 0%N.

Definition const_entries (o : order) : list (key * key) :=
  [ (k_ix_market (od_market o) (od_id o), [type_byte o]);
    (k_ix_owner (od_owner o) (od_id o), [type_byte o]);
    (k_ix_asset (fst (od_assets o)) (od_id o), [type_byte o]) ].
Definition ext_entries (o : order) : list (key * key) :=
  if is_nil (od_ext o) then [] else [ (k_ix_ext (od_market o) (od_ext o), be64 (od_id o)) ].

(** setOrderInStore's checks: an external id longer than 100 bytes makes the key constructor
    panic; an external id indexed for ANOTHER order id is an error; the owner is only decoded
    (MustAccAddressFromBech32) when the constant index entries are written, i.e. for a new order. *)
Definition order_guard (o : order) (old : option order) (ix : index) : bool :=
  (length (od_ext o) <=? 100)%nat &&
  (if is_nil (od_ext o) then true
   else match tget (k_ix_ext (od_market o) (od_ext o)) ix with
        | Some v => if (length v =? 8)%nat then keqb v (be64 (od_id o)) else true
        | None => true
        end) &&
  match old with Some _ => true | None => addr_ok (od_owner o) end.

Definition order_add (o : order) (old : option order) : list (key * key) :=
  match old with
  | None => const_entries o ++ ext_entries o
  | Some _ => ext_entries o
  end.

Definition orders_import (l : list order) : option (table order * index) :=
  iimport (fun o => Some (k_order (od_id o))) (fun o _ _ => o) order_guard order_add (fun _ _ => []) l [] [].

(** GetHoldAmount *)
Definition order_hold (o : order) : coins :=
  if od_bid o then coins_plus (od_fees o) [od_price o]
  else match od_fees o with
       | f :: _ => if keqb (fst f) (fst (od_price o)) then [od_assets o] else coins_plus [od_assets o] [f]
       | [] => [od_assets o]
       end.

(* ------------------------------------------------------------------ commitments *)

Record commitment := { cm_market : N; cm_addr : key; cm_amount : coins }.
Definition k_commit (m : N) (a : key) : key := 99%N :: be32 m ++ len_prefixed a.

(** addCommitmentAmount: the stored amount plus the genesis one; a zero sum deletes the entry. *)
Definition commit_upd (c : commitment) (ex : option commitment) : option (option commitment) :=
  let cur := match ex with Some e => cm_amount e | None => [] end in
  let sum := coins_plus cur (cm_amount c) in
  if is_nil sum then Some None
  else Some (Some {| cm_market := cm_market c; cm_addr := cm_addr c; cm_amount := sum |}).
Definition commit_key (c : commitment) : option key :=
  if addr_ok (cm_addr c) then Some (k_commit (cm_market c) (cm_addr c)) else None.

(* ------------------------------------------------------------------ payments *)

Record payment := { py_source : key; py_source_amt : coins; py_target : key; py_target_amt : coins; py_ext : key }.
Definition k_payment (src e : key) : key := 112%N :: len_prefixed src ++ e.
Definition k_ix_target (tg src e : key) : key := 16%N :: len_prefixed tg ++ len_prefixed src ++ e.

Definition payment_pk (p : payment) : option key :=
  if addr_ok (py_source p) then Some (k_payment (py_source p) (py_ext p)) else None.
(** createPaymentInStore: an existing payment is an error; a non-empty target must decode. *)
Definition payment_guard (p : payment) (old : option payment) (_ : index) : bool :=
  match old with Some _ => false | None => is_nil (py_target p) || addr_ok (py_target p) end.
Definition payment_add (p : payment) (_ : option payment) : list (key * key) :=
  if is_nil (py_target p) then [] else [ (k_ix_target (py_target p) (py_source p) (py_ext p), []) ].

(* ------------------------------------------------------------------ the module *)

Record exch_state := {
  xs_params : sparams; xs_last_market : N; xs_markets : table smarket;
  xs_last_order : N; xs_orders : table order;
  xs_commitments : table commitment; xs_payments : table payment;
  xs_index : index }.

Record exch_genesis := {
  xg_params : option xparams; xg_markets : list market; xg_orders : list order;
  xg_last_market : N; xg_last_order : N;
  xg_commitments : list commitment; xg_payments : list payment }.

Definition exch_export (s : exch_state) : exch_genesis :=
  {| xg_params := params_export (xs_params s);
     xg_markets := texport load_market (xs_markets s);
     xg_orders := texport (fun o => o) (xs_orders s);
     xg_last_market := xs_last_market s; xg_last_order := xs_last_order s;
     xg_commitments := texport (fun c => c) (xs_commitments s);
     xg_payments := texport (fun p => p) (xs_payments s) |}.

(** the funds the exchange records need on hold: per owner the sum of the orders' hold amounts,
    the commitments and the payments' source amounts *)
Definition required_holds (g : exch_genesis) : list (key * coins) :=
  map (fun o => (od_owner o, order_hold o)) (xg_orders g) ++
  map (fun c => (cm_addr c, cm_amount c)) (xg_commitments g) ++
  map (fun p => (py_source p, py_source_amt p)) (xg_payments g).
Definition required_for (a : key) (l : list (key * coins)) : coins :=
  fold_left (fun acc e => if keqb (fst e) a then coins_plus acc (snd e) else acc) l [].
Definition holds_cover (held : key -> key -> Z) (g : exch_genesis) : bool :=
  let req := required_holds g in
  forallb (fun e => forallb (fun da => snd da <=? held (fst e) (fst da)) (required_for (fst e) req)) req.

Definition max_order_id (l : list order) : N := fold_left (fun m o => N.max m (od_id o)) l 0%N.

Definition exch_import (held : key -> key -> Z) (g : exch_genesis) : option exch_state :=
  match fold_left market_step (xg_markets g) (Some (0%N, [])) with
  | None => None
  | Some (_, markets) =>
      match orders_import (xg_orders g) with
      | None => None
      | Some (orders, ix1) =>
          if (xg_last_order g <? max_order_id (xg_orders g))%N then None else
          match timport commit_key commit_upd (xg_commitments g) with
          | None => None
          | Some commits =>
              match iimport payment_pk (fun p _ _ => p) payment_guard payment_add (fun _ _ => [])
                            (xg_payments g) [] ix1 with
              | None => None
              | Some (pays, ix2) =>
                  if holds_cover held g then
                    Some {| xs_params := params_import (xg_params g);
                            xs_last_market := xg_last_market g; xs_markets := markets;
                            xs_last_order := xg_last_order g; xs_orders := orders;
                            xs_commitments := commits; xs_payments := pays; xs_index := ix2 |}
                  else None
              end
          end
      end
  end.

(* ------------------------------------------------------------------ well-formed stores *)

Definition coins_pos (c : coins) : Prop := tsorted c /\ Forall (fun da => 0 < snd da) c.

Definition params_wf (s : sparams) : Prop :=
  tsorted (sp_splits s) /\
  Forall (fun kr => fst kr = fst (snd kr) /\ (snd (snd kr) < 65536)%N) (sp_splits s) /\
  (sp_splits s = [] -> sp_fee_create s = [] /\ sp_fee_accept s = []) /\
  (sp_splits s <> [] -> exists v, tget [] (sp_splits s) = Some v) /\
  Forall (fun c => snd c <> 0) (sp_fee_create s) /\ Forall (fun c => snd c <> 0) (sp_fee_accept s).

Definition flat_wf (t : table coin) : Prop := tsorted t /\ Forall (fun kr => fst kr = fst (snd kr)) t.
Definition ratios_wf (t : table ratio) : Prop := tsorted t /\ Forall (fun kr => fst kr = ratio_key (snd kr)) t.

Definition smarket_wf (s : smarket) : Prop :=
  sm_id s <> 0%N /\
  flat_wf (sm_ask_flat s) /\ flat_wf (sm_bid_flat s) /\ flat_wf (sm_seller_flat s) /\
  flat_wf (sm_buyer_flat s) /\ flat_wf (sm_commit_flat s) /\
  ratios_wf (sm_seller_ratios s) /\ ratios_wf (sm_buyer_ratios s) /\
  tsorted (sm_perms s) /\
  Forall (fun kr => fst kr = perm_key (fst (snd kr)) (snd (snd kr)) /\ (snd (snd kr) < 256)%N /\
                    addr_ok (fst (snd kr)) = true) (sm_perms s).

(** the secondary-index entries are exactly the ones the records give rise to *)
Definition exch_index_of (orders : table order) (pays : table payment) : index :=
  set_all (derived_index (fun p => p) payment_add pays) (tbuild (derived_index (fun o => o) order_add orders)).

Definition exch_wf (held : key -> key -> Z) (s : exch_state) : Prop :=
  params_wf (xs_params s) /\
  tsorted (xs_markets s) /\
  Forall (fun kr => fst kr = k_known (sm_id (snd kr)) /\ smarket_wf (snd kr)) (xs_markets s) /\
  tsorted (xs_orders s) /\
  Forall (fun kr => fst kr = k_order (od_id (snd kr)) /\ addr_ok (od_owner (snd kr)) = true /\
                    (length (od_ext (snd kr)) <= 100)%nat /\ (od_id (snd kr) <= xs_last_order s)%N)
         (xs_orders s) /\
  (* an external id is used by one order of a market only (C13) *)
  (forall k1 o1 k2 o2, In (k1, o1) (xs_orders s) -> In (k2, o2) (xs_orders s) ->
     od_ext o1 <> [] -> k_ix_ext (od_market o1) (od_ext o1) = k_ix_ext (od_market o2) (od_ext o2) ->
     od_ext o2 <> [] -> od_id o1 = od_id o2) /\
  tsorted (xs_commitments s) /\
  Forall (fun kr => fst kr = k_commit (cm_market (snd kr)) (cm_addr (snd kr)) /\
                    addr_ok (cm_addr (snd kr)) = true /\ cm_amount (snd kr) <> [] /\
                    coins_pos (cm_amount (snd kr))) (xs_commitments s) /\
  tsorted (xs_payments s) /\
  Forall (fun kr => fst kr = k_payment (py_source (snd kr)) (py_ext (snd kr)) /\
                    addr_ok (py_source (snd kr)) = true /\
                    (py_target (snd kr) = [] \/ addr_ok (py_target (snd kr)) = true)) (xs_payments s) /\
  xs_index s = exch_index_of (xs_orders s) (xs_payments s) /\
  (* the hold module holds what the records need (C02) *)
  holds_cover held (exch_export s) = true.
