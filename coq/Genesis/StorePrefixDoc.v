(** Reviewed table of the store prefixes of the ten custom modules (property C18): for every
    top-level prefix a module declares, is what is stored under it carried by the genesis
    (exported by ExportGenesis AND written back by InitGenesis), rebuilt by InitGenesis from the
    exported records (secondary indexes, counters, queue lengths: "derivable"), or neither - then
    with the reason.  The source scan translate/genprefix regenerates Gen/GenStorePrefixes.v on
    every check run; [prefix_audit] (evaluated by the kernel in Properties/C18.v) lists every
    difference: a prefix that is new, changed its byte, disappeared, or that ExportGenesis /
    InitGenesis no longer reaches although this table says it is exported / rebuilt.
    The dynamic side: the harness lists the first key bytes actually present in every module
    store of the exporting chain (case CPrefixes): each must be a declared prefix; and compares
    the raw content of every store before / after import byte for byte (case CStore), which
    covers the derived entries too.
    Reviewed at /repo 77d9b10c4.  No proofs in this file. *)
From Coq Require Import NArith List String Bool.
Import ListNotations.
Open Scope string_scope.

Inductive disposition :=
| Exported                       (* ExportGenesis writes it into the genesis, InitGenesis stores it back *)
| Derived (how : string)         (* not in the genesis; InitGenesis rebuilds it from the exported records *)
| NotExported (why : string).    (* neither *)

Definition reviewed_store_prefixes : list (string * string * N * disposition) :=
[
  ("attribute", "AttributeAddrLookupKeyPrefix", 3%N, Derived "name -> address reference counters; importAttribute calls IncAttrNameAddressLookup for every imported attribute (known finding: SetAttribute double-counts identical re-adds, so stale entries are not reproduced)");
  ("attribute", "AttributeExpirationKeyPrefix", 4%N, Derived "expiration queue; importAttribute calls addAttributeExpireLookup for every imported attribute with an expiration date");
  ("attribute", "AttributeKeyPrefix", 2%N, Exported);
  ("attribute", "AttributeKeyPrefixAmino", 0%N, NotExported "legacy amino attribute prefix: declared, mentioned nowhere in non-test code, never written");
  ("attribute", "AttributeParamPrefix", 5%N, Exported);
  ("exchange", "KeyTypeAddressToOrderIndex", 4%N, Derived "owner -> order index, written by setOrderInStore / createIndexEntries when InitGenesis stores the orders");
  ("exchange", "KeyTypeAssetToOrderIndex", 5%N, Derived "asset denom -> order index, written with every order InitGenesis stores");
  ("exchange", "KeyTypeCommitment", 99%N, Exported);
  ("exchange", "KeyTypeKnownMarketID", 7%N, Exported);
  ("exchange", "KeyTypeLastMarketID", 6%N, Exported);
  ("exchange", "KeyTypeLastOrderID", 8%N, Exported);
  ("exchange", "KeyTypeMarket", 1%N, Exported);
  ("exchange", "KeyTypeMarketExternalIDToOrderIndex", 9%N, Derived "(market, external id) -> order index, written with every order that has an external id");
  ("exchange", "KeyTypeMarketToOrderIndex", 3%N, Derived "market -> order index, written with every order InitGenesis stores");
  ("exchange", "KeyTypeOrder", 2%N, Exported);
  ("exchange", "KeyTypeParams", 0%N, Exported);
  ("exchange", "KeyTypePayment", 112%N, Exported);
  ("exchange", "KeyTypeTargetToPaymentIndex", 16%N, Derived "target -> payment index, written by createPaymentInStore for every imported payment with a target");
  ("hold", "KeyPrefixHoldCoin", 0%N, Exported);
  ("marker", "DenySendKeyPrefix", 3%N, Exported);
  ("marker", "MarkerParamStoreKey", 5%N, Exported);
  ("marker", "MarkerStoreKeyPrefix", 2%N, Exported);
  ("marker", "NetAssetValuePrefix", 4%N, Exported);
  ("metadata", "AddressContractSpecCacheKeyPrefix", 32%N, Derived "owner address -> contract specification index, written by SetContractSpecification");
  ("metadata", "AddressScopeCacheKeyPrefix", 23%N, Derived "address -> scope index, written by indexScope when InitGenesis stores the scopes");
  ("metadata", "AddressScopeSpecCacheKeyPrefix", 25%N, Derived "owner address -> scope specification index, written by SetScopeSpecification");
  ("metadata", "ContractSpecScopeSpecCacheKeyPrefix", 20%N, Derived "contract specification -> scope specification index, written by SetScopeSpecification");
  ("metadata", "ContractSpecificationKeyPrefix", 3%N, Exported);
  ("metadata", "NetAssetValuePrefix", 34%N, Exported);
  ("metadata", "OSLocatorAddressKeyPrefix", 33%N, Exported);
  ("metadata", "OSLocatorParamPrefix", 35%N, Exported);
  ("metadata", "RecordKeyPrefix", 2%N, Exported);
  ("metadata", "RecordSpecificationKeyPrefix", 5%N, Exported);
  ("metadata", "ScopeKeyPrefix", 0%N, Exported);
  ("metadata", "ScopeSpecScopeCacheKeyPrefix", 17%N, Derived "scope specification -> scope index, written by indexScope");
  ("metadata", "ScopeSpecificationKeyPrefix", 4%N, Exported);
  ("metadata", "SessionKeyPrefix", 1%N, Exported);
  ("metadata", "valueOwnerScopeCacheKeyPrefix", 24%N, NotExported "value owner -> scope index of store version 3; only the v4 migration mentions it (to delete it); the value owner is the holder of the scope coin in the bank genesis");
  ("msgfees", "MsgFeeKeyPrefix", 0%N, Exported);
  ("msgfees", "MsgFeesParamStoreKey", 1%N, Exported);
  ("name", "AddressKeyPrefix", 5%N, Derived "address -> name reverse index, written by addRecord for every imported binding");
  ("name", "NameKeyPrefix", 3%N, Exported);
  ("name", "NameParamStoreKey", 6%N, Exported);
  ("quarantine", "AutoResponsePrefix", 1%N, Exported);
  ("quarantine", "OptInPrefix", 0%N, Exported);
  ("quarantine", "RecordIndexPrefix", 3%N, Derived "sender -> record suffix index, written by SetQuarantineRecord for multi-sender records (ExportGenesis only passes it on the way to the records)");
  ("quarantine", "RecordPrefix", 2%N, Exported);
  ("sanction", "ParamsPrefix", 0%N, Exported);
  ("sanction", "ProposalIndexPrefix", 3%N, Derived "proposal -> temporary entry index, written by setTemporary for every imported temporary entry");
  ("sanction", "SanctionedPrefix", 1%N, Exported);
  ("sanction", "TemporaryPrefix", 2%N, Exported);
  ("trigger", "EventListenerKeyPrefix", 2%N, Derived "event listener entries, written by SetEventListener for every imported trigger");
  ("trigger", "GasLimitKeyPrefix", 4%N, Exported);
  ("trigger", "NextTriggerIDKey", 5%N, Exported);
  ("trigger", "QueueKeyPrefix", 3%N, Exported);
  ("trigger", "QueueLengthKey", 7%N, Derived "queue length, set to 0 and incremented by Enqueue for every imported queued trigger");
  ("trigger", "QueueStartIndexKey", 6%N, Exported);
  ("trigger", "TriggerKeyPrefix", 1%N, Exported)
].

Definition row_ok (g : string * string * N * bool * bool) (d : string * string * N * disposition) : bool :=
  let '(gm, gn, gb, gexp, ginit) := g in
  let '(dm, dn, db, disp) := d in
  String.eqb gm dm && String.eqb gn dn && N.eqb gb db &&
  match disp with
  | Exported => gexp && ginit
  | Derived how => ginit && negb (String.eqb how "")
  | NotExported why => negb (String.eqb why "")
  end.

Definition same_name (gm gn : string) (d : string * string * N * disposition) : bool :=
  let '(dm, dn, _, _) := d in String.eqb gm dm && String.eqb gn dn.

(** the generated rows that have no matching reviewed row, and the reviewed rows that were not generated *)
Definition prefix_audit (gen : list (string * string * N * bool * bool))
           (doc : list (string * string * N * disposition)) : list string :=
  flat_map (fun g => if existsb (row_ok g) doc then []
                     else let '(gm, gn, _, _, _) := g in [("unreviewed or changed: " ++ gm ++ "." ++ gn)%string]) gen ++
  flat_map (fun d => let '(dm, dn, _, _) := d in
                     if existsb (fun g => let '(gm, gn, _, _, _) := g in String.eqb gm dm && String.eqb gn dn) gen then []
                     else [("reviewed but gone: " ++ dm ++ "." ++ dn)%string]) doc.

(** every module has both genesis functions *)
Definition genesis_functions_audit (l : list (string * bool * bool)) : list string :=
  flat_map (fun r => let '(m, e, i) := r in if e && i then [] else [("missing genesis function: " ++ m)%string]) l.

(** the declared prefix bytes of a module *)
Definition module_prefix_bytes (gen : list (string * string * N * bool * bool)) (m : string) : list N :=
  flat_map (fun g => let '(gm, _, gb, _, _) := g in if String.eqb gm m then [gb] else []) gen.
