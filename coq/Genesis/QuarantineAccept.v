(** Quarantine: the two message-level operations that move senders between a record's
    unaccepted and accepted lists (property C18, reachability of records with accepted senders).

    Transcribed from /repo/x/quarantine:
      quarantine.go       findAddresses, QuarantineRecord.AcceptFrom, DeclineFrom, IsFullyAccepted,
                          GetAllFromAddrs
      keeper/keeper.go    AcceptQuarantinedFunds, DeclineQuarantinedFunds, GetQuarantineRecords,
                          SetQuarantineRecord, IsAutoDecline
      keys.go             createRecordSuffix (several senders: SORTED, concatenated, hashed)
    GetQuarantineRecords finds a receiver's records that involve one of the given senders (the
    sender itself as record suffix, plus the suffix index kept for records with several senders):
    modelled as the records of the receiver whose sender lists contain one of them.
    The bank side (release of fully accepted funds) is not part of this state.
    [rec_id] of Genesis/RoundTrip.v gets the senders in SORTED order here, as the Go code hashes
    them.  No proofs in this file. *)
From Coq Require Import ZArith NArith List Bool.
From PV Require Export Genesis.RoundTrip.
Import ListNotations.
Open Scope Z_scope.

Fixpoint kinsert (a : key) (l : list key) : list key :=
  match l with
  | [] => [a]
  | b :: r => match kcmp a b with Gt => b :: kinsert a r | _ => a :: l end
  end.
Definition ksort (l : list key) : list key := fold_right kinsert [] l.

Definition kmem (a : key) (l : list key) : bool := existsb (keqb a) l.

Section QAccept.
  Variable hash : key -> key.      (* sha256 *)
  Definition sorted_rec_id (l : list key) : key := hash (concat (ksort l)).

  Definition find_addresses (all to_find : list key) : list key * list key :=
    (filter (fun a => kmem a to_find) all, filter (fun a => negb (kmem a to_find)) all).

  Definition is_auto_decline (autos : table auto_resp) (to : key) (froms : list key) : bool :=
    existsb (fun f => match tget (auto_key {| ar_to := to; ar_from := f; ar_resp := 0%N |}) autos with
                      | Some r => (ar_resp r =? 2)%N
                      | None => false
                      end) froms.

  Definition involves (to : key) (froms : list key) (r : qrec) : bool :=
    keqb (qr_to r) to && existsb (fun f => kmem f (qr_unaccepted r ++ qr_accepted r)) froms.

  (** SetQuarantineRecord under the key of ALL the record's senders *)
  Definition set_qrec (r : qrec) (t : table qrec) : table qrec :=
    let k := rec_key sorted_rec_id (qr_to r) (qr_unaccepted r ++ qr_accepted r) in
    match qr_unaccepted r with
    | [] => tdel k t
    | _ => tset k r t
    end.

  Definition accept_one (autos : table auto_resp) (froms : list key) (t : table qrec) (r : qrec) : table qrec :=
    let '(now, rest) := find_addresses (qr_unaccepted r) froms in
    match now with
    | [] => t
    | _ =>
        let r1 := {| qr_to := qr_to r; qr_unaccepted := rest; qr_accepted := qr_accepted r ++ now;
                     qr_coins := qr_coins r; qr_declined := qr_declined r |} in
        let r2 := match rest with
                  | [] => r1
                  | _ => {| qr_to := qr_to r1; qr_unaccepted := rest; qr_accepted := qr_accepted r1;
                            qr_coins := qr_coins r1; qr_declined := is_auto_decline autos (qr_to r) rest |}
                  end in
        set_qrec r2 t
    end.

  Definition quar_accept (to : key) (froms : list key) (s : quar_state) : quar_state :=
    {| qs_optins := qs_optins s; qs_autos := qs_autos s;
       qs_recs := fold_left (accept_one (qs_autos s) froms)
                            (filter (involves to froms) (map snd (qs_recs s))) (qs_recs s) |}.

  Definition decline_one (froms : list key) (t : table qrec) (r : qrec) : table qrec :=
    let '(back, rest) := find_addresses (qr_accepted r) froms in
    if qr_declined r && match back with [] => true | _ => false end then t
    else set_qrec {| qr_to := qr_to r; qr_unaccepted := qr_unaccepted r ++ back; qr_accepted := rest;
                     qr_coins := qr_coins r; qr_declined := true |} t.

  Definition quar_decline (to : key) (froms : list key) (s : quar_state) : quar_state :=
    {| qs_optins := qs_optins s; qs_autos := qs_autos s;
       qs_recs := fold_left (decline_one froms)
                            (filter (involves to froms) (map snd (qs_recs s))) (qs_recs s) |}.
End QAccept.
