(** Genesis export / import of the custom modules (property C18, the provable half).

    Transcribed (branch for branch, on the parts that decide WHAT ends up in the store):
      x/hold/keeper/genesis.go        InitGenesis / ExportGenesis, keeper.AddHold, ValidateNewHold,
                                      GetAllAccountHolds
      x/name/keeper/genesis.go        InitGenesis / ExportGenesis, keeper.SetNameRecord, addRecord
      x/attribute/keeper/genesis.go   InitGenesis / ExportGenesis, keeper.importAttribute,
                                      EnsureModuleAccountAndAccountDataNameRecord (the name-module effect)
      x/quarantine/keeper/genesis.go  InitGenesis / ExportGenesis, SetOptIn, SetAutoResponse,
                                      SetQuarantineRecord, QuarantineRecord.AsQuarantinedFunds
      x/sanction/keeper/genesis.go    InitGenesis / ExportGenesis, SanctionAddresses, addTempEntries
      x/msgfees/keeper/genesis.go     InitGenesis / ExportGenesis, SetMsgFee
      x/trigger/keeper/genesis.go     InitGenesis / ExportGenesis, Enqueue, SetTrigger, SetGasLimit,
                                      types.GenesisState.Validate
      app/app.go                      moduleGenesisOrder (quarantine, sanction, name, attribute, ...,
                                      msgfees, hold; trigger later) for the product state

    A module store is a finite map from byte-string keys to records, kept as an association list
    strictly sorted by key ([kcmp] = bytes.Compare, the order of every SDK store iterator).
    ExportGenesis walks a prefix iterator, i.e. lists the table in key order; InitGenesis writes
    the genesis records one by one into an EMPTY store through the keeper's setter, which is
    [talter]: the setter sees the entry already stored under the key (if any) and decides to fail
    (panic: [None]), to leave/delete the entry ([Some None]) or to write one ([Some (Some v)]).
    Whether duplicates are rejected (name), summed (hold) or the last one wins (everything else)
    is therefore part of each module's [upd] function, exactly as the Go code has it.

    Assumed / external (Section variables, instantiated by the correspondence check with tables
    of the values the real functions returned):
      - hash-built store keys: [name_key] (types.GetNameKeyPrefix), [attr_key]
        (types.AddrAttributeKey), [msgfee_key] (types.GetMsgFeeKey), [rec_id]
        (quarantine.createRecordSuffix for more than one sender);
      - stateless validators: [name_norm] (Keeper.Normalize under the params just stored),
        [addr_valid] (types.ValidateAddress), [attr_valid] (Attribute.ValidateBasic),
        [msgfee_valid] (MsgFee.Validate), [trig_valid] (the per-trigger part of
        trigger GenesisState.Validate), [unsanctionable] (IsAddrThatCannotBeSanctioned);
      - the bank: [spend a d] = what account a could spend of denom d if the hold module locked
        nothing (balance minus vesting lock); [holder d] = balance of the quarantine funds holder.
    Addresses are raw address bytes (the harness decodes bech32; an undecodable address cannot be
    written down here).  Key prefixes are uninterpreted constants: only the order matters.
    Secondary indexes (name by address, attribute name->address counters and expiration queue,
    quarantine suffix index, sanction proposal index, trigger event listeners) are functions of
    the primary records and are not part of these states; the harness compares the queries that
    read them before export and after import.
    Hold: the flat key 0x00|len|addr|denom is modelled as the nested map addr -> (denom -> amount);
    both orders coincide because equal length bytes force equal address lengths.

    No proofs in this file. *)
From Coq Require Import ZArith NArith List Bool Sorted.
Import ListNotations.
Open Scope Z_scope.

(* ------------------------------------------------------------------ keys and tables *)

Definition key := list N.

Fixpoint kcmp (a b : key) : comparison :=
  match a, b with
  | [], [] => Eq
  | [], _ :: _ => Lt
  | _ :: _, [] => Gt
  | x :: a', y :: b' =>
      match N.compare x y with
      | Eq => kcmp a' b'
      | c => c
      end
  end.

Definition keqb (a b : key) : bool := match kcmp a b with Eq => true | _ => false end.

Definition len_prefixed (a : key) : key := N.of_nat (length a) :: a.

Definition be64 (n : N) : key :=
  map (fun i => N.modulo (N.shiftr n (8 * i)) 256) [7; 6; 5; 4; 3; 2; 1; 0]%N.

Section Table.
  Context {R : Type}.

  Definition table := list (key * R).

  (** The one store primitive: apply [f] to the entry stored under [k]. *)
  Fixpoint talter (f : option R -> option (option R)) (k : key) (t : table) : option table :=
    match t with
    | [] =>
        match f None with
        | None => None
        | Some None => Some []
        | Some (Some v) => Some [(k, v)]
        end
    | (k', r') :: t' =>
        match kcmp k k' with
        | Lt =>
            match f None with
            | None => None
            | Some None => Some t
            | Some (Some v) => Some ((k, v) :: t)
            end
        | Eq =>
            match f (Some r') with
            | None => None
            | Some None => Some t'
            | Some (Some v) => Some ((k, v) :: t')
            end
        | Gt =>
            match talter f k t' with
            | None => None
            | Some u => Some ((k', r') :: u)
            end
        end
    end.

  Fixpoint tget (k : key) (t : table) : option R :=
    match t with
    | [] => None
    | (k', r') :: t' =>
        match kcmp k k' with
        | Lt => None
        | Eq => Some r'
        | Gt => tget k t'
        end
    end.

  (** store.Set / store.Delete (never fail). *)
  Definition tset (k : key) (v : R) (t : table) : table :=
    match talter (fun _ => Some (Some v)) k t with Some u => u | None => t end.
  Definition tdel (k : key) (t : table) : table :=
    match talter (fun _ => Some None) k t with Some u => u | None => t end.

  Definition klt (x y : key * R) : Prop := kcmp (fst x) (fst y) = Lt.
  Definition tsorted (t : table) : Prop := StronglySorted klt t.

  Fixpoint tsortedb (t : table) : bool :=
    match t with
    | [] => true
    | (k1, _) :: t' =>
        match t' with
        | [] => true
        | (k2, _) :: _ => match kcmp k1 k2 with Lt => tsortedb t' | _ => false end
        end
    end.

  (** A history of raw store writes, for the determinism statement. *)
  Inductive sop := SSet (k : key) (v : R) | SDel (k : key).
  Definition sstep (t : table) (o : sop) : table :=
    match o with SSet k v => tset k v t | SDel k => tdel k t end.
  Definition srun (h : list sop) : table := fold_left sstep h [].
End Table.
Arguments table R : clear implicits.
Arguments sop R : clear implicits.

Section Import.
  Context {G R : Type}.
  (** [proj] = what ExportGenesis writes for a stored record; [key_of] / [upd] = the keeper's
      setter called by InitGenesis for one genesis record. *)
  Definition texport (proj : R -> G) (t : table R) : list G := map (fun kr => proj (snd kr)) t.

  Definition timport_from (key_of : G -> option key) (upd : G -> option R -> option (option R))
             (g : list G) (t0 : option (table R)) : option (table R) :=
    fold_left (fun acc r =>
                 match acc with
                 | None => None
                 | Some t =>
                     match key_of r with
                     | None => None
                     | Some k => talter (upd r) k t
                     end
                 end) g t0.

  Definition timport key_of upd g := timport_from key_of upd g (Some []).

  (** Well-formed table: strictly sorted, every record sits under the key its setter computes for
      its exported form, and the setter writes it back unchanged into a free slot. *)
  Definition twf (proj : R -> G) (key_of : G -> option key)
             (upd : G -> option R -> option (option R)) (t : table R) : Prop :=
    tsorted t /\
    Forall (fun kr => key_of (proj (snd kr)) = Some (fst kr) /\
                      upd (proj (snd kr)) None = Some (Some (snd kr))) t.
End Import.

Definition coins := table Z.            (* denom bytes -> amount, sorted by denom *)

Definition coin_add (d : key) (a : Z) (c : coins) : coins :=
  match talter (fun ex => Some (Some (match ex with Some x => x + a | None => a end))) d c with
  | Some u => u
  | None => c
  end.
Definition coins_add (c1 c2 : coins) : coins :=
  fold_left (fun acc da => if snd da =? 0 then acc else coin_add (fst da) (snd da) acc) c2 c1.
Definition coin_amt (d : key) (c : coins) : Z := match tget d c with Some x => x | None => 0 end.
Definition coins_is_zero (c : coins) : bool := forallb (fun da => snd da =? 0) c.
Definition coins_any_neg (c : coins) : bool := existsb (fun da => snd da <? 0) c.

(* ------------------------------------------------------------------ hold *)

Record acct_hold := { ah_addr : key; ah_coins : coins }.
Definition hold_state := table acct_hold.
Definition hold_genesis := list acct_hold.

Definition hold_key (a : key) : key := 0%N :: len_prefixed a.

(** keeper.AddHold(addr, funds, "genesis") on the entry currently stored for addr. *)
Definition hold_upd (spend : key -> key -> Z) (r : acct_hold) (ex : option acct_hold)
  : option (option acct_hold) :=
  let funds := ah_coins r in
  let held := match ex with Some e => ah_coins e | None => [] end in
  if coins_is_zero funds then Some ex
  else if coins_any_neg funds then None
  else if forallb (fun da => (snd da =? 0) ||
                             (snd da <=? spend (ah_addr r) (fst da) - coin_amt (fst da) held)) funds
  then Some (Some {| ah_addr := ah_addr r; ah_coins := coins_add held funds |})
  else None.

Definition hold_export (s : hold_state) : hold_genesis := texport (fun r => r) s.
Definition hold_import (spend : key -> key -> Z) (g : hold_genesis) : option hold_state :=
  timport (fun r => Some (hold_key (ah_addr r))) (hold_upd spend) g.

(** Reachable-store shape: per address a non-empty, denom-sorted list of positive amounts the
    bank can cover. *)
Definition hold_rec_ok (spend : key -> key -> Z) (r : acct_hold) : Prop :=
  tsorted (ah_coins r) /\ ah_coins r <> [] /\
  Forall (fun da => 0 < snd da <= spend (ah_addr r) (fst da)) (ah_coins r).
Definition hold_wf (spend : key -> key -> Z) (s : hold_state) : Prop :=
  tsorted s /\ Forall (fun kr => fst kr = hold_key (ah_addr (snd kr)) /\ hold_rec_ok spend (snd kr)) s.

(* ------------------------------------------------------------------ name *)

Record name_rec := { nr_name : key; nr_addr : key; nr_restricted : bool }.
Record name_params := { np_max_seg : N; np_min_seg : N; np_max_levels : N; np_allow_unrestricted : bool }.
Record name_state := { ns_params : name_params; ns_records : table name_rec }.
Record name_genesis := { ng_params : name_params; ng_bindings : list name_rec }.

Section Name.
  Variable name_key : key -> key.
  Variable name_norm : name_params -> key -> option key.
  Variable addr_valid : key -> bool.

  (** SetNameRecord: Normalize, ValidateAddress, addRecord (ErrNameAlreadyBound on an existing key). *)
  Definition name_rec_key (p : name_params) (r : name_rec) : option key :=
    match name_norm p (nr_name r) with
    | Some n => if addr_valid (nr_addr r) then Some (name_key n) else None
    | None => None
    end.
  Definition name_upd (p : name_params) (r : name_rec) (ex : option name_rec) : option (option name_rec) :=
    match ex, name_norm p (nr_name r) with
    | None, Some n => Some (Some {| nr_name := n; nr_addr := nr_addr r; nr_restricted := nr_restricted r |})
    | _, _ => None
    end.

  Definition name_export (s : name_state) : name_genesis :=
    {| ng_params := ns_params s; ng_bindings := texport (fun r => r) (ns_records s) |}.
  Definition name_import (g : name_genesis) : option name_state :=
    match timport (name_rec_key (ng_params g)) (name_upd (ng_params g)) (ng_bindings g) with
    | Some t => Some {| ns_params := ng_params g; ns_records := t |}
    | None => None
    end.

  Definition name_wf (s : name_state) : Prop :=
    tsorted (ns_records s) /\
    Forall (fun kr => fst kr = name_key (nr_name (snd kr)) /\
                      name_norm (ns_params s) (nr_name (snd kr)) = Some (nr_name (snd kr)) /\
                      addr_valid (nr_addr (snd kr)) = true) (ns_records s).

  (** attribute.EnsureModuleAccountAndAccountDataNameRecord: make "accountdata" exist, restricted,
      owned by the attribute module account (runs at the end of the attribute InitGenesis). *)
  Definition ensure_accountdata (acctdata modaddr : key) (s : name_state) : option name_state :=
    let want := {| nr_name := acctdata; nr_addr := modaddr; nr_restricted := true |} in
    match tget (name_key acctdata) (ns_records s) with
    | None =>
        match name_rec_key (ns_params s) want with
        | Some k =>
            match talter (name_upd (ns_params s) want) k (ns_records s) with
            | Some t => Some {| ns_params := ns_params s; ns_records := t |}
            | None => None
            end
        | None => None
        end
    | Some ex =>
        if nr_restricted ex && keqb (nr_addr ex) modaddr then Some s
        else
          (* UpdateNameRecord: overwrite in place *)
          match name_norm (ns_params s) acctdata with
          | Some n => Some {| ns_params := ns_params s;
                              ns_records := tset (name_key n) {| nr_name := n; nr_addr := modaddr; nr_restricted := true |} (ns_records s) |}
          | None => None
          end
    end.
End Name.

(* ------------------------------------------------------------------ attribute *)

Record attr := { at_name : key; at_value : key; at_type : N; at_addr : key;
                 at_exp : option Z; at_ctype : key }.
Record attr_state := { as_maxlen : N; as_attrs : table attr }.
Record attr_genesis := { ag_maxlen : N; ag_attrs : list attr }.

Section Attr.
  Variable attr_key : attr -> key.
  Variable attr_valid : attr -> bool.
  Variable attr_norm : key -> option key.     (* nameKeeper.Normalize of the attribute's name *)

  Definition attr_expired (now : Z) (a : attr) : bool :=
    match at_exp a with Some e => e <? now | None => false end.

  Definition attr_normed (a : attr) : option attr :=
    match attr_norm (at_name a) with
    | Some n => Some {| at_name := n; at_value := at_value a; at_type := at_type a; at_addr := at_addr a;
                        at_exp := at_exp a; at_ctype := at_ctype a |}
    | None => None
    end.

  (** importAttribute: an attribute already expired at the genesis time is skipped silently;
      otherwise validated, normalized and written (store.Set: the last one wins). *)
  Definition attr_rec_key (now : Z) (a : attr) : option key :=
    if attr_expired now a then Some (attr_key a)
    else if attr_valid a then
      match attr_normed a with Some a' => Some (attr_key a') | None => None end
    else None.
  Definition attr_upd (now : Z) (a : attr) (ex : option attr) : option (option attr) :=
    if attr_expired now a then Some ex
    else match attr_normed a with Some a' => Some (Some a') | None => None end.

  Definition attr_export (s : attr_state) : attr_genesis :=
    {| ag_maxlen := as_maxlen s; ag_attrs := texport (fun a => a) (as_attrs s) |}.
  Definition attr_import (now : Z) (g : attr_genesis) : option attr_state :=
    if forallb attr_valid (ag_attrs g) then
      match timport (attr_rec_key now) (attr_upd now) (ag_attrs g) with
      | Some t => Some {| as_maxlen := ag_maxlen g; as_attrs := t |}
      | None => None
      end
    else None.

  Definition attr_wf (now : Z) (s : attr_state) : Prop :=
    tsorted (as_attrs s) /\
    Forall (fun kr => fst kr = attr_key (snd kr) /\ attr_valid (snd kr) = true /\
                      attr_normed (snd kr) = Some (snd kr) /\ attr_expired now (snd kr) = false)
           (as_attrs s).
End Attr.

(* ------------------------------------------------------------------ quarantine *)

Record auto_resp := { ar_to : key; ar_from : key; ar_resp : N }.   (* 1 accept, 2 decline, else unspecified *)
Record qrec := { qr_to : key; qr_unaccepted : list key; qr_accepted : list key;
                 qr_coins : coins; qr_declined : bool }.
Record qfunds := { qf_to : key; qf_unaccepted : list key; qf_coins : coins; qf_declined : bool }.
Record quar_state := { qs_optins : table key; qs_autos : table auto_resp; qs_recs : table qrec }.
Record quar_genesis := { qg_addrs : list key; qg_autos : list auto_resp; qg_funds : list qfunds }.

Section Quarantine.
  Variable rec_id : list key -> key.      (* createRecordSuffix for two or more senders *)

  Definition optin_key (a : key) : key := 0%N :: len_prefixed a.
  Definition auto_key (r : auto_resp) : key := 1%N :: len_prefixed (ar_to r) ++ len_prefixed (ar_from r).
  Definition rec_suffix (froms : list key) : key :=
    match froms with
    | [a] => firstn 32 a
    | l => rec_id l
    end.
  Definition rec_key (to : key) (froms : list key) : key :=
    2%N :: len_prefixed to ++ len_prefixed (rec_suffix froms).

  Definition as_qfunds (r : qrec) : qfunds :=
    {| qf_to := qr_to r; qf_unaccepted := qr_unaccepted r; qf_coins := qr_coins r; qf_declined := qr_declined r |}.
  (** NewQuarantineRecord(unaccepted, coins, declined): the accepted list is NOT in genesis. *)
  Definition new_qrec (f : qfunds) : qrec :=
    {| qr_to := qf_to f; qr_unaccepted := qf_unaccepted f; qr_accepted := [];
       qr_coins := qf_coins f; qr_declined := qf_declined f |}.

  Definition auto_upd (r : auto_resp) (_ : option auto_resp) : option (option auto_resp) :=
    if (ar_resp r =? 1)%N || (ar_resp r =? 2)%N then Some (Some r) else Some None.
  (** SetQuarantineRecord: a fully accepted record is deleted, any other one written. *)
  Definition qrec_key (f : qfunds) : option key :=
    match qf_unaccepted f with
    | [] => None                 (* CreateRecordKey panics without senders *)
    | l => Some (rec_key (qf_to f) l)
    end.
  Definition qrec_upd (f : qfunds) (_ : option qrec) : option (option qrec) := Some (Some (new_qrec f)).

  Definition quar_export (s : quar_state) : quar_genesis :=
    {| qg_addrs := texport (fun a => a) (qs_optins s);
       qg_autos := texport (fun a => a) (qs_autos s);
       qg_funds := texport as_qfunds (qs_recs s) |}.

  Definition quar_total (l : list qfunds) : coins := fold_left (fun acc f => coins_add acc (qf_coins f)) l [].
  Definition covers (bal : key -> Z) (c : coins) : bool := forallb (fun da => snd da <=? bal (fst da)) c.

  Definition quar_import (holder : key -> Z) (g : quar_genesis) : option quar_state :=
    match timport (fun a => Some (optin_key a)) (fun a _ => Some (Some a)) (qg_addrs g),
          timport (fun r => Some (auto_key r)) auto_upd (qg_autos g),
          timport qrec_key qrec_upd (qg_funds g) with
    | Some o, Some a, Some r =>
        let tot := quar_total (qg_funds g) in
        if coins_is_zero tot || covers holder tot
        then Some {| qs_optins := o; qs_autos := a; qs_recs := r |} else None
    | _, _, _ => None
    end.

  Definition quar_wf (holder : key -> Z) (s : quar_state) : Prop :=
    tsorted (qs_optins s) /\ Forall (fun kr => fst kr = optin_key (snd kr)) (qs_optins s) /\
    tsorted (qs_autos s) /\
    Forall (fun kr => fst kr = auto_key (snd kr) /\ ((ar_resp (snd kr) =? 1)%N || (ar_resp (snd kr) =? 2)%N) = true) (qs_autos s) /\
    tsorted (qs_recs s) /\
    Forall (fun kr => fst kr = rec_key (qr_to (snd kr)) (qr_unaccepted (snd kr) ++ qr_accepted (snd kr)) /\
                      qr_unaccepted (snd kr) <> [] /\ qr_accepted (snd kr) = []) (qs_recs s) /\
    (let tot := quar_total (map (fun kr => as_qfunds (snd kr)) (qs_recs s)) in
     coins_is_zero tot || covers holder tot = true).
End Quarantine.

(* ------------------------------------------------------------------ sanction *)

Record temp_entry := { te_addr : key; te_prop : N; te_status : N }.    (* 1 sanctioned, 2 unsanctioned *)
Record sanc_params := { sp_sanction_min : coins; sp_unsanction_min : coins }.
Record sanc_state := { ss_params : option sanc_params; ss_sanctioned : table key; ss_temps : table temp_entry }.
Record sanc_genesis := { sg_params : option sanc_params; sg_addrs : list key; sg_temps : list temp_entry }.

Section Sanction.
  Variable unsanctionable : key -> bool.

  Definition sanc_key (a : key) : key := 0%N :: len_prefixed a.
  Definition temp_key (e : temp_entry) : key := 1%N :: len_prefixed (te_addr e) ++ be64 (te_prop e).

  (** SanctionAddresses (an unsanctionable address is an error; the deletion of the addresses'
      temporary entries finds nothing in the empty store InitGenesis starts from), then
      AddTemporarySanction / AddTemporaryUnsanction per entry. *)
  Definition sanc_upd (a : key) (_ : option key) : option (option key) :=
    if unsanctionable a then None else Some (Some a).
  Definition temp_upd (e : temp_entry) (_ : option temp_entry) : option (option temp_entry) :=
    if (te_status e =? 1)%N then (if unsanctionable (te_addr e) then None else Some (Some e))
    else if (te_status e =? 2)%N then Some (Some e)
    else None.

  Definition sanc_export (s : sanc_state) : sanc_genesis :=
    {| sg_params := ss_params s; sg_addrs := texport (fun a => a) (ss_sanctioned s);
       sg_temps := texport (fun e => e) (ss_temps s) |}.
  Definition sanc_import (g : sanc_genesis) : option sanc_state :=
    match timport (fun a => Some (sanc_key a)) sanc_upd (sg_addrs g) with
    | Some sa =>
        match timport (fun e => Some (temp_key e)) temp_upd (sg_temps g) with
        | Some te => Some {| ss_params := sg_params g; ss_sanctioned := sa; ss_temps := te |}
        | None => None
        end
    | None => None
    end.

  Definition sanc_wf (s : sanc_state) : Prop :=
    tsorted (ss_sanctioned s) /\
    Forall (fun kr => fst kr = sanc_key (snd kr) /\ unsanctionable (snd kr) = false) (ss_sanctioned s) /\
    tsorted (ss_temps s) /\
    Forall (fun kr => fst kr = temp_key (snd kr) /\
                      (te_status (snd kr) = 1%N /\ unsanctionable (te_addr (snd kr)) = false \/
                       te_status (snd kr) = 2%N)) (ss_temps s).
End Sanction.

(* ------------------------------------------------------------------ msgfees *)

Record msgfee := { mf_url : key; mf_denom : key; mf_amt : Z; mf_recipient : key; mf_bips : N }.
Record msgfee_params := { mp_floor_denom : key; mp_floor_amt : Z; mp_nhash_per_usd_mil : N; mp_conv_denom : key }.
Record msgfee_state := { ms_params : msgfee_params; ms_fees : table msgfee }.
Record msgfee_genesis := { mg_params : msgfee_params; mg_fees : list msgfee }.

Section MsgFees.
  Variable msgfee_key : key -> key.
  Variable msgfee_valid : msgfee -> bool.

  Definition msgfee_export (s : msgfee_state) : msgfee_genesis :=
    {| mg_params := ms_params s; mg_fees := texport (fun f => f) (ms_fees s) |}.
  (** SetParams; data.Validate() (every entry); SetMsgFee per entry (the last one wins). *)
  Definition msgfee_import (g : msgfee_genesis) : option msgfee_state :=
    if forallb msgfee_valid (mg_fees g) then
      match timport (fun f => Some (msgfee_key (mf_url f))) (fun f _ => Some (Some f)) (mg_fees g) with
      | Some t => Some {| ms_params := mg_params g; ms_fees := t |}
      | None => None
      end
    else None.

  Definition msgfee_wf (s : msgfee_state) : Prop :=
    tsorted (ms_fees s) /\
    Forall (fun kr => fst kr = msgfee_key (mf_url (snd kr)) /\ msgfee_valid (snd kr) = true) (ms_fees s).
End MsgFees.

(* ------------------------------------------------------------------ trigger *)

Record trig := { tr_id : N; tr_owner : key; tr_body : key }.   (* body: opaque event + actions *)
Record qtrig := { qt_height : N; qt_time : Z; qt_trig : trig }.
Record gaslim := { gl_id : N; gl_amt : N }.
(** The queue occupies the consecutive indexes qstart, qstart+1, ... (Enqueue / Dequeue keep it so);
    it is kept as the list of its items. *)
Record trig_state := { ts_next_id : N; ts_qstart : N; ts_queue : list qtrig;
                       ts_triggers : table trig; ts_gas : table gaslim }.
Record trig_genesis := { tg_trigger_id : N; tg_qstart : N; tg_triggers : list trig;
                         tg_gas : list gaslim; tg_queue : list qtrig }.

Section Trigger.
  Variable trig_valid : trig -> bool.

  Definition trig_key (id : N) : key := 1%N :: be64 id.
  Definition gas_key (id : N) : key := 4%N :: be64 id.

  Fixpoint nodup_ids (l : list N) : bool :=
    match l with
    | [] => true
    | x :: r => negb (existsb (N.eqb x) r) && nodup_ids r
    end.

  (** types.GenesisState.Validate *)
  Definition trig_genesis_valid (g : trig_genesis) : bool :=
    negb (tg_trigger_id g =? 0)%N && negb (tg_qstart g =? 0)%N &&
    (length (tg_triggers g) + length (tg_queue g) =? length (tg_gas g))%nat &&
    nodup_ids (map gl_id (tg_gas g)) &&
    forallb (fun t => trig_valid t && (tr_id t <=? tg_trigger_id g)%N)
            (tg_triggers g ++ map qt_trig (tg_queue g)) &&
    nodup_ids (map tr_id (tg_triggers g ++ map qt_trig (tg_queue g))).

  Definition trig_export (s : trig_state) : trig_genesis :=
    {| tg_trigger_id := ts_next_id s; tg_qstart := ts_qstart s;
       tg_triggers := texport (fun t => t) (ts_triggers s);
       tg_gas := texport (fun x => x) (ts_gas s);
       tg_queue := ts_queue s |}.
  Definition trig_import (g : trig_genesis) : option trig_state :=
    if trig_genesis_valid g then
      match timport (fun x => Some (gas_key (gl_id x))) (fun x _ => Some (Some x)) (tg_gas g),
            timport (fun t => Some (trig_key (tr_id t))) (fun t _ => Some (Some t)) (tg_triggers g) with
      | Some gs, Some ts =>
          Some {| ts_next_id := tg_trigger_id g; ts_qstart := tg_qstart g; ts_queue := tg_queue g;
                  ts_triggers := ts; ts_gas := gs |}
      | _, _ => None
      end
    else None.

  Definition trig_wf (s : trig_state) : Prop :=
    tsorted (ts_triggers s) /\ Forall (fun kr => fst kr = trig_key (tr_id (snd kr))) (ts_triggers s) /\
    tsorted (ts_gas s) /\ Forall (fun kr => fst kr = gas_key (gl_id (snd kr))) (ts_gas s) /\
    trig_genesis_valid (trig_export s) = true.
End Trigger.

(* ------------------------------------------------------------------ product *)

Record ext := {
  x_name_key : key -> key; x_name_norm : name_params -> key -> option key; x_addr_valid : key -> bool;
  x_attr_key : attr -> key; x_attr_valid : attr -> bool; x_attr_norm : key -> option key;
  x_rec_id : list key -> key; x_unsanctionable : key -> bool;
  x_msgfee_key : key -> key; x_msgfee_valid : msgfee -> bool; x_trig_valid : trig -> bool;
  x_spend : key -> key -> Z; x_holder : key -> Z; x_now : Z;
  x_acctdata : key; x_attr_modaddr : key }.

Record app_state := { a_quar : quar_state; a_sanc : sanc_state; a_name : name_state; a_attr : attr_state;
                      a_fees : msgfee_state; a_hold : hold_state; a_trig : trig_state }.
Record app_genesis := { g_quar : quar_genesis; g_sanc : sanc_genesis; g_name : name_genesis;
                        g_attr : attr_genesis; g_fees : msgfee_genesis; g_hold : hold_genesis;
                        g_trig : trig_genesis }.

Definition app_export (x : ext) (s : app_state) : app_genesis :=
  {| g_quar := quar_export (a_quar s); g_sanc := sanc_export (a_sanc s);
     g_name := name_export (a_name s); g_attr := attr_export (a_attr s);
     g_fees := msgfee_export (a_fees s); g_hold := hold_export (a_hold s);
     g_trig := trig_export (a_trig s) |}.

(** moduleGenesisOrder: quarantine, sanction, name, attribute (which then makes sure of the
    accountdata name record), metadata, msgfees, hold, exchange, ..., trigger. *)
Definition app_import (x : ext) (g : app_genesis) : option app_state :=
  match quar_import (x_rec_id x) (x_holder x) (g_quar g) with None => None | Some q =>
  match sanc_import (x_unsanctionable x) (g_sanc g) with None => None | Some sa =>
  match name_import (x_name_key x) (x_name_norm x) (x_addr_valid x) (g_name g) with None => None | Some n0 =>
  match attr_import (x_attr_key x) (x_attr_valid x) (x_attr_norm x) (x_now x) (g_attr g) with None => None | Some at' =>
  match ensure_accountdata (x_name_key x) (x_name_norm x) (x_addr_valid x) (x_acctdata x) (x_attr_modaddr x) n0 with None => None | Some n =>
  match msgfee_import (x_msgfee_key x) (x_msgfee_valid x) (g_fees g) with None => None | Some f =>
  match hold_import (x_spend x) (g_hold g) with None => None | Some h =>
  match trig_import (x_trig_valid x) (g_trig g) with None => None | Some tr =>
  Some {| a_quar := q; a_sanc := sa; a_name := n; a_attr := at'; a_fees := f; a_hold := h; a_trig := tr |}
  end end end end end end end end.

Definition app_wf (x : ext) (s : app_state) : Prop :=
  quar_wf (x_rec_id x) (x_holder x) (a_quar s) /\ sanc_wf (x_unsanctionable x) (a_sanc s) /\
  name_wf (x_name_key x) (x_name_norm x) (x_addr_valid x) (a_name s) /\
  attr_wf (x_attr_key x) (x_attr_valid x) (x_attr_norm x) (x_now x) (a_attr s) /\
  msgfee_wf (x_msgfee_key x) (x_msgfee_valid x) (a_fees s) /\ hold_wf (x_spend x) (a_hold s) /\
  trig_wf (x_trig_valid x) (a_trig s) /\
  (* the accountdata root record is in place (attribute InitGenesis / the upgrade put it there) *)
  (exists r, tget (x_name_key x (x_acctdata x)) (ns_records (a_name s)) = Some r /\
             nr_restricted r = true /\ kcmp (nr_addr r) (x_attr_modaddr x) = Eq).
