(** Shared vocabulary of the exchange / marker / metadata genesis models (property C18).

    - [set_all] / [del_all] / [tbuild]: a run of store.Set / store.Delete calls;
    - [istep] / [iimport]: ONE InitGenesis loop over genesis records that keeps a primary table and
      a table of secondary-index entries in step, the way the keepers' setters do it
      (exchange setOrderInStore / createPaymentInStore, metadata writeScopeToState + indexScope,
      SetScopeSpecification, SetContractSpecification): look the record's primary key up, run the
      setter's guard on what is stored there, write the record, write the index entries that are
      new, delete the index entries that are stale;
    - [regroup]: ExportGenesis of net asset values — per owner (marker / scope) in the owners'
      iteration order, the entries found under that owner's prefix.

    Index tables hold RAW store entries: key bytes -> value bytes, all secondary-index prefixes of
    a module together (their first byte tells them apart), so that they can be compared with a
    dump of the real store.  No proofs in this file. *)
From Coq Require Import ZArith NArith List Bool.
From PV Require Export Genesis.RoundTrip.
Import ListNotations.
Open Scope Z_scope.

Definition be32 (n : N) : key :=
  map (fun i => N.modulo (N.shiftr n (8 * i)) 256) [3; 2; 1; 0]%N.

Definition is_nil {A} (l : list A) : bool := match l with [] => true | _ => false end.

(** sdk.AccAddressFromBech32 / VerifyAddressFormat on decoded bytes: 1..255 bytes. *)
Definition addr_ok (a : key) : bool := (1 <=? length a)%nat && (length a <=? 255)%nat.

Section Runs.
  Context {R : Type}.
  Definition set_all (es : list (key * R)) (t : table R) : table R :=
    fold_left (fun t' e => tset (fst e) (snd e) t') es t.
  Definition del_all (ks : list key) (t : table R) : table R :=
    fold_left (fun t' k => tdel k t') ks t.
  Definition tbuild (es : list (key * R)) : table R := set_all es [].
  Definition thas (k : key) (t : table R) : bool :=
    match tget k t with Some _ => true | None => false end.
End Runs.

Definition index := table key.      (* raw secondary-index entries: key bytes -> value bytes *)

Section Indexed.
  Context {G R : Type}.
  (** [pk g]: the primary store key the setter computes ([None]: it panics / errors first);
      [mk g old t]: the record it stores (may depend on what was stored and on the table, e.g. a
      fresh account number); [guard g old ix]: the setter's checks against the stored record and
      the index entries; [add] / [rem]: index entries written / index keys deleted. *)
  Variable pk : G -> option key.
  Variable mk : G -> option R -> table R -> R.
  Variable guard : G -> option R -> index -> bool.
  Variable add : G -> option R -> list (key * key).
  Variable rem : G -> option R -> list key.

  Definition istep (acc : option (table R * index)) (g : G) : option (table R * index) :=
    match acc with
    | None => None
    | Some (p, ix) =>
        match pk g with
        | None => None
        | Some k =>
            let old := tget k p in
            if guard g old ix
            then Some (tset k (mk g old p) p, del_all (rem g old) (set_all (add g old) ix))
            else None
        end
    end.

  Definition iimport (l : list G) (p : table R) (ix : index) : option (table R * index) :=
    fold_left istep l (Some (p, ix)).
End Indexed.

(** The index entries a whole primary table gives rise to when its records are written one by
    one, in key order, into a store that does not hold them yet. *)
Definition derived_index {G R} (proj : R -> G) (add : G -> option R -> list (key * key))
           (t : table R) : list (key * key) :=
  flat_map (fun kr => add (proj (snd kr)) None) t.

(** provutils.FindMissing: the required entries that are not among the found ones. *)
Definition missing (req found : list key) : list key :=
  filter (fun a => negb (existsb (keqb a) found)) req.

(** keep the first occurrence of every entry *)
Fixpoint dedup (l : list key) (seen : list key) : list key :=
  match l with
  | [] => []
  | a :: r => if existsb (keqb a) seen then dedup r seen else a :: dedup r (a :: seen)
  end.

Section Regroup.
  Context {O E : Type}.
  (** [oaddr]: the owner's address (marker address / scope id); [eaddr]: the address an entry is
      stored under. *)
  Variable oaddr : O -> key.
  Variable eaddr : E -> key.
  Definition regroup (owners : list O) (entries : list E) : list (key * list E) :=
    map (fun o => (oaddr o, filter (fun e => keqb (eaddr e) (oaddr o)) entries)) owners.
End Regroup.

Definition coin := (key * Z)%type.
Definition coins_all_zero (l : list coin) : bool := forallb (fun c => snd c =? 0) l.
Definition coins_nonzero (l : list coin) : list coin := filter (fun c => negb (snd c =? 0)) l.
(** sdk.Coins.Add on denom-sorted operands, zero amounts removed from the result. *)
Definition coins_plus (c1 c2 : coins) : coins := coins_nonzero (coins_add c1 c2).
