(** What the SHADOW-NODE comparison of the C18 harness decides, as a model (parts (b) determinism
    and (c) restart of property C18 stay VALIDATION on the real node; this file only makes precise
    what "state depends on process history" means and that the comparison is the right test for it).

    A node is a committed state [S] plus the memory [C] of the running process (keeper fields,
    package variables, caches).  [exec] is FinalizeBlock + Commit of one block; SIDE TRAFFIC
    (CheckTx, Simulate, gRPC queries, ghost transactions) runs on some state the process can see
    (the committed one, the mempool state of the previous block, a branch that is rolled back) and
    can change nothing but the memory.  A restarted process starts from [fresh] memory.

      [primary]  the continuously running node: arbitrary side traffic before every block;
      [shadow]   the node that is fed the same blocks only and may be restarted before any block.

    [regex_node] is the shape of defect the comparison exists for (an in-memory compiled regex that
    is reset when the parameter is set and filled lazily by whichever context validates first):
    it is NOT oblivious, and a three-step schedule separates primary from shadow.
    No proofs in this file. *)
From Coq Require Import NArith List Bool.
Import ListNotations.

Section Node.
  Variables S C B T O : Type.
  Variable exec : S -> C -> B -> S * C * O.
  Variable side : S -> C -> T -> C.
  Variable fresh : C.

  (** one item of side traffic with the state it reads *)
  Definition traffic := list (S * T).
  Definition run_side (tr : traffic) (c : C) : C := fold_left (fun c' e => side (fst e) c' (snd e)) tr c.

  Fixpoint primary (s : S) (c : C) (sched : list (traffic * B)) : list O * S :=
    match sched with
    | [] => ([], s)
    | (tr, b) :: r =>
        let '(s', c', o) := exec s (run_side tr c) b in
        let (os, sf) := primary s' c' r in (o :: os, sf)
    end.

  Fixpoint shadow (s : S) (c : C) (sched : list (bool * B)) : list O * S :=
    match sched with
    | [] => ([], s)
    | (restart, b) :: r =>
        let '(s', c', o) := exec s (if restart then fresh else c) b in
        let (os, sf) := shadow s' c' r in (o :: os, sf)
    end.

  (** the committed state and the results of a block do not depend on the process memory *)
  Definition oblivious : Prop :=
    forall s c1 c2 b, fst (fst (exec s c1 b)) = fst (fst (exec s c2 b)) /\ snd (exec s c1 b) = snd (exec s c2 b).
End Node.

(** ---------- the seeded shape: a lazily compiled, in-memory regex ---------- *)

(** committed state: the id of the regex parameter; memory: the compiled regex, if any;
    [matches r d]: does denom class [d] match regex [r] (here: equal ids) *)
Inductive rblock := RSetParam (r : N) | RAddMarker (denom_class : N).
Definition rmatches (r d : N) : bool := N.eqb r d.

Definition regex_exec (s : N) (c : option N) (b : rblock) : N * option N * bool :=
  match b with
  | RSetParam r => (r, None, true)                       (* SetParams: store, reset the cache *)
  | RAddMarker d =>
      let rx := match c with Some x => x | None => s end in   (* compile lazily from state *)
      (s, Some rx, rmatches rx d)
  end.
(** a Simulate / CheckTx of an add-marker on some visible state fills the cache from THAT state *)
Definition regex_side (visible : N) (c : option N) (_ : unit) : option N :=
  match c with Some x => Some x | None => Some visible end.

(** the faithful shape: compile from the state at every use *)
Definition plain_exec (s : N) (c : unit) (b : rblock) : N * unit * bool :=
  match b with
  | RSetParam r => (r, tt, true)
  | RAddMarker d => (s, tt, rmatches s d)
  end.
