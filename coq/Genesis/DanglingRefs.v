(** References to objects of ANOTHER module that no longer exist (property C18).

    The records of the custom modules mention marker denoms and marker account addresses: scope
    net asset values and marker net asset values are priced in a marker's denom, orders and
    commitments and holds and trigger actions carry coins of it, attributes sit on a marker's
    account, names are owned by it, payments target it, scopes give it data access.  They are
    admitted while the marker exists (e.g. metadata AddSetNetAssetValues: "usd or the denom of an
    existing marker"); the marker can afterwards be cancelled, deleted and purged by the marker
    BeginBlocker (RemoveMarker takes only the marker's OWN net asset values and deny entries along).

    In the product of the ten InitGenesis functions (Genesis/FullProduct.v [full_import], app.go's
    order) no module's import reads the marker module's state: the only cross-module inputs are
    the hold amounts the exchange import checks and the accountdata name record.  [with_marker]
    replaces the marker module's state by another one - in particular by the one from which
    referenced markers were removed - and leaves every other module's records, with whatever
    denoms and addresses they mention, as they are.  No proofs in this file. *)
From PV Require Export Genesis.FullProduct.

Definition with_marker (s : full_state) (mk : marker_state) : full_state :=
  {| f_base := f_base s; f_marker := mk; f_md := f_md s; f_exch := f_exch s |}.
