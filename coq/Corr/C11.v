(** Correspondence + property checker for C11 (privileged endpoints).
    Every case carries what the REAL code did ([obs]: the message went through, i.e. the handler
    returned no error; [false] also for panics).  "corr:" = the generated-table model
    (Exchange/Perms.v, Exchange/GovGuards.v) disagrees with the implementation; "prop:" = the
    implementation's own outcome breaks the documented rule. *)
From Coq Require Import NArith List String Bool.
From PV Require Export Exchange.Perms Exchange.GovGuards Exchange.GuardPaths Exchange.PermWorld Exchange.PermCommit Corr.CorrBase.
From PV Require Import Gen.GenExchangePerms Gen.GenGovEndpoints Gen.GenHandlerPaths.
Import ListNotations.
Open Scope string_scope.
Open Scope list_scope.

(** One MarketManagePermissions request of a history: admin, request, did it go through, and the
    grants of the universe that are in the real store afterwards. *)
Record manage_step := { ms_admin : N; ms_req : upd_req; ms_ok : bool; ms_after : list grant }.

(** One step of a world history (Exchange/PermWorld.v): the operation, whether the request was
    otherwise valid (so that the guard alone decides: always for manage / create / query), whether it
    went through (query: the response said the proposal would pass), the grants of the universe read
    back afterwards (for a call: from the throw-away branch it ran on), and whether the digest of
    ALL stores differs from the one before the step (looked at for rejected steps and for queries,
    which are run on the history's own context, NOT on a branch). *)
Record world_step := { ws_op : wop; ws_valid : bool; ws_ok : bool; ws_after : list grant; ws_wrote : bool }.

(** One step of a commitment-settings history (Exchange/PermCommit.v): the request, whether it went
    through, the market's settings read back afterwards (from the request's own branch), and whether
    a rejected request changed the digest of all stores. *)
Record commit_obs := { co_op : cop; co_ok : bool; co_after : mconf; co_wrote : bool }.

Inductive case :=
| CCommit (auth : N) (st : store) (market : N) (c0 : mconf) (steps : list commit_obs)
| CNestedTrigger (module request inner_kind : string) (depth : N) (control : bool) (created target_changed : bool)
    (* a stranger's trigger whose action is a create-trigger request (nested [depth] deep) naming a
       FOREIGN account as authority of the innermost trigger, which carries that account's message;
       the chain is then run through the blocks needed; target_changed = a store other than the
       trigger module's differs from before.  control = the innermost authority is the stranger itself *)
| CWorld (auth : N) (w0 : world) (universe : list grant) (steps : list world_step)
| CQuery (module endpoint : string) (ran wrote stranger_accepted : bool)
    (* a Query method run on a context whose writes persist: digest of all stores before/after, and
       (exchange) whether a stranger then got through a market endpoint *)
| CAuthString (module request variant : string) (same_address obs : bool)
    (* the request signed "by" a spelling variant of the authority string *)
| CKeeperAuthority (module : string) (is_gov_account : bool)
| CGovWrapped (module request wrapper : string) (by_authority obs wrote : bool)
    (* a governance-only request carrying the authority's address, wrapped by a NON-authority into a
       message that runs other messages later (a trigger's actions, an authz MsgExec); by_authority =
       the control: the same wrapper built by the authority itself *)
| CAuthUse (module endpoint kind : string) (obs wrote : bool)
    (* endpoints without an Authority field that compare another field with the authority;
       kind = stranger | authority | holder *)
| CMatrix (ep : string) (auth : N) (st : store) (market caller : N) (obs : bool) (wrote : bool)
    (* endpoint request for [market] signed by [caller]; [st] = the grants read back from the
       real store before the call; wrote = the multistore differs after a REJECTED call *)
| CCross (ep : string) (auth : N) (st : store) (req_market item_market caller : N) (changed : bool)
    (* request naming [req_market] whose target item (order / commitment) belongs to
       [item_market]; changed = the call went through and the item is different afterwards *)
| CCancel (auth : N) (st : store) (o : order) (signer : N) (obs : bool) (still_there : bool)
| CPayment (st : list payment) (op : pay_op) (obs : bool) (after : list payment)
| CPayHist (st0 : list payment) (steps : list (pay_op * bool * list payment))
| CManage (auth : N) (st0 : store) (universe : list grant) (steps : list manage_step)
| CGov (module request : string) (is_authority : bool) (obs wrote : bool)
    (* a registered sdk.Msg with an Authority field sent through the router; module = "" for
       messages of modules outside x/ *)
| CGovAlt (module request : string) (obs : bool)
    (* the same request signed by the holder of the documented alternative right (name owner,
       marker transfer access, trigger owner) *)
| CSigner (msg field : string) (agrees : bool).
    (* the codec's signer of the message is the field the model treats as the caller *)

Definition req_holds_b (q : requirement) (auth : N) (st : store) (market caller : N) : bool :=
  match q with
  | RPerm p => N.eqb caller auth || store_has st market caller p
  | RAuthority => N.eqb caller auth
  | RRejectAll => false
  | RDelegated _ => true
  | RUnknown => false
  end.

Definition payment_in (p : payment) (l : list payment) : bool := existsb (payment_eqb p) l.
Definition same_payments (a b : list payment) : bool :=
  forallb (fun p => payment_in p b) a && forallb (fun p => payment_in p a) b.

Definition role_b (op : pay_op) (p : payment) : bool :=
  match op with
  | PyAccept s _ _ | PyReject s _ _ | PyRejectAll s _ => opt_N_eqb (p_target p) (Some s)
  | PyCancel s _ | PyRetarget s _ _ => N.eqb (p_source p) s
  | PyCreate _ _ _ => false
  end.

Definition check_payment (st : list payment) (op : pay_op) (obs : bool) (after : list payment) : list string :=
  let '(st', ok) := pay_step st op in
  tag (Bool.eqb ok obs) "corr:payment_outcome" ++
  tag (same_payments st' after) "corr:payments_after" ++
  (* every payment that disappeared or changed is one the signer has the documented role in *)
  tag (forallb (fun p => payment_in p after || role_b op p) st) "prop:payment_touched_without_role" ++
  (if obs then
     match op with
     | PyAccept s src ext | PyReject s src ext =>
         tag (existsb (fun e => pay_key src ext e && opt_N_eqb (p_target e) (Some s)) st) "prop:accepted_or_rejected_by_non_target"
     | _ => []
     end
   else tag (same_payments st after) "prop:rejected_payment_op_changed_state").

Fixpoint check_pay_hist (i : N) (st : list payment) (steps : list (pay_op * bool * list payment)) : list string :=
  match steps with
  | [] => []
  | (op, obs, after) :: r =>
      match check_payment st op obs after with
      | [] => check_pay_hist (N.succ i) after r
      | e => map (fun t => (t ++ " @step " ++ N_to_string i)%string) e
      end
  end.

Definition store_agrees (universe : list grant) (model : store) (observed : list grant) : bool :=
  forallb (fun g => let '(m, a, p) := g in Bool.eqb (store_has model m a p) (store_has observed m a p)) universe.

(** History of MarketManagePermissions requests.  [ms_after] is read from the request's own cache
    context BEFORE it is discarded or written, so for a request that fails inside UpdatePermissions
    it shows the partial writes made before the error (compared with [update_permissions_raw]); the
    history continues from it only when the request went through (rollback otherwise).  A tag names
    the first diverging step. *)
Fixpoint check_manage (i : N) (auth : N) (universe : list grant) (st : store) (steps : list manage_step) : list string :=
  match steps with
  | [] => []
  | s :: r =>
      let allowed := endpoint_allowed "MarketManagePermissions" auth st (u_market (ms_req s)) (ms_admin s) in
      let '(raw, failed) := if allowed then update_permissions_raw st (ms_req s) else (st, true) in
      let ok := snd (manage_permissions auth st (ms_admin s) (ms_req s)) in
      let errs :=
        tag (Bool.eqb ok (ms_ok s)) "corr:manage_permissions_outcome" ++
        tag (Bool.eqb ok (negb failed)) "corr:model_inconsistent" ++
        tag (store_agrees universe raw (ms_after s)) "corr:grants_after" ++
        (* frame: every triple the request does not name is exactly as before, even in the partial
           writes of a request that fails later *)
        tag (forallb (fun g => let '(m, a, p) := g in
                        names_grant (ms_req s) g || Bool.eqb (store_has st m a p) (store_has (ms_after s) m a p)) universe)
            "prop:unnamed_grant_changed" ++
        (if N.eqb (ms_admin s) auth || store_has st (u_market (ms_req s)) (ms_admin s) PPermissions then []
         else tag (negb (ms_ok s)) "prop:permissions_changed_without_permission" ++
              tag (store_agrees universe st (ms_after s)) "prop:denied_request_changed_grants")
      in
      match errs with
      | [] => check_manage (N.succ i) auth universe (if ms_ok s then ms_after s else st) r
      | e => map (fun t => (t ++ " @step " ++ N_to_string i)%string) e
      end
  end.

(* ------------------------------------------------------------------ world histories *)

Definition grant_market (g : grant) : N := let '(m, _, _) := g in m.

Definition check_world_step (auth : N) (universe : list grant) (w : world) (s : world_step) : list string :=
  let st := w_grants w in
  let '(w', ok) := wstep auth w (ws_op s) in
  tag (if ws_valid s then Bool.eqb ok (ws_ok s) else implb (ws_ok s) ok) "corr:world_step_outcome" ++
  tag (store_agrees universe (w_grants w') (ws_after s)) "corr:world_grants_after" ++
  match ws_op s with
  | WCall ep m caller =>
      (if ws_ok s then tag (req_holds_b (documented_requirement ep) auth st m caller)
                           "prop:passed_without_documented_permission"
       else tag (negb (ws_wrote s)) "prop:rejected_call_wrote_state") ++
      tag (store_agrees universe st (ws_after s)) "prop:call_changed_grants"
  | WManage admin r =>
      (if ws_ok s then
         tag (N.eqb admin auth || store_has st (u_market r) admin PPermissions)
             "prop:permissions_changed_without_permission" ++
         tag (forallb (fun g => let '(m, a, p) := g in
                         names_grant r g || Bool.eqb (store_has st m a p) (store_has (ws_after s) m a p)) universe)
             "prop:unnamed_grant_changed" ++
         tag (forallb (fun g => let '(m, a, p) := g in
                         negb (N.eqb m (u_market r)) ||
                         (if grants r a p then store_has (ws_after s) m a p
                          else if revokes r a p then negb (store_has (ws_after s) m a p) else true)) universe)
             "prop:grant_or_revocation_not_in_effect"
       else
         (* (a request that fails inside UpdatePermissions may have written earlier items into its own
            branch, which the runtime discards: only a request stopped by the guard must not write) *)
         (if endpoint_allowed "MarketManagePermissions" auth st (u_market r) admin then []
          else tag (negb (ws_wrote s)) "prop:rejected_call_wrote_state") ++
         tag (store_agrees universe st (ws_after s)) "prop:rejected_request_changed_grants")
  | WCreate caller c =>
      (if ws_ok s then
         tag (N.eqb caller auth) "prop:market_created_by_non_authority" ++
         tag (forallb (fun g => let '(m, a, p) := g in
                         if N.eqb m (c_market c) then Bool.eqb (store_has (ws_after s) m a p) (lists_grant c a p)
                         else Bool.eqb (store_has (ws_after s) m a p) (store_has st m a p)) universe)
             "prop:new_market_grants_differ_from_request"
       else tag (negb (ws_wrote s)) "prop:rejected_call_wrote_state" ++
            tag (store_agrees universe st (ws_after s)) "prop:rejected_request_changed_grants")
  | WQuery name a c =>
      tag (negb (ws_wrote s)) "prop:query_wrote_state" ++
      tag (store_agrees universe st (ws_after s)) "prop:query_changed_grants"
  end.

Fixpoint check_world (i : N) (auth : N) (universe : list grant) (w : world) (steps : list world_step) : list string :=
  match steps with
  | [] => []
  | s :: r =>
      match check_world_step auth universe w s with
      | [] => check_world (N.succ i) auth universe (fst (wstep auth w (ws_op s))) r
      | e => map (fun t => (t ++ " @step " ++ N_to_string i)%string) e
      end
  end.

(* ------------------------------------------------------------------ commitment settings histories *)

Definition mconf_eqb (a b : mconf) : bool :=
  Bool.eqb (mc_accepting a) (mc_accepting b) && Bool.eqb (mc_bips a) (mc_bips b)
  && Bool.eqb (mc_cfee a) (mc_cfee b) && Bool.eqb (mc_denom a) (mc_denom b).

Definition check_commit_step (auth : N) (st : store) (m : N) (c : mconf) (s : commit_obs) : list string :=
  let '(c', ok) := commit_step auth st m c (co_op s) in
  tag (Bool.eqb ok (co_ok s)) "corr:commit_step_outcome" ++
  tag (mconf_eqb c' (co_after s)) "corr:market_settings_after" ++
  (if co_ok s then
     match co_op s with
     | CoAccepting caller new_allow =>
         tag (N.eqb caller auth || store_has st m caller PUpdate) "prop:passed_without_documented_permission" ++
         (* documented: to START accepting commitments the market needs settlement bips or a creation fee;
            without them the switch is the governance authority's *)
         tag (N.eqb caller auth || negb new_allow || mc_bips c || mc_cfee c)
             "prop:commitments_enabled_without_commitment_fees_by_non_authority"
     | CoDenom caller _ =>
         tag (N.eqb caller auth || store_has st m caller PUpdate) "prop:passed_without_documented_permission"
     | CoFees caller _ _ _ _ => tag (N.eqb caller auth) "prop:non_authority_accepted_on_governance_endpoint"
     end
   else
     tag (mconf_eqb c (co_after s)) "prop:rejected_request_changed_market_settings" ++
     (* only a request stopped before any write is looked at (the runtime drops the branch anyway) *)
     match co_op s with
     | CoFees _ _ _ _ _ => tag (negb (co_wrote s)) "prop:rejected_call_wrote_state"
     | _ => []
     end).

Fixpoint check_commit (i : N) (auth : N) (st : store) (m : N) (c : mconf) (steps : list commit_obs) : list string :=
  match steps with
  | [] => []
  | s :: r =>
      match check_commit_step auth st m c s with
      | [] => check_commit (N.succ i) auth st m (fst (commit_step auth st m c (co_op s))) r
      | e => map (fun t => (t ++ " @step " ++ N_to_string i)%string) e
      end
  end.

Definition known_query_row (module endpoint : string) : bool :=
  existsb (fun r => (qh_module r =? module) && (qh_endpoint r =? endpoint)) gen_query_handlers.

Definition documented_use (module endpoint : string) : bool :=
  existsb (fun d => (fst (fst d) =? module) && (snd (fst d) =? endpoint)) documented_authority_uses.

Definition module_known (module : string) : bool :=
  existsb (fun r => gv_module r =? module) gen_gov_endpoints.

Definition exception_guard (module request : string) : option gov_guard :=
  match find (fun r => (gv_module r =? module) && (gv_request r =? request)) gen_gov_endpoints with
  | Some r => exception_of r
  | None => None
  end.

Definition row_rejects_all (module request : string) : bool :=
  match find (fun r => (gv_module r =? module) && (gv_request r =? request)) gen_gov_endpoints with
  | Some r => match gv_guard r with GvReject => true | _ => false end
  | None => false
  end.

Definition check (c : case) : list string :=
  match c with
  | CCommit auth st m c0 steps => check_commit 0 auth st m c0 steps
  | CNestedTrigger module request inner_kind depth control created target_changed =>
      if control then tag (created && target_changed) "corr:nested_trigger_control_did_not_run"
      else tag (negb created) "prop:nested_trigger_naming_foreign_authority_accepted" ++
           tag (negb target_changed) "prop:state_changed_by_foreign_message_through_nested_trigger"
  | CWorld auth w0 universe steps => check_world 0 auth universe w0 steps
  | CQuery module endpoint ran wrote stranger_accepted =>
      (if existsb (fun r => qh_module r =? module) gen_query_handlers
       then tag (known_query_row module endpoint) "corr:query_missing_from_generated_table" else []) ++
      (if (module =? "exchange") && query_branches endpoint then tag (negb wrote) "corr:query_effect" else []) ++
      tag (negb wrote) "prop:query_wrote_state" ++
      tag (negb stranger_accepted) "prop:stranger_accepted_after_query"
  | CAuthString module request variant same_address obs =>
      (if same_address then
         (if module =? "exchange" then tag obs "corr:authority_string_variant" else [])
       else tag (negb obs) "prop:non_authority_string_accepted")
  | CKeeperAuthority module is_gov => tag is_gov "corr:keeper_authority_is_not_the_gov_account"
  | CGovWrapped module request wrapper by_authority obs wrote =>
      if by_authority then []
      else tag (negb obs) "prop:governance_message_accepted_from_non_authority_through_wrapper" ++
           tag (negb wrote) "prop:rejected_call_wrote_state"
  | CAuthUse module endpoint kind obs wrote =>
      tag (documented_use module endpoint) "corr:not_a_documented_authority_use" ++
      (if kind =? "stranger" then
         tag (negb obs) "prop:stranger_accepted_on_restricted_endpoint" ++
         tag (negb wrote) "prop:rejected_call_wrote_state"
       else tag obs "corr:rightful_caller_rejected")
  | CMatrix ep auth st market caller obs wrote =>
      tag (Bool.eqb obs (endpoint_allowed ep auth st market caller)) "corr:endpoint_allowed" ++
      (if obs then tag (req_holds_b (documented_requirement ep) auth st market caller)
                       "prop:passed_without_documented_permission"
       else tag (negb wrote) "prop:rejected_call_wrote_state")
  | CCross ep auth st req_market item_market caller changed =>
      tag (Bool.eqb changed (item_changed ep auth st req_market item_market caller)) "corr:item_changed" ++
      (if changed then tag (req_holds_b (documented_requirement ep) auth st item_market caller)
                           "prop:item_of_market_changed_without_permission_on_that_market"
       else [])
  | CCancel auth st o signer obs still_there =>
      tag (Bool.eqb obs (snd (cancel_order auth st [o] (o_id o) signer))) "corr:cancel_order" ++
      (if obs then
         tag (N.eqb signer (o_owner o) || N.eqb signer auth || store_has st (o_market o) signer PCancel)
             "prop:order_cancelled_by_stranger"
       else tag still_there "prop:rejected_cancel_removed_order")
  | CPayment st op obs after => check_payment st op obs after
  | CPayHist st0 steps => check_pay_hist 0 st0 steps
  | CManage auth st0 universe steps => check_manage 0 auth universe st0 steps
  | CGov module request is_authority obs wrote =>
      (if module_known module then tag (known_request module request) "corr:authority_request_missing_from_generated_table" else []) ++
      (if is_authority then
         (* a deprecated endpoint (body = unconditional error) rejects the authority too *)
         (if row_rejects_all module request then tag (negb obs) "prop:deprecated_endpoint_accepted" else [])
       else
         match exception_guard module request with
         | Some (GvNone _) => []      (* documented as open to any signer *)
         | Some _ =>                  (* the unrelated signer holds no alternative right either *)
             tag (negb obs) "prop:stranger_accepted_on_restricted_endpoint" ++
             tag (negb wrote) "prop:rejected_call_wrote_state"
         | None =>
             (if known_request module request then tag (negb obs) "corr:gov_guard" else []) ++
             tag (negb obs) "prop:non_authority_accepted_on_governance_endpoint" ++
             tag (negb wrote) "prop:rejected_call_wrote_state"
         end)
  | CGovAlt module request obs =>
      match exception_guard module request with
      | Some (GvAuthorityOr _) | Some (GvOther _) => tag obs "corr:alternative_right_holder_rejected"
      | _ => ["corr:not_a_documented_exception"]
      end
  | CSigner msg field agrees => tag agrees "corr:signer_field"
  end.

Definition check_all := check_list check.
