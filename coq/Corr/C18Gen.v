(** Correspondence helpers for the exchange / marker / metadata genesis models (property C18):
    decidable equality of their genesis values, the external tables, and the model round trip
    that the checks of Corr/C18.v evaluate on what the real modules exported. *)
From Coq Require Import ZArith NArith List String Bool.
From PV Require Export Genesis.FullProduct Genesis.MarkerLifecycle Corr.CorrBase.
Import ListNotations.
Open Scope string_scope.
Open Scope list_scope.
Open Scope Z_scope.

Definition kq : key -> key -> bool := list_eqb N.eqb.
Definition coin_q (a b : coin) : bool := kq (fst a) (fst b) && (snd a =? snd b).
Definition coins_q : list coin -> list coin -> bool := list_eqb coin_q.
Definition keys_q : list key -> list key -> bool := list_eqb kq.
Definition raw_q : list (key * key) -> list (key * key) -> bool := list_eqb (pair_eqb kq kq).

(* ---------- exchange ---------- *)

Definition ratio_q (a b : ratio) : bool := coin_q (rt_price a) (rt_price b) && coin_q (rt_fee a) (rt_fee b).
Definition grant_q (a b : grant) : bool := kq (gr_addr a) (gr_addr b) && list_eqb N.eqb (gr_perms a) (gr_perms b).
Definition market_q (a b : market) : bool :=
  (mk_id a =? mk_id b)%N && kq (mk_details a) (mk_details b) &&
  coins_q (mk_ask_flat a) (mk_ask_flat b) && coins_q (mk_bid_flat a) (mk_bid_flat b) &&
  coins_q (mk_seller_flat a) (mk_seller_flat b) && coins_q (mk_buyer_flat a) (mk_buyer_flat b) &&
  coins_q (mk_commit_flat a) (mk_commit_flat b) &&
  list_eqb ratio_q (mk_seller_ratios a) (mk_seller_ratios b) &&
  list_eqb ratio_q (mk_buyer_ratios a) (mk_buyer_ratios b) &&
  Bool.eqb (mk_accepting_orders a) (mk_accepting_orders b) && Bool.eqb (mk_user_settle a) (mk_user_settle b) &&
  Bool.eqb (mk_accepting_commitments a) (mk_accepting_commitments b) &&
  list_eqb grant_q (mk_grants a) (mk_grants b) &&
  keys_q (mk_req_ask a) (mk_req_ask b) && keys_q (mk_req_bid a) (mk_req_bid b) &&
  keys_q (mk_req_commit a) (mk_req_commit b) &&
  (mk_bips a =? mk_bips b)%N && kq (mk_intermediary a) (mk_intermediary b).
Definition order_q (a b : order) : bool :=
  (od_id a =? od_id b)%N && Bool.eqb (od_bid a) (od_bid b) && (od_market a =? od_market b)%N &&
  kq (od_owner a) (od_owner b) && coin_q (od_assets a) (od_assets b) && coin_q (od_price a) (od_price b) &&
  coins_q (od_fees a) (od_fees b) && Bool.eqb (od_partial a) (od_partial b) && kq (od_ext a) (od_ext b).
Definition commitment_q (a b : commitment) : bool :=
  (cm_market a =? cm_market b)%N && kq (cm_addr a) (cm_addr b) && coins_q (cm_amount a) (cm_amount b).
Definition payment_q (a b : payment) : bool :=
  kq (py_source a) (py_source b) && coins_q (py_source_amt a) (py_source_amt b) &&
  kq (py_target a) (py_target b) && coins_q (py_target_amt a) (py_target_amt b) && kq (py_ext a) (py_ext b).
Definition xparams_q (a b : xparams) : bool :=
  (xp_default a =? xp_default b)%N && list_eqb (pair_eqb kq N.eqb) (xp_splits a) (xp_splits b) &&
  coins_q (xp_fee_create a) (xp_fee_create b) && coins_q (xp_fee_accept a) (xp_fee_accept b).
Definition exch_genesis_q (a b : exch_genesis) : bool :=
  opt_eqb xparams_q (xg_params a) (xg_params b) && list_eqb market_q (xg_markets a) (xg_markets b) &&
  list_eqb order_q (xg_orders a) (xg_orders b) && (xg_last_market a =? xg_last_market b)%N &&
  (xg_last_order a =? xg_last_order b)%N && list_eqb commitment_q (xg_commitments a) (xg_commitments b) &&
  list_eqb payment_q (xg_payments a) (xg_payments b).

(* ---------- marker ---------- *)

Definition access_q (a b : access) : bool := kq (ac_addr a) (ac_addr b) && list_eqb N.eqb (ac_perms a) (ac_perms b).
Definition marker_q (a b : marker) : bool :=
  kq (mr_addr a) (mr_addr b) && (mr_accnum a =? mr_accnum b)%N && (mr_seq a =? mr_seq b)%N &&
  kq (mr_manager a) (mr_manager b) && list_eqb access_q (mr_access a) (mr_access b) &&
  (mr_status a =? mr_status b)%N && kq (mr_denom a) (mr_denom b) && (mr_supply a =? mr_supply b) &&
  (mr_type a =? mr_type b)%N && Bool.eqb (mr_fixed a) (mr_fixed b) && Bool.eqb (mr_gov a) (mr_gov b) &&
  Bool.eqb (mr_forced a) (mr_forced b) && keys_q (mr_req a) (mr_req b).
Definition mnav_q (a b : mnav) : bool :=
  kq (nv_denom a) (nv_denom b) && (nv_amount a =? nv_amount b) && (nv_volume a =? nv_volume b)%N &&
  (nv_height a =? nv_height b)%N.
Definition marker_genesis_q (a b : marker_genesis) : bool :=
  kq (mkg_params a) (mkg_params b) && list_eqb marker_q (mkg_markers a) (mkg_markers b) &&
  list_eqb (pair_eqb kq kq) (mkg_deny a) (mkg_deny b) &&
  list_eqb (pair_eqb kq (list_eqb mnav_q)) (mkg_navs a) (mkg_navs b).

(* ---------- metadata ---------- *)

Definition party_q (a b : party) : bool :=
  kq (pt_addr a) (pt_addr b) && (pt_role a =? pt_role b)%N && Bool.eqb (pt_optional a) (pt_optional b).
Definition scope_q (a b : scope) : bool :=
  kq (sc_id a) (sc_id b) && kq (sc_spec a) (sc_spec b) && list_eqb party_q (sc_owners a) (sc_owners b) &&
  keys_q (sc_access a) (sc_access b) && kq (sc_vo a) (sc_vo b) && Bool.eqb (sc_rollup a) (sc_rollup b).
Definition session_q (a b : session) : bool := kq (se_id a) (se_id b) && kq (se_body a) (se_body b).
Definition mrecord_q (a b : mrecord) : bool :=
  kq (rc_session a) (rc_session b) && kq (rc_name a) (rc_name b) && kq (rc_body a) (rc_body b).
Definition sspec_q (a b : sspec) : bool :=
  kq (ss_id a) (ss_id b) && keys_q (ss_owners a) (ss_owners b) && keys_q (ss_cspecs a) (ss_cspecs b) &&
  kq (ss_body a) (ss_body b).
Definition cspec_q (a b : cspec) : bool :=
  kq (cs_id a) (cs_id b) && keys_q (cs_owners a) (cs_owners b) && kq (cs_body a) (cs_body b).
Definition rspec_q (a b : rspec) : bool := kq (rs_id a) (rs_id b) && kq (rs_body a) (rs_body b).
Definition locator_q (a b : locator) : bool :=
  kq (lo_owner a) (lo_owner b) && kq (lo_uri a) (lo_uri b) && kq (lo_enc a) (lo_enc b).
Definition snav_q (a b : snav) : bool :=
  kq (sn_denom a) (sn_denom b) && (sn_amount a =? sn_amount b) && (sn_volume a =? sn_volume b)%N &&
  (sn_height a =? sn_height b)%N.
Definition md_genesis_q (a b : md_genesis) : bool :=
  kq (mg_params' a) (mg_params' b) && list_eqb scope_q (mg_scopes a) (mg_scopes b) &&
  list_eqb session_q (mg_sessions a) (mg_sessions b) && list_eqb mrecord_q (mg_records a) (mg_records b) &&
  list_eqb sspec_q (mg_sspecs a) (mg_sspecs b) && list_eqb cspec_q (mg_cspecs a) (mg_cspecs b) &&
  list_eqb rspec_q (mg_rspecs a) (mg_rspecs b) && list_eqb locator_q (mg_locators a) (mg_locators b) &&
  list_eqb (pair_eqb kq (list_eqb snav_q)) (mg_navs a) (mg_navs b).

(* ---------- the three modules together ---------- *)

Record deep_genesis := { dg_exch : exch_genesis; dg_marker : marker_genesis; dg_md : md_genesis }.
(** raw secondary-index entries read from the real stores (key bytes, value bytes), in store order *)
Record deep_index := { di_exch : list (key * key); di_marker : list (key * key); di_md : list (key * key) }.

(** what the models take from outside, as tables filled by the harness *)
Record deep_tables := {
  dt_held : list (key * key * Z);            (* (account, denom) -> amount on hold when the exchange module starts *)
  dt_pre_markers : list marker;              (* MarkerAccounts listed in the auth genesis (none after app/export.go) *)
  dt_accnums : list (key * N);               (* address -> account number, every account of the auth genesis *)
  dt_next_acc : N;
  dt_rec_addrs : list (key * key * key);     (* (session id, record name) -> record address *)
  dt_vo0 : list (key * key);                 (* scope id -> holder of the scope coin in the bank genesis *)
  dt_blocked : list key;                     (* addresses the bank does not let receive funds *)
  dt_state_markers : list marker }.          (* the marker accounts as STORED on the exporting chain (registry order) *)

Fixpoint find2 {V} (l : list (key * key * V)) (k1 k2 : key) : option V :=
  match l with
  | [] => None
  | (a, b, v) :: r => if kq k1 a && kq k2 b then Some v else find2 r k1 k2
  end.

Definition held_fn (t : deep_tables) (a d : key) : Z := match find2 (dt_held t) a d with Some z => z | None => 0 end.
Definition pre_table (t : deep_tables) : table marker :=
  tbuild (map (fun m => (k_account (mr_addr m), m)) (dt_pre_markers t)).
Fixpoint find1 {V} (l : list (key * V)) (k : key) : option V :=
  match l with
  | [] => None
  | (a, v) :: r => if kq k a then Some v else find1 r k
  end.
Definition accnum_fn (t : deep_tables) (a : key) : option N := find1 (dt_accnums t) a.
Definition vo0_table (t : deep_tables) : table key := tbuild (dt_vo0 t).
Definition rec_addr_fn (t : deep_tables) (sess name : key) : option key := find2 (dt_rec_addrs t) sess name.
Definition blocked_fn (t : deep_tables) (a : key) : bool := existsb (kq a) (dt_blocked t).

Definition exch_model (t : deep_tables) (g : exch_genesis) : option (exch_genesis * list (key * key)) :=
  match exch_import (held_fn t) g with
  | Some s => Some (exch_export s, xs_index s)
  | None => None
  end.
Definition marker_model (t : deep_tables) (g : marker_genesis) : option (marker_genesis * list (key * key)) :=
  match marker_import (fun _ => true) (fun _ => true) (pre_table t) (accnum_fn t) (dt_next_acc t) g with
  | Some s => match marker_export s with Some g' => Some (g', mks_index s) | None => None end
  | None => None
  end.
Definition md_model (t : deep_tables) (g : md_genesis) : option (md_genesis * list (key * key)) :=
  match md_import (rec_addr_fn t) (blocked_fn t) (fun _ _ _ => true) (fun _ => true) (vo0_table t) g with
  | Some s => Some (md_export s, md_index s)
  | None => None
  end.

(** the premise of the theorems that the implementation's own state must meet: the secondary
    index entries read from the store are the ones the exported primary records give rise to *)
Definition exch_derived (g : exch_genesis) : list (key * key) :=
  set_all (flat_map (fun p => payment_add p None) (xg_payments g))
          (tbuild (flat_map (fun o => order_add o None) (xg_orders g))).
Definition marker_derived (g : marker_genesis) : list (key * key) :=
  tbuild (map (fun m => (k_marker (mr_addr m), mr_addr m)) (mkg_markers g)).
Definition md_derived (g : md_genesis) : list (key * key) :=
  set_all (flat_map (fun x => cspec_add x None) (mg_cspecs g))
    (set_all (flat_map (fun x => sspec_add x None) (mg_sspecs g))
       (tbuild (flat_map (fun x => scope_add x None) (mg_scopes g)))).

Definition module_round {G} (name : string) (eqb : G -> G -> bool)
           (model : G -> option (G * list (key * key))) (derived : G -> list (key * key))
           (g1 g2 : G) (ix1 ix2 : list (key * key)) : list string :=
  (match model g1 with
   | None => [("corr:model_import_rejects_real_export:" ++ name)%string]
   | Some (g', ix') =>
       tag (eqb g' g1) ("corr:model_export_of_import:" ++ name)%string ++
       tag (raw_q ix' ix2) ("corr:model_index_vs_imported_store:" ++ name)%string
   end) ++
  tag (raw_q (derived g1) ix1) ("corr:premise_index_is_derived:" ++ name)%string ++
  tag (eqb g1 g2) ("prop:export_after_import_differs:" ++ name)%string ++
  tag (raw_q ix1 ix2) ("prop:index_differs_after_import:" ++ name)%string.

(** every field of every stored marker account is exported as it is stored (sequence 0), whatever
    the marker's status: the manager of a marker cancelled before it ever was active included *)
Definition export_is_state (t : deep_tables) (g : marker_genesis) : list string :=
  tag (list_eqb marker_q (map exported (dt_state_markers t)) (mkg_markers g))
      "prop:exported_marker_differs_from_stored_account".

Definition deep_round (t : deep_tables) (g1 g2 : deep_genesis) (ix1 ix2 : deep_index) : list string :=
  export_is_state t (dg_marker g1) ++
  module_round "exchange" exch_genesis_q (exch_model t) exch_derived (dg_exch g1) (dg_exch g2) (di_exch ix1) (di_exch ix2) ++
  module_round "marker" marker_genesis_q (marker_model t) marker_derived (dg_marker g1) (dg_marker g2) (di_marker ix1) (di_marker ix2) ++
  module_round "metadata" md_genesis_q (md_model t) md_derived (dg_md g1) (dg_md g2) (di_md ix1) (di_md ix2).

Definition module_import {G} (name : string) (eqb : G -> G -> bool)
           (model : G -> option (G * list (key * key))) (g : G) (obs : option (G * list (key * key))) : list string :=
  match model g, obs with
  | None, None => []
  | Some (g', ix'), Some (o, ixo) =>
      tag (eqb g' o) ("corr:perturbed_import_state:" ++ name)%string ++
      tag (raw_q ix' ixo) ("corr:perturbed_import_index:" ++ name)%string
  | None, Some _ => [("corr:perturbed_import_model_rejects:" ++ name)%string]
  | Some _, None => [("corr:perturbed_import_model_accepts:" ++ name)%string]
  end.
