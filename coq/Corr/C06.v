(** Correspondence + property checker for C06 (sanctioned accounts cannot move funds; sanction
    status follows governance).

    A case is a whole history run against the real gov + sanction + bank modules: the operations
    with, after each one, what the implementation shows: accepted/rejected, the IsSanctioned
    answer for every address of the universe, the permanent and temporary listings of the
    sanction query server, the proposals still in deposit/voting period according to the gov
    keeper, the balances, the sanction params.

    corr:*  the model (Sanction/Sanction.v) and the implementation disagree on an observable.
    prop:*  the property's own checker fails on the implementation's observations alone. *)
From Coq Require Import ZArith NArith List String Bool.
From PV Require Export Sanction.Sanction Sanction.Keys Corr.CorrBase.
Import ListNotations.
Open Scope string_scope.
Open Scope list_scope.
Open Scope Z_scope.

Record obs := {
  o_ok : bool;
  o_sanct : list N;            (* addresses of the universe for which IsSanctioned = true *)
  o_perm : list N;             (* SanctionedAddresses listing *)
  o_temps : list entry;        (* TemporaryEntries listing *)
  o_live : list N;             (* proposals in deposit or voting period (gov keeper) *)
  o_pinfo : list (N * (bool * bool)); (* of each of those: (in voting period, expedited) *)
  o_passed : list N;           (* proposals that left that set in this step with final status PASSED *)
  o_deps : list (N * amt2);    (* TotalDeposit of each of those proposals (denom A, denom B) *)
  o_bals : list (N * Z);       (* balances of the user accounts, denom A *)
  o_balsb : list (N * Z);      (* balances of the user accounts, denom B *)
  o_smin : amt2; o_umin : amt2 }.

Definition lookup_bal (l : list (N * Z)) (a : N) : Z :=
  match find (fun e => N.eqb (fst e) a) l with Some (_, v) => v | None => 0 end.

Definition lookup_dep (l : list (N * amt2)) (p : N) : amt2 :=
  match find (fun e => N.eqb (fst e) p) l with Some (_, v) => v | None => (0, 0) end.

Definition amt2_eqb (x y : amt2) : bool := Z.eqb (fst x) (fst y) && Z.eqb (snd x) (snd y).

Definition subsetN (x y : list N) : bool := forallb (fun a => memN a y) x.
Definition same_set (x y : list N) : bool := subsetN x y && subsetN y x.

Definition temps_agree (model : list entry) (seen : list entry) : bool :=
  forallb (fun e => let '(a, p, b) := e in opt_eqb Bool.eqb (temp_lookup a p model) (Some b)) seen &&
  forallb (fun e => let '(a, p, _) := e in
                    match temp_lookup a p seen with Some _ => true | None => false end) model.

(** ** The property's checker on observations *)

(** The status the observed listings imply: the temporary entry of the highest-numbered
    proposal that has one for the address, else the permanent listing. *)
Definition status_from_listings (ob : obs) (a : N) : bool :=
  match latest_temp a (o_temps ob) with
  | Some (_, b) => b
  | None => memN a (o_perm ob)
  end.

Definition protected_clean (unsanctionable : list N) (ob : obs) : bool :=
  forallb (fun a => negb (memN a (o_sanct ob)) && negb (memN a (o_perm ob)) &&
                    forallb (fun e => let '(a', _, b) := e in negb (N.eqb a a' && b)) (o_temps ob))
          unsanctionable.

(** Temporary entries whose proposal is no longer in deposit or voting period. *)
Definition stale_pids (ob : obs) : list N :=
  map (fun e => let '(_, p, _) := e in p)
      (filter (fun e => let '(_, p, _) := e in negb (memN p (o_live ob))) (o_temps ob)).

(** Temporary entries that are new (or whose value changed) in this step.  They may only come
    from the hook of an accepted submission / deposit, and only when the proposal's total deposit
    covers the WHOLE immediate minimum of the entry's kind (every denom of it), the minimum being
    non-empty. *)
Definition new_entries (prev ob : obs) : list entry :=
  filter (fun e : entry => let '(a, p, b) := e in negb (opt_eqb Bool.eqb (temp_lookup a p (o_temps prev)) (Some b)))
         (o_temps ob).

Definition lookup_pinfo (l : list (N * (bool * bool))) (p : N) : bool * bool :=
  match find (fun e => N.eqb (fst e) p) l with Some (_, v) => v | None => (false, false) end.

(** ... or from the hook call the gov EndBlocker makes when it converts an expedited proposal
    that did not pass into a regular one (the proposal is then still live, was expedited before
    the step and is regular after it; the immediate minimum may have been changed by a proposal
    that passed in the same block, so either value is accepted). *)
Definition new_entries_funded (prev : obs) (o : op) (ob : obs) : bool :=
  forallb (fun e : entry => let '(_, p, b) := e in
                    let thr := if b : bool then o_smin ob else o_umin ob in
                    let thr0 := if b : bool then o_smin prev else o_umin prev in
                    match o with
                    | OSubmit _ _ _ _ _ _ | ODeposit _ _ _ _ =>
                        o_ok ob && negb (zero2 thr) && le2 thr (lookup_dep (o_deps ob) p)
                    | ONewBlock _ _ =>
                        o_ok ob && memN p (o_live ob) &&
                        snd (lookup_pinfo (o_pinfo prev) p) && negb (snd (lookup_pinfo (o_pinfo ob) p)) &&
                        ((negb (zero2 thr) && le2 thr (lookup_dep (o_deps ob) p)) ||
                         (negb (zero2 thr0) && le2 thr0 (lookup_dep (o_deps ob) p)))
                    | _ => false
                    end)
          (new_entries prev ob).

(** Addresses named by the sanction / unsanction messages of a proposal. *)
Definition msgs_addrs (ms : list msg) : list N :=
  flat_map (fun m => match m with MSanction l => l | MUnsanction l => l | MParams _ _ => [] end) ms.

Definition reg_msgs (reg : list (N * list msg)) (p : N) : list msg :=
  match find (fun e => N.eqb (fst e) p) reg with Some (_, ms) => ms | None => [] end.

(** "A resolution cleans exactly its own entries": a temporary entry of a proposal that is still
    live after the step may disappear only because a proposal naming its address PASSED in this
    step (a passed proposal deletes every temporary entry of the addresses it names, by design;
    an expired, rejected or failed one deletes nothing but its own entries) or because a sanction
    message for its address was executed directly. *)
Definition others_kept (reg : list (N * list msg)) (prev : obs) (o : op) (ob : obs) : bool :=
  let passed := filter (fun p => memN p (o_passed ob)) (o_live prev) in
  let touched := match o with
                 | ONewBlock _ _ => flat_map (fun p => msgs_addrs (reg_msgs reg p)) passed
                 | ODirect true m => msgs_addrs [m]
                 | _ => []
                 end in
  forallb (fun e : entry => let '(a, q, _) := e in
             negb (memN q (o_live ob)) ||
             match temp_lookup a q (o_temps ob) with Some _ => true | None => false end ||
             memN a touched)
          (o_temps prev).

Definition known_cancel_tag : string := "prop:cancelled proposal leaves temporary sanction entries in force".

Definition at_step (i : N) (t : string) : string := t ++ " @step " ++ N_to_string i.

(** A transfer whose only input is [from]: must be accepted when the sender is not sanctioned
    and has the funds, whatever the receiver's status; likewise a payout from a module account. *)
Definition inflow_must_succeed (prev : obs) (o : op) : bool :=
  match o with
  | OSend from to amt =>
      (0 <? amt) && (amt <=? lookup_bal (o_bals prev) from) && negb (memN from (o_sanct prev)) &&
      memN to (o_sanct prev)
  | OFund to amt => (0 <=? amt) && memN to (o_sanct prev)
  | _ => false
  end.

Definition prop_checks (unsanctionable universe users : list N) (cancelled : list N)
           (reg : list (N * list msg)) (prev : obs) (o : op) (ob : obs) : list string :=
  tag (forallb (fun a => Bool.eqb (memN a (o_sanct ob)) (status_from_listings ob a)) universe)
      "prop:sanction status is not what the latest temporary entry / permanent entry says" ++
  tag (protected_clean unsanctionable ob) "prop:protected account sanctioned" ++
  tag (forallb (fun a => negb (memN a (o_sanct prev)) ||
                         ((lookup_bal (o_bals prev) a <=? lookup_bal (o_bals ob) a) &&
                          (lookup_bal (o_balsb prev) a <=? lookup_bal (o_balsb ob) a))) users)
      "prop:balance of a sanctioned account decreased" ++
  tag (new_entries_funded prev o ob)
      "prop:temporary entry created although the deposit does not cover the whole immediate minimum" ++
  tag (negb (inflow_must_succeed prev o) || o_ok ob) "prop:transfer to a sanctioned account rejected" ++
  tag (match o with ONewBlock _ _ => o_ok ob | _ => true end) "prop:governance end blocker failed" ++
  tag (others_kept reg prev o ob) "prop:temporary entry of another live proposal removed" ++
  tag (match o with ODirect false _ => negb (o_ok ob) | _ => true end)
      "prop:sanction message accepted without the governance authority" ++
  tag (forallb (fun p => memN p cancelled) (stale_pids ob))
      "prop:temporary entries of a resolved proposal remain in force".

Definition corr_checks (c : config) (universe users : list N) (s' : state) (ob : obs) : list string :=
  tag (forallb (fun a => Bool.eqb (is_sanctioned c s' a) (memN a (o_sanct ob))) universe) "corr:is_sanctioned" ++
  tag (same_set (perm s') (o_perm ob)) "corr:permanent listing" ++
  tag (temps_agree (temps s') (o_temps ob)) "corr:temporary listing" ++
  tag (same_set (map p_id (props s')) (o_live ob)) "corr:live proposals" ++
  tag (forallb (fun pr => let '(v, e) := lookup_pinfo (o_pinfo ob) (p_id pr) in
                          Bool.eqb v (is_voting pr) && Bool.eqb e (p_expedited pr)) (props s'))
      "corr:proposal status / expedited flag" ++
  tag (forallb (fun pr => amt2_eqb (total_deposit pr) (lookup_dep (o_deps ob) (p_id pr))) (props s')) "corr:total deposits" ++
  tag (forallb (fun a => Z.eqb (bal s' a) (lookup_bal (o_bals ob) a) && Z.eqb (balb s' a) (lookup_bal (o_balsb ob) a)) users) "corr:balances" ++
  tag (amt2_eqb (smin s') (o_smin ob) && amt2_eqb (umin s') (o_umin ob)) "corr:params".

(** The known finding (a cancelled proposal's entries stay) is recorded once and does not stop
    the checking of the rest of the history: it is reported (alone) only when nothing else fails
    anywhere in the history; otherwise the first step with any other failure is reported. *)
Fixpoint check_hist (c : config) (universe users : list N) (s : state) (prev : obs)
         (cancelled : list N) (reg : list (N * list msg)) (i : N) (known : list string)
         (steps : list (op * obs)) : list string :=
  match steps with
  | [] => known
  | (o, ob) :: rest =>
      let '(s', ok) := step c s o in
      let cancelled' := match o with
                        | OCancel _ pid => if o_ok ob then pid :: cancelled else cancelled
                        | _ => cancelled
                        end in
      let reg' := match o with
                  | OSubmit _ ms _ _ _ _ =>
                      if o_ok ob then map (fun p => (p, ms)) (filter (fun p => negb (memN p (o_live prev))) (o_live ob)) ++ reg
                      else reg
                  | _ => reg
                  end in
      let errs := tag (Bool.eqb ok (o_ok ob)) "corr:accepted/rejected" ++
                  corr_checks c universe users s' ob ++
                  prop_checks (c_unsanct c) universe users cancelled' reg' prev o ob in
      let kn1 := if existsb (fun p => memN p cancelled') (stale_pids ob)
                 then [known_cancel_tag] else [] in
      let known'' := match known with [] => map (at_step i) kn1 | _ => known end in
      match errs with
      | [] => check_hist c universe users s' ob cancelled' reg' (N.succ i) known'' rest
      | e => map (at_step i) e
      end
  end.

Definition bal_of (l : list (N * Z)) : N -> Z := fun a => lookup_bal l a.

(** ** Route matrix.  One account (id 0) whose sanction status was brought about through the
    real modules in some way ([how]: not at all / permanently / temporarily by a live proposal /
    permanently but temporarily unsanctioned ...) attempts to move [amt] out of its balance
    [before] by the named route (bank send, multi-send, delegation, gov deposit, fee transfer,
    marker transfer by the holder, forced marker transfer by an administrator on its behalf ...).
    [sanctioned] is the implementation's IsSanctioned answer before the attempt. *)
Definition route_config : config :=
  {| c_unsanct := []; c_gov_min := (1, 0); c_exp_min := (5, 0); c_thr := 500; c_exp_thr := 667; c_veto := 334;
     c_burn_veto := true; c_burn_quorum := false; c_burn_prevote := false |}.

Definition model_route (sanctioned : bool) (before amt : Z) : bool * Z :=
  let c := route_config in
  let s0 := init (0, 0) (0, 0) 1%N 0 (fun _ => before) (fun _ => 0) in
  let s1 := if sanctioned then set_perm s0 [0%N] else s0 in
  let '(s2, ok) := step c s1 (OPayFee 0%N amt) in
  (ok, bal s2 0%N).

(** Routes that take nothing out of the watched account's balance (an undelegation, a reward
    withdrawal, a released hold, a quarantine payout of funds it sent earlier): the model has no
    debit for them, so they are accepted whatever the account's status; the property only asks
    that the balance does not go down. *)
Definition check_flow (name how : string) (sanctioned : bool) (before : Z) (ok : bool) (after : Z) : list string :=
  let w := (name ++ " (" ++ how ++ ")")%string in
  tag ok ("corr:route without a debit rejected: " ++ w)%string ++
  tag (negb sanctioned || (before <=? after)) ("prop:balance of a sanctioned account decreased via " ++ w)%string.

Definition check_route (name how : string) (sanctioned : bool) (before amt : Z) (ok : bool) (after : Z)
  : list string :=
  let w := (name ++ " (" ++ how ++ ")")%string in
  let '(mok, mafter) := model_route sanctioned before amt in
  tag (Bool.eqb mok ok) ("corr:route accepted/rejected: " ++ w)%string ++
  tag (Z.eqb mafter after) ("corr:route balance: " ++ w)%string ++
  tag (negb sanctioned || (before <=? after)) ("prop:balance of a sanctioned account decreased via " ++ w)%string ++
  tag (negb sanctioned || negb ok) ("prop:sanctioned account moved funds via " ++ w)%string ++
  tag (sanctioned || negb ((0 <? amt) && (amt <=? before)) || (ok && Z.eqb after (before - amt)))
      ("prop:unsanctioned account could not move its funds via " ++ w)%string.

(** ** Store keys.  The key constructors of x/sanction/keeper/keys.go on one address and proposal
    id, compared byte for byte with Sanction/Keys.v. *)
Definition bytes_same (x y : bytes) : bool := bytes_eqb x y.

Definition check_keys (addr : bytes) (pid : N) (pk tp tk ip ik : bytes) : list string :=
  tag (bytes_same (perm_key addr) pk) "corr:CreateSanctionedAddrKey" ++
  tag (bytes_same (temp_prefix addr) tp) "corr:CreateTemporaryAddrPrefix" ++
  tag (bytes_same (temp_key addr pid) tk) "corr:CreateTemporaryKey" ++
  tag (bytes_same (index_prefix pid) ip) "corr:CreateProposalTempIndexPrefix" ++
  tag (bytes_same (index_key pid addr) ik) "corr:CreateProposalTempIndexKey" ++
  tag (has_prefix tp tk && has_prefix ip ik) "prop:a key does not lie under its own prefix".

(** ** Raw store.  The whole sanction store of the real app at the end of a history (keys with
    the prefixes 0x01 / 0x02 / 0x03 and their one-byte values), the address bytes of the universe
    with the IsSanctioned answer for each, and the TemporaryEntries listing (address bytes,
    proposal id, value byte). *)
Definition kv_in (k : bytes) (v : N) (st : list kv) : bool :=
  existsb (fun e => bytes_eqb (fst e) k && N.eqb (snd e) v) st.

Definition check_store (unsanctionable : list bytes) (addrs : list (bytes * bool)) (raw : list kv)
           (listing : list (bytes * N * N)) : list string :=
  let temps_raw := filter (fun e => N.eqb (hd 0%N (fst e)) 2) raw in
  let index_raw := filter (fun e => N.eqb (hd 0%N (fst e)) 3) raw in
  tag (forallb (fun x => Bool.eqb (is_sanctioned_bytes unsanctionable raw (fst x)) (snd x)) addrs)
      "corr:IsSanctionedAddr on the raw store" ++
  tag (forallb (fun e => let '(a, p, v) := e in kv_in (temp_key a p) v temps_raw) listing &&
       Nat.eqb (List.length listing) (List.length temps_raw))
      "corr:temporary keys of the raw store" ++
  tag (forallb (fun e => let '(a, p, v) := e in kv_in (index_key p a) v index_raw) listing &&
       Nat.eqb (List.length listing) (List.length index_raw))
      "prop:proposal index and temporary entries of the store disagree" ++
  tag (forallb (fun e => let '(a, p, _) := e in
                         forallb (fun x => negb (has_prefix (temp_prefix (fst x)) (temp_key a p)) || bytes_eqb (fst x) a) addrs)
               listing)
      "prop:a temporary key lies under the prefix of another address".

Inductive case :=
| CKeys (addr : bytes) (pid : N) (pk tp tk ip ik : bytes)
| CStore (unsanctionable : list bytes) (addrs : list (bytes * bool)) (raw : list kv) (listing : list (bytes * N * N))
| CHist (c : config) (universe users : list N)
        (first_id : N) (t0 : Z) (ob0 : obs) (steps : list (op * obs))
| CRoute (name how : string) (sanctioned : bool) (before amt : Z) (ok : bool) (after : Z)
| CFlow (name how : string) (sanctioned : bool) (before : Z) (ok : bool) (after : Z).

Definition check (k : case) : list string :=
  match k with
  | CKeys addr pid pk tp tk ip ik => check_keys addr pid pk tp tk ip ik
  | CStore un addrs raw listing => check_store un addrs raw listing
  | CHist c universe users first_id t0 ob0 steps =>
      let s0 := init (o_smin ob0) (o_umin ob0) first_id t0 (bal_of (o_bals ob0)) (bal_of (o_balsb ob0)) in
      match corr_checks c universe users s0 ob0 ++
            prop_checks (c_unsanct c) universe users [] [] ob0 (OVote 0%N (1000, 0, 0, 0)) ob0 with
      | [] => check_hist c universe users s0 ob0 [] [] 1%N [] steps
      | e => map (at_step 0%N) e
      end
  | CRoute name how sanctioned before amt ok after => check_route name how sanctioned before amt ok after
  | CFlow name how sanctioned before ok after => check_flow name how sanctioned before ok after
  end.

Definition check_all := check_list check.
