(** Correspondence + property checker for C04 (marker send restriction).

    A [CSend] case is one abstract configuration as realised by the harness with the real
    keepers (the slice of the state the decision can depend on), the sender, receiver and coins,
    and what the implementation answered:
      [fn_ok]      Keeper.SendRestrictionFn returned no error
      [fn_same_to] ... and returned the receiver unchanged
      [singles]    its answers for each coin of the amount sent alone (same context)
      [send], [io], [deleg]  bank SendCoins / InputOutputCoins (one output) / DelegateCoins run
                   in a scratch copy of the state: not run, denied, or accepted with the balance
                   change (denom, sender delta, receiver delta) of every denom in the amount.
    The harness funds the sender, keeps it unsanctioned and the receiver unquarantined and
    without holds, so the bank accepts exactly when the marker restriction does and then moves
    exactly the amount (this bank behaviour is modelled here and checked by "corr:*_balances").
    "corr:*" tags compare with the code model, "prop:*" tags evaluate the documented rules and the
    property's "in particular" clauses on the implementation's own answer. *)
From Coq Require Import ZArith PArith NArith List String Bool Ascii.
From PV Require Export Marker.SendRestr Marker.SendRestrSpec Corr.CorrBase.
Import ListNotations.
Open Scope string_scope.
Open Scope list_scope.

(** Short constructors for the generated case files (which are read in Z scope). *)
Definition b (s : string) : name := list_ascii_of_string s.
Definition D (n : Z) : denom := Z.to_pos n.
Definition M (n : Z) : addr := AMarker (Z.to_pos n).
Definition A (n : Z) : addr := AAcct (Z.to_pos n).
Definition MK (d : Z) (t : mtype) (s : mstatus) (req : list string) (acc : list (addr * list access))
           (forced : bool) : account :=
  AcctMarker (Build_marker (Z.to_pos d) t s (map b req) acc forced).
Definition AT (a : addr) (names : list string) : addr * list name := (a, map b names).

Inductive bank_obs :=
| BNotRun
| BDenied
| BMoved (deltas : list (denom * Z * Z)).

Inductive multi_obs :=
| MDenied
| MMoved (from_deltas : list (denom * Z)) (out_deltas : list (list (denom * Z))).

Inductive case :=
| CSend (c : config) (from to : addr) (amt : coins)
        (fn_ok fn_same_to : bool) (singles : list bool) (send io deleg : bank_obs)
| CMulti (c : config) (from : addr) (outs : list (addr * coins)) (fn_oks : list bool) (io : multi_obs)
| CMatch (req attr : string) (obs : bool).

(** ** The property's "in particular" clauses, on an answer [ok] of the implementation. *)
Definition bypassed (c : config) (from : addr) : bool :=
  cfg_ctx_bypass c || addr_eqb from (cfg_marker_module c) || addr_eqb from (cfg_ibc_module c).

Definition fee_collector_clause (c : config) (to : addr) (amt : coins) : bool :=
  if addr_eqb to (cfg_fee_collector c)
  then forallb (fun p => negb (restricted_coin c (fst p))) amt else true.

Definition withdraw_clause (c : config) (from : addr) : bool :=
  match marker_at c from with
  | Some fm => if bypassed c from then true
               else cfg_fee_grant c || some_agent_has fm (cfg_agents c) AcWithdraw
  | None => true
  end.

Definition deposit_clause (c : config) (from to : addr) : bool :=
  match marker_at c to with
  | Some tm =>
      match m_type tm with
      | MRestricted =>
          if bypassed c from then true
          else match cfg_agents c with
               | [] => has_role tm from AcDeposit
               | ags => some_agent_has tm ags AcDeposit
               end
      | MCoin => true
      end
  | None => true
  end.

Definition check_answer (what : string) (c : config) (from to : addr) (amt : coins) (ok : bool)
  : list string :=
  tag (Bool.eqb (allowed c from to amt) ok) ("corr:" ++ what) ++
  tag (Bool.eqb (doc_send_allowed c from to amt) ok) ("prop:documented_rules " ++ what) ++
  (if ok then
     tag (fee_collector_clause c to amt) ("prop:restricted_coin_to_fee_collector " ++ what) ++
     tag (withdraw_clause c from) ("prop:withdraw_without_authority " ++ what) ++
     tag (deposit_clause c from to) ("prop:deposit_without_authority " ++ what)
   else []).

Definition delta_eqb (x y : denom * Z * Z) : bool :=
  Pos.eqb (fst (fst x)) (fst (fst y)) && Z.eqb (snd (fst x)) (snd (fst y)) && Z.eqb (snd x) (snd y).

Definition expected_deltas (from to : addr) (amt : coins) : list (denom * Z * Z) :=
  map (fun p => if addr_eqb from to then (fst p, 0%Z, 0%Z) else (fst p, (- snd p)%Z, snd p)) amt.

Definition check_bank (what : string) (c : config) (from to : addr) (amt : coins) (o : bank_obs)
  : list string :=
  match o with
  | BNotRun => []
  | BDenied => check_answer what c from to amt false
  | BMoved d =>
      check_answer what c from to amt true ++
      tag (list_eqb delta_eqb d (expected_deltas from to amt)) ("corr:" ++ what ++ "_balances")
  end.

Definition coin_eqb (x y : denom * Z) : bool := Pos.eqb (fst x) (fst y) && Z.eqb (snd x) (snd y).

(** Sum per denom of a list of coin lists, over the denoms listed in [ds]. *)
Definition amount_of (d : denom) (amt : coins) : Z :=
  fold_left (fun acc p => if Pos.eqb (fst p) d then (acc + snd p)%Z else acc) amt 0%Z.

Definition check (cs : case) : list string :=
  match cs with
  | CSend c from to amt fn_ok fn_same_to singles send io deleg =>
      check_answer "send_restriction_fn" c from to amt fn_ok ++
      tag (if fn_ok then fn_same_to else true) "corr:send_restriction_fn_destination" ++
      tag (Bool.eqb fn_ok (forallb (fun x => x) singles)) "prop:each_denom_on_its_own" ++
      tag (list_eqb Bool.eqb (map (fun p => allowed c from to [p]) amt) singles) "corr:single_denoms" ++
      check_bank "send_coins" c from to amt send ++
      check_bank "input_output_coins" c from to amt io ++
      check_bank "delegate_coins" c from to amt deleg
  | CMulti c from outs fn_oks io =>
      let model := map (fun o => allowed c from (fst o) (snd o)) outs in
      let doc := map (fun o => doc_send_allowed c from (fst o) (snd o)) outs in
      let accepted := match io with MDenied => false | MMoved _ _ => true end in
      tag (list_eqb Bool.eqb model fn_oks) "corr:multi_send_restriction_fn" ++
      tag (list_eqb Bool.eqb doc fn_oks) "prop:documented_rules multi send_restriction_fn" ++
      tag (Bool.eqb (forallb (fun x => x) model) accepted) "corr:multi_input_output_coins" ++
      tag (Bool.eqb (forallb (fun x => x) doc) accepted) "prop:documented_rules multi input_output_coins" ++
      (if accepted then
         tag (forallb (fun o => fee_collector_clause c (fst o) (snd o) && withdraw_clause c from
                                && deposit_clause c from (fst o)) outs)
             "prop:multi_in_particular_clauses"
       else []) ++
      match io with
      | MDenied => []
      | MMoved fd od =>
          tag (forallb (fun p => Z.eqb (snd p) (- fold_left (fun acc o => acc + amount_of (fst p) (snd o)) outs 0)%Z) fd
               && list_eqb (list_eqb coin_eqb) od (map snd outs)) "corr:multi_balances"
      end
  | CMatch req attr obs =>
      tag (Bool.eqb (match_attribute (b req) (b attr)) obs) "corr:match_attribute" ++
      tag (Bool.eqb (doc_match (b req) (b attr)) obs) "prop:documented_wildcard_levels"
  end.

Definition check_all := check_list check.
