(** Correspondence + property checker for C04 (marker send restriction, alone and composed with the
    sanction and quarantine restrictions in the application's bank).

    A [CSend] case is one abstract configuration as realised by the harness with the real keepers
    (the slice of the state the decision can depend on: marker part, sanctioned addresses, quarantine
    opt-ins / auto-accepts / holder, context flags), the sender, receiver and coins, and what the
    implementation answered:
      [fn_ok]      the MARKER keeper's SendRestrictionFn alone returned no error
      [fn_same_to] ... and returned the receiver unchanged
      [singles]    its answers for each coin of the amount sent alone (same context)
      [send], [io], [deleg]  the REAL bank's SendCoins / InputOutputCoins (one output) / DelegateCoins
                   (all three restrictions active) run in a scratch copy of the state: not run, denied,
                   or accepted with the balance change (denom, sender, receiver, quarantine holder)
                   of every denom in the amount.
    The harness funds the sender and keeps it free of holds, so the bank accepts exactly when the
    composed restriction does and then moves exactly the amount to the destination the restriction
    returned (this bank behaviour is modelled here and checked by "corr:*_balances").
    [CTransfer], [CSettle], [CValueOwner] are the real endpoints MsgTransferRequest, exchange
    MsgMarketSettle and metadata MsgUpdateValueOwners run through the message router; the model is
    evaluated with the context flags those endpoints set (reviewed setter sites, Base/WiringDoc.v).
    "corr:*" tags compare with the code model, "prop:*" tags evaluate the documented rules and the
    property's "in particular" clauses on the implementation's own answer. *)
From Coq Require Import ZArith PArith NArith List String Bool Ascii.
From PV Require Export Marker.SendRestr Marker.SendRestrSpec Marker.SendCompose Corr.CorrBase.
Import ListNotations.
Open Scope string_scope.
Open Scope list_scope.

(** Short constructors for the generated case files (which are read in Z scope). *)
Definition b (s : string) : name := list_ascii_of_string s.
Definition D (n : Z) : denom := Z.to_pos n.
Definition M (n : Z) : addr := AMarker (Z.to_pos n).
Definition A (n : Z) : addr := AAcct (Z.to_pos n).
Definition MK (d : Z) (t : mtype) (s : mstatus) (req : list string) (acc : list (addr * list access))
           (forced : bool) : account :=
  AcctMarker (Build_marker (Z.to_pos d) t s (map b req) acc forced).
Definition AT (a : addr) (names : list string) : addr * list name := (a, map b names).
(** marker configuration, sanctioned addresses + sanction bypass, quarantine opt-ins / auto-accept
    pairs / holder / bypass *)
Definition AC (c : config) (sanctioned : list addr) (sbypass : bool)
           (optin : list addr) (auto : list (addr * addr)) (holder : addr) (qbypass : bool) : app_config :=
  Build_app_config c (Build_sanction_cfg sanctioned sbypass) (Build_quarantine_cfg optin auto holder qbypass).

Inductive bank_obs :=
| BNotRun
| BDenied
| BMoved (deltas : list (denom * Z * Z * Z)).      (* denom, sender, receiver, quarantine holder *)

Inductive multi_obs :=
| MDenied
| MMoved (from_deltas : list (denom * Z)) (out_deltas : list (list (denom * Z))) (holder_deltas : list (denom * Z)).

Inductive case :=
| CSend (ac : app_config) (from to : addr) (amt : coins)
        (fn_ok fn_same_to : bool) (singles : list bool) (send io deleg : bank_obs)
| CMulti (ac : app_config) (from : addr) (outs : list (addr * coins)) (fn_oks : list bool) (io : multi_obs)
| CMatch (req attr : string) (obs : bool)
| CTransfer (ac : app_config) (admin from to : addr) (d : denom) (a : Z)
            (authz_ok from_forcible to_blocked : bool) (obs : bank_obs)
| CSettle (ac : app_config) (admin : addr) (legs : list (addr * addr * coins * bool))
          (accepted : bool) (deltas : list (addr * denom * Z))
| CValueOwner (ac : app_config) (signers : list addr) (owner to : addr) (d : denom) (to_blocked : bool)
              (obs : bank_obs)
(* a one-coin send with what the keepers REPORT at query time: the marker's required attributes
   (GetMarker(...).GetRequiredAttributes()) and the receiver's attribute names (GetAllAttributesAddr) *)
| CReqAttr (ac : app_config) (from to : addr) (d : denom) (a : Z) (required attrs : list string)
           (fn_ok : bool) (send : bank_obs).

(** ** The property's "in particular" clauses, on an answer [ok] of the implementation. *)
Definition bypassed (c : config) (from : addr) : bool :=
  cfg_ctx_bypass c || addr_eqb from (cfg_marker_module c) || addr_eqb from (cfg_ibc_module c).

Definition fee_collector_clause (c : config) (to : addr) (amt : coins) : bool :=
  if addr_eqb to (cfg_fee_collector c)
  then forallb (fun p => negb (restricted_coin c (fst p))) amt else true.

Definition withdraw_clause (c : config) (from : addr) : bool :=
  match marker_at c from with
  | Some fm => if bypassed c from then true
               else cfg_fee_grant c || some_agent_has fm (cfg_agents c) AcWithdraw
  | None => true
  end.

Definition deposit_clause (c : config) (from to : addr) : bool :=
  match marker_at c to with
  | Some tm =>
      match m_type tm with
      | MRestricted =>
          if bypassed c from then true
          else match cfg_agents c with
               | [] => has_role tm from AcDeposit
               | ags => some_agent_has tm ags AcDeposit
               end
      | MCoin => true
      end
  | None => true
  end.

(** The marker keeper's own answer. *)
Definition check_answer (what : string) (c : config) (from to : addr) (amt : coins) (ok : bool)
  : list string :=
  tag (Bool.eqb (allowed c from to amt) ok) ("corr:" ++ what) ++
  tag (Bool.eqb (doc_send_allowed c from to amt) ok) ("prop:documented_rules " ++ what) ++
  (if ok then
     tag (fee_collector_clause c to amt) ("prop:restricted_coin_to_fee_collector " ++ what) ++
     tag (withdraw_clause c from) ("prop:withdraw_without_authority " ++ what) ++
     tag (deposit_clause c from to) ("prop:deposit_without_authority " ++ what)
   else []).

(** What the property demands of a movement the application let through under configuration [ac]:
    the documented marker rules permit it for the ORIGINAL receiver, the clauses hold, the sender is
    not sanctioned. *)
Definition moved_clauses (what : string) (ac : app_config) (from to : addr) (amt : coins) : list string :=
  let c := ac_marker ac in
  tag (doc_send_allowed c from to amt) ("prop:documented_rules " ++ what) ++
  tag (fee_collector_clause c to amt) ("prop:restricted_coin_to_fee_collector " ++ what) ++
  tag (withdraw_clause c from) ("prop:withdraw_without_authority " ++ what) ++
  tag (deposit_clause c from to) ("prop:deposit_without_authority " ++ what) ++
  tag (sanction_passes (ac_sanction ac) from) ("prop:sanctioned_sender_moved_funds " ++ what).

(** ... and of a movement the bank refused: the documented rules or the sanction refuse it. *)
Definition denied_clauses (what : string) (ac : app_config) (from to : addr) (amt : coins) : list string :=
  tag (negb (doc_send_allowed (ac_marker ac) from to amt && sanction_passes (ac_sanction ac) from))
      ("prop:documented_rules " ++ what).

Definition delta_eqb (x y : denom * Z * Z * Z) : bool :=
  let '(d1, f1, t1, h1) := x in let '(d2, f2, t2, h2) := y in
  Pos.eqb d1 d2 && Z.eqb f1 f2 && Z.eqb t1 t2 && Z.eqb h1 h2.

(** Net change of [a] when [amount] moves from [from] to [dest]. *)
Definition net (a from dest : addr) (amount : Z) : Z :=
  ((if addr_eqb a dest then amount else 0) - (if addr_eqb a from then amount else 0))%Z.

Definition expected_deltas (from to holder dest : addr) (amt : coins) : list (denom * Z * Z * Z) :=
  map (fun p => (fst p, net from from dest (snd p), net to from dest (snd p), net holder from dest (snd p))) amt.

(** Independent of the model: a quarantined receiver (not bypassed, not auto-accepting the sender) is
    not credited; the holder is. *)
Definition quarantine_clause (ac : app_config) (from to : addr) (amt : coins) (d : list (denom * Z * Z * Z)) : bool :=
  let qc := ac_quar ac in
  if negb (qc_bypass qc) && is_quarantined qc to && negb (is_auto_accept qc to from)
     && negb (addr_eqb from (qc_holder qc)) && negb (addr_eqb to (qc_holder qc))
  then list_eqb delta_eqb d (map (fun p => (fst p, (- snd p)%Z, 0%Z, snd p)) amt)
  else true.

Definition addr_opt_eqb := opt_eqb addr_eqb.

(** One bank path.  [model] is the destination the model predicts (None = refused). *)
Definition check_bank (what : string) (ac : app_config) (from to : addr) (amt : coins)
           (model : option addr) (redirectable : bool) (o : bank_obs) : list string :=
  match o with
  | BNotRun => []
  | BDenied =>
      tag (addr_opt_eqb model None) ("corr:" ++ what) ++ denied_clauses what ac from to amt
  | BMoved d =>
      tag (match model with Some _ => true | None => false end) ("corr:" ++ what) ++
      moved_clauses what ac from to amt ++
      match model with
      | Some dest => tag (list_eqb delta_eqb d (expected_deltas from to (qc_holder (ac_quar ac)) dest amt))
                         ("corr:" ++ what ++ "_balances")
      | None => []
      end ++
      (if redirectable then tag (quarantine_clause ac from to amt d) ("prop:quarantined_receiver_credited " ++ what)
       else [])
  end.

Definition coin_eqb (x y : denom * Z) : bool := Pos.eqb (fst x) (fst y) && Z.eqb (snd x) (snd y).

Definition amount_of (d : denom) (amt : coins) : Z :=
  fold_left (fun acc p => if Pos.eqb (fst p) d then (acc + snd p)%Z else acc) amt 0%Z.

(** Multi-send: net change of [a] in denom [d] given the destination of every output. *)
Definition multi_net (a from : addr) (d : denom) (outs : list (addr * coins)) (dests : list addr) : Z :=
  fold_left (fun acc od => (acc + net a from (snd od) (amount_of d (snd (fst od))))%Z) (combine outs dests) 0%Z.

Fixpoint all_some {X} (l : list (option X)) : option (list X) :=
  match l with
  | [] => Some []
  | Some x :: r => match all_some r with Some r' => Some (x :: r') | None => None end
  | None :: _ => None
  end.

Definition triple_eqb (x y : addr * denom * Z) : bool :=
  addr_eqb (fst (fst x)) (fst (fst y)) && Pos.eqb (snd (fst x)) (snd (fst y)) && Z.eqb (snd x) (snd y).

(** Settlement legs: net change of (a, d). *)
Definition legs_net (a : addr) (d : denom) (legs : list (addr * addr * coins * bool)) : Z :=
  fold_left (fun acc l => let '(f, t, amt, _) := l in (acc + net a f t (amount_of d amt))%Z) legs 0%Z.

Definition check (cs : case) : list string :=
  match cs with
  | CSend ac from to amt fn_ok fn_same_to singles send io deleg =>
      let c := ac_marker ac in
      check_answer "send_restriction_fn" c from to amt fn_ok ++
      tag (if fn_ok then fn_same_to else true) "corr:send_restriction_fn_destination" ++
      tag (Bool.eqb fn_ok (forallb (fun x => x) singles)) "prop:each_denom_on_its_own" ++
      tag (list_eqb Bool.eqb (map (fun p => allowed c from to [p]) amt) singles) "corr:single_denoms" ++
      check_bank "send_coins" ac from to amt (app_restriction_seq ac from to amt) true send ++
      check_bank "input_output_coins" ac from to amt (app_restriction_seq ac from to amt) true io ++
      check_bank "delegate_coins" ac from to amt (delegate_dest ac from to amt) false deleg
  | CMulti ac from outs fn_oks io =>
      let c := ac_marker ac in
      let model := map (fun o => allowed c from (fst o) (snd o)) outs in
      let doc := map (fun o => doc_send_allowed c from (fst o) (snd o)) outs in
      let dests := all_some (map (fun o => app_restriction_seq ac from (fst o) (snd o)) outs) in
      let doc_app := forallb (fun x => x) doc && sanction_passes (ac_sanction ac) from in
      let accepted := match io with MDenied => false | MMoved _ _ _ => true end in
      tag (list_eqb Bool.eqb model fn_oks) "corr:multi_send_restriction_fn" ++
      tag (list_eqb Bool.eqb doc fn_oks) "prop:documented_rules multi send_restriction_fn" ++
      tag (Bool.eqb (match dests with Some _ => true | None => false end) accepted) "corr:multi_input_output_coins" ++
      tag (Bool.eqb doc_app accepted) "prop:documented_rules multi input_output_coins" ++
      (if accepted then
         tag (forallb (fun o => fee_collector_clause c (fst o) (snd o) && withdraw_clause c from
                                && deposit_clause c from (fst o)) outs)
             "prop:multi_in_particular_clauses"
       else []) ++
      match io, dests with
      | MMoved fd od hd, Some ds =>
          let holder := qc_holder (ac_quar ac) in
          tag (forallb (fun p => Z.eqb (snd p) (multi_net from from (fst p) outs ds)) fd
               && forallb (fun p => Z.eqb (snd p) (multi_net holder from (fst p) outs ds)) hd
               && Nat.eqb (List.length outs) (List.length od)
               && forallb (fun oo : (addr * coins) * list (denom * Z) =>
                             list_eqb coin_eqb (snd oo)
                               (map (fun p => (fst p, multi_net (fst (fst oo)) from (fst p) outs ds)) (snd (fst oo))))
                          (combine outs od))
              "corr:multi_balances"
      | _, _ => []
      end
  | CMatch req attr obs =>
      tag (Bool.eqb (match_attribute (b req) (b attr)) obs) "corr:match_attribute" ++
      tag (Bool.eqb (doc_match (b req) (b attr)) obs) "prop:documented_wildcard_levels"
  | CTransfer ac admin from to d a authz_ok forcible blocked obs =>
      (* markertypes.WithBypass at Keeper.TransferCoin *)
      let ac' := with_marker_bypass ac in
      let c := ac_marker ac in
      let model := transfer_coin ac admin from to d a authz_ok forcible blocked in
      match obs with
      | BNotRun => []
      | BDenied => tag (addr_opt_eqb model None) "corr:transfer_request"
      | BMoved dl =>
          tag (match model with Some _ => true | None => false end) "corr:transfer_request" ++
          moved_clauses "transfer_request" ac' from to [(d, a)] ++
          tag (match marker_for_denom c d with
               | Some m => marker_active m && restricted_coin c d &&
                           (has_role m admin AcTransfer || has_role m admin AcForceTransfer) &&
                           (addr_eqb admin from || authz_ok ||
                            (m_forced m && has_role m admin AcForceTransfer))
               | None => false
               end) "prop:transfer_request_without_transfer_authority" ++
          tag (match marker_at c to with
               | Some tm => match m_type tm with MRestricted => has_role tm admin AcDeposit | MCoin => true end
               | None => true
               end) "prop:deposit_without_authority transfer_request" ++
          match model with
          | Some dest => tag (list_eqb delta_eqb dl (expected_deltas from to (qc_holder (ac_quar ac)) dest [(d, a)]))
                             "corr:transfer_request_balances"
          | None => []
          end ++
          tag (quarantine_clause ac from to [(d, a)] dl) "prop:quarantined_receiver_credited transfer_request"
      end
  | CSettle ac admin legs accepted deltas =>
      (* markertypes.WithTransferAgents(admin) at Keeper.SettleOrders, quarantine.WithBypass at Keeper.DoTransfer *)
      let ac' := settle_ctx ac admin in
      tag (Bool.eqb (settle_ok ac admin legs) accepted) "corr:market_settle" ++
      (if accepted then
         flat_map (fun l => let '(f, t, amt, _) := l in moved_clauses "market_settle" ac' f t amt) legs ++
         tag (list_eqb triple_eqb deltas (map (fun x => (fst (fst x), snd (fst x), legs_net (fst (fst x)) (snd (fst x)) legs)) deltas))
             "corr:market_settle_balances"
       else [])
  | CValueOwner ac signers owner to d blocked obs =>
      (* markertypes.WithTransferAgents(signers) at msgServer.UpdateValueOwners *)
      let ac' := with_agents ac signers in
      let model := update_value_owner ac signers owner to d blocked in
      match obs with
      | BNotRun => []
      | BDenied => tag (addr_opt_eqb model None) "corr:update_value_owners"
      | BMoved dl =>
          tag (match model with Some _ => true | None => false end) "corr:update_value_owners" ++
          moved_clauses "update_value_owners" ac' owner to [(d, 1%Z)] ++
          match model with
          | Some dest => tag (list_eqb delta_eqb dl (expected_deltas owner to (qc_holder (ac_quar ac)) dest [(d, 1%Z)]))
                             "corr:update_value_owners_balances"
          | None => []
          end ++
          tag (quarantine_clause ac owner to [(d, 1%Z)] dl) "prop:quarantined_receiver_credited update_value_owners"
      end
  | CReqAttr ac from to d a required attrs fn_ok send =>
      let c := ac_marker ac in
      let amt := [(d, a)] in
      check_answer "send_restriction_fn" c from to amt fn_ok ++
      check_bank "send_coins" ac from to amt (app_restriction_seq ac from to amt) true send ++
      (* the configuration shows the names the keepers report *)
      tag (list_eqb bytes_eqb (attributes_of c to) (map b attrs) &&
           match marker_for_denom c d with
           | Some m => list_eqb bytes_eqb (m_req_attrs m) (map b required)
           | None => match required with [] => true | _ => false end
           end) "corr:observed_attribute_names" ++
      (* independent of the code model: where the attributes decide, the answer is "every observed
         requirement is matched by SOME observed attribute name" (level-wise rule of 01_state.md) *)
      (if attribute_decided c from to d
       then tag (Bool.eqb fn_ok (each_requirement_matched (map b required) (map b attrs)))
                "prop:required_attributes_each_on_its_own"
       else [])
  end.

Definition check_all := check_list check.
