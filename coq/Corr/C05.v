(** Correspondence + property checker for C05 (marker supply and lifecycle).

    A case is one history on one denom: the module parameters, the observation before the first
    operation and, per operation, the operation together with what the real code showed afterwards:
    accepted/rejected, the marker record (status, recorded supply, fixed flag) or its absence, the
    bank's SupplyOf(denom) and the balance of every account of the universe (marker account =
    ESCROW, the user accounts, the marker module's coin pool and the governance account).

    corr:*  the model [PV.Marker.Lifecycle] run on the same operations disagrees on an observable.
    prop:*  the property's clauses evaluated on the implementation's observations alone. *)
From Coq Require Import ZArith NArith List String Bool.
From PV Require Export Marker.Lifecycle Corr.CorrBase.
Import ListNotations.
Open Scope string_scope.
Open Scope list_scope.
Open Scope Z_scope.

Record obs := {
  o_ok : bool;
  o_mk : option (status * Z * bool);       (* status, recorded supply, SupplyFixed *)
  o_supply : Z;
  o_bals : list (addr * Z)
}.

Definition obal (o : obs) (a : addr) : Z := get (o_bals o) a.
Definition sum_over (accts : list addr) (o : obs) : Z :=
  fold_right (fun a acc => obal o a + acc) 0 accts.
Definition others (accts : list addr) : list addr := filter (fun a => negb (N.eqb a ESCROW)) accts.

Definition ost (o : obs) : option status :=
  match o_mk o with Some (x, _, _) => Some x | None => None end.

(** *** The property on the implementation's observations *)

(** active and fixed => bank supply = recorded supply, after every transaction *)
Definition p_fixed_exact (o : obs) : bool :=
  match o_mk o with
  | Some (Active, sup, true) => o_supply o =? sup
  | _ => true
  end.

(** bank supply = sum of the balances over the universe of holders, none negative *)
Definition p_sum (accts : list addr) (o : obs) : bool :=
  (o_supply o =? sum_over accts o) && forallb (fun a => 0 <=? obal o a) accts.

(** status never backwards; a record disappears only at a block boundary and only when destroyed *)
Definition p_status (prev : obs) (o : op) (cur : obs) : bool :=
  match ost prev, ost cur with
  | Some p, Some c => rank p <=? rank c
  | Some p, None => status_eqb p Destroyed && (match o with OBeginBlock => true | _ => false end)
  | None, _ => true
  end.

(** an accepted mint into an active marker adds exactly the amount and stays within the maximum *)
Definition p_mint (maxs : Z) (prev : obs) (o : op) (cur : obs) : bool :=
  match mint_amount o, ost prev with
  | Some amt, Some Active =>
      if o_ok cur then (o_supply cur <=? maxs) && (o_supply cur =? o_supply prev + amt) else true
  | _, _ => true
  end.

(** whenever the supply went down, exactly that much left the marker's own account and no other
    balance moved *)
Definition p_burn (accts : list addr) (prev cur : obs) : bool :=
  if o_supply cur <? o_supply prev then
    (obal cur ESCROW =? obal prev ESCROW - (o_supply prev - o_supply cur)) &&
    forallb (fun a => obal cur a =? obal prev a) (others accts)
  else true.

(** destroyed - or cancelled by an administrator once finalized/active - only with nothing held
    outside the marker's own account *)
Definition p_recall (accts : list addr) (prev : obs) (o : op) (cur : obs) : bool :=
  let recalled := forallb (fun a => obal prev a =? 0) (others accts) in
  match ost prev, ost cur with
  | Some p, Some Destroyed =>
      if status_eqb p Destroyed then true else recalled && (o_supply cur =? 0)
  | Some p, Some Cancelled =>
      match o with
      | OCancel _ => if status_eqb p Finalized || status_eqb p Active then recalled else true
      | _ => true
      end
  | _, _ => true
  end.

(** a rejected operation leaves everything as it was *)
Definition obs_same (accts : list addr) (a b : obs) : bool :=
  (o_supply a =? o_supply b) && forallb (fun x => obal a x =? obal b x) accts &&
  match o_mk a, o_mk b with
  | Some (s1, z1, f1), Some (s2, z2, f2) => status_eqb s1 s2 && (z1 =? z2) && Bool.eqb f1 f2
  | None, None => true
  | _, _ => false
  end.

Definition prop_step (accts : list addr) (maxs : Z) (prev : obs) (o : op) (cur : obs) : list string :=
  tag (p_fixed_exact cur) "prop:active fixed-supply marker: bank supply differs from recorded supply" ++
  tag (p_sum accts cur) "prop:bank supply is not the sum of balances" ++
  tag (p_status prev o cur) "prop:status moved backwards or record vanished" ++
  tag (p_mint maxs prev o cur) "prop:mint into active marker past the maximum or by a different amount" ++
  tag (p_burn accts prev cur) "prop:supply decrease did not come out of the marker account only" ++
  tag (p_recall accts prev o cur) "prop:destroyed/cancelled with coins outside the marker account" ++
  tag (o_ok cur || obs_same accts prev cur) "prop:rejected operation changed state".

(** *** Model against implementation *)
Definition model_mk (s : state) : option (status * Z * bool) :=
  match mk s with Some m => Some (st m, msupply m, fixed m) | None => None end.

Definition mk_eqb (a b : option (status * Z * bool)) : bool :=
  match a, b with
  | Some (s1, z1, f1), Some (s2, z2, f2) => status_eqb s1 s2 && (z1 =? z2) && Bool.eqb f1 f2
  | None, None => true
  | _, _ => false
  end.

Definition corr_step (accts : list addr) (s' : state) (ok : bool) (cur : obs) : list string :=
  tag (Bool.eqb ok (o_ok cur)) "corr:accepted/rejected" ++
  tag (mk_eqb (model_mk s') (o_mk cur)) "corr:marker record (status, supply, fixed)" ++
  tag (supply s' =? o_supply cur) "corr:bank supply" ++
  tag (forallb (fun a => get (bal s') a =? obal cur a) accts) "corr:balances".

Fixpoint check_hist (accts : list addr) (maxs : Z) (s : state) (prev : obs) (i : N)
         (steps : list (op * obs)) : list string :=
  match steps with
  | [] => []
  | (o, cur) :: rest =>
      let '(s', ok) := step s o in
      match corr_step accts s' ok cur ++ prop_step accts maxs prev o cur with
      | [] => check_hist accts maxs s' cur (N.succ i) rest
      | e => map (fun t => (t ++ " @step " ++ N_to_string i)%string) e
      end
  end.

Inductive case :=
| CHist (accts : list addr) (maxs : Z) (govp : bool) (o0 : obs) (steps : list (op * obs)).

Definition check (c : case) : list string :=
  match c with
  | CHist accts maxs govp o0 steps =>
      let s0 := {| mk := None; bal := o_bals o0; supply := o_supply o0; maxsupply := maxs;
                   govparam := govp; gen := 0%N |} in
      tag (match o_mk o0 with None => true | _ => false end) "corr:history does not start without a marker" ++
      tag (p_sum accts o0) "prop:bank supply is not the sum of balances @start" ++
      check_hist accts maxs s0 o0 0%N steps
  end.

Definition check_all := check_list check.
