(** Correspondence + property checker for C05 (marker supply and lifecycle).

    A case is one history on a world of 2-3 denoms: the observation before the first operation and,
    per operation, the operation together with what the real code showed afterwards:
    accepted/rejected, the module parameters and, for EVERY denom of the world, the marker record
    (status, recorded supply, fixed flag) or its absence, the bank's SupplyOf(denom) and the
    balance of EVERY holder of the denom as enumerated by the bank itself (DenomOwners), so that
    "supply = sum of balances" is evaluated over all holders, not over a list of accounts the
    harness happens to know.  Addresses: [escrow d] = marker account of denom d, 1.. = users,
    99 = marker module account, 100 = governance account, 5000.. = any other holder the bank
    reported.

    corr:*  the model [PV.Marker.MultiLifecycle] run on the same operations disagrees on an observable.
    prop:*  the property's clauses evaluated on the implementation's observations alone. *)
From Coq Require Import ZArith NArith List String Bool.
From PV Require Export Marker.MultiLifecycle Corr.CorrBase.
Import ListNotations.
Open Scope string_scope.
Open Scope list_scope.
Open Scope Z_scope.

Record dobs := {
  d_mk : option (status * Z * bool);       (* status, recorded supply, SupplyFixed *)
  d_supply : Z;
  d_bals : list (addr * Z)                 (* every holder the bank lists for the denom, once each *)
}.

Record obs := {
  o_ok : bool;
  o_max : Z;                               (* params.MaxSupply *)
  o_gov : bool;                            (* params.EnableGovernance *)
  o_den : list (denom * dobs)
}.

Definition no_dobs : dobs := {| d_mk := None; d_supply := 0; d_bals := [] |}.
Fixpoint dget (l : list (denom * dobs)) (d : denom) : dobs :=
  match l with
  | [] => no_dobs
  | (k, v) :: r => if N.eqb k d then v else dget r d
  end.
Definition oden (o : obs) (d : denom) : dobs := dget (o_den o) d.
Definition dbal (x : dobs) (a : addr) : Z := get (d_bals x) a.
Definition dst (x : dobs) : option status :=
  match d_mk x with Some (s, _, _) => Some s | None => None end.

(** Every address holding the denom before or after the step. *)
Definition holders (p c : dobs) : list addr := map fst (d_bals p) ++ map fst (d_bals c).
Definition others_of (d : denom) (l : list addr) : list addr := filter (fun a => negb (N.eqb a (escrow d))) l.

(** *** The property on the implementation's observations, denom by denom *)

(** active and fixed => bank supply = recorded supply, after every transaction *)
Definition p_fixed_exact (x : dobs) : bool :=
  match d_mk x with
  | Some (Active, sup, true) => d_supply x =? sup
  | _ => true
  end.

(** bank supply = sum of the balances of ALL holders, none negative *)
Definition p_sum (x : dobs) : bool :=
  (d_supply x =? total (d_bals x)) && forallb (fun e => 0 <=? snd e) (d_bals x).

(** status never backwards; a record disappears only at a block boundary and only when destroyed *)
Definition p_status (p : dobs) (o : mop) (c : dobs) : bool :=
  match dst p, dst c with
  | Some a, Some b => rank a <=? rank b
  | Some a, None => status_eqb a Destroyed && (match o with MBeginBlock => true | _ => false end)
  | None, _ => true
  end.

(** an accepted mint into an active marker adds exactly the amount and stays within the maximum
    in force *)
Definition p_mint (maxs : Z) (d : denom) (p : dobs) (o : mop) (ok : bool) (c : dobs) : bool :=
  match mmint_amount o, dst p with
  | Some (d', amt), Some Active =>
      if N.eqb d' d && ok then (d_supply c <=? maxs) && (d_supply c =? d_supply p + amt) else true
  | _, _ => true
  end.

(** whenever the supply went down, exactly that much left the marker's own account and no other
    balance moved *)
Definition p_burn (d : denom) (p c : dobs) : bool :=
  if d_supply c <? d_supply p then
    (dbal c (escrow d) =? dbal p (escrow d) - (d_supply p - d_supply c)) &&
    forallb (fun a => dbal c a =? dbal p a) (others_of d (holders p c))
  else true.

(** destroyed - or cancelled by an administrator once finalized/active - only with nothing held
    outside the marker's own account *)
Definition is_cancel_of (d : denom) (o : mop) : bool :=
  match o with MOn d' (OCancel _) => N.eqb d' d | _ => false end.
Definition p_recall (d : denom) (p : dobs) (o : mop) (c : dobs) : bool :=
  let recalled := forallb (fun a => dbal p a =? 0) (others_of d (holders p p)) in
  match dst p, dst c with
  | Some a, Some Destroyed =>
      if status_eqb a Destroyed then true else recalled && (d_supply c =? 0)
  | Some a, Some Cancelled =>
      if is_cancel_of d o && (status_eqb a Finalized || status_eqb a Active) then recalled else true
  | _, _ => true
  end.

Definition mk3_eqb (a b : option (status * Z * bool)) : bool :=
  match a, b with
  | Some (s1, z1, f1), Some (s2, z2, f2) => status_eqb s1 s2 && (z1 =? z2) && Bool.eqb f1 f2
  | None, None => true
  | _, _ => false
  end.

(** nothing about the denom changed *)
Definition dobs_same (p c : dobs) : bool :=
  (d_supply p =? d_supply c) && forallb (fun a => dbal p a =? dbal c a) (holders p c) &&
  mk3_eqb (d_mk p) (d_mk c).

Definition at_denom (d : denom) (l : list string) : list string :=
  map (fun t => (t ++ " [denom " ++ N_to_string d ++ "]")%string) l.

Definition prop_denom (maxs : Z) (prev : obs) (o : mop) (cur : obs) (d : denom) : list string :=
  let p := oden prev d in let c := oden cur d in
  at_denom d (
  tag (p_fixed_exact c) "prop:active fixed-supply marker: bank supply differs from recorded supply" ++
  tag (p_sum c) "prop:bank supply is not the sum of balances" ++
  tag (p_status p o c) "prop:status moved backwards or record vanished" ++
  tag (p_mint maxs d p o (o_ok cur) c) "prop:mint into active marker past the maximum or by a different amount" ++
  tag (p_burn d p c) "prop:supply decrease did not come out of the marker account only" ++
  tag (p_recall d p o c) "prop:destroyed/cancelled with coins outside the marker account" ++
  tag (o_ok cur || dobs_same p c) "prop:rejected operation changed state" ++
  tag (match o with
       | MBeginBlock => true
       | _ => match touched o with
              | Some e => N.eqb e d || dobs_same p c
              | None => dobs_same p c
              end
       end) "prop:operation on one marker changed another denom's supply, balances or marker").

Definition prop_step (denoms : list denom) (prev : obs) (o : mop) (cur : obs) : list string :=
  flat_map (prop_denom (o_max prev) prev o cur) denoms.

(** *** Model against implementation *)
Definition model_mk (c : cell) : option (status * Z * bool) :=
  match c_mk c with Some m => Some (st m, msupply m, fixed m) | None => None end.

Definition corr_denom (W' : world) (cur : obs) (d : denom) : list string :=
  let c := cells W' d in let x := oden cur d in
  at_denom d (
  tag (mk3_eqb (model_mk c) (d_mk x)) "corr:marker record (status, supply, fixed)" ++
  tag (c_supply c =? d_supply x) "corr:bank supply" ++
  tag (forallb (fun a => get (c_bal c) a =? dbal x a) (map fst (d_bals x) ++ map fst (c_bal c))) "corr:balances").

Definition corr_step (denoms : list denom) (W' : world) (ok : bool) (cur : obs) : list string :=
  tag (Bool.eqb ok (o_ok cur)) "corr:accepted/rejected" ++
  tag ((w_max W' =? o_max cur) && Bool.eqb (w_gov W') (o_gov cur)) "corr:module parameters" ++
  flat_map (corr_denom W' cur) denoms.

(** What Theorem C05_supply_le_max_since_activation guarantees, tracked on the observations:
    per denom, [Some b] while the marker is active, b = max(supply right after activation, every
    MaxSupply in force since). *)
Definition bound_next (prev cur : obs) (d : denom) (b : option Z) : option Z :=
  match dst (oden cur d) with
  | Some Active =>
      match dst (oden prev d), b with
      | Some Active, Some z => Some (Z.max z (o_max prev))
      | _, _ => Some (d_supply (oden cur d))
      end
  | _ => None
  end.
Definition bound_ok (cur : obs) (d : denom) (b : option Z) : bool :=
  match b with Some z => d_supply (oden cur d) <=? z | None => true end.

Fixpoint check_hist (denoms : list denom) (W : world) (prev : obs) (bnd : list (option Z)) (i : N)
         (steps : list (mop * obs)) : list string :=
  match steps with
  | [] => []
  | (o, cur) :: rest =>
      let '(W', ok) := mstep W o in
      let bnd' := map (fun db => bound_next prev cur (fst db) (snd db)) (combine denoms bnd) in
      match corr_step denoms W' ok cur ++ prop_step denoms prev o cur ++
            tag (forallb (fun db => bound_ok cur (fst db) (snd db)) (combine denoms bnd'))
                "corr:active supply above max(supply at activation, MaxSupply in force since)" with
      | [] => check_hist denoms W' cur bnd' (N.succ i) rest
      | e => map (fun t => (t ++ " @step " ++ N_to_string i)%string) e
      end
  end.

Inductive case :=
| CHist (denoms : list denom) (o0 : obs) (steps : list (mop * obs)).

Definition cell_of_dobs (x : dobs) : cell :=
  {| c_mk := None; c_bal := d_bals x; c_supply := d_supply x; c_gen := 0%N |}.

Definition check (c : case) : list string :=
  match c with
  | CHist denoms o0 steps =>
      let W0 := {| dom := denoms; cells := fun d => cell_of_dobs (oden o0 d);
                   w_max := o_max o0; w_gov := o_gov o0; grants := [] |} in
      tag (forallb (fun d => match d_mk (oden o0 d) with None => true | _ => false end) denoms)
          "corr:history does not start without markers" ++
      tag (forallb (fun d => p_sum (oden o0 d)) denoms) "prop:bank supply is not the sum of balances @start" ++
      check_hist denoms W0 o0 (map (fun _ => None) denoms) 0%N steps
  end.

Definition check_all := check_list check.
