(** Correspondence + property checker for C08 (a transaction pays its declared fee on success, only
    the base fee on failure).

    A case is a history on one real chain: the observed starting state, then for every signed
    transaction the configuration in force, the transaction, and what the node did with it (CheckTx
    admission, execution result when it was put in a block, every balance / sequence / fee allowance
    afterwards), interleaved with the harness' own funding and allowance changes.
      corr:*  the model (Fees/TxFees.v) run from the model's own previous state disagrees with the node
      prop:*  the property's closed-form statement evaluated on the node's own observations fails *)
From Coq Require Import ZArith NArith List String Bool.
From PV Require Export Fees.TxFees Corr.CorrBase.
Import ListNotations.
Open Scope string_scope.
Open Scope list_scope.
Open Scope Z_scope.

Definition bal_entries := list (acct * denom * Z).          (* absent = 0 *)
Definition seq_entries := list (acct * Z).
Definition allow_entries := list (acct * acct * allowance). (* absent = no grant *)

Record obs := { o_admitted : bool; o_ok : bool;
                o_bal : bal_entries; o_seq : seq_entries; o_allow : allow_entries }.

Inductive hstep :=
| HTx (cfg : config) (t : tx) (o : obs)
| HSetBal (a : acct) (d : denom) (v : Z)
| HSetAllow (g p : acct) (v : allowance).

Inductive case :=
| CHist (accts : list acct) (denoms : list denom) (pairs : list (acct * acct))
        (b0 : bal_entries) (s0 : seq_entries) (a0 : allow_entries) (steps : list hstep).

(** observed state as a model state *)
Definition sheet_of (l : bal_entries) : sheet :=
  fun a d => match find (fun e => let '(a', d', _) := e in N.eqb a a' && N.eqb d d') l with
             | Some (_, _, v) => v
             | None => 0
             end.
Definition seq_of (l : seq_entries) : acct -> Z :=
  fun a => match find (fun e => N.eqb a (fst e)) l with Some (_, v) => v | None => 0 end.
Definition allow_of (l : allow_entries) : acct -> acct -> allowance :=
  fun g p => match find (fun e => let '(g', p', _) := e in N.eqb g g' && N.eqb p p') l with
             | Some (_, _, v) => v
             | None => None
             end.
Definition mk_state (b : bal_entries) (s : seq_entries) (a : allow_entries) : state :=
  {| bal := sheet_of b; seqn := seq_of s; allow := allow_of a |}.

(** comparison of states on the case's universe *)
Record universe := { u_accts : list acct; u_denoms : list denom; u_pairs : list (acct * acct) }.

Definition allow_eqb (ds : list denom) (x y : allowance) : bool :=
  match x, y with
  | None, None => true
  | Some None, Some None => true
  | Some (Some a), Some (Some b) => forallb (fun d => amount_of a d =? amount_of b d) ds
  | _, _ => false
  end.

Definition bal_agree (u : universe) (x y : sheet) : bool :=
  forallb (fun a => forallb (fun d => x a d =? y a d) (u_denoms u)) (u_accts u).
Definition seq_agree (u : universe) (x y : acct -> Z) : bool :=
  forallb (fun a => x a =? y a) (u_accts u).
Definition allow_agree (u : universe) (x y : acct -> acct -> allowance) : bool :=
  forallb (fun gp => allow_eqb (u_denoms u) (x (fst gp) (snd gp)) (y (fst gp) (snd gp))) (u_pairs u).

(** ** The property's checker on one observed transaction: [pre] and [post] are OBSERVED states. *)

Definition coveredb (u : universe) (cfg : config) (t : tx) (rs : list routed) : bool :=
  forallb (fun d => amount_of (base_fee cfg (t_gas t)) d + additional cfg rs d <=? amount_of (t_fee t) d)
          (u_denoms u).
(* what the mempool check can know: without the fees that handlers record themselves *)
Definition covered_preb (u : universe) (cfg : config) (t : tx) (rs : list routed) : bool :=
  forallb (fun d => amount_of (base_fee cfg (t_gas t)) d + additional_pre cfg rs d <=? amount_of (t_fee t) d)
          (u_denoms u).

(* the allowance of (granter, payer) after [fee] was spent from it (the spec of BasicAllowance) *)
Definition spent_allow (ds : list denom) (v : allowance) (fee : coins) : allowance :=
  match v with
  | Some (Some lim) =>
      if forallb (fun d => amount_of lim d - amount_of fee d =? 0) ds then None
      else Some (Some (csub lim fee))
  | other => other
  end.

Definition uses_grant (t : tx) : bool :=
  match t_granter t with Some g => negb (N.eqb g (t_payer t)) | None => false end.

Definition expected_allow (u : universe) (t : tx) (pre : state) (charged : coins) (g p : acct) : allowance :=
  if uses_grant t && N.eqb g (fee_source t) && N.eqb p (t_payer t)
  then spent_allow (u_denoms u) (allow pre g p) charged
  else allow pre g p.

Definition check_prop (u : universe) (cfg : config) (t : tx) (pre post : state) (admitted ok : bool) : list string :=
  let base := base_fee cfg (t_gas t) in
  (* the fee amounts themselves are nonnegative, so a sum exceeding the declared fee in any denom of
     the universe means the mempool check has to reject *)
  tag (covered_preb u cfg t (routed_top t) || negb admitted) "prop:uncovered fee admitted to the mempool" ++
  if negb admitted then
    tag (bal_agree u (bal pre) (bal post)) "prop:rejected transaction was charged or moved coins" ++
    tag (seq_agree u (seqn pre) (seqn post)) "prop:rejected transaction changed a sequence" ++
    tag (allow_agree u (allow pre) (allow post)) "prop:rejected transaction used a fee allowance"
  else if ok then
    tag (forallb (fun d => amount_of base d <=? amount_of (t_fee t) d) (u_denoms u))
        "prop:base fee exceeds the declared fee" ++
    tag (forallb (fun d => bal pre (fee_source t) d - bal post (fee_source t) d
                           + share cfg (routed_all t) (fee_source t) d + msg_net (routed_all t) (fee_source t) d
                           <=? amount_of (t_fee t) d) (u_denoms u) || N.eqb (fee_source t) collector)
        "prop:payer debited more than the declared fee" ++
    tag (coveredb u cfg t (routed_all t)) "prop:succeeded although the additional fees are not covered by the declared fee" ++
    tag (forallb (fun d => bal post (fee_source t) d - bal pre (fee_source t) d
                           - share cfg (routed_all t) (fee_source t) d - msg_net (routed_all t) (fee_source t) d
                           - ind (N.eqb (fee_source t) collector) (amount_of (t_fee t) d - shares_total cfg (routed_all t) d)
                           =? - amount_of (t_fee t) d) (u_denoms u))
        "prop:payer of a successful transaction not debited exactly the declared fee" ++
    tag (forallb (fun a => N.eqb a (fee_source t) || N.eqb a collector ||
                           forallb (fun d => bal post a d - bal pre a d - msg_net (routed_all t) a d
                                             =? share cfg (routed_all t) a d) (u_denoms u)) (u_accts u))
        "prop:recipient did not receive the floor of its basis-point share" ++
    tag (N.eqb (fee_source t) collector ||
         forallb (fun d => bal post collector d - bal pre collector d - msg_net (routed_all t) collector d
                           - share cfg (routed_all t) collector d
                           =? amount_of (t_fee t) d - shares_total cfg (routed_all t) d) (u_denoms u))
        "prop:fee collector did not receive the declared fee minus the recipients' shares" ++
    tag (forallb (fun d => zsum (fun a => bal post a d - bal pre a d) (u_accts u) =? 0) (u_denoms u))
        "prop:coins lost or created by fee distribution" ++
    tag (forallb (fun a => seqn post a =? seqn pre a + ind (existsb (N.eqb a) (t_signers t)) 1) (u_accts u))
        "prop:sequence numbers after success" ++
    tag (forallb (fun gp => allow_eqb (u_denoms u) (allow post (fst gp) (snd gp))
                              (expected_allow u t pre (t_fee t) (fst gp) (snd gp))) (u_pairs u))
        "prop:fee allowance after success not reduced by exactly the declared fee"
  else
    tag (forallb (fun a => forallb (fun d => bal post a d - bal pre a d =? spec_fail_delta cfg t a d) (u_denoms u))
                 (u_accts u))
        "prop:failed transaction did not move exactly the base fee from the payer to the fee collector" ++
    tag (forallb (fun a => seqn post a =? seqn pre a + ind (existsb (N.eqb a) (t_signers t)) 1) (u_accts u))
        "prop:sequence numbers after failure" ++
    tag (forallb (fun gp => allow_eqb (u_denoms u) (allow post (fst gp) (snd gp))
                              (expected_allow u t pre base (fst gp) (snd gp))) (u_pairs u))
        "prop:failed transaction changed a fee allowance by other than the base fee".

(** ** One history *)
Definition result_ok (r : result) : bool := match r with ROk => true | _ => false end.
Definition result_admitted (r : result) : bool := match r with RRejected => false | _ => true end.

Definition check_tx_step (u : universe) (ms : state) (pre : state) (cfg : config) (t : tx) (o : obs)
  : state * state * list string :=
  let post := mk_state (o_bal o) (o_seq o) (o_allow o) in
  let '(ms', r) := step ms (OTx cfg t) in
  (ms', post,
   tag (Bool.eqb (result_admitted r) (o_admitted o)) "corr:admission" ++
   tag (Bool.eqb (result_ok r) (o_ok o)) "corr:success/failure" ++
   tag (match r with RAnteFail => false | _ => true end) "corr:model says the ante handler fails in the block" ++
   tag (bal_agree u (bal ms') (bal post)) "corr:balances" ++
   tag (seq_agree u (seqn ms') (seqn post)) "corr:sequences" ++
   tag (allow_agree u (allow ms') (allow post)) "corr:fee allowances" ++
   check_prop u cfg t pre post (o_admitted o) (o_ok o)).

Fixpoint check_hist (u : universe) (ms pre : state) (i : N) (steps : list hstep) : list string :=
  match steps with
  | [] => []
  | HTx cfg t o :: rest =>
      let '(ms', post, errs) := check_tx_step u ms pre cfg t o in
      match errs with
      | [] => check_hist u ms' post (N.succ i) rest
      | e => map (fun s => (s ++ " @step " ++ N_to_string i)%string) e
      end
  | HSetBal a d v :: rest =>
      check_hist u (fst (step ms (OSetBal a d v))) (fst (step pre (OSetBal a d v))) (N.succ i) rest
  | HSetAllow g p v :: rest =>
      check_hist u (fst (step ms (OSetAllow g p v))) (fst (step pre (OSetAllow g p v))) (N.succ i) rest
  end.

Definition check (c : case) : list string :=
  match c with
  | CHist accts denoms pairs b0 s0 a0 steps =>
      let u := {| u_accts := accts; u_denoms := denoms; u_pairs := pairs |} in
      let s := mk_state b0 s0 a0 in
      check_hist u s s 0%N steps
  end.

Definition check_all := check_list check.

(** short constructors for the generated case files *)
Definition Cfg := Build_config.
Definition Fe := Build_fee_entry.
Definition Cu := Build_custom.
Definition Rt := Build_routed.
Definition Tm := Build_tmsg.
Definition Tx := Build_tx.
Definition Ob := Build_obs.
