(** Correspondence + property checker for C08 (a transaction pays its declared fee on success, only
    the base fee on failure).

    A case is a history on one real chain: the observed starting state (fee schedule and msgfees params
    as read from the COMMITTED store, balances, sequences, fee allowances), then steps:
      HBlock   the transactions still pending from earlier steps offered again with CheckTx(Recheck), then
               1-5 new signed transactions offered to CheckTx one after the other (the node's check state
               keeps the ante effects of the admitted ones); those admitted and not held back by the
               proposer are then executed in ONE block, with what
               the node did with each (admission, result code 0 or not, GasUsed) and the state observed
               after the block;
      HGov     a governance proposal (messages of x/msgfees and bank sends of the gov module account)
               reaching the end of its voting period in an otherwise empty block: passed or not, and
               the state afterwards;
      HSetCfg / HSetBal / HSetAllow   the harness' own direct writes.
      corr:*  the model (Fees/TxFees.v + Fees/TxBlocks.v), run from the model's own previous state,
              disagrees with the node
      prop:*  the property's closed-form statement evaluated on the node's own observations fails; the
              fee schedule and params it uses are the ones OBSERVED in the committed store before the step *)
From Coq Require Import ZArith NArith List String Bool.
From PV Require Export Fees.TxFees Fees.TxBlocks Corr.CorrBase.
Import ListNotations.
Open Scope string_scope.
Open Scope list_scope.
Open Scope Z_scope.

Definition bal_entries := list (acct * denom * Z).          (* absent = 0 *)
Definition seq_entries := list (acct * Z).
Definition allow_entries := list (acct * acct * allowance). (* absent = no grant *)

Record obs := { o_cfg : config;           (* schedule and params as stored after the step *)
                o_bal : bal_entries; o_seq : seq_entries; o_allow : allow_entries }.

(* per offered transaction: admitted by CheckTx; result code 0 in the block *)
Record txobs := { x_admitted : bool; x_ok : bool }.

Inductive hstep :=
| HBlock (max_gas : Z) (txs : list (btx * txobs)) (o : obs)
| HGov (vote_yes : bool) (ms : list gov_msg) (passed : bool) (o : obs)
| HSetCfg (cfg : config)
| HSetBal (a : acct) (d : denom) (v : Z)
| HSetAllow (g p : acct) (v : allowance).

Inductive case :=
| CHist (accts : list acct) (denoms : list denom) (pairs : list (acct * acct)) (types : list mtype)
        (cfg0 : config) (b0 : bal_entries) (s0 : seq_entries) (a0 : allow_entries) (steps : list hstep).

(** observed state as a model state *)
Definition sheet_of (l : bal_entries) : sheet :=
  fun a d => match find (fun e => let '(a', d', _) := e in N.eqb a a' && N.eqb d d') l with
             | Some (_, _, v) => v
             | None => 0
             end.
Definition seq_of (l : seq_entries) : acct -> Z :=
  fun a => match find (fun e => N.eqb a (fst e)) l with Some (_, v) => v | None => 0 end.
Definition allow_of (l : allow_entries) : acct -> acct -> allowance :=
  fun g p => match find (fun e => let '(g', p', _) := e in N.eqb g g' && N.eqb p p') l with
             | Some (_, _, v) => v
             | None => None
             end.
Definition mk_state (b : bal_entries) (s : seq_entries) (a : allow_entries) : state :=
  {| bal := sheet_of b; seqn := seq_of s; allow := allow_of a |}.

(** comparison of states on the case's universe *)
Record universe := { u_accts : list acct; u_denoms : list denom; u_pairs : list (acct * acct);
                     u_types : list mtype }.

Definition allow_eqb (ds : list denom) (x y : allowance) : bool :=
  match x, y with
  | None, None => true
  | Some None, Some None => true
  | Some (Some a), Some (Some b) => forallb (fun d => amount_of a d =? amount_of b d) ds
  | _, _ => false
  end.

Definition bal_agree (u : universe) (x y : sheet) : bool :=
  forallb (fun a => forallb (fun d => x a d =? y a d) (u_denoms u)) (u_accts u).
Definition seq_agree (u : universe) (x y : acct -> Z) : bool :=
  forallb (fun a => x a =? y a) (u_accts u).
Definition allow_agree (u : universe) (x y : acct -> acct -> allowance) : bool :=
  forallb (fun gp => allow_eqb (u_denoms u) (x (fst gp) (snd gp)) (y (fst gp) (snd gp))) (u_pairs u).

(** ** The property's checker on one observed transaction: [pre] and [post] are OBSERVED states. *)

Definition coveredb (u : universe) (cfg : config) (t : tx) (rs : list routed) : bool :=
  forallb (fun d => amount_of (base_fee cfg (t_gas t)) d + additional cfg rs d <=? amount_of (t_fee t) d)
          (u_denoms u).
(* what the mempool check can know: without the fees that handlers record themselves *)
Definition covered_preb (u : universe) (cfg : config) (t : tx) (rs : list routed) : bool :=
  forallb (fun d => amount_of (base_fee cfg (t_gas t)) d + additional_pre cfg rs d <=? amount_of (t_fee t) d)
          (u_denoms u).

(* the allowance of (granter, payer) after [fee] was spent from it (the spec of BasicAllowance) *)
Definition spent_allow (ds : list denom) (v : allowance) (fee : coins) : allowance :=
  match v with
  | Some (Some lim) =>
      if forallb (fun d => amount_of lim d - amount_of fee d =? 0) ds then None
      else Some (Some (csub lim fee))
  | other => other
  end.

Definition uses_grant (t : tx) : bool :=
  match t_granter t with Some g => negb (N.eqb g (t_payer t)) | None => false end.

Definition expected_allow (u : universe) (t : tx) (pre : state) (charged : coins) (g p : acct) : allowance :=
  if uses_grant t && N.eqb g (fee_source t) && N.eqb p (t_payer t)
  then spent_allow (u_denoms u) (allow pre g p) charged
  else allow pre g p.

(* every custom assessed fee is in usd or in the conversion denom of the params *)
Definition convertibleb (cfg : config) (rs : list routed) : bool :=
  forallb (fun r => match r_custom r with
                    | Some cu => match convert cfg (cu_coin cu) with Some _ => true | None => false end
                    | None => true
                    end) rs.

Definition check_prop (u : universe) (cfg : config) (t : tx) (pre post : state) (admitted ok : bool) : list string :=
  let base := base_fee cfg (t_gas t) in
  (* the fee amounts themselves are nonnegative, so a sum exceeding the declared fee in any denom of
     the universe means the mempool check has to reject *)
  tag (covered_preb u cfg t (routed_top t) || negb admitted) "prop:uncovered fee admitted to the mempool" ++
  if negb admitted then
    tag (bal_agree u (bal pre) (bal post)) "prop:rejected transaction was charged or moved coins" ++
    tag (seq_agree u (seqn pre) (seqn post)) "prop:rejected transaction changed a sequence" ++
    tag (allow_agree u (allow pre) (allow post)) "prop:rejected transaction used a fee allowance"
  else if ok then
    tag (forallb (fun d => amount_of base d <=? amount_of (t_fee t) d) (u_denoms u))
        "prop:base fee exceeds the declared fee" ++
    tag (forallb (fun d => bal pre (fee_source t) d - bal post (fee_source t) d
                           + share cfg (routed_all t) (fee_source t) d + msg_net (routed_all t) (fee_source t) d
                           <=? amount_of (t_fee t) d) (u_denoms u) || N.eqb (fee_source t) collector)
        "prop:payer debited more than the declared fee" ++
    tag (coveredb u cfg t (routed_all t)) "prop:succeeded although the additional fees are not covered by the declared fee" ++
    tag (convertibleb cfg (routed_all t))
        "prop:succeeded although a custom fee is in a denom that is neither usd nor the conversion denom of the params" ++
    tag (forallb (fun d => bal post (fee_source t) d - bal pre (fee_source t) d
                           - share cfg (routed_all t) (fee_source t) d - msg_net (routed_all t) (fee_source t) d
                           - ind (N.eqb (fee_source t) collector) (amount_of (t_fee t) d - shares_total cfg (routed_all t) d)
                           =? - amount_of (t_fee t) d) (u_denoms u))
        "prop:payer of a successful transaction not debited exactly the declared fee" ++
    tag (forallb (fun a => N.eqb a (fee_source t) || N.eqb a collector ||
                           forallb (fun d => bal post a d - bal pre a d - msg_net (routed_all t) a d
                                             =? share cfg (routed_all t) a d) (u_denoms u)) (u_accts u))
        "prop:recipient did not receive the floor of its basis-point share" ++
    tag (N.eqb (fee_source t) collector ||
         forallb (fun d => bal post collector d - bal pre collector d - msg_net (routed_all t) collector d
                           - share cfg (routed_all t) collector d
                           =? amount_of (t_fee t) d - shares_total cfg (routed_all t) d) (u_denoms u))
        "prop:fee collector did not receive the declared fee minus the recipients' shares" ++
    tag (forallb (fun d => zsum (fun a => bal post a d - bal pre a d) (u_accts u) =? 0) (u_denoms u))
        "prop:coins lost or created by fee distribution" ++
    tag (forallb (fun a => seqn post a =? seqn pre a + ind (existsb (N.eqb a) (t_signers t)) 1) (u_accts u))
        "prop:sequence numbers after success" ++
    tag (forallb (fun gp => allow_eqb (u_denoms u) (allow post (fst gp) (snd gp))
                              (expected_allow u t pre (t_fee t) (fst gp) (snd gp))) (u_pairs u))
        "prop:fee allowance after success not reduced by exactly the declared fee"
  else
    tag (forallb (fun a => forallb (fun d => bal post a d - bal pre a d =? spec_fail_delta cfg t a d) (u_denoms u))
                 (u_accts u))
        "prop:failed transaction did not move exactly the base fee from the payer to the fee collector" ++
    tag (forallb (fun a => seqn post a =? seqn pre a + ind (existsb (N.eqb a) (t_signers t)) 1) (u_accts u))
        "prop:sequence numbers after failure" ++
    tag (forallb (fun gp => allow_eqb (u_denoms u) (allow post (fst gp) (snd gp))
                              (expected_allow u t pre base (fst gp) (snd gp))) (u_pairs u))
        "prop:failed transaction changed a fee allowance by other than the base fee".

(** ** Blocks of several transactions: the block's observed effect must be the sum of per-transaction
    charges.  Between the transactions of one block nothing can be observed, so a failed transaction
    that is not the block's first may have been refused by the ante handler on the running state
    (nothing changes, not even a sequence) or have failed later (exactly the base fee, sequences
    advance): the checker accepts the observation iff SOME such classification explains the state after
    the block exactly (balances of every account in every denom, sequences, fee allowances). *)
Inductive cls := KOut | KOk | KCharged | KNothing.

Definition is_in_block (bx : btx * txobs) : bool :=
  x_admitted (snd bx) && negb (b_hold (fst bx)) || b_forced (fst bx).

Fixpoint assignments (txs : list (btx * txobs)) (first : bool) : list (list cls) :=
  match txs with
  | [] => [[]]
  | bx :: r =>
      let inb := is_in_block bx in
      let opts := if negb inb then [KOut]
                  else if x_ok (snd bx) then [KOk]
                  else if first && negb (b_forced (fst bx)) then [KCharged]
                  else [KCharged; KNothing] in
      (* a transaction admitted before it - in the block or held back - changed the check state it was admitted on *)
      flat_map (fun k => map (cons k) (assignments r (first && negb (x_admitted (snd bx) || b_forced (fst bx))))) opts
  end.

Definition bump_if (s : state) (t : tx) : acct -> Z :=
  fun a => seqn s a + ind (existsb (N.eqb a) (t_signers t)) 1.

Definition apply_cls (u : universe) (cfg : config) (s : state) (t : tx) (k : cls) : state :=
  match k with
  | KOk => {| bal := fun a d => bal s a d + spec_ok_delta cfg t a d;
              seqn := bump_if s t;
              allow := expected_allow u t s (t_fee t) |}
  | KCharged => {| bal := fun a d => bal s a d + spec_fail_delta cfg t a d;
                   seqn := bump_if s t;
                   allow := expected_allow u t s (base_fee cfg (t_gas t)) |}
  | _ => s
  end.

Fixpoint expect (u : universe) (cfg : config) (s : state) (txs : list (btx * txobs)) (ks : list cls) : state :=
  match txs, ks with
  | bx :: r, k :: kr => expect u cfg (apply_cls u cfg s (b_tx (fst bx)) k) r kr
  | _, _ => s
  end.

Definition state_agree (u : universe) (x y : state) : bool :=
  bal_agree u (bal x) (bal y) && seq_agree u (seqn x) (seqn y) && allow_agree u (allow x) (allow y).

Definition fee_eqb (x y : option fee_entry) : bool :=
  match x, y with
  | None, None => true
  | Some a, Some b =>
      N.eqb (fst (fe_coin a)) (fst (fe_coin b)) && (snd (fe_coin a) =? snd (fe_coin b)) &&
      (fe_bips a =? fe_bips b) &&
      match fe_recipient a, fe_recipient b with
      | None, None => true
      | Some p, Some q => N.eqb p q
      | _, _ => false
      end
  | _, _ => false
  end.

Definition cfg_agree (u : universe) (x y : config) : bool :=
  forallb (fun ty => fee_eqb (lookup_fee (schedule x) ty) (lookup_fee (schedule y) ty)) (u_types u) &&
  N.eqb (fst (floor_price x)) (fst (floor_price y)) && (snd (floor_price x) =? snd (floor_price y)) &&
  N.eqb (conv_denom x) (conv_denom y) && N.eqb (usd_denom x) (usd_denom y) &&
  (nhash_per_mil x =? nhash_per_mil y).

(* static clauses per transaction of a block *)
Definition check_static (u : universe) (cfg : config) (bx : btx * txobs) : list string :=
  let t := b_tx (fst bx) in
  (* the same clause for a new transaction and for a pending one offered again after a commit: what the
     CURRENT mempool check (the committed schedule and params of this step) rejects must be rejected *)
  tag (covered_preb u cfg t (routed_top t) || negb (x_admitted (snd bx)))
      (if b_recheck (fst bx)
       then "prop:a pending transaction whose declared fee the current schedule and params no longer cover was kept in the mempool on recheck"
       else "prop:uncovered fee admitted to the mempool") ++
  if x_ok (snd bx) && is_in_block bx then
    tag (b_forced (fst bx) || forallb (fun d => amount_of (base_fee cfg (t_gas t)) d <=? amount_of (t_fee t) d) (u_denoms u))
        "prop:base fee exceeds the declared fee" ++
    tag (coveredb u cfg t (routed_all t)) "prop:succeeded although the additional fees are not covered by the declared fee" ++
    tag (convertibleb cfg (routed_all t))
        "prop:succeeded although a custom fee is in a denom that is neither usd nor the conversion denom of the params"
  else [].

Definition check_block_prop (u : universe) (cfg : config) (pre post : state) (txs : list (btx * txobs)) : list string :=
  flat_map (check_static u cfg) txs ++
  tag (existsb (fun ks => state_agree u (expect u cfg pre txs ks) post) (assignments txs true))
      "prop:state after the block is not the sum of the per-transaction charges (declared fee with its split on success, base fee on failure, nothing when not executed) under any classification of its failed transactions" ++
  tag (forallb (fun d => zsum (fun a => bal post a d - bal pre a d) (u_accts u) =? 0) (u_denoms u))
      "prop:coins lost or created in the block".

(** ** One history *)
Definition result_ok (r : result) : bool := match r with ROk => true | _ => false end.
Definition result_admitted (r : result) : bool := match r with RRejected => false | _ => true end.

Definition mk_chain (o : obs) : chain :=
  {| ch_cfg := o_cfg o; ch_st := mk_state (o_bal o) (o_seq o) (o_allow o) |}.

Definition chain_corr (u : universe) (m : chain) (post : chain) : list string :=
  tag (cfg_agree u (ch_cfg m) (ch_cfg post)) "corr:fee schedule and params" ++
  tag (bal_agree u (bal (ch_st m)) (bal (ch_st post))) "corr:balances" ++
  tag (seq_agree u (seqn (ch_st m)) (seqn (ch_st post))) "corr:sequences" ++
  tag (allow_agree u (allow (ch_st m)) (allow (ch_st post))) "corr:fee allowances".

Fixpoint bools_eqb (x y : list bool) : bool :=
  match x, y with
  | [], [] => true
  | a :: r, b :: q => Bool.eqb a b && bools_eqb r q
  | _, _ => false
  end.

Definition check_block_step (u : universe) (mc pre : chain) (mg : Z) (txs : list (btx * txobs)) (o : obs)
  : chain * chain * list string :=
  let post := mk_chain o in
  let bs := map fst txs in
  let adm := mempool (ch_cfg mc) (ch_st mc) bs in
  let '(mc', rs) := run_block mc mg bs in
  let inb := map is_in_block txs in
  (mc', post,
   tag (bools_eqb adm (map (fun bx => x_admitted (snd bx)) txs)) "corr:admission" ++
   tag (bools_eqb (map result_ok rs) (map (fun bx => x_ok (snd bx) && is_in_block bx) txs)) "corr:success/failure" ++
   chain_corr u mc' post ++
   tag (cfg_agree u (ch_cfg pre) (ch_cfg post)) "prop:a block of transactions changed the fee schedule or the msgfees params" ++
   match txs with
   | [(b, x)] =>
       if b_forced b || b_hold b then check_block_prop u (ch_cfg pre) (ch_st pre) (ch_st post) txs
       else
         tag (negb (b_recheck b) || covered_preb u (ch_cfg pre) (b_tx b) (routed_top (b_tx b)) || negb (x_admitted x))
             "prop:a pending transaction whose declared fee the current schedule and params no longer cover was kept in the mempool on recheck" ++
         tag (match rs with [RAnteFail] => false | _ => true end) "corr:model says the ante handler fails in the block" ++
         check_prop u (ch_cfg pre) (b_tx b) (ch_st pre) (ch_st post) (x_admitted x) (x_ok x)
   | _ => check_block_prop u (ch_cfg pre) (ch_st pre) (ch_st post) txs
   end).

(* what the bank sends of a passed proposal moved; nothing else may move: messages executed by
   governance are not part of any transaction and pay no message fee *)
Definition gov_bal_ok (u : universe) (pre post : state) (ms : list gov_msg) : bool :=
  forallb (fun a => forallb (fun d => bal post a d - bal pre a d
                                      =? credit_of (gov_moves ms) a d - debit_of (gov_moves ms) a d) (u_denoms u))
          (u_accts u).

Definition check_gov_step (u : universe) (mc pre : chain) (v : bool) (ms : list gov_msg) (passed : bool) (o : obs)
  : chain * chain * list string :=
  let post := mk_chain o in
  let '(mc', ok) := gov_exec mc v ms in
  (mc', post,
   tag (Bool.eqb ok passed) "corr:proposal passed/failed" ++
   chain_corr u mc' post ++
   (if passed then
      tag (gov_bal_ok u (ch_st pre) (ch_st post) ms)
          "prop:a passed proposal moved coins other than its own bank sends (messages executed by governance pay no message fee)"
    else
      tag (cfg_agree u (ch_cfg pre) (ch_cfg post))
          "prop:a proposal that failed or was rejected changed the fee schedule or the msgfees params" ++
      tag (bal_agree u (bal (ch_st pre)) (bal (ch_st post)))
          "prop:a proposal that failed or was rejected moved coins") ++
   tag (seq_agree u (seqn (ch_st pre)) (seqn (ch_st post))) "prop:a proposal changed a sequence number" ++
   tag (allow_agree u (allow (ch_st pre)) (allow (ch_st post))) "prop:a proposal changed a fee allowance").

Definition at_step (i : N) (e : list string) : list string :=
  map (fun s => (s ++ " @step " ++ N_to_string i)%string) e.

Fixpoint check_hist (u : universe) (mc pre : chain) (i : N) (steps : list hstep) : list string :=
  match steps with
  | [] => []
  | HBlock mg txs o :: rest =>
      let '(mc', post, errs) := check_block_step u mc pre mg txs o in
      match errs with
      | [] => check_hist u mc' post (N.succ i) rest
      | e => at_step i e
      end
  | HGov v ms passed o :: rest =>
      let '(mc', post, errs) := check_gov_step u mc pre v ms passed o in
      match errs with
      | [] => check_hist u mc' post (N.succ i) rest
      | e => at_step i e
      end
  | HSetCfg cfg :: rest =>
      check_hist u (fst (bstep mc (OSetCfg cfg))) (fst (bstep pre (OSetCfg cfg))) (N.succ i) rest
  | HSetBal a d v :: rest =>
      check_hist u (fst (bstep mc (OSetBalance a d v))) (fst (bstep pre (OSetBalance a d v))) (N.succ i) rest
  | HSetAllow g p v :: rest =>
      check_hist u (fst (bstep mc (OSetAllowance g p v))) (fst (bstep pre (OSetAllowance g p v))) (N.succ i) rest
  end.

Definition check (c : case) : list string :=
  match c with
  | CHist accts denoms pairs types cfg0 b0 s0 a0 steps =>
      let u := {| u_accts := accts; u_denoms := denoms; u_pairs := pairs; u_types := types |} in
      let c0 := {| ch_cfg := cfg0; ch_st := mk_state b0 s0 a0 |} in
      check_hist u c0 c0 0%N steps
  end.

Definition check_all := check_list check.

(** short constructors for the generated case files *)
Definition Cfg := Build_config.
Definition Fe := Build_fee_entry.
Definition Cu := Build_custom.
Definition Rt := Build_routed.
Definition Tm := Build_tmsg.
Definition Tx := Build_tx.
Definition Bt := Build_btx.
Definition Ob := Build_obs.
Definition Xo := Build_txobs.
