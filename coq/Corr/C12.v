(** Correspondence + property checker for C12 (marker access rights, authz transfer grants).

    Three kinds of cases, all observed on the real message router / keepers:
      CAccess    one administration endpoint on one configuration: did it succeed, marker status after
      CTransfer  one MsgTransferRequest: did it succeed, balance deltas, the stored grant afterwards
      CSeq       a sequence of uses of ONE MarkerTransferAuthorization, with the observation after
                 each use (success, balance deltas, the grant the authz Grants query returns)

    "corr:*"  the model (Marker/Access.v, Marker/Authz.v) and the implementation disagree;
    "prop:*"  the implementation's own observation breaks the property: a call succeeded for a
              caller without the documented right, a third-party transfer went through without a
              grant or an admissible forced transfer, the total moved under a grant exceeds the
              original limit, or a recipient is not on the original allow list. *)
From Coq Require Import ZArith NArith List String Bool.
From PV Require Export Marker.Access Marker.Authz Corr.CorrBase.
Import ListNotations.
Open Scope string_scope.
Open Scope list_scope.
Open Scope Z_scope.

Record step_obs := {
  so_msg : tmsg;
  so_ok : bool;
  so_to_delta : Z;               (* change of the recipient's balance of the denom *)
  so_from_delta : Z;             (* decrease of the source's balance of the denom *)
  so_grant : option grant        (* what the Grants query returns afterwards *)
}.

(** One step of a marker lifecycle driven through the real handlers by authorised callers. *)
Record life_obs := {
  lo_op : lop;
  lo_ok : bool;
  lo_status : status;      (* marker status afterwards *)
  lo_manager : bool        (* marker.Manager is non-empty afterwards *)
}.

Inductive case :=
| CLife (init : life) (steps : list life_obs)
| CAccess (c : cfg) (o : op) (ok : bool) (after : status)
| CTransfer (x : xfer) (module_or_contract : bool) (ok : bool) (to_delta from_delta : Z)
            (grant_after : option grant)
| CSeq (via_exec : bool) (g0 : grant) (bal0 : coins) (steps : list step_obs).

(** Coins are compared as maps. *)
Definition coins_eqb (a b : coins) : bool :=
  forallb (fun d => Z.eqb (amount_of d a) (amount_of d b)) (map fst a ++ map fst b).
Definition grant_eqb (a b : grant) : bool :=
  coins_eqb (g_limit a) (g_limit b) && list_eqb N.eqb (g_allow a) (g_allow b).
Definition ogrant_eqb := opt_eqb grant_eqb.

Definition op_is_cancel (o : op) : bool := match o with OCancel => true | _ => false end.

(** *** one administration endpoint *)
Definition check_access (c : cfg) (o : op) (ok : bool) (after : status) : list string :=
  tag (Bool.eqb ok (match decide c o with Denied => false | _ => true end)) "corr:access_decision" ++
  tag (status_eqb after (status_after c o)) "corr:status_after" ++
  (if ok then
     if op_is_cancel o && status_eqb (c_status c) SCancelled then
       (* documented as nothing to do: the success must not have changed anything *)
       tag (status_eqb after SCancelled) "prop:cancel_of_cancelled_marker_changed_it"
     else
       tag (req_met c (documented o (c_status c) (c_type c))) "prop:succeeded_without_documented_right"
   else []).

(** *** one transfer *)
Definition grant_accepts (og : option grant) (m : tmsg) : bool :=
  match og with
  | Some g => match accept g m with Some _ => true | None => false end
  | None => false
  end.

(** The grant that has to be stored after a use of [g] for [m]: the limit of the denom reduced by
    the amount, everything else (other denoms, allow list) as before; removed when nothing is left. *)
Definition grant_after_use_ok (g : grant) (m : tmsg) (after : option grant) : bool :=
  let rest := set_amt (m_denom m) (amount_of (m_denom m) (g_limit g) - m_amt m) (g_limit g) in
  match after with
  | None => is_zero rest
  | Some g' => coins_eqb (g_limit g') rest && negb (is_zero rest) && list_eqb N.eqb (g_allow g') (g_allow g)
  end.

Definition check_transfer (x : xfer) (modc ok : bool) (dto dfrom : Z) (ga : option grant) : list string :=
  let m := x_msg x in
  let model := transfer x in
  tag (Bool.eqb ok (match model with Some _ => true | None => false end)) "corr:transfer_decision" ++
  tag (Z.eqb dto (if ok then m_amt m else 0) && Z.eqb dfrom (if ok then m_amt m else 0)) "corr:transfer_balances" ++
  tag (ogrant_eqb ga (match model with Some (_, g) => g | None => x_grant x end)) "corr:transfer_stored_grant" ++
  tag (Bool.eqb modc (module_or_contract_shape (x_from x)) || negb modc) "corr:module_account_shape" ++
  (if ok || negb (Z.eqb dto 0) then
     tag (status_eqb (x_status x) SActive && is_restricted (x_type x) &&
          (has RTransfer (x_rights x) || has RForceTransfer (x_rights x)))
         "prop:transfer_without_transfer_right" ++
     tag (dest_marker_ok (x_dest x)) "prop:deposit_into_restricted_marker_without_deposit_right" ++
     (if x_self x then []
      else
        let force_ok := x_forced x && has RForceTransfer (x_rights x) in
        if force_ok then
          tag (negb modc) "prop:forced_transfer_out_of_module_or_contract_account"
        else
          tag (grant_accepts (x_grant x) m) "prop:third_party_transfer_without_grant" ++
          match x_grant x with
          | Some g => tag (grant_after_use_ok g m ga) "prop:grant_not_reduced_by_the_use"
          | None => []
          end)
   else []).

(** *** a sequence of uses of one grant *)

(** The property on the observations alone (no model involved): running totals of what arrived,
    per denom, against the ORIGINAL limit; recipients against the ORIGINAL allow list.  Reports the
    first step that breaks it. *)
Fixpoint seq_prop (i : N) (g0 : grant) (totals : coins) (steps : list step_obs) : list string :=
  match steps with
  | [] => []
  | o :: r =>
      let m := so_msg o in
      let d := m_denom m in
      let totals' := set_amt d (amount_of d totals + so_to_delta o) totals in
      let tags :=
        tag (Z.leb (amount_of d totals') (amount_of d (g_limit g0))) "prop:total_moved_exceeds_granted_limit" ++
        tag (negb (so_ok o || negb (Z.eqb (so_to_delta o) 0)) || is_nil (g_allow g0) || mem (m_to m) (g_allow g0))
            "prop:recipient_not_on_allow_list" in
      match tags with
      | [] => seq_prop (N.succ i) g0 totals' r
      | e => map (fun t => (t ++ " @step " ++ N_to_string i)%string) e
      end
  end.

(** Model against implementation, step by step; reports the first step that disagrees. *)
Fixpoint seq_corr (i : N) (s : gstate) (steps : list step_obs) : list string :=
  match steps with
  | [] => []
  | o :: r =>
      let m := so_msg o in
      let '(s', ok) := use s m in
      let tags :=
        tag (Bool.eqb (so_ok o) ok) "corr:use_accepted" ++
        tag (ogrant_eqb (so_grant o) (gs_grant s')) "corr:stored_grant" ++
        tag (Z.eqb (so_to_delta o) (if ok then m_amt m else 0) &&
             Z.eqb (so_from_delta o) (if ok then m_amt m else 0)) "corr:use_balances" in
      match tags with
      | [] => seq_corr (N.succ i) s' r
      | e => map (fun t => (t ++ " @step " ++ N_to_string i)%string) e
      end
  end.

Definition check_seq (g0 : grant) (bal0 : coins) (steps : list step_obs) : list string :=
  seq_corr 0%N {| gs_grant := Some g0; gs_bal := bal0 |} steps ++ seq_prop 0%N g0 [] steps.

(** *** a marker lifecycle *)
Fixpoint life_corr (i : N) (l : life) (steps : list life_obs) : list string :=
  match steps with
  | [] => []
  | o :: r =>
      let '(l', ok) := life_step l (lo_op o) in
      let tags :=
        tag (Bool.eqb (lo_ok o) ok) "corr:transition_accepted" ++
        tag (status_eqb (lo_status o) (l_status l')) "corr:transition_status" ++
        tag (Bool.eqb (lo_manager o) (l_manager l')) "corr:manager_after_transition" in
      match tags with
      | [] => life_corr (N.succ i) l' r
      | e => map (fun t => (t ++ " @step " ++ N_to_string i)%string) e
      end
  end.

(** On the observations alone: once an Active status has been observed, no manager is stored. *)
Fixpoint life_prop (i : N) (activated : bool) (steps : list life_obs) : list string :=
  match steps with
  | [] => []
  | o :: r =>
      let activated' := activated || is_active (lo_status o) in
      match tag (negb (activated' && lo_manager o)) "prop:manager_survived_activation" with
      | [] => life_prop (N.succ i) activated' r
      | e => map (fun t => (t ++ " @step " ++ N_to_string i)%string) e
      end
  end.

Definition check (c : case) : list string :=
  match c with
  | CLife init steps => life_corr 0%N init steps ++ life_prop 0%N (l_activated init) steps
  | CAccess c o ok after => check_access c o ok after
  | CTransfer x modc ok dto dfrom ga => check_transfer x modc ok dto dfrom ga
  | CSeq _ g0 bal0 steps => check_seq g0 bal0 steps
  end.

Definition check_all := check_list check.
