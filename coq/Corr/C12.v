(** Correspondence + property checker for C12 (marker access rights, authz transfer grants).

    The kinds of cases, all observed on the real message router / keepers:
      CAccess    one administration endpoint on one configuration: did it succeed, marker status after
      CTransfer  one MsgTransferRequest: did it succeed, balance deltas, the stored grant afterwards
      CSeq       a sequence of uses of ONE MarkerTransferAuthorization, with the observation after
                 each use (success, balance deltas, the grant the authz Grants query returns)
      CSeqT      a history of one grant WITH block time: uses (partial, exhausting, over-use), the
                 block time moving past the expiration, re-grants (MsgGrant), revocation; after
                 each step the stored grant INCLUDING its expiration
      CWithdraw  one MsgWithdrawRequest with its recipient (plain, blocked, a second marker of
                 either type in every status, caller with / without DEPOSIT on it)
      CHist      a history of calls on TWO markers: AddAccess / DeleteAccess (and the governance
                 Set- / RemoveAdministrator) interleaved with every other endpoint; after each call
                 both markers' status, manager and access list
      CCreate    AddFinalizeActivateMarker on a fresh / an existing denom
      CGovParams UpdateParams by the governance account / anybody else
      CAllowance whose fee allowance an accepted GrantAllowance created
      CSupply    AddAccess / DeleteAccess on markers whose bank supply differs from the recorded one
                 (floating markers after burns, mints, governance supply changes; finalized markers
                 with pre-existing coins), with the recorded supply, the bank supply and the
                 caller's balance as numbers
      CIbc       one MsgIbcTransferRequest through the marker message server of a second marker
                 keeper over the app's stores whose ibc transfer server escrows the token
      CCoverage  which endpoints the run exercised (every operation of [all_ops] must be there)

    "corr:*"  the model (Marker/Access.v, Marker/Authz.v) and the implementation disagree;
    "prop:*"  the implementation's own observation breaks the property: a call succeeded for a
              caller without the documented right, a third-party transfer went through without a
              grant or an admissible forced transfer, the total moved under a grant exceeds the
              original limit, or a recipient is not on the original allow list. *)
From Coq Require Import ZArith NArith List String Bool.
From PV Require Export Marker.Access Marker.Authz Marker.AuthzSeq Marker.AccessHist Marker.AccessTable Corr.CorrBase.
Import ListNotations.
Open Scope string_scope.
Open Scope list_scope.
Open Scope Z_scope.

Record step_obs := {
  so_msg : tmsg;
  so_ok : bool;
  so_to_delta : Z;               (* change of the recipient's balance of the denom *)
  so_from_delta : Z;             (* decrease of the source's balance of the denom *)
  so_grant : option grant        (* what the Grants query returns afterwards *)
}.

(** One step of a marker lifecycle driven through the real handlers by authorised callers. *)
Record life_obs := {
  lo_op : lop;
  lo_ok : bool;
  lo_status : status;      (* marker status afterwards *)
  lo_manager : bool        (* marker.Manager is non-empty afterwards *)
}.

(** One step of a timed grant history. *)
Record tstep_obs := {
  to_op : sop;
  to_ok : bool;
  to_to_delta : Z;
  to_from_delta : Z;
  to_grant : option tgrant       (* Grants query afterwards: authorization and expiration *)
}.

(** One call of a two-marker history: both markers as stored afterwards (status, manager, access
    list are compared; the other fields repeat what the harness knows). *)
Record hstep_obs := { hs_op : hop; hs_ok : bool; hs_a : mk; hs_b : mk }.

Inductive case :=
| CLife (init : life) (steps : list life_obs)
| CAccess (c : cfg) (o : op) (ok : bool) (after : status)
| CTransfer (x : xfer) (module_or_contract : bool) (ok : bool) (to_delta from_delta : Z)
            (grant_after : option grant)
| CSeq (via_exec : bool) (g0 : grant) (bal0 : coins) (steps : list step_obs)
| CSeqT (r : route) (g0 : grant) (e0 : option Z) (bal0 : coins) (now0 : Z) (steps : list tstep_obs)
| CWithdraw (c : cfg) (d : dest) (ok : bool) (moved : Z)
| CHist (s0 : hstate) (steps : list hstep_obs)
| CCreate (exists_already : bool) (caller_rights_on_existing : N) (ok : bool) (after : status) (manager_after : bool)
| CGovParams (is_gov ok : bool)
| CAllowance (of_marker_account of_administrator : bool)
| CSupply (c : cfg) (sf : supply_facts) (o : op) (ok : bool) (after : status)
| CIbc (x : xfer) (ok : bool) (escrow_delta from_delta : Z) (grant_after : option grant)
| CCoverage (ops : list op).

(** Coins are compared as maps. *)
Definition coins_eqb (a b : coins) : bool :=
  forallb (fun d => Z.eqb (amount_of d a) (amount_of d b)) (map fst a ++ map fst b).
Definition grant_eqb (a b : grant) : bool :=
  coins_eqb (g_limit a) (g_limit b) && list_eqb N.eqb (g_allow a) (g_allow b).
Definition ogrant_eqb := opt_eqb grant_eqb.

Definition op_is_cancel (o : op) : bool := match o with OCancel => true | _ => false end.

(** *** one administration endpoint *)
Definition check_access (c : cfg) (o : op) (ok : bool) (after : status) : list string :=
  tag (Bool.eqb ok (match decide c o with Denied => false | _ => true end)) "corr:access_decision" ++
  tag (status_eqb after (status_after c o)) "corr:status_after" ++
  (if ok then
     if op_is_cancel o && status_eqb (c_status c) SCancelled then
       (* documented as nothing to do: the success must not have changed anything *)
       tag (status_eqb after SCancelled) "prop:cancel_of_cancelled_marker_changed_it"
     else
       tag (req_met c (documented o (c_status c) (c_type c))) "prop:succeeded_without_documented_right"
   else []).

(** *** one transfer *)
Definition grant_accepts (og : option grant) (m : tmsg) : bool :=
  match og with
  | Some g => match accept g m with Some _ => true | None => false end
  | None => false
  end.

(** The grant that has to be stored after a use of [g] for [m]: the limit of the denom reduced by
    the amount, everything else (other denoms, allow list) as before; removed when nothing is left. *)
Definition grant_after_use_ok (g : grant) (m : tmsg) (after : option grant) : bool :=
  let rest := set_amt (m_denom m) (amount_of (m_denom m) (g_limit g) - m_amt m) (g_limit g) in
  match after with
  | None => is_zero rest
  | Some g' => coins_eqb (g_limit g') rest && negb (is_zero rest) && list_eqb N.eqb (g_allow g') (g_allow g)
  end.

Definition check_transfer (x : xfer) (modc ok : bool) (dto dfrom : Z) (ga : option grant) : list string :=
  let m := x_msg x in
  let model := transfer x in
  tag (Bool.eqb ok (match model with Some _ => true | None => false end)) "corr:transfer_decision" ++
  tag (Z.eqb dto (if ok then m_amt m else 0) && Z.eqb dfrom (if ok then m_amt m else 0)) "corr:transfer_balances" ++
  tag (ogrant_eqb ga (match model with Some (_, g) => g | None => x_grant x end)) "corr:transfer_stored_grant" ++
  tag (Bool.eqb modc (module_or_contract_shape (x_from x)) || negb modc) "corr:module_account_shape" ++
  (if ok || negb (Z.eqb dto 0) then
     tag (status_eqb (x_status x) SActive && is_restricted (x_type x) &&
          (has RTransfer (x_rights x) || has RForceTransfer (x_rights x)))
         "prop:transfer_without_transfer_right" ++
     tag (dest_marker_ok (x_dest x)) "prop:deposit_into_restricted_marker_without_deposit_right" ++
     (if x_self x then []
      else
        let force_ok := x_forced x && has RForceTransfer (x_rights x) in
        if force_ok then
          tag (negb modc) "prop:forced_transfer_out_of_module_or_contract_account"
        else
          tag (grant_accepts (x_grant x) m) "prop:third_party_transfer_without_grant" ++
          match x_grant x with
          | Some g => tag (grant_after_use_ok g m ga) "prop:grant_not_reduced_by_the_use"
          | None => []
          end)
   else []).

(** *** a sequence of uses of one grant *)

(** The property on the observations alone (no model involved): running totals of what arrived,
    per denom, against the ORIGINAL limit; recipients against the ORIGINAL allow list.  Reports the
    first step that breaks it. *)
Fixpoint seq_prop (i : N) (g0 : grant) (totals : coins) (steps : list step_obs) : list string :=
  match steps with
  | [] => []
  | o :: r =>
      let m := so_msg o in
      let d := m_denom m in
      let totals' := set_amt d (amount_of d totals + so_to_delta o) totals in
      let tags :=
        tag (Z.leb (amount_of d totals') (amount_of d (g_limit g0))) "prop:total_moved_exceeds_granted_limit" ++
        tag (negb (so_ok o || negb (Z.eqb (so_to_delta o) 0)) || is_nil (g_allow g0) || mem (m_to m) (g_allow g0))
            "prop:recipient_not_on_allow_list" in
      match tags with
      | [] => seq_prop (N.succ i) g0 totals' r
      | e => map (fun t => (t ++ " @step " ++ N_to_string i)%string) e
      end
  end.

(** Model against implementation, step by step; reports the first step that disagrees. *)
Fixpoint seq_corr (i : N) (s : gstate) (steps : list step_obs) : list string :=
  match steps with
  | [] => []
  | o :: r =>
      let m := so_msg o in
      let '(s', ok) := use s m in
      let tags :=
        tag (Bool.eqb (so_ok o) ok) "corr:use_accepted" ++
        tag (ogrant_eqb (so_grant o) (gs_grant s')) "corr:stored_grant" ++
        tag (Z.eqb (so_to_delta o) (if ok then m_amt m else 0) &&
             Z.eqb (so_from_delta o) (if ok then m_amt m else 0)) "corr:use_balances" in
      match tags with
      | [] => seq_corr (N.succ i) s' r
      | e => map (fun t => (t ++ " @step " ++ N_to_string i)%string) e
      end
  end.

Definition check_seq (g0 : grant) (bal0 : coins) (steps : list step_obs) : list string :=
  seq_corr 0%N {| gs_grant := Some g0; gs_bal := bal0 |} steps ++ seq_prop 0%N g0 [] steps.

(** *** a marker lifecycle *)
Fixpoint life_corr (i : N) (l : life) (steps : list life_obs) : list string :=
  match steps with
  | [] => []
  | o :: r =>
      let '(l', ok) := life_step l (lo_op o) in
      let tags :=
        tag (Bool.eqb (lo_ok o) ok) "corr:transition_accepted" ++
        tag (status_eqb (lo_status o) (l_status l')) "corr:transition_status" ++
        tag (Bool.eqb (lo_manager o) (l_manager l')) "corr:manager_after_transition" in
      match tags with
      | [] => life_corr (N.succ i) l' r
      | e => map (fun t => (t ++ " @step " ++ N_to_string i)%string) e
      end
  end.

(** On the observations alone: once an Active status has been observed, no manager is stored. *)
Fixpoint life_prop (i : N) (activated : bool) (steps : list life_obs) : list string :=
  match steps with
  | [] => []
  | o :: r =>
      let activated' := activated || is_active (lo_status o) in
      match tag (negb (activated' && lo_manager o)) "prop:manager_survived_activation" with
      | [] => life_prop (N.succ i) activated' r
      | e => map (fun t => (t ++ " @step " ++ N_to_string i)%string) e
      end
  end.


(** *** a timed history of one grant *)
Definition oz_eqb := opt_eqb Z.eqb.
Definition tgrant_eqb (a b : tgrant) : bool := grant_eqb (tg_grant a) (tg_grant b) && oz_eqb (tg_exp a) (tg_exp b).
Definition otgrant_eqb := opt_eqb tgrant_eqb.

Definition sop_is_use (o : sop) : bool := match o with SUse _ _ _ => true | _ => false end.

Fixpoint seqt_corr (r : route) (i : N) (s : tstate) (steps : list tstep_obs) : list string :=
  match steps with
  | [] => []
  | o :: rest =>
      let '(s', res) := sstep r s (to_op o) in
      let ok := match res with URefused => false | _ => true end in
      let amt := match to_op o with SUse m _ _ => if ok then m_amt m else 0 | _ => 0 end in
      let tags :=
        tag (Bool.eqb (to_ok o) ok) "corr:timed_step_accepted" ++
        tag (otgrant_eqb (to_grant o) (ts_grant s')) "corr:timed_stored_grant" ++
        tag (Z.eqb (to_to_delta o) amt && Z.eqb (to_from_delta o) amt) "corr:timed_use_balances" in
      match tags with
      | [] => seqt_corr r (N.succ i) s' rest
      | e => map (fun t => (t ++ " @step " ++ N_to_string i)%string) e
      end
  end.

(** Whether everything the issue allows has been used, in every denom it names. *)
Definition issue_exhausted (i : issue) (used : coins) : bool :=
  forallb (fun x => Z.eqb (amount_of (fst x) used) (amount_of (fst x) (g_limit (is_grant i)))) (g_limit (is_grant i)).

(** What has to be stored after a use under issue [i] with [used] consumed: nothing when the issue
    is exhausted, otherwise the issue's limit less [used], its allow list, its expiration. *)
Definition stored_after_use_tags (i : issue) (used : coins) (after : option tgrant) : list string :=
  match after with
  | None => tag (issue_exhausted i used) "prop:grant_deleted_before_it_was_exhausted"
  | Some tg =>
      tag (negb (issue_exhausted i used)) "prop:exhausted_grant_not_deleted" ++
      tag (forallb (fun d => Z.eqb (amount_of d (g_limit (tg_grant tg)))
                                   (amount_of d (g_limit (is_grant i)) - amount_of d used))
                   (map fst (g_limit (is_grant i)) ++ map fst (g_limit (tg_grant tg))))
          "prop:grant_not_reduced_by_the_use" ++
      tag (list_eqb N.eqb (g_allow (tg_grant tg)) (g_allow (is_grant i))) "prop:use_changed_the_allow_list" ++
      tag (oz_eqb (tg_exp tg) (is_exp i)) "prop:use_changed_the_grant_expiration"
  end.

(** The property on the observations alone.  [prev] is the stored grant observed before the step. *)
Fixpoint seqt_prop (r : route) (n : N) (i : issue) (used : coins) (now : Z) (prev : option tgrant)
                   (steps : list tstep_obs) : list string :=
  match steps with
  | [] => []
  | o :: rest =>
      let moved := to_ok o || negb (Z.eqb (to_to_delta o) 0) in
      let '(i', used', now', tags) :=
        match to_op o with
        | SUse m rights forced =>
            let by_force := match r with ViaKeeper => forced && has RForceTransfer rights | ViaExec => false end in
            if moved && negb by_force then
              let used' := add_amt (m_denom m) (to_to_delta o) used in
              (i, used', now,
               tag (match prev with Some _ => true | None => false end) "prop:third_party_transfer_without_grant" ++
               tag (negb (expired (is_exp i) now)) "prop:transfer_under_expired_grant" ++
               tag (is_nil (g_allow (is_grant i)) || mem (m_to m) (g_allow (is_grant i))) "prop:recipient_not_on_allow_list" ++
               tag (Z.leb (amount_of (m_denom m) used') (amount_of (m_denom m) (g_limit (is_grant i))))
                   "prop:total_moved_exceeds_granted_limit" ++
               stored_after_use_tags i used' (to_grant o))
            else
              (i, used, now,
               if moved then tag (otgrant_eqb (to_grant o) prev) "prop:forced_transfer_touched_the_grant" else [])
        | SGrant g e =>
            if to_ok o then
              ({| is_grant := g; is_exp := e |}, [], now,
               tag (otgrant_eqb (to_grant o) (Some {| tg_grant := g; tg_exp := e |})) "prop:regrant_does_not_replace_the_stored_grant")
            else (i, used, now, [])
        | SRevoke => (i, used, now, if to_ok o then tag (match to_grant o with None => true | Some _ => false end) "prop:revoked_grant_still_stored" else [])
        | STick dt => (i, used, now + Z.max 0 dt, [])
        end in
      match tags with
      | [] => seqt_prop r (N.succ n) i' used' now' (to_grant o) rest
      | e => map (fun t => (t ++ " @step " ++ N_to_string n)%string) e
      end
  end.

Definition check_seqt (r : route) (g0 : grant) (e0 : option Z) (bal0 : coins) (now0 : Z) (steps : list tstep_obs) : list string :=
  let tg0 := {| tg_grant := g0; tg_exp := e0 |} in
  tag (grant_valid g0) "corr:initial_grant_not_valid" ++
  seqt_corr r 0%N {| ts_grant := Some tg0; ts_bal := bal0; ts_now := now0 |} steps ++
  seqt_prop r 0%N {| is_grant := g0; is_exp := e0 |} [] now0 (Some tg0) steps.

(** *** a withdrawal with its recipient *)
Definition check_withdraw (c : cfg) (d : dest) (ok : bool) (moved : Z) : list string :=
  tag (Bool.eqb ok (withdraw_to c d)) "corr:withdraw_decision" ++
  (if ok || negb (Z.eqb moved 0) then
     tag (has RWithdraw (c_rights c)) "prop:withdraw_without_withdraw_right" ++
     tag (dest_marker_ok d) "prop:deposit_into_restricted_marker_without_deposit_right"
   else []).

(** *** a history of calls on two markers *)
Definition access_eqb (a b : list (addr * N)) : bool :=
  forallb (fun x => N.eqb (rights_of x a) (rights_of x b)) (map fst a ++ map fst b).
Definition oaddr_eq (a b : option addr) : bool := opt_eqb N.eqb a b.
Definition mk_same (a b : mk) : bool :=
  status_eqb (mk_status a) (mk_status b) && oaddr_eq (mk_manager a) (mk_manager b) &&
  access_eqb (mk_access a) (mk_access b).

Fixpoint hist_corr (i : N) (s : hstate) (steps : list hstep_obs) : list string :=
  match steps with
  | [] => []
  | o :: r =>
      let '(s', out) := hstep s (hs_op o) in
      let tags :=
        tag (Bool.eqb (hs_ok o) (match out with Denied => false | _ => true end)) "corr:history_call_decision" ++
        tag (mk_same (hs_a o) (h_a s') && mk_same (hs_b o) (h_b s')) "corr:history_marker_state" in
      match tags with
      | [] => hist_corr (N.succ i) s' r
      | e => map (fun t => (t ++ " @step " ++ N_to_string i)%string) e
      end
  end.

(** On the observations alone: [pa], [pb] are the markers as observed before the call; whether a
    marker has ever been active is accumulated from the observed statuses. *)
Definition obs_mk (m : mk) (activated : bool) : mk :=
  {| mk_status := mk_status m; mk_type := mk_type m; mk_manager := mk_manager m; mk_access := mk_access m;
     mk_govctl := mk_govctl m; mk_activated := activated |}.

Fixpoint hist_prop (i : N) (pa pb : mk) (steps : list hstep_obs) : list string :=
  match steps with
  | [] => []
  | o :: r =>
      let op := hs_op o in
      let w := ho_on op in
      let before := match w with MA => pa | MB => pb end in
      let after := match w with MA => hs_a o | MB => hs_b o end in
      let other_before := match w with MA => pb | MB => pa end in
      let other_after := match w with MA => hs_b o | MB => hs_a o end in
      let c := cfg_of before (ho_caller op) (ho_env op) in
      let tags :=
        tag (mk_same other_before other_after) "prop:call_changed_the_other_marker" ++
        (if hs_ok o then
           (if op_is_cancel (ho_op op) && status_eqb (mk_status before) SCancelled then
              tag (mk_same before after) "prop:cancel_of_cancelled_marker_changed_it"
            else
              tag (req_met c (documented (ho_op op) (mk_status before) (mk_type before)))
                  "prop:succeeded_without_documented_right") ++
           (match ho_op op with
            | ODeleteAccess | ORemoveAdministrator =>
                tag (N.eqb (rights_of (ho_target op) (mk_access after)) 0) "prop:revoked_rights_still_listed"
            | OAddAccess | OSetAdministrator =>
                tag (N.eqb (N.land (rights_of (ho_target op) (mk_access after)) (ho_mask op)) (ho_mask op))
                    "prop:granted_rights_not_listed"
            | _ => []
            end)
         else tag (mk_same before after) "prop:refused_call_changed_the_marker") in
      match tags with
      | [] =>
          let pa' := obs_mk (hs_a o) (mk_activated pa || is_active (mk_status (hs_a o))) in
          let pb' := obs_mk (hs_b o) (mk_activated pb || is_active (mk_status (hs_b o))) in
          hist_prop (N.succ i) pa' pb' r
      | e => map (fun t => (t ++ " @step " ++ N_to_string i)%string) e
      end
  end.

Definition check_hist (s0 : hstate) (steps : list hstep_obs) : list string :=
  tag (hwfb s0) "corr:history_start_not_well_formed" ++
  hist_corr 0%N s0 steps ++ hist_prop 0%N (h_a s0) (h_b s0) steps.

(** *** creation, module parameters, coverage *)
Definition check_create (ex : bool) (rs : N) (ok : bool) (after : status) (mgr : bool) : list string :=
  tag (Bool.eqb ok (negb ex)) "corr:create_decision" ++
  (if ok then
     tag (negb ex) "prop:existing_marker_replaced_by_a_new_one" ++
     tag (status_eqb after SActive && negb mgr) "prop:manager_survived_activation"
   else []).

Definition check_gov_params (is_gov ok : bool) : list string :=
  tag (Bool.eqb ok is_gov) "corr:update_params_decision" ++
  (if ok then tag is_gov "prop:module_params_changed_by_a_non_governance_caller" else []).

(** After an accepted GrantAllowance the allowance is the MARKER account's (fees of the grantee are
    paid out of the marker), not the administrator's. *)
Definition check_allowance (of_marker of_admin : bool) : list string :=
  tag of_marker "corr:allowance_not_granted_by_the_marker_account" ++
  tag (negb of_admin) "corr:allowance_granted_by_the_administrator_account".

(** *** the whole-supply escape on markers whose bank supply is not the recorded one *)
Definition check_supply (c : cfg) (sf : supply_facts) (o : op) (ok : bool) (after : status) : list string :=
  check_access (with_supply c sf) o ok after ++
  (if ok && negb (has RAdmin (c_rights c)) && negb (c_manager c) && negb (c_gov c) then
     tag (Z.eqb (sf_balance sf) (sf_record sf) && negb (Z.eqb (sf_record sf) 0))
         "prop:access_list_changed_without_admin_by_a_holder_of_less_or_more_than_the_recorded_supply"
   else []).

(** *** one ibc transfer *)
Definition check_ibc (x : xfer) (ok : bool) (desc dfrom : Z) (ga : option grant) : list string :=
  let m := x_msg x in
  let model := ibc_transfer x in
  tag (Bool.eqb ok (match model with Some _ => true | None => false end)) "corr:ibc_transfer_decision" ++
  tag (Z.eqb desc (if ok then m_amt m else 0) && Z.eqb dfrom (if ok then m_amt m else 0)) "corr:ibc_transfer_balances" ++
  tag (ogrant_eqb ga (match model with Some g => g | None => x_grant x end)) "corr:ibc_transfer_stored_grant" ++
  (if ok || negb (Z.eqb desc 0) then
     tag (is_restricted (x_type x) && has RTransfer (x_rights x)) "prop:ibc_transfer_without_transfer_right" ++
     (if x_self x then []
      else
        tag (grant_accepts (x_grant x) m) "prop:ibc_transfer_out_of_another_account_without_its_grant" ++
        match x_grant x with
        | Some g => tag (grant_after_use_ok g m ga) "prop:grant_not_reduced_by_the_use"
        | None => []
        end)
   else []).

Definition check_coverage (ops : list op) : list string :=
  tag (forallb (fun o => existsb (op_eqb o) ops) all_ops) "corr:endpoint_of_the_table_not_exercised".

Definition check (c : case) : list string :=
  match c with
  | CLife init steps => life_corr 0%N init steps ++ life_prop 0%N (l_activated init) steps
  | CAccess c o ok after => check_access c o ok after
  | CTransfer x modc ok dto dfrom ga => check_transfer x modc ok dto dfrom ga
  | CSeq _ g0 bal0 steps => check_seq g0 bal0 steps
  | CSeqT r g0 e0 bal0 now0 steps => check_seqt r g0 e0 bal0 now0 steps
  | CWithdraw c d ok moved => check_withdraw c d ok moved
  | CHist s0 steps => check_hist s0 steps
  | CCreate ex rs ok after mgr => check_create ex rs ok after mgr
  | CGovParams g ok => check_gov_params g ok
  | CAllowance m a => check_allowance m a
  | CSupply c sf o ok after => check_supply c sf o ok after
  | CIbc x ok de df ga => check_ibc x ok de df ga
  | CCoverage ops => check_coverage ops
  end.

Definition check_all := check_list check.
