(** Correspondence + property checker for C15 (name module).

    The correspondence instantiates the model's hash with the identity: the model store is keyed
    by key pre-image.  Observations are what the real keeper / query server returned.

    A history case carries: the parameters, the universe of names (valid, normalised) and of
    addresses (id 0 = governance authority), the observation of the initial state and, per
    step, the message, whether the real handler accepted it, and the observation afterwards:
      - records   : GetRecordByName(n) for every n of the universe (stored name, owner, restricted)
      - resolves  : ResolvesTo(n, a) for every n and every a
      - listings  : ReverseLookup(a) for every a (names, sorted by the harness). *)
From Coq Require Import Arith NArith List String Ascii Bool.
From PV Require Export Name.Name Corr.CorrBase.
Import ListNotations.
Open Scope string_scope.
Open Scope list_scope.

Definition orec := (string * N * bool)%type.           (* stored name, owner, restricted *)
Definition obs := (list (option orec) * list (list bool) * list (list string))%type.
Definition o_recs (o : obs) := fst (fst o).
Definition o_res (o : obs) := snd (fst o).
Definition o_rev (o : obs) := snd o.

Inductive case :=
| CHist (p : params) (names : list string) (addrs : list N) (o0 : obs) (steps : list (op * bool * obs))
| CPair (p : params) (n1 n2 : string) (valid1 valid2 : bool) (same_key : bool)
    (* Keeper.Normalize(n) == n for both; GetNameKeyPrefix(n1) == GetNameKeyPrefix(n2) *)
| CNorm (p : params) (raw : string) (norm : option string) (key_ok : bool).
    (* Keeper.Normalize(raw); GetNameKeyPrefix(raw) returned no error *)

Definition hid (s : string) : string := s.

(** ** helpers *)
Definition orec_eqb (x y : orec) : bool :=
  String.eqb (fst (fst x)) (fst (fst y)) && N.eqb (snd (fst x)) (snd (fst y)) && Bool.eqb (snd x) (snd y).
Definition obs_eqb (x y : obs) : bool :=
  list_eqb (opt_eqb orec_eqb) (o_recs x) (o_recs y) &&
  list_eqb (list_eqb Bool.eqb) (o_res x) (o_res y) &&
  list_eqb (list_eqb String.eqb) (o_rev x) (o_rev y).

Fixpoint insert_sorted (x : string) (l : list string) : list string :=
  match l with
  | [] => [x]
  | y :: r => if String.leb x y then x :: l else y :: insert_sorted x r
  end.
Definition sort_strings (l : list string) : list string := fold_right insert_sorted [] l.

Definition mem_str (x : string) (l : list string) : bool := existsb (String.eqb x) l.

(** the model's observation of a state *)
Definition to_orec (r : record) : orec := (r_name r, r_addr r, r_restricted r).
Definition model_obs (p : params) (names : list string) (addrs : list N) (s : state) : obs :=
  (map (fun n => option_map to_orec (get_record hid s n)) names,
   map (fun n => map (fun a => resolves_to hid s n a) addrs) names,
   map (fun a => sort_strings (reverse_lookup s a)) addrs).

(** ** the property's checker on the implementation's observations *)

(** the observed record for a name of the universe; the outer [None] = not in the universe *)
Fixpoint find_obs {A} (names : list string) (vals : list A) (n : string) : option A :=
  match names, vals with
  | m :: names', v :: vals' => if String.eqb m n then Some v else find_obs names' vals' n
  | _, _ => None
  end.

Definition rec_of (names : list string) (o : obs) (n : string) : option (option orec) :=
  find_obs names (o_recs o) n.

(** state-level checks: every lookup answers for the queried name itself, and the three
    lookups (record, resolves-to, by-address listing) tell the same story. *)
Definition state_checks (names : list string) (addrs : list N) (o : obs) : list string :=
  tag (forallb (fun nr => match snd nr with
                          | Some (nm, _, _) => String.eqb nm (fst nr)
                          | None => true
                          end) (combine names (o_recs o)))
      "prop:lookup_returns_other_name" ++
  tag (forallb (fun nrr =>
         let '(n, r, row) := nrr in
         forallb (fun ab => let '(a, b) := ab in
                            Bool.eqb b (match r with Some (_, a', _) => N.eqb a' a | None => false end))
                 (combine addrs row))
       (combine (combine names (o_recs o)) (o_res o)))
      "prop:resolve_disagrees_with_record" ++
  tag (forallb (fun nrow =>
         let '(n, row) := nrow in
         forallb (fun abl => let '(a, b, l) := abl in Bool.eqb b (mem_str n l))
                 (combine (combine addrs row) (o_rev o)))
       (combine names (o_res o)))
      "prop:resolve_and_reverse_lookup_disagree" ++
  tag (forallb (fun l => forallb (fun n => mem_str n names) l) (o_rev o))
      "prop:reverse_lookup_lists_unknown_name" ++
  tag ((List.length (o_recs o) =? List.length names)%nat && (List.length (o_res o) =? List.length names)%nat
       && (List.length (o_rev o) =? List.length addrs)%nat
       && forallb (fun row => (List.length row =? List.length addrs)%nat) (o_res o))
      "prop:malformed_observation".

(** frame: every universe name other than [n] reads as before; [allow] may admit new records
    (root creation binds missing intermediate names) *)
Definition frame_ok (names : list string) (prev cur : obs) (n : string) (allow : string -> option orec -> bool) : bool :=
  forallb (fun x => let '(m, before, after) := x in
                    String.eqb m n || opt_eqb orec_eqb before after
                    || (match before with None => allow m after | Some _ => false end))
          (combine (combine names (o_recs prev)) (o_recs cur)).

Definition no_new (_ : string) (_ : option orec) : bool := false.

(** authorisation and effect of one accepted / rejected message, judged on the observations
    the implementation gave before and after it *)
Definition step_checks (p : params) (names : list string) (prev : obs) (o : op) (accepted : bool) (cur : obs)
  : list string :=
  if negb accepted then tag (obs_eqb prev cur) "prop:rejected_message_changed_state"
  else
    match o with
    | OpBind parent signer child owner restr =>
        (match normalize p parent with
         | Some pn =>
             match rec_of names prev pn with
             | Some (Some (_, pa, pr)) =>
                 tag (negb pr || N.eqb pa signer) "prop:bind_under_restricted_parent_by_non_owner"
             | _ => ["prop:bind_without_existing_parent"]
             end
         | None => ["prop:bind_without_existing_parent"]
         end) ++
        (match normalize p (child ++ "." ++ parent) with
         | Some n =>
             tag (opt_eqb (opt_eqb orec_eqb) (rec_of names prev n) (Some None)) "prop:bind_over_existing_name" ++
             tag (opt_eqb (opt_eqb orec_eqb) (rec_of names cur n) (Some (Some (n, owner, restr)))) "prop:bind_result_wrong" ++
             tag (frame_ok names prev cur n no_new) "prop:other_name_changed"
         | None => ["prop:invalid_name_bound"]
         end)
    | OpModify signer name owner restr =>
        match normalize p name with
        | Some n =>
            (match rec_of names prev n with
             | Some (Some (_, a, _)) => tag (N.eqb signer gov_authority || N.eqb signer a) "prop:modify_by_non_owner"
             | _ => ["prop:modify_of_unbound_name"]
             end) ++
            tag (opt_eqb (opt_eqb orec_eqb) (rec_of names cur n) (Some (Some (n, owner, restr)))) "prop:modify_result_wrong" ++
            tag (frame_ok names prev cur n no_new) "prop:other_name_changed"
        | None => ["prop:invalid_name_modified"]
        end
    | OpDelete name signer =>
        match normalize p name with
        | Some n =>
            (match rec_of names prev n with
             | Some (Some (_, a, _)) => tag (N.eqb signer a) "prop:delete_by_non_owner"
             | _ => ["prop:delete_of_unbound_name"]
             end) ++
            tag (opt_eqb (opt_eqb orec_eqb) (rec_of names cur n) (Some None)) "prop:delete_result_wrong" ++
            tag (frame_ok names prev cur n no_new) "prop:other_name_changed"
        | None => ["prop:invalid_name_deleted"]
        end
    | OpCreateRoot signer name owner restr =>
        tag (N.eqb signer gov_authority) "prop:root_created_without_authority" ++
        match normalize p name with
        | Some n =>
            tag (opt_eqb (opt_eqb orec_eqb) (rec_of names prev n) (Some None)) "prop:root_over_existing_name" ++
            tag (opt_eqb (opt_eqb orec_eqb) (rec_of names cur n) (Some (Some (n, owner, restr)))) "prop:root_result_wrong" ++
            tag (frame_ok names prev cur n
                   (fun m after => opt_eqb orec_eqb after (Some (m, owner, restr))))
                "prop:other_name_changed"
        | None => ["prop:invalid_name_created"]
        end
    end.

(** ** histories *)

(** one step with everything its checks need: the model's verdict and observation after it,
    the implementation's observation before it, the message, the implementation's verdict and
    observation after it *)
Definition astep := (bool * obs * obs * op * bool * obs)%type.

Fixpoint annotate (p : params) (names : list string) (addrs : list N) (ms : state) (prev : obs)
  (steps : list (op * bool * obs)) : list astep :=
  match steps with
  | [] => []
  | (o, acc, cur) :: rest =>
      let '(ms', r) := step hid p ms o in
      (match r with Ok => true | Err => false end, model_obs p names addrs ms', prev, o, acc, cur)
        :: annotate p names addrs ms' cur rest
  end.

Definition check_astep (p : params) (names : list string) (addrs : list N) (x : astep) : list string :=
  let '(macc, mobs, prev, o, acc, cur) := x in
  tag (Bool.eqb macc acc) "corr:accept" ++
  tag (list_eqb (opt_eqb orec_eqb) (o_recs mobs) (o_recs cur)) "corr:records" ++
  tag (list_eqb (list_eqb Bool.eqb) (o_res mobs) (o_res cur)) "corr:resolves_to" ++
  tag (list_eqb (list_eqb String.eqb) (o_rev mobs) (o_rev cur)) "corr:reverse_lookup" ++
  state_checks names addrs cur ++
  step_checks p names prev o acc cur.

Definition universe_ok (p : params) (names : list string) : bool :=
  forallb (fun n => opt_eqb String.eqb (normalize p n) (Some n)) names.

Definition check (c : case) : list string :=
  match c with
  | CHist p names addrs o0 steps =>
      tag (universe_ok p names) "corr:universe_name_not_valid" ++
      tag (obs_eqb (model_obs p names addrs init) o0) "corr:initial_state" ++
      state_checks names addrs o0 ++
      first_failure (check_astep p names addrs) 1 (annotate p names addrs init o0 steps)
  | CPair p n1 n2 v1 v2 same =>
      tag (Bool.eqb (opt_eqb String.eqb (normalize p n1) (Some n1)) v1
           && Bool.eqb (opt_eqb String.eqb (normalize p n2) (Some n2)) v2) "corr:valid" ++
      tag (Bool.eqb (opt_eqb String.eqb (name_key_preimage n1) (name_key_preimage n2)
                     && match name_key_preimage n1 with Some _ => true | None => false end) same)
          "corr:key_equality" ++
      tag (negb (v1 && v2 && same && negb (String.eqb n1 n2))) "prop:distinct_names_share_key"
  | CNorm p raw norm key_ok =>
      tag (opt_eqb String.eqb (normalize p raw) norm) "corr:normalize" ++
      tag (Bool.eqb (match name_key_preimage raw with Some _ => true | None => false end) key_ok) "corr:key_error" ++
      (match norm with
       | Some n => tag key_ok "prop:valid_name_without_key"
       | None => []
       end)
  end.

Definition check_all := check_list check.
