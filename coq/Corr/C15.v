(** Correspondence + property checker for C15 (name module).

    The correspondence instantiates the model's hash with the identity: the model store is keyed
    by key pre-image.  Observations are what the real keeper / query server returned.

    A history case carries: the initial parameters, the universe of names (normalised, parent
    closed) and of addresses (id 0 = governance authority), the observation of the initial state
    and, per step, the message (one of the four name messages, MsgUpdateParams, or an InitGenesis
    call), whether the real code accepted it, and the observation afterwards:
      - records   : GetRecordByName(n) for every n of the universe (stored name, owner, restricted)
      - resolves  : ResolvesTo(n, a) for every n and every a
      - listings  : ReverseLookup(a) for every a (one big page; names sorted by the harness)
      - queries   : the Resolve gRPC query for every n (owner, restricted; None = error)
      - params    : the Params query (limits, allow_unrestricted_names)
    and, for the final state, paged ReverseLookup walks (by next key / by offset, forward and
    reverse) with the total of the first page. *)
From Coq Require Import Arith NArith List String Ascii Bool.
From PV Require Export Name.Name Name.NameMsgs Name.NamePaging Name.NameUnicode Corr.CorrBase.
Import ListNotations.
Open Scope string_scope.
Open Scope list_scope.

Definition orec := (string * N * bool)%type.           (* stored name, owner, restricted *)
Definition obs := (list (option orec) * list (list bool) * list (list string))%type.
Definition o_recs (o : obs) := fst (fst o).
Definition o_res (o : obs) := snd (fst o).
Definition o_rev (o : obs) := snd o.

Definition qres := option (N * bool).                   (* Resolve query: owner, restricted *)
Definition pobs := (params * bool)%type.                (* Params query *)
Definition obs2 := (obs * list qres * pobs)%type.
Definition o_obs (o : obs2) : obs := fst (fst o).
Definition o_qry (o : obs2) : list qres := snd (fst o).
Definition o_par (o : obs2) : pobs := snd o.

(** address index, limit, mode (0 next keys, 1 offsets, 2 next keys reverse, 3 offsets reverse),
    pages (in the order returned), total of the first page requested with count_total *)
Definition pageobs := (nat * nat * N * list (list string) * N)%type.

Inductive case :=
| CHist (p0 : params) (allow0 : bool) (names : list string) (addrs : list N) (o0 : obs2)
    (steps : list (msg * bool * obs2)) (paged : list pageobs)
| CPair (p : params) (n1 n2 : string) (valid1 valid2 : bool) (same_key : bool)
    (* Keeper.Normalize(n) == n for both; GetNameKeyPrefix(n1) == GetNameKeyPrefix(n2) *)
| CNorm (p : params) (raw : string) (norm : option string) (norm2 : option string) (key_ok : bool)
    (* Keeper.Normalize(raw); Keeper.Normalize of that result; GetNameKeyPrefix(raw) returned no error *)
| CNormU (p : params) (raw : string) (norm : option string) (norm2 : option string) (key_ok : bool)
    (* the same for raw inputs with bytes >= 128 (UTF-8 or not) *)
| CRoundTrip (p : params) (exported : list binding) (import_ok : bool) (same_after : bool)
    (* ExportGenesis of the final state of a history, the store emptied through DeleteRecord,
       InitGenesis of the exported state: did it succeed, and do all lookups read as before *)
| CSpell (lower upper : list string)
    (* ReverseLookup of one address spelled in lower-case and in UPPER-case bech32 (both are the
       same account; bech32 allows either case) *)
| CEnum (names classes_by_key classes_by_preimage mismatches : N).
    (* exhaustive enumeration on the Go side: number of names, of classes of the real key
       function, of classes of the reversed concatenation, of pairs on which the two disagree *)

Definition hid (s : string) : string := s.

(** ** helpers *)
Definition orec_eqb (x y : orec) : bool :=
  String.eqb (fst (fst x)) (fst (fst y)) && N.eqb (snd (fst x)) (snd (fst y)) && Bool.eqb (snd x) (snd y).
Definition obs_eqb (x y : obs) : bool :=
  list_eqb (opt_eqb orec_eqb) (o_recs x) (o_recs y) &&
  list_eqb (list_eqb Bool.eqb) (o_res x) (o_res y) &&
  list_eqb (list_eqb String.eqb) (o_rev x) (o_rev y).
Definition qres_eqb : qres -> qres -> bool := opt_eqb (pair_eqb N.eqb Bool.eqb).
Definition params_eqb (x y : params) : bool :=
  N.eqb (p_min_seg x) (p_min_seg y) && N.eqb (p_max_seg x) (p_max_seg y) && N.eqb (p_max_levels x) (p_max_levels y).
Definition pobs_eqb : pobs -> pobs -> bool := pair_eqb params_eqb Bool.eqb.
Definition obs2_eqb (x y : obs2) : bool :=
  obs_eqb (o_obs x) (o_obs y) && list_eqb qres_eqb (o_qry x) (o_qry y) && pobs_eqb (o_par x) (o_par y).

Fixpoint insert_sorted (x : string) (l : list string) : list string :=
  match l with
  | [] => [x]
  | y :: r => if String.leb x y then x :: l else y :: insert_sorted x r
  end.
Definition sort_strings (l : list string) : list string := fold_right insert_sorted [] l.

Definition mem_str (x : string) (l : list string) : bool := existsb (String.eqb x) l.

Fixpoint nodup_str (l : list string) : bool :=
  match l with
  | [] => true
  | x :: r => negb (mem_str x r) && nodup_str r
  end.

(** the model's observation of a state *)
Definition to_orec (r : record) : orec := (r_name r, r_addr r, r_restricted r).
Definition model_obs (names : list string) (addrs : list N) (s : state) : obs :=
  (map (fun n => option_map to_orec (get_record hid s n)) names,
   map (fun n => map (fun a => resolves_to hid s n a) addrs) names,
   map (fun a => sort_strings (reverse_lookup s a)) addrs).

(** the Resolve query: Normalize, then GetRecordByName of the normalised name *)
Definition resolve_query (p : params) (s : state) (n : string) : qres :=
  match normalize p n with
  | Some nn => option_map (fun r => (r_addr r, r_restricted r)) (get_record hid s nn)
  | None => None
  end.

Definition model_obs2 (names : list string) (addrs : list N) (ps : pstate) : obs2 :=
  (model_obs names addrs (ps_s ps), map (resolve_query (ps_p ps) (ps_s ps)) names, (ps_p ps, ps_allow ps)).

(** ** the property's checker on the implementation's observations *)

(** the observed record for a name of the universe; the outer [None] = not in the universe *)
Fixpoint find_obs {A} (names : list string) (vals : list A) (n : string) : option A :=
  match names, vals with
  | m :: names', v :: vals' => if String.eqb m n then Some v else find_obs names' vals' n
  | _, _ => None
  end.

Definition rec_of (names : list string) (o : obs) (n : string) : option (option orec) :=
  find_obs names (o_recs o) n.

(** state-level checks: every lookup answers for the queried name itself, and the three
    lookups (record, resolves-to, by-address listing) tell the same story. *)
Definition state_checks (names : list string) (addrs : list N) (o : obs) : list string :=
  tag (forallb (fun nr => match snd nr with
                          | Some (nm, _, _) => String.eqb nm (fst nr)
                          | None => true
                          end) (combine names (o_recs o)))
      "prop:lookup_returns_other_name" ++
  tag (forallb (fun nrr =>
         let '(n, r, row) := nrr in
         forallb (fun ab => let '(a, b) := ab in
                            Bool.eqb b (match r with Some (_, a', _) => N.eqb a' a | None => false end))
                 (combine addrs row))
       (combine (combine names (o_recs o)) (o_res o)))
      "prop:resolve_disagrees_with_record" ++
  tag (forallb (fun nrow =>
         let '(n, row) := nrow in
         forallb (fun abl => let '(a, b, l) := abl in Bool.eqb b (mem_str n l))
                 (combine (combine addrs row) (o_rev o)))
       (combine names (o_res o)))
      "prop:resolve_and_reverse_lookup_disagree" ++
  tag (forallb (fun l => forallb (fun n => mem_str n names) l) (o_rev o))
      "prop:reverse_lookup_lists_unknown_name" ++
  tag (forallb nodup_str (o_rev o)) "prop:reverse_lookup_lists_name_twice" ++
  tag ((List.length (o_recs o) =? List.length names)%nat && (List.length (o_res o) =? List.length names)%nat
       && (List.length (o_rev o) =? List.length addrs)%nat
       && forallb (fun row => (List.length row =? List.length addrs)%nat) (o_res o))
      "prop:malformed_observation".

(** the Resolve query answers like the record lookup for every name that is valid under the
    parameters in force (for the others it refuses: Normalize fails; that is only compared with
    the model) *)
Definition query_checks (names : list string) (o : obs2) : list string :=
  let p := fst (o_par o) in
  tag (forallb (fun x => let '(n, r, q) := x in
                         match normalize p n with
                         | Some n' => negb (String.eqb n' n) ||
                                      qres_eqb q (match r with Some (_, a, rs) => Some (a, rs) | None => None end)
                         | None => true
                         end)
               (combine (combine names (o_recs (o_obs o))) (o_qry o))
       && (List.length (o_qry o) =? List.length names)%nat)
      "prop:resolve_query_disagrees_with_record".

(** frame: every universe name other than those in [ns] reads as before; [allow] may admit new
    records (root creation binds missing intermediate names) *)
Definition frame_ok (names : list string) (prev cur : obs) (ns : list string) (allow : string -> option orec -> bool) : bool :=
  forallb (fun x => let '(m, before, after) := x in
                    mem_str m ns || opt_eqb orec_eqb before after
                    || (match before with None => allow m after | Some _ => false end))
          (combine (combine names (o_recs prev)) (o_recs cur)).

Definition no_new (_ : string) (_ : option orec) : bool := false.

Definition is_some_some (x : option (option orec)) (v : orec) : bool := opt_eqb (opt_eqb orec_eqb) x (Some (Some v)).
Definition is_some_none (x : option (option orec)) : bool := opt_eqb (opt_eqb orec_eqb) x (Some None).

(** authorisation and effect of one accepted name message under the parameters [p] the
    implementation reported before it, judged on the observations before and after it.
    BindName is judged on the DIRECT PARENT OF THE RESULTING NAME (everything after its first
    dot), however the message split the name into record and parent. *)
Definition op_checks (p : params) (names : list string) (prev : obs) (o : op) (cur : obs) : list string :=
  match o with
  | OpBind parent signer child owner restr =>
      match normalize p (child ++ "." ++ parent) with
      | Some n =>
          (match parent_of n with
           | Some dp =>
               match rec_of names prev dp with
               | Some (Some (_, pa, pr)) =>
                   tag (negb pr || N.eqb pa signer) "prop:bind_under_restricted_parent_by_non_owner"
               | Some None => ["prop:bind_without_existing_parent"]
               | None => ["corr:direct_parent_outside_universe"]
               end
           | None => ["prop:bind_without_existing_parent"]
           end) ++
          (if mem_str n names then
             tag (is_some_none (rec_of names prev n)) "prop:bind_over_existing_name" ++
             tag (is_some_some (rec_of names cur n) (n, owner, restr)) "prop:bind_result_wrong" ++
             tag (frame_ok names prev cur [n] no_new) "prop:other_name_changed"
           else ["corr:bound_name_outside_universe"])
      | None => ["prop:invalid_name_bound"]
      end
  | OpModify signer name owner restr =>
      match normalize p name with
      | Some n =>
          (match rec_of names prev n with
           | Some (Some (_, a, _)) => tag (N.eqb signer gov_authority || N.eqb signer a) "prop:modify_by_non_owner"
           | _ => ["prop:modify_of_unbound_name"]
           end) ++
          tag (is_some_some (rec_of names cur n) (n, owner, restr)) "prop:modify_result_wrong" ++
          tag (frame_ok names prev cur [n] no_new) "prop:other_name_changed"
      | None => ["prop:invalid_name_modified"]
      end
  | OpDelete name signer =>
      match normalize p name with
      | Some n =>
          (match rec_of names prev n with
           | Some (Some (_, a, _)) => tag (N.eqb signer a) "prop:delete_by_non_owner"
           | _ => ["prop:delete_of_unbound_name"]
           end) ++
          tag (is_some_none (rec_of names cur n)) "prop:delete_result_wrong" ++
          tag (frame_ok names prev cur [n] no_new) "prop:other_name_changed"
      | None => ["prop:invalid_name_deleted"]
      end
  | OpCreateRoot signer name owner restr =>
      tag (N.eqb signer gov_authority) "prop:root_created_without_authority" ++
      match normalize p name with
      | Some n =>
          tag (is_some_none (rec_of names prev n)) "prop:root_over_existing_name" ++
          tag (is_some_some (rec_of names cur n) (n, owner, restr)) "prop:root_result_wrong" ++
          tag (frame_ok names prev cur [n]
                 (fun m after => opt_eqb orec_eqb after (Some (m, owner, restr))))
              "prop:other_name_changed"
      | None => ["prop:invalid_name_created"]
      end
  end.

(** an accepted InitGenesis: every binding is valid under the imported parameters, resolvable
    afterwards exactly as written (normalised), was free before, no two bindings are the same
    name, and nothing else changed *)
Definition genesis_checks (p : params) (names : list string) (prev cur : obs) (bs : list binding) : list string :=
  let norm := map (fun b : binding => let '(raw, a, r) := b in (normalize p raw, a, r)) bs in
  let ns := flat_map (fun x : option string * addr * bool => match fst (fst x) with Some n => [n] | None => [] end) norm in
  tag (forallb (fun x : option string * addr * bool => match fst (fst x) with Some _ => true | None => false end) norm)
      "prop:genesis_accepted_invalid_name" ++
  tag (nodup_str ns) "prop:genesis_accepted_duplicate_name" ++
  tag (forallb (fun x : option string * addr * bool =>
                  let '(on, a, r) := x in
                  match on with
                  | Some n => negb (mem_str n names) ||
                              (is_some_none (rec_of names prev n) && is_some_some (rec_of names cur n) (n, a, r))
                  | None => true
                  end) norm)
      "prop:genesis_binding_not_resolvable" ++
  tag (frame_ok names prev cur ns no_new) "prop:other_name_changed".

Definition step_checks (names : list string) (prev : obs2) (m : msg) (accepted : bool) (cur : obs2) : list string :=
  if negb accepted then tag (obs2_eqb prev cur) "prop:rejected_message_changed_state"
  else
    match m with
    | MOp o =>
        op_checks (fst (o_par prev)) names (o_obs prev) o (o_obs cur) ++
        tag (pobs_eqb (o_par prev) (o_par cur)) "prop:name_message_changed_params"
    | MParams signer p allow =>
        tag (N.eqb signer gov_authority) "prop:params_changed_without_authority" ++
        tag (pobs_eqb (o_par cur) (p, allow)) "prop:params_result_wrong" ++
        tag (obs_eqb (o_obs prev) (o_obs cur)) "prop:params_update_changed_names"
    | MGenesis p allow bs =>
        genesis_checks p names (o_obs prev) (o_obs cur) bs ++
        tag (pobs_eqb (o_par cur) (p, allow)) "prop:params_result_wrong"
    end.

(** ** paged ReverseLookup on the final state *)

Definition model_page_sizes (s : state) (a : N) (limit : nat) (mode : N) : option (list nat) :=
  let l := idx_view s a in
  let hit := fun r : record => N.eqb (r_addr r) a in
  let fuel := S (S (List.length l)) in
  option_map (map (@List.length record))
    (if (N.eqb mode 0 || N.eqb mode 2)%bool then follow_keys String.eqb hit fuel l None limit
     else follow_offsets String.eqb hit fuel l 0 limit).

Definition paged_checks (addrs : list N) (final : obs) (ms : state) (x : pageobs) : list string :=
  let '(ai, limit, mode, pages, total) := x in
  let listing := nth ai (o_rev final) [] in
  let a := nth ai addrs 0%N in
  tag (list_eqb String.eqb (sort_strings (List.concat pages)) listing)
      "prop:paged_reverse_lookup_incomplete_or_duplicated" ++
  tag (forallb (fun pg => (List.length pg <=? limit)%nat) pages) "prop:page_longer_than_limit" ++
  tag (N.eqb total (N.of_nat (List.length listing))) "prop:paged_total_wrong" ++
  tag (opt_eqb (list_eqb Nat.eqb) (model_page_sizes ms a limit mode) (Some (map (@List.length string) pages)))
      "corr:page_sizes".

(** ** histories *)

(** one step with everything its checks need: the model's verdict and observation after it,
    the implementation's observation before it, the message, the implementation's verdict and
    observation after it *)
Definition astep := (bool * obs2 * obs2 * msg * bool * obs2)%type.

Fixpoint annotate (names : list string) (addrs : list N) (ms : pstate) (prev : obs2)
  (steps : list (msg * bool * obs2)) : list astep * pstate :=
  match steps with
  | [] => ([], ms)
  | (m, acc, cur) :: rest =>
      let '(ms', r) := pstep hid ms m in
      let '(l, final) := annotate names addrs ms' cur rest in
      ((match r with Ok => true | Err => false end, model_obs2 names addrs ms', prev, m, acc, cur) :: l, final)
  end.

Definition check_astep (names : list string) (addrs : list N) (x : astep) : list string :=
  let '(macc, mobs, prev, m, acc, cur) := x in
  tag (Bool.eqb macc acc) "corr:accept" ++
  tag (list_eqb (opt_eqb orec_eqb) (o_recs (o_obs mobs)) (o_recs (o_obs cur))) "corr:records" ++
  tag (list_eqb (list_eqb Bool.eqb) (o_res (o_obs mobs)) (o_res (o_obs cur))) "corr:resolves_to" ++
  tag (list_eqb (list_eqb String.eqb) (o_rev (o_obs mobs)) (o_rev (o_obs cur))) "corr:reverse_lookup" ++
  tag (list_eqb qres_eqb (o_qry mobs) (o_qry cur)) "corr:resolve_query" ++
  tag (pobs_eqb (o_par mobs) (o_par cur)) "corr:params" ++
  state_checks names addrs (o_obs cur) ++
  query_checks names cur ++
  step_checks names prev m acc cur.

(** names of the universe are in storage format (under limits wider than any the histories use)
    and the universe is closed under direct parents *)
Definition loose_params : params := {| p_min_seg := 1; p_max_seg := 1000; p_max_levels := 1000 |}.
Definition universe_ok (names : list string) : bool :=
  forallb (fun n => opt_eqb String.eqb (normalize loose_params n) (Some n)
                    && match parent_of n with Some dp => mem_str dp names | None => true end) names.

Definition last_obs (o0 : obs2) (steps : list (msg * bool * obs2)) : obs2 :=
  match rev steps with
  | (_, _, o) :: _ => o
  | [] => o0
  end.

Definition is_some {A} (x : option A) : bool := match x with Some _ => true | None => false end.

Definition check (c : case) : list string :=
  match c with
  | CHist p0 allow0 names addrs o0 steps paged =>
      let '(asteps, final) := annotate names addrs (pstart p0 allow0) o0 steps in
      tag (universe_ok names) "corr:universe_name_not_valid" ++
      tag (obs2_eqb (model_obs2 names addrs (pstart p0 allow0)) o0) "corr:initial_state" ++
      state_checks names addrs (o_obs o0) ++
      query_checks names o0 ++
      first_failure (check_astep names addrs) 1 asteps ++
      flat_map (paged_checks addrs (o_obs (last_obs o0 steps)) (ps_s final)) paged
  | CPair p n1 n2 v1 v2 same =>
      tag (Bool.eqb (opt_eqb String.eqb (normalize p n1) (Some n1)) v1
           && Bool.eqb (opt_eqb String.eqb (normalize p n2) (Some n2)) v2) "corr:valid" ++
      tag (Bool.eqb (opt_eqb String.eqb (name_key_preimage n1) (name_key_preimage n2)
                     && is_some (name_key_preimage n1)) same)
          "corr:key_equality" ++
      tag (negb (v1 && v2 && same && negb (String.eqb n1 n2))) "prop:distinct_names_share_key"
  | CNorm p raw norm norm2 key_ok =>
      tag (opt_eqb String.eqb (normalize p raw) norm) "corr:normalize" ++
      tag (Bool.eqb (is_some (name_key_preimage raw)) key_ok) "corr:key_error" ++
      tag (Bool.eqb (is_some norm) (doc_valid p (normalize_name raw))) "corr:documented_rule" ++
      (* a name that is valid and in storage format by the DOCUMENTED rule must come back from
         Normalize unchanged: otherwise it and its re-spelling are two valid names with one record *)
      (if doc_valid p raw then tag (opt_eqb String.eqb norm (Some raw)) "prop:valid_name_respelled_by_normalize" else []) ++
      (match norm with
       | Some n =>
           tag (key_ok || (p_min_seg p =? 0)%N) "prop:valid_name_without_key" ++
           tag (opt_eqb String.eqb norm2 (Some n)) "prop:normalize_not_idempotent"
       | None => []
       end)
  | CNormU p raw norm norm2 key_ok =>
      (match normalize_utf8 p raw with
       | Some m => tag (opt_eqb String.eqb m norm) "corr:normalize_utf8"
       | None => []       (* a rune outside the modelled tables *)
       end) ++
      (match norm with
       | Some n =>
           tag (key_ok || (p_min_seg p =? 0)%N) "prop:valid_name_without_key" ++
           tag (opt_eqb String.eqb norm2 (Some n)) "prop:normalize_not_idempotent"
       | None => []
       end)
  | CRoundTrip p exported ok same =>
      (* not a clause of C15 (it belongs to C18): compared with the model only *)
      tag (Bool.eqb (is_some (import_bindings hid p init exported)) ok) "corr:export_import" ++
      tag (negb ok || same) "corr:export_import_changed_lookups"
  | CSpell lower upper =>
      tag (list_eqb String.eqb lower upper) "prop:reverse_lookup_differs_for_upper_case_address"
  | CEnum names by_key by_pre mism =>
      tag (N.eqb by_key by_pre && N.eqb mism 0) "corr:key_classes_differ_from_preimage_classes" ++
      tag (N.leb by_key names) "corr:malformed_enumeration"
  end.

Definition check_all := check_list check.
