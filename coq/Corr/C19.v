(** Correspondence + property checker for C19 (fee arithmetic).
    Observations: [None] = the implementation failed (error or panic), [Some v] = result. *)
From Coq Require Import ZArith NArith List String Bool.
From PV Require Export Exchange.Arith Exchange.FeeQuote Corr.CorrBase.
Import ListNotations.
Open Scope string_scope.
Open Scope list_scope.
Open Scope Z_scope.

Inductive case :=
| CQuoUp (a b : Z) (obs : option Z)                      (* exchange.QuoIntRoundUp *)
| CApplyLoosely (rp rf p : Z) (obs : option Z)           (* FeeRatio.ApplyToLoosely *)
| CApplyTo (rp rf p : Z) (obs : option Z)                (* FeeRatio.ApplyTo *)
| CExSplit (amt split : Z) (obs : option Z)              (* Keeper.CalculateExchangeSplit, one coin *)
| CCommit (i : cfee_in) (obs : option (Z * Z))           (* CalculateCommitmentSettlementFee:
                                                            (converted intermediary amount, fee) *)
| CBips (amt bips : Z) (obs : option (Z * Z))            (* msgfees SplitCoinByBips *)
| CDist (ops : list (Z * Z * option N)) (nrec : N) (obs : Z * Z * list Z)
    (* MsgFeesDistribution.Increase sequence; obs = (total, module part, amount per recipient id 0..nrec-1) *)
| CBuyerOpts (rs : list ratio) (pd : N) (p : Z) (obs : option (list (N * Z)))
    (* OrderFeeCalc for a bid: the settlement ratio fee options (fee denom, amount), [None] = error *)
| CSellerFee (rs : list ratio) (pd : N) (p : Z) (obs : option (option Z))
    (* OrderFeeCalc for an ask: the seller ratio fee in the price denom (negative = malformed answer) *)
| CExSplitCoins (dflt : Z) (tbl : list (N * Z)) (coins : list (N * Z)) (obs : option (list (N * Z)))
    (* Keeper.CalculateExchangeSplit on a fee in several denoms with per-denom splits in the params *)
| CMeter (ops : list mop) (nrec : N) (obs : Z * Z * list Z).
    (* one transaction's fee meter filled as the router does and paid out by DeductFeesDistributions:
       obs = (FeeConsumed, fee collector's gain, gain of recipient 0..nrec-1) *)

Definition flat {A} (o : option (option A)) : option A :=
  match o with Some (Some x) => Some x | _ => None end.

Definition zz_eqb := pair_eqb Z.eqb Z.eqb.

(** What the model says the implementation returns. *)
Definition model_quo_up (a b : Z) : option Z :=
  if Z.eqb b 0 then None else chk (quo_round_up a b).
Definition model_apply_loosely rp rf p : option Z :=
  match flat (apply_loosely_chk rp rf p) with Some (x, _) => Some x | None => None end.
Definition model_apply_to rp rf p : option Z :=
  match flat (apply_loosely_chk rp rf p) with Some (x, false) => Some x | _ => None end.
Definition model_commit (i : cfee_in) : option (Z * Z) :=
  match commitment_fee_chk i with
  | Some f => Some (conv_amt i, f)
  | None => None
  end.

(** The property's own checker on an observation, for in-range nonnegative inputs:
    the result is the documented rounding of the exact rational, and nothing fails. *)
Definition ceil_ok (num den x : Z) : bool :=
  (den * (x - 1) <? num) && (num <=? den * x) && (0 <=? x).

Definition in_range (x : Z) : bool := (0 <=? x) && (x <? int_max).

Definition others_ok (l : list (Z * Z * Z)) : bool :=
  forallb (fun o => let '(a, p, n) := o in (0 <=? a) && (0 <=? p) && (0 <? n) && in_range (a * p)) l.

Definition nz_eqb := pair_eqb N.eqb Z.eqb.

Definition ratio_okb (r : ratio) : bool := (0 <? r_p r) && (0 <=? r_f r) && in_range (r_p r) && in_range (r_f r).

(** [x] is the ceiling of p * fee / price of ratio [r]. *)
Definition chargeb (r : ratio) (p x : Z) : bool := ceil_ok (p * r_f r) (r_p r) x.

Definition check (c : case) : list string :=
  match c with
  | CQuoUp a b obs =>
      tag (opt_eqb Z.eqb (model_quo_up a b) obs) "corr:quo_round_up" ++
      (if (0 <=? a) && (0 <? b) && in_range (a + b) then
         match obs with
         | Some x => tag (ceil_ok a b x) "prop:quo_round_up_is_ceiling"
         | None => ["prop:quo_round_up_failed"]
         end else [])
  | CApplyLoosely rp rf p obs =>
      tag (opt_eqb Z.eqb (model_apply_loosely rp rf p) obs) "corr:apply_loosely" ++
      (if (0 <? rp) && (0 <=? rf) && (0 <=? p) && in_range (p * rf + 1) then
         match obs with
         | Some x => tag (ceil_ok (p * rf) rp x) "prop:ratio_fee_is_ceiling"
         | None => ["prop:ratio_fee_failed"]
         end else [])
  | CApplyTo rp rf p obs =>
      tag (opt_eqb Z.eqb (model_apply_to rp rf p) obs) "corr:apply_to" ++
      (if (0 <? rp) && (0 <=? rf) && (0 <=? p) && in_range (p * rf + 1) then
         match obs with
         | Some x => tag (Z.eqb (rp * x) (p * rf)) "prop:exact_ratio_fee"
         | None => tag (negb (Z.eqb (Z.rem (p * rf) rp) 0)) "prop:exact_ratio_fee_rejected"
         end else [])
  | CExSplit amt split obs =>
      tag (opt_eqb Z.eqb (exchange_split_chk amt split) obs) "corr:exchange_split" ++
      (if (0 <=? amt) && (0 <=? split) && (split <=? 10000) && in_range (amt * 10000) then
         match obs with
         | Some x => tag (ceil_ok (amt * split) 10000 x && (x <=? amt)) "prop:exchange_split_is_ceiling"
         | None => ["prop:exchange_split_failed"]
         end else [])
  | CCommit i obs =>
      tag (opt_eqb zz_eqb (model_commit i) obs) "corr:commitment_fee" ++
      (if (0 <=? ci_fee i) && (0 <=? ci_conv i) && others_ok (ci_others i) && (0 <=? ci_tfp i)
          && (0 <? ci_tfa i) && (0 <=? ci_bips i) && (ci_bips i <=? 10000)
          && (conv_dec i <? dec_max - dec_one)
          && (conv_amt i * ci_tfp i <? int_max - ci_tfa i)
          && ((ci_fee i + quo_round_up (conv_amt i * ci_tfp i) (ci_tfa i)) * 10000 <? int_max) then
         match obs with
         | Some (ca, f) =>
             (* ca is the ceiling of the 18-decimal total; f is the ceiling of total*bips/20000 *)
             tag ((dec_one * (ca - 1) <? conv_dec i) && (conv_dec i <=? dec_one * ca)) "prop:converted_total_is_ceiling" ++
             tag (ceil_ok ((ci_fee i + (ca * ci_tfp i + ci_tfa i - 1) / ci_tfa i) * ci_bips i) 20000 f)
                 "prop:commitment_fee_is_ceiling"
         | None => ["prop:commitment_fee_failed"]
         end else [])
  | CBips amt bips obs =>
      tag (opt_eqb zz_eqb (flat (split_by_bips_chk amt bips)) obs) "corr:split_by_bips" ++
      (if in_range amt && (0 <=? bips) && (bips <=? 10000) then
         match obs with
         | Some (r, rest) =>
             tag (Z.eqb r (amt * bips / 10000)) "prop:recipient_share_is_floor" ++
             tag (Z.eqb (r + rest) amt && (0 <=? r) && (0 <=? rest)) "prop:split_adds_up"
         | None => ["prop:bips_split_failed"]
         end else [])
  | CDist ops nrec (tot, modp, recs) =>
      let d := dist_run dist_empty ops in
      let model_recs := map (fun i => match find (fun p => N.eqb (fst p) (N.of_nat i)) (d_recips d) with
                                      | Some (_, v) => v | None => 0 end) (seq 0 (N.to_nat nrec)) in
      tag (Z.eqb (d_total d) tot && Z.eqb (d_module d) modp && list_eqb Z.eqb model_recs recs) "corr:fee_distribution" ++
      (if forallb (fun o => let '(a, b, _) := o in (0 <=? b) && (b <=? 10000) && (a <? int_max)) ops then
         tag (Z.eqb tot (modp + fold_right Z.add 0 recs)) "prop:distribution_parts_do_not_add_up" ++
         tag ((0 <=? modp) && forallb (fun v => 0 <=? v) recs) "prop:distribution_part_negative" ++
         tag (Z.eqb tot (fold_right (fun o acc => let '(a, _, _) := o in (if 0 <? a then a else 0) + acc) 0 ops))
             "prop:distribution_total_is_not_the_sum_of_the_fees"
       else [])
  | CBuyerOpts rs pd p obs =>
      tag (opt_eqb (list_eqb nz_eqb) (buyer_options rs pd p) obs) "corr:buyer_ratio_options" ++
      (if forallb ratio_okb rs && (0 <=? p) && forallb (fun r => in_range (p * r_f r + 1)) rs then
         let mine := filter (fun r => N.eqb (r_pd r) pd) rs in
         match obs with
         | Some l =>
             tag (forallb (fun e => existsb (fun r => N.eqb (r_fd r) (fst e) && chargeb r p (snd e)) mine) l)
                 "prop:quoted_buyer_option_is_not_the_charge_of_a_ratio_for_the_price_denom" ++
             tag (forallb (fun r => existsb (fun e => N.eqb (r_fd r) (fst e) && chargeb r p (snd e)) l) mine)
                 "prop:buyer_ratio_for_the_price_denom_not_quoted" ++
             tag (Nat.eqb (List.length l) (List.length mine)) "prop:buyer_options_count"
         | None => tag (match mine with [] => true | _ => false end) "prop:buyer_options_failed"
         end else [])
  | CSellerFee rs pd p obs =>
      tag (opt_eqb (opt_eqb Z.eqb) (seller_ratio_fee rs pd p) obs) "corr:seller_ratio_fee" ++
      (if forallb ratio_okb rs && (0 <=? p) && forallb (fun r => in_range (p * r_f r + 1)) rs then
         let mine := filter (fun r => N.eqb (r_pd r) pd && N.eqb (r_fd r) pd) rs in
         match obs with
         | Some (Some x) => tag (existsb (fun r => chargeb r p x) mine) "prop:seller_ratio_fee_is_ceiling"
         | Some None => tag (match rs with [] => true | _ => false end) "prop:seller_ratio_fee_missing"
         | None => tag (match mine with [] => true | _ => false end) "prop:seller_ratio_fee_failed"
         end else [])
  | CExSplitCoins dflt tbl coins obs =>
      tag (opt_eqb (list_eqb nz_eqb) (Some (exchange_split_coins dflt tbl coins)) obs) "corr:exchange_split_coins" ++
      (if (0 <=? dflt) && (dflt <=? 10000) && forallb (fun e => (0 <=? snd e) && (snd e <=? 10000)) tbl
          && forallb (fun c => (0 <=? snd c) && in_range (snd c * 10000)) coins then
         match obs with
         | Some l =>
             tag (forallb (fun e => existsb (fun c => N.eqb (fst c) (fst e)
                                        && ceil_ok (snd c * split_for dflt tbl (fst e)) 10000 (snd e)
                                        && (0 <? snd e) && (snd e <=? snd c)) coins) l)
                 "prop:exchange_share_entry_is_not_the_ceiling_for_its_own_coin_and_split" ++
             tag (forallb (fun c => (Z.eqb (snd c) 0) || (Z.eqb (split_for dflt tbl (fst c)) 0)
                                    || existsb (fun e => N.eqb (fst e) (fst c)) l) coins)
                 "prop:exchange_share_missing_for_a_fee_coin"
         | None => ["prop:exchange_split_coins_failed"]
         end else [])
  | CMeter ops nrec (tot, modp, recs) =>
      let m := meter_run ops in
      let ids := map N.of_nat (seq 0 (N.to_nat nrec)) in
      tag (Z.eqb (meter_total m) tot && Z.eqb (meter_for m None) modp
           && list_eqb Z.eqb (map (fun i => meter_for m (Some i)) ids) recs) "corr:tx_fee_meter" ++
      (if forallb (fun o => let '(_, a, b, _) := o in (0 <=? b) && (b <=? 10000) && (a <? int_max)) ops then
         tag (Z.eqb tot (modp + fold_right Z.add 0 recs)) "prop:tx_fee_parts_do_not_add_up" ++
         tag (list_eqb Z.eqb (map (fun i => shares ops i) ids) recs) "prop:recipient_does_not_get_the_sum_of_its_floor_shares" ++
         tag (Z.eqb tot (fees_total ops)) "prop:tx_fee_total_is_not_the_sum_of_the_fees" ++
         tag ((0 <=? modp) && forallb (fun v => 0 <=? v) recs) "prop:tx_fee_part_negative"
       else [])
  end.

Definition check_all := check_list check.
