(** Shared plumbing for the correspondence checks: a case carries the inputs given to the
    implementation and the observables projected from it; [check_list] evaluates a per-case
    checker returning the tags of the relations that failed ("corr:*" = model and implementation
    disagree, "prop:*" = the property's executable checker fails on the implementation's own
    observation). *)
From Coq Require Import ZArith NArith List String Bool.
Import ListNotations.
Open Scope string_scope.

Definition check_list {A} (f : A -> list string) (start : nat) (l : list A)
  : list (N * list string) :=
  rev (snd (fold_left
    (fun (st : N * list (N * list string)) c =>
       let '(i, acc) := st in
       match f c with
       | [] => (N.succ i, acc)
       | e => (N.succ i, (i, e) :: acc)
       end) l (N.of_nat start, []))).

Definition tag (b : bool) (s : string) : list string := if b then [] else [s].

Definition opt_eqb {A} (eqb : A -> A -> bool) (x y : option A) : bool :=
  match x, y with
  | Some a, Some b => eqb a b
  | None, None => true
  | _, _ => false
  end.

Definition pair_eqb {A B} (ea : A -> A -> bool) (eb : B -> B -> bool) (x y : A * B) : bool :=
  ea (fst x) (fst y) && eb (snd x) (snd y).

Fixpoint list_eqb {A} (eqb : A -> A -> bool) (x y : list A) : bool :=
  match x, y with
  | [], [] => true
  | a :: x', b :: y' => eqb a b && list_eqb eqb x' y'
  | _, _ => false
  end.
