(** Shared plumbing for the correspondence checks: a case carries the inputs given to the
    implementation and the observables projected from it; [check_list] evaluates a per-case
    checker returning the tags of the relations that failed ("corr:*" = model and implementation
    disagree, "prop:*" = the property's executable checker fails on the implementation's own
    observation). *)
From Coq Require Import ZArith NArith List String Bool.
Import ListNotations.
Open Scope string_scope.

Definition check_list {A} (f : A -> list string) (start : nat) (l : list A)
  : list (N * list string) :=
  rev (snd (fold_left
    (fun (st : N * list (N * list string)) c =>
       let '(i, acc) := st in
       match f c with
       | [] => (N.succ i, acc)
       | e => (N.succ i, (i, e) :: acc)
       end) l (N.of_nat start, []))).

Definition tag (b : bool) (s : string) : list string := if b then [] else [s].

Definition opt_eqb {A} (eqb : A -> A -> bool) (x y : option A) : bool :=
  match x, y with
  | Some a, Some b => eqb a b
  | None, None => true
  | _, _ => false
  end.

Definition pair_eqb {A B} (ea : A -> A -> bool) (eb : B -> B -> bool) (x y : A * B) : bool :=
  ea (fst x) (fst y) && eb (snd x) (snd y).

Fixpoint list_eqb {A} (eqb : A -> A -> bool) (x y : list A) : bool :=
  match x, y with
  | [], [] => true
  | a :: x', b :: y' => eqb a b && list_eqb eqb x' y'
  | _, _ => false
  end.

(** Decimal rendering, for tags such as "corr:step 12: balances". *)
From Coq Require Import DecimalString.
Definition N_to_string (n : N) : string := NilZero.string_of_uint (N.to_uint n).
Definition Z_to_string (z : Z) : string := NilZero.string_of_int (Z.to_int z).
Definition nat_to_string (n : nat) : string := N_to_string (N.of_nat n).

(** [first_failure f l] runs a per-step checker over a history and reports the failures of the
    first step that has any, prefixed by the step number: a history's verdict then also names
    the minimal failing prefix. *)
Fixpoint first_failure {A} (f : A -> list string) (i : N) (l : list A) : list string :=
  match l with
  | [] => []
  | x :: r =>
      match f x with
      | [] => first_failure f (N.succ i) r
      | e => map (fun t => t ++ " @step " ++ N_to_string i) e
      end
  end.
