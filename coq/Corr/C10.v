(** Correspondence + property checker for C10 (metadata writes require the signatures that the
    party rules demand).  The only observable is accept / reject.

    corr:*  the transcription Metadata/Signers.v answers differently from the implementation;
    prop:*  the DOCUMENTED rule (Metadata/SignersSpec.v: coverage by signer or grant, existence of
            an injective role assignment found by brute force, PROVENANCE-role rule, smart-contract
            positions) evaluated directly on the implementation's answer.

    Count-limited authorizations are outside Metadata/Signers.v; the [CCount] cases record what the
    real keeper does with them (k identical messages in a row) and compare it with the counted
    transcription of findAuthzGrantee (Metadata/AuthzCount.v), not with the main model. *)
From Coq Require Import ZArith NArith List String Bool.
From PV Require Export Metadata.Signers Metadata.SignersSpec Metadata.AuthzCount Corr.CorrBase.
Import ListNotations.
Open Scope string_scope.
Open Scope list_scope.
Open Scope Z_scope.

Definition P (a r : Z) (o : bool) : party := {| p_addr := a; p_role := r; p_opt := o |}.
Definition SV (spec : Z) (owners : list party) (data : list Z) (vo : option Z) (rollup : bool) : scope_view :=
  {| sv_spec := spec; sv_owners := owners; sv_data := data; sv_vo := vo; sv_rollup := rollup |}.

Inductive case :=
  (* keeper.ValidateSignersWithParties called directly; [m] = kind of the message carrying the
     signers, [wasm] = smart-contract accounts, [raw] = (granter, grantee, kind granted) *)
| CWith (m : Z) (wasm : list Z) (raw : list (Z * Z * Z)) (req avail : list party)
        (roles signers : list Z) (obs : bool)
  (* keeper.ValidateSignersWithoutParties called directly *)
| CWithout (m : Z) (wasm : list Z) (raw : list (Z * Z * Z)) (required signers : list Z) (obs : bool)
  (* a real message through the message router on state set up through the keeper *)
| COuter (m : Z) (wasm : list Z) (raw : list (Z * Z * Z)) (op : outer) (signers : list Z) (obs : bool)
  (* count-limited authorizations: [st] = (granter, grantee, kind, uses; 0 = generic); the only
     requirement is the signature of [granter]; the same message of kind [m] signed by [signers]
     is sent [length obs] times in a row (real keeper call or real message), [obs] = accepted? *)
| CCount (m : Z) (st : list (Z * Z * Z * Z)) (granter : Z) (signers : list Z) (obs : list bool)
  (* the same with EXPIRATIONS and block times (seconds): [st] = (granter, grantee, kind, uses,
     expiration; 0 = none); message i is sent at block time [times_i]; observed per message: accepted?
     and, for every key of [st], what GetAuthorization reports afterwards (-1 nothing stored,
     0 stored without expiration, x stored with expiration x) *)
| CCountT (m : Z) (st : list (Z * Z * Z * Z * Z)) (granter : Z) (signers : list Z)
          (times : list Z) (obs : list (bool * list Z)).

Definition implies (a b : bool) : bool := negb a || b.

(** spec/01_concepts.md: "If a smart contract is a signer, but not a party, it cannot be the only
    signer, and cannot be the last signer" read literally (known finding: the code also lets a
    contract through that merely holds an authz grant from a party). *)
Definition literal_tag : string :=
  "prop:smart contract that is not a party accepted as only/last signer or without grants from the signers after it (it merely holds a party's grant)".

Definition mk_store (l : list (Z * Z * Z * Z)) : cstore :=
  map (fun g => {| cg_granter := fst (fst (fst g)); cg_grantee := snd (fst (fst g));
                   cg_kind := snd (fst g);
                   cg_left := if Z.eqb (snd g) 0 then None else Some (snd g); cg_exp := None |}) l.

Definition mk_store_t (l : list (Z * Z * Z * Z * Z)) : cstore :=
  map (fun g => let q := fst g in
                {| cg_granter := fst (fst (fst q)); cg_grantee := snd (fst (fst q));
                   cg_kind := snd (fst q);
                   cg_left := if Z.eqb (snd q) 0 then None else Some (snd q);
                   cg_exp := if Z.eqb (snd g) 0 then None else Some (snd g) |}) l.

Fixpoint zs_eqb (a b : list Z) : bool :=
  match a, b with
  | [], [] => true
  | x :: a', y :: b' => Z.eqb x y && zs_eqb a' b'
  | _, _ => false
  end.
Fixpoint obs_eqb (a b : list (bool * list Z)) : bool :=
  match a, b with
  | [], [] => true
  | x :: a', y :: b' => Bool.eqb (fst x) (fst y) && zs_eqb (snd x) (snd y) && obs_eqb a' b'
  | _, _ => false
  end.

(** some authorization of the ORIGINAL store, from [granter] to a signer under a message type that
    counts for [m], is live at block time [now] *)
Definition live_grant_exists (m now : Z) (st : list (Z * Z * Z * Z * Z)) (granter : Z) (signers : list Z) : bool :=
  existsb (fun g => let q := fst g in
                    Z.eqb (fst (fst (fst q))) granter && mem (snd (fst (fst q))) signers &&
                    mem (snd (fst q)) (authz_urls m) &&
                    (Z.eqb (snd g) 0 || Z.leb now (snd g))) st.

Fixpoint all_live_when_accepted (m : Z) (st : list (Z * Z * Z * Z * Z)) (granter : Z) (signers : list Z)
  (times : list Z) (obs : list (bool * list Z)) : bool :=
  match times, obs with
  | now :: ts, o :: os =>
      (negb (fst o) || live_grant_exists m now st granter signers) &&
      all_live_when_accepted m st granter signers ts os
  | _, _ => true
  end.

(** every expiration reported after a message is the originally granted one, or nothing is stored *)
Definition exps_unchanged (st : list (Z * Z * Z * Z * Z)) (obs : list (bool * list Z)) : bool :=
  forallb (fun o => zs_eqb (map (fun p => if Z.eqb (fst p) (-1) then -1 else snd p)
                                (combine (snd o) (map snd st)))
                           (map (fun p => if Z.eqb (fst p) (-1) then -1 else fst p)
                                (combine (snd o) (map snd st)))
                    && Nat.eqb (List.length (snd o)) (List.length st)) obs.

Fixpoint bools_eqb (a b : list bool) : bool :=
  match a, b with
  | [], [] => true
  | x :: a', y :: b' => Bool.eqb x y && bools_eqb a' b'
  | _, _ => false
  end.

(** once rejected, always rejected (uses are only ever consumed) *)
Fixpoint no_true_after_false (l : list bool) : bool :=
  match l with
  | [] => true
  | true :: t => no_true_after_false t
  | false :: t => forallb negb t
  end.

(** the uses [granter] has given to the signers for a message of kind [m]; [None]: unlimited *)
Definition uses_available (m : Z) (st : list (Z * Z * Z * Z)) (granter : Z) (signers : list Z) : option Z :=
  let app := filter (fun g => Z.eqb (fst (fst (fst g))) granter && mem (snd (fst (fst g))) signers &&
                              mem (snd (fst g)) (authz_urls m)) st in
  if existsb (fun g => Z.eqb (snd g) 0) app then None
  else Some (fold_left (fun acc g => acc + snd g) app 0).

Definition check (c : case) : list string :=
  match c with
  | CWith m wasm raw req avail roles signers obs =>
      let e := mk_env m wasm raw in
      tag (Bool.eqb (validate_signers_with_parties e req avail roles signers) obs)
          "corr:ValidateSignersWithParties accept/reject" ++
      (if obs then
         tag (required_covered_b e signers req)
             "prop:accepted although a required party is neither a signer nor has granted to one" ++
         tag (roles_signed_b e signers avail roles)
             "prop:accepted although no assignment of the required roles to distinct signing parties exists" ++
         tag (provenance_rule_b e avail)
             "prop:accepted although the PROVENANCE role / smart contract rule is broken" ++
         tag (contract_rule_b e (stands_for_party_b e req avail) true signers)
             "prop:smart-contract signer accepted outside the documented positions" ++
         tag (contract_rule_b e (is_party_signer_b req avail) true signers) literal_tag
       else
         tag (negb (with_parties_direct_b e req avail roles signers))
             "prop:rejected although every required party signed directly and the roles are present" ++
         tag (negb (no_wasm_signer e signers && with_parties_sound_b e req avail roles signers))
             "prop:rejected although the documented rule is met (coverage, role assignment)")
  | CWithout m wasm raw required signers obs =>
      let e := mk_env m wasm raw in
      tag (Bool.eqb (validate_signers_without_parties e required signers) obs)
          "corr:ValidateSignersWithoutParties accept/reject" ++
      (if obs then
         tag (forallb (covered_b e signers) required)
             "prop:accepted although a required address is neither a signer nor has granted to one" ++
         tag (contract_rule_b e (stands_for_party_b e (addr_parties required) []) true signers)
             "prop:smart-contract signer accepted outside the documented positions" ++
         tag (contract_rule_b e (is_party_signer_b (addr_parties required) []) true signers) literal_tag
       else
         tag (negb (without_parties_direct_b e required signers))
             "prop:rejected although every required address signed directly" ++
         tag (negb (no_wasm_signer e signers && without_parties_sound_b e required signers))
             "prop:rejected although the documented rule is met (coverage)")
  | COuter m wasm raw op signers obs =>
      let e := mk_env m wasm raw in
      tag (Bool.eqb (outer_accept e op signers) obs) "corr:message accept/reject" ++
      (if obs then
         tag (doc_sound e op signers)
             "prop:message accepted without the signatures the documented rules require" ++
         tag (doc_literal e op signers || negb (doc_sound e op signers)) literal_tag
       else
         tag (negb (doc_direct e op signers))
             "prop:message rejected although every required party signed directly and the roles are present")
  | CCount m st granter signers obs =>
      tag (bools_eqb (messages (repeat 1 (List.length obs)) (mk_store st) granter signers m) obs)
          "corr:count-limited authorizations: accept/reject sequence differs from the counted transcription of findAuthzGrantee" ++
      (if mem granter signers then []
       else
         tag (match uses_available m st granter signers with
              | None => true
              | Some n => Z.leb (Z.of_nat (List.length (filter (fun b => b) obs))) n
              end)
             "prop:count-limited authorizations stood in for more messages than the uses granted" ++
         tag (match uses_available m st granter signers with
              | None => true
              | Some _ => no_true_after_false obs
              end)
             "prop:message accepted again after the count-limited authorizations were used up")
  | CCountT m st granter signers times obs =>
      tag (obs_eqb (messages_obs (mk_store_t st) times (mk_store_t st) granter signers m) obs &&
           Nat.eqb (List.length times) (List.length obs))
          "corr:expiring count-limited authorizations: accept/reject or stored expirations differ from the counted transcription of findAuthzGrantee" ++
      (if mem granter signers then []
       else
         tag (all_live_when_accepted m st granter signers times obs)
             "prop:message accepted through an authz grant although no grant from the party to a signer was live at that block time") ++
      tag (exps_unchanged st obs)
          "prop:using an authorization changed its expiration" ++
      (if mem granter signers then []
       else
         tag (match uses_available m (map fst st) granter signers with
              | None => true
              | Some n => Z.leb (Z.of_nat (List.length (filter (fun o => fst o) obs))) n
              end)
             "prop:count-limited authorizations stood in for more messages than the uses granted")
  end.

Definition check_all := check_list check.
