(** Correspondence + property checker for C03 (funds on hold cannot leave the account). *)
From Coq Require Import ZArith NArith List String Bool.
From PV Require Export Hold.Locked Corr.CorrBase.
Import ListNotations.
Open Scope string_scope.
Open Scope list_scope.
Open Scope Z_scope.

Definition entries := list (N * N * Z).     (* (account, denom, amount); absent = 0 *)

Definition sheet_of (l : entries) : sheet :=
  fun a d =>
    match find (fun e => let '(a', d', _) := e in N.eqb a a' && N.eqb d d') l with
    | Some (_, _, v) => v
    | None => 0
    end.

Definition mk_state (b h u : entries) : state :=
  {| bal := sheet_of b; hold := sheet_of h; unvested := sheet_of u |}.

(** ** Single route attempts.
    An account with balance [b], hold [h] and vesting lock [u] (all in one denom) attempts to move
    [amt] by some route; [extra] is what the route additionally deducts from the same denom before
    the amount (e.g. an order creation fee).  Route classes:
      RSpend     any bank spend (send, multi-send, deposit, marker/market withdrawal, transfer …)
      RDelegate  delegation (vesting lock does not apply, the hold does)
      RNewHold   a new order / commitment / payment: places [amt] on hold instead of moving it. *)
Inductive rclass := RSpend | RDelegate | RNewHold.

Record route_obs := { ro_ok : bool; ro_bal : Z; ro_hold : Z; ro_unv : Z; ro_spend : Z }.

Definition model_route (c : rclass) (b h u extra amt : Z) : bool :=
  match c with
  | RSpend => amt + extra <=? b - h - u
  | RDelegate => amt + extra <=? b - h
  | RNewHold => (amt + extra <=? Z.max 0 (b - h - u))
  end.

Definition check_route (name : string) (c : rclass) (b h u extra amt : Z) (o : route_obs) : list string :=
  tag (Bool.eqb (model_route c b h u extra amt) (ro_ok o)) ("corr:route " ++ name ++ " accepted/rejected") ++
  tag (ro_hold o <=? ro_bal o) ("prop:balance below hold after " ++ name) ++
  tag (Z.eqb (ro_spend o) (Z.max 0 (ro_bal o - ro_hold o - ro_unv o))) ("prop:spendable is not balance-hold-unvested after " ++ name) ++
  (if ro_ok o then
     match c with
     | RNewHold => tag (Z.eqb (ro_hold o) (h + amt) && Z.eqb (ro_bal o) (b - extra)) ("prop:new hold not exactly the reserved amount via " ++ name)
     | _ => tag (Z.eqb (ro_bal o) (b - amt - extra) && Z.eqb (ro_hold o) h) ("prop:spend moved a different amount or touched the hold via " ++ name)
     end
   else tag (Z.eqb (ro_bal o) b && Z.eqb (ro_hold o) h) ("prop:rejected " ++ name ++ " changed state")).

(** ** Histories on the bank + hold keepers. *)
Record step_obs := { so_ok : bool; so_bal : entries; so_hold : entries; so_unv : entries; so_spend : entries }.

Definition keys (accts denoms : list N) : list (N * N) :=
  flat_map (fun a => map (fun d => (a, d)) denoms) accts.

Definition sheets_agree (ks : list (N * N)) (f : sheet) (l : entries) : bool :=
  forallb (fun k => Z.eqb (f (fst k) (snd k)) (sheet_of l (fst k) (snd k))) ks.

Fixpoint check_hist (ks : list (N * N)) (s : state) (i : N) (steps : list (op * step_obs)) : list string :=
  match steps with
  | [] => []
  | (o, ob) :: rest =>
      let m := step s o in
      let s' := match m with Some x => x | None => s end in
      let errs :=
        tag (Bool.eqb (match m with Some _ => true | None => false end) (so_ok ob)) "corr:accepted/rejected" ++
        tag (sheets_agree ks (bal s') (so_bal ob)) "corr:balances" ++
        tag (sheets_agree ks (hold s') (so_hold ob)) "corr:holds" ++
        tag (forallb (fun k => let a := fst k in let d := snd k in
                               (0 <=? sheet_of (so_hold ob) a d) && (sheet_of (so_hold ob) a d <=? sheet_of (so_bal ob) a d)) ks)
            "prop:balance below hold" ++
        tag (forallb (fun k => let a := fst k in let d := snd k in
                               Z.eqb (sheet_of (so_spend ob) a d)
                                     (Z.max 0 (sheet_of (so_bal ob) a d - sheet_of (so_hold ob) a d - sheet_of (so_unv ob) a d))) ks)
            "prop:spendable is not balance-hold-unvested"
      in
      match errs with
      | [] => check_hist ks s' (N.succ i) rest
      | e => map (fun t => (t ++ " @step " ++ N_to_string i)%string) e
      end
  end.

Inductive case :=
| CRoute (name : string) (c : rclass) (b h u extra amt : Z) (o : route_obs)
| CHist (accts denoms : list N) (b h u : entries) (steps : list (op * step_obs)).

Definition check (c : case) : list string :=
  match c with
  | CRoute name cl b h u extra amt o => check_route name cl b h u extra amt o
  | CHist accts denoms b h u steps => check_hist (keys accts denoms) (mk_state b h u) 0%N steps
  end.

Definition check_all := check_list check.
