(** Correspondence + property checker for C14 (metadata referential integrity, faithful
    lookups, lossless addresses).

    Address stream: what the real constructors / parsers / conversions of
    x/metadata/types/address.go and the SDK's bech32 returned on generated and arbitrary inputs.
    History stream: a whole history of keeper calls and messages run on the real metadata keeper;
    after every step the harness records accepted?, every stored scope, session, record,
    specification and net asset value (real iterators), and the result of every lookup iterator
    for every account / specification / scope of the history's universe.

    corr:*  the models (Metadata/Address.v, Bech32.v, Refs.v) disagree with the implementation;
    prop:*  the property's own checker fails on what the implementation returned (no model). *)
From Coq Require Import String Ascii.
From Coq Require Import ZArith NArith List Bool.
From PV Require Export Metadata.Address Metadata.Bech32Case Metadata.Refs Metadata.RefsBytes Metadata.Utf8Name Corr.CorrBase.
Import ListNotations.
Open Scope string_scope.
Open Scope list_scope.

(** ** Address stream *)
Notation bytes := (list N) (only parsing).
(** byte strings are written by the harness as lists of Z literals *)
Definition B (l : list Z) : bytes := map Z.to_N l.
Definition ob_eqb (x y : option bytes) : bool := opt_eqb list_N_eqb x y.
Definition hrp_is (bz : bytes) (t : atype) : bool :=
  match verify_format bz with Some t' => atype_eqb t t' | None => false end.

(** observations on an arbitrary byte string used as a MetadataAddress *)
Record aobs := AO {
  a_verify : option bytes;      (* VerifyMetadataAddressFormat: the hrp, None = error *)
  a_string : option bytes;      (* String(): None when it printed the Go-syntax dump *)
  a_back : option bytes;        (* MetadataAddressFromBech32(String()) *)
  a_is : list bool;             (* IsScope, IsSession, IsRecord, IsContractSpec, IsScopeSpec, IsRecordSpec *)
  a_as_scope : option bytes; a_as_cspec : option bytes;
  a_scope_uuid : option bytes; a_session_uuid : option bytes; a_sspec_uuid : option bytes;
  a_cspec_uuid : option bytes; a_primary : option bytes; a_secondary : option bytes;
  a_namehash : option bytes;
  a_sess_prefix : option bytes; a_rec_prefix : option bytes; a_rspec_prefix : option bytes;
  a_denom : option bytes }.

(** observations on addresses built from UUIDs and a name *)
Record cobs := CO {
  c_scope : bytes; c_session : bytes; c_record : option bytes;
  c_sspec : bytes; c_cspec : bytes; c_rspec : option bytes;
  c_sess_from_scope : option bytes;      (* scope.AsSessionAddress(u2) *)
  c_rec_from_sess : option bytes;        (* session.AsRecordAddress(name) *)
  c_rspec_from_cspec : option bytes;     (* cspec.AsRecordSpecAddress(name) *)
  c_scope_of_sess : option bytes;        (* session.AsScopeAddress() *)
  c_scope_of_rec : option bytes;         (* record.AsScopeAddress(); None when there is no record *)
  c_cspec_of_rspec : option bytes }.     (* recspec.AsContractSpecAddress() *)

Definition all_is (bz : bytes) : list bool :=
  map (fun t => is_type t bz) [TScope; TSession; TRecord; TContractSpec; TScopeSpec; TRecordSpec].

Definition check_abytes (bz : bytes) (o : aobs) : list string :=
  tag (ob_eqb (option_map hrp_of (verify_format bz)) (a_verify o)) "corr:verify_format" ++
  tag (ob_eqb (to_string bz) (a_string o)) "corr:string" ++
  tag (list_eqb Bool.eqb (all_is bz) (a_is o)) "corr:is_type" ++
  tag (ob_eqb (as_scope_address bz) (a_as_scope o)) "corr:as_scope_address" ++
  tag (ob_eqb (as_contract_spec_address bz) (a_as_cspec o)) "corr:as_contract_spec_address" ++
  tag (ob_eqb (scope_uuid bz) (a_scope_uuid o)) "corr:scope_uuid" ++
  tag (ob_eqb (session_uuid bz) (a_session_uuid o)) "corr:session_uuid" ++
  tag (ob_eqb (scope_spec_uuid bz) (a_sspec_uuid o)) "corr:scope_spec_uuid" ++
  tag (ob_eqb (contract_spec_uuid bz) (a_cspec_uuid o)) "corr:contract_spec_uuid" ++
  tag (ob_eqb (primary_uuid bz) (a_primary o)) "corr:primary_uuid" ++
  tag (ob_eqb (secondary_uuid bz) (a_secondary o)) "corr:secondary_uuid" ++
  tag (ob_eqb (name_hash_of bz) (a_namehash o)) "corr:name_hash" ++
  tag (ob_eqb (scope_session_prefix bz) (a_sess_prefix o)) "corr:session_iter_prefix" ++
  tag (ob_eqb (scope_record_prefix bz) (a_rec_prefix o)) "corr:record_iter_prefix" ++
  tag (ob_eqb (cspec_recspec_prefix bz) (a_rspec_prefix o)) "corr:recspec_iter_prefix" ++
  tag (ob_eqb (denom bz) (a_denom o)) "corr:denom" ++
  (* the property on the implementation's own answers: an address the implementation calls
     valid prints to text that parses back to the same bytes (by the implementation and by the
     bech32 model), and a derived parent is the parent type byte followed by the same UUID *)
  match a_verify o with
  | None => []
  | Some _ =>
      tag (match a_string o with Some _ => ob_eqb (a_back o) (Some bz) | None => false end)
          "prop:text_roundtrip" ++
      tag (match a_string o with Some s => ob_eqb (from_bech32 s) (Some bz) | None => false end)
          "prop:text_parses_back" ++
      tag (match a_as_scope o with
           | Some p => list_N_eqb p (0%N :: bytes_1_17 bz) && hrp_is p TScope
           | None => true end) "prop:scope_parent_matches" ++
      tag (match a_as_cspec o with
           | Some p => list_N_eqb p (3%N :: bytes_1_17 bz) && hrp_is p TContractSpec
           | None => true end) "prop:cspec_parent_matches"
  end.

(** parse must give back exactly the parts the address was built from *)
Definition maddr_eqb (x y : maddr) : bool :=
  list_N_eqb (maddr_bytes x) (maddr_bytes y) && atype_eqb (maddr_type x) (maddr_type y).
Definition parses_to (bz : bytes) (a : maddr) : bool :=
  match parse bz with Some a' => maddr_eqb a a' && list_N_eqb (maddr_bytes a) bz | None => false end.
Definition oparses_to (obz : option bytes) (a : maddr) : bool :=
  match obz with Some bz => parses_to bz a | None => false end.

(** [nh] = first 16 bytes of SHA-256 of the normalised name, computed by the harness with
    crypto/sha256 (the model's opaque [name_hash]). *)
Definition check_acons (u1 u2 name nh : bytes) (o : cobs) : list string :=
  let h : bytes -> bytes := fun _ => nh in
  let blank := match normalize_name name with [] => true | _ => false end in
  tag (list_N_eqb (scope_addr u1) (c_scope o)) "corr:scope_address" ++
  tag (list_N_eqb (session_addr u1 u2) (c_session o)) "corr:session_address" ++
  tag (ob_eqb (record_addr h u1 name) (c_record o)) "corr:record_address" ++
  tag (list_N_eqb (scope_spec_addr u1) (c_sspec o)) "corr:scope_spec_address" ++
  tag (list_N_eqb (contract_spec_addr u2) (c_cspec o)) "corr:contract_spec_address" ++
  tag (ob_eqb (record_spec_addr h u2 name) (c_rspec o)) "corr:record_spec_address" ++
  tag (ob_eqb (as_session_address (c_scope o) u2) (c_sess_from_scope o)) "corr:as_session_address" ++
  tag (ob_eqb (as_record_address h (c_session o) name) (c_rec_from_sess o)) "corr:as_record_address" ++
  tag (ob_eqb (as_record_spec_address h (c_cspec o) name) (c_rspec_from_cspec o)) "corr:as_record_spec_address" ++
  (* property, on the implementation's answers only *)
  tag (parses_to (c_scope o) (AScope u1)) "prop:scope_parses_to_parts" ++
  tag (parses_to (c_session o) (ASession u1 u2)) "prop:session_parses_to_parts" ++
  tag (parses_to (c_sspec o) (AScopeSpec u1)) "prop:scope_spec_parses_to_parts" ++
  tag (parses_to (c_cspec o) (AContractSpec u2)) "prop:contract_spec_parses_to_parts" ++
  tag (ob_eqb (c_scope_of_sess o) (Some (c_scope o))) "prop:session_scope_is_parent" ++
  tag (ob_eqb (c_sess_from_scope o) (Some (c_session o))) "prop:session_from_scope_agrees" ++
  (if blank then
     tag (match c_record o, c_rspec o with None, None => true | _, _ => false end) "prop:blank_name_rejected"
   else
     tag (oparses_to (c_record o) (ARecord u1 nh)) "prop:record_parses_to_parts" ++
     tag (oparses_to (c_rspec o) (ARecordSpec u2 nh)) "prop:record_spec_parses_to_parts" ++
     tag (ob_eqb (c_scope_of_rec o) (Some (c_scope o))) "prop:record_scope_is_parent" ++
     tag (ob_eqb (c_cspec_of_rspec o) (Some (c_cspec o))) "prop:record_spec_contract_spec_is_parent" ++
     tag (ob_eqb (c_rec_from_sess o) (c_record o)) "prop:record_from_session_agrees" ++
     tag (ob_eqb (c_rspec_from_cspec o) (c_rspec o)) "prop:record_spec_from_contract_spec_agrees").

(** Addresses built from UUIDs and a UTF-8 name.  [trimmed] = strings.TrimSpace(name) and [norm] =
    strings.ToLower(trimmed) as Go computed them, [nh] = sha256(norm)[:16].  TrimSpace is compared
    with the complete model [trim_u]; the whole normal form with [normalize_u] wherever the name
    stays inside the modelled part of unicode.ToLower; everything derived (addresses, parts,
    parents, record <-> record-specification name hash) is checked on the observed normal form. *)
Definition check_aconsu (u1 u2 name trimmed norm nh : bytes) (o : cobs) : list string :=
  let h : bytes -> bytes := fun _ => nh in
  let blank := match norm with [] => true | _ => false end in
  let nonempty := match name with [] => false | _ => true end in
  tag (list_N_eqb (trim_u name) trimmed) "corr:utf8_trim_space" ++
  tag (match normalize_u name with Some n => list_N_eqb n norm | None => true end) "corr:utf8_normalize" ++
  tag (list_N_eqb (scope_addr u1) (c_scope o)) "corr:scope_address" ++
  tag (list_N_eqb (session_addr u1 u2) (c_session o)) "corr:session_address" ++
  tag (ob_eqb (named_addr h TRecord u1 norm) (c_record o)) "corr:record_address" ++
  tag (list_N_eqb (contract_spec_addr u2) (c_cspec o)) "corr:contract_spec_address" ++
  tag (ob_eqb (named_addr h TRecordSpec u2 norm) (c_rspec o)) "corr:record_spec_address" ++
  tag (ob_eqb (match scope_uuid (c_session o) with
               | Some u => if nonempty then named_addr h TRecord u norm else None
               | None => None end) (c_rec_from_sess o)) "corr:as_record_address" ++
  tag (ob_eqb (match contract_spec_uuid (c_cspec o) with
               | Some u => named_addr h TRecordSpec u norm
               | None => None end) (c_rspec_from_cspec o)) "corr:as_record_spec_address" ++
  (if blank then
     tag (match c_record o, c_rspec o with None, None => true | _, _ => false end) "prop:blank_name_rejected"
   else
     tag (oparses_to (c_record o) (ARecord u1 nh)) "prop:record_parses_to_parts" ++
     tag (oparses_to (c_rspec o) (ARecordSpec u2 nh)) "prop:record_spec_parses_to_parts" ++
     tag (ob_eqb (c_scope_of_rec o) (Some (c_scope o))) "prop:record_scope_is_parent" ++
     tag (ob_eqb (c_cspec_of_rspec o) (Some (c_cspec o))) "prop:record_spec_contract_spec_is_parent" ++
     tag (ob_eqb (c_rec_from_sess o) (c_record o)) "prop:record_from_session_agrees" ++
     tag (ob_eqb (c_rspec_from_cspec o) (c_rspec o)) "prop:record_spec_from_contract_spec_agrees" ++
     tag (match c_record o, c_rspec o with
          | Some r, Some sp => ob_eqb (name_hash_of r) (name_hash_of sp) && ob_eqb (name_hash_of r) (Some nh)
          | _, _ => false end) "prop:record_and_record_spec_share_name_hash").

(** two names and the normal forms Go computed: equal normal forms <-> equal record addresses *)
Definition check_anames (u : bytes) (n1 norm1 n2 norm2 : bytes) (r1 r2 : option bytes) : list string :=
  tag (match normalize_u n1, normalize_u n2 with
       | Some a, Some b => Bool.eqb (list_N_eqb a b) (list_N_eqb norm1 norm2)
       | _, _ => true end) "corr:utf8_same_normal_form" ++
  match r1, r2 with
  | Some a, Some b =>
      tag (Bool.eqb (list_N_eqb norm1 norm2) (list_N_eqb a b)) "prop:same_name_same_record_address"
  | _, _ => []
  end.

(** Letter case of the text form.  [lo] = String() of the address [bz], [up] = its all-upper-case
    spelling (strings.ToUpper), [mx] = a spelling with some but not all letters in upper case.
    [r_lo], [r_up], [r_mx] = what each way of reading a metadata address from text returned for the
    three spellings (None = error): MetadataAddressFromBech32, ParseMetadataAddressFromBech32,
    MetadataAddress.UnmarshalJSON, MetadataAddress.UnmarshalYAML.  For a scope address also:
    [s_*] = SessionIdComponents{ScopeAddr: text, SessionUuid: su}.GetSessionAddr(), [v] = is
    MsgAddNetAssetValuesRequest{ScopeId: text}.ValidateBasic() satisfied, per spelling.
    BIP-173: all-lower and all-upper spellings are the same data, mixed case is invalid. *)
Definition all_are (x : option bytes) (l : list (option bytes)) : bool := forallb (ob_eqb x) l.
Definition check_acase (bz lo up mx : bytes) (r_lo r_up r_mx : list (option bytes))
    (su : bytes) (s_lo s_up s_mx : option bytes) (v : list bool) : list string :=
  let is_scope := is_type TScope bz in
  let sess := Some (session_addr (bytes_1_17 bz) su) in
  tag (list_N_eqb (upper lo) up) "corr:upper_case_text" ++
  tag (mixed_case mx && list_N_eqb (lower mx) lo) "corr:mixed_case_text" ++
  tag (all_are (from_bech32 lo) r_lo) "corr:from_bech32_lower_case" ++
  tag (all_are (from_bech32 up) r_up) "corr:from_bech32_upper_case" ++
  tag (all_are (from_bech32 mx) r_mx) "corr:from_bech32_mixed_case" ++
  (* the property, on the implementation's answers only *)
  tag (all_are (Some bz) r_lo && (negb is_scope || (ob_eqb s_lo sess && nth 0 v false)))
      "prop:lower_case_bech32_text_does_not_parse_back" ++
  tag (all_are (Some bz) r_up && (negb is_scope || (ob_eqb s_up sess && nth 1 v false)))
      "prop:upper_case_bech32_text_does_not_parse_back" ++
  tag (all_are None r_mx && (negb is_scope || (ob_eqb s_mx None && negb (nth 2 v true))))
      "prop:mixed_case_bech32_text_accepted".

(** bech32 text handed to MetadataAddressFromBech32; [str] = String() of the result *)
Definition check_atext (text : bytes) (res str : option bytes) : list string :=
  tag (ob_eqb (from_bech32 text) res) "corr:from_bech32" ++
  match res with
  | None => []
  | Some bz =>
      tag (isSome (verify_format bz)) "prop:parsed_address_is_valid" ++
      tag (ob_eqb str (Some (lower text))) "prop:parsed_text_prints_back"
  end.

Definition opair_eqb (x y : option (bytes * bytes)) : bool :=
  opt_eqb (pair_eqb list_N_eqb list_N_eqb) x y.

Open Scope Z_scope.

(** ** History stream: the observation after one step (everything sorted by id) *)
Record obs := HO { o_ok : bool;
  o_scopes : list scope; o_sessions : list session; o_records : list record;
  o_sspecs : list sspec; o_cspecs : list cspec; o_rspecs : list rspec; o_navs : list nav;
  l_as : list (list Z);       (* per account: IterateScopesForAddress *)
  l_ss : list (list Z);       (* per scope spec: IterateScopesForScopeSpec *)
  l_asp : list (list Z);      (* per account: IterateScopeSpecsForOwner *)
  l_cs : list (list Z);       (* per contract spec: IterateScopeSpecsForContractSpec *)
  l_ac : list (list Z);       (* per account: IterateContractSpecsForOwner *)
  l_sess : list (list Z);     (* per scope: IterateSessions(scope) -> session uuids *)
  l_rec : list (list Z);      (* per scope: IterateRecords(scope) -> names *)
  l_rspec : list (list Z);    (* per contract spec: IterateRecordSpecsForContractSpec -> names *)
  o_locs : list (Z * Z);      (* IterateOSLocators: (account, uri), sorted *)
  l_locsc : list (option (list (Z * Z))) }.  (* per scope: GetOSLocatorByScope, None = error *)

Inductive case :=
| ABytes (bz : bytes) (o : aobs)
| ACons (u1 u2 name nh : bytes) (o : cobs)
| AText (text : bytes) (res str : option bytes)
| AHex (text : bytes) (res : option bytes)
| ADenom (text : bytes) (res : option bytes)
| AConv (from to : nat) (pad : bool) (data : bytes) (res : option bytes)
(** ConvertAndEncode(hrp, data) = enc; DecodeAndConvert(enc) = dec *)
| AEnc (hrp data : bytes) (enc : option bytes) (dec : option (bytes * bytes))
| ADec (text : bytes) (dec : option (bytes * bytes))
| AConsU (u1 u2 name trimmed norm nh : bytes) (o : cobs)
| ANames (u n1 norm1 n2 norm2 : bytes) (r1 r2 : option bytes)
| ACase (bz lo up mx : bytes) (r_lo r_up r_mx : list (option bytes))
        (su : bytes) (s_lo s_up s_mx : option bytes) (v : list bool)
| History (accts scope_ids sspec_ids cspec_ids : list Z) (steps : list (op * obs))
(** the complete key set of the metadata KV store after a history, with the bytes every interned id
    stands for; [g] = the history used no raw SetSession / SetRecord *)
| Keys (g sg : bool) (scopes sess sspecs cspecs names accts denoms : list bytes) (ops : list op)
       (keys : list bytes).

(** sorting by a pair key *)
Definition pair_ltb (a b : Z * Z) : bool :=
  (fst a <? fst b) || ((fst a =? fst b) && (snd a <? snd b)).
Fixpoint insert_by {A} (kf : A -> Z * Z) (x : A) (l : list A) : list A :=
  match l with
  | [] => [x]
  | y :: t => if pair_ltb (kf x) (kf y) then x :: l else y :: insert_by kf x t
  end.
Definition sort_by {A} (kf : A -> Z * Z) (l : list A) : list A := fold_right (insert_by kf) [] l.
Definition sortz (l : list Z) : list Z := sort_by (fun z => (z, 0)) l.
Fixpoint dedupz (l : list Z) : list Z :=   (* of a sorted list *)
  match l with
  | a :: ((b :: _) as t) => if a =? b then dedupz t else a :: dedupz t
  | _ => l
  end.
Definition setz (l : list Z) : list Z := dedupz (sortz l).

Definition lz_eqb := list_eqb Z.eqb.
Definition scope_eqb (x y : scope) := (sc_id x =? sc_id y) && (sc_spec x =? sc_spec y) && lz_eqb (sc_owners x) (sc_owners y) && lz_eqb (sc_da x) (sc_da y) && Bool.eqb (sc_rollup x) (sc_rollup y).
Definition session_eqb (x y : session) := (se_scope x =? se_scope y) && (se_uuid x =? se_uuid y) && (se_spec x =? se_spec y).
Definition record_eqb (x y : record) := (r_scope x =? r_scope y) && (r_name x =? r_name y) && (r_sess x =? r_sess y).
Definition sspec_eqb (x y : sspec) := (ss_id x =? ss_id y) && lz_eqb (ss_owners x) (ss_owners y) && lz_eqb (ss_cspecs x) (ss_cspecs y).
Definition cspec_eqb (x y : cspec) := (cs_id x =? cs_id y) && lz_eqb (cs_owners x) (cs_owners y).
Definition rspec_eqb (x y : rspec) := (rs_cspec x =? rs_cspec y) && (rs_name x =? rs_name y).
Definition nav_eqb (x y : nav) := (fst (fst x) =? fst (fst y)) && (snd (fst x) =? snd (fst y)) && (snd x =? snd y).

Definition lookup (ix : list key) (k : Z) : list Z := setz (map snd (filter (fun e => fst e =? k) ix)).

(** projection of a model state onto the observables (everything sorted by id) *)
Definition model_obs (accts scope_ids sspec_ids cspec_ids : list Z) (st : state) (ok : bool) : obs :=
  {| o_ok := ok;
     o_scopes := sort_by (fun s => (sc_id s, 0)) (scopes st);
     o_sessions := sort_by (fun s => (se_scope s, se_uuid s)) (sessions st);
     o_records := sort_by (fun r => (r_scope r, r_name r)) (records st);
     o_sspecs := sort_by (fun s => (ss_id s, 0)) (sspecs st);
     o_cspecs := sort_by (fun s => (cs_id s, 0)) (cspecs st);
     o_rspecs := sort_by (fun r => (rs_cspec r, rs_name r)) (rspecs st);
     o_navs := sort_by (fun n => fst n) (navs st);
     l_as := map (lookup (ix_as st)) accts;
     l_ss := map (lookup (ix_ss st)) sspec_ids;
     l_asp := map (lookup (ix_asp st)) accts;
     l_cs := map (lookup (ix_cs st)) cspec_ids;
     l_ac := map (lookup (ix_ac st)) accts;
     l_sess := map (fun id => setz (map se_uuid (filter (fun s => se_scope s =? id) (sessions st)))) scope_ids;
     l_rec := map (fun id => setz (map r_name (filter (fun r => r_scope r =? id) (records st)))) scope_ids;
     l_rspec := map (fun id => setz (map rs_name (filter (fun r => rs_cspec r =? id) (rspecs st)))) cspec_ids;
     o_locs := sort_by (fun l => (fst l, 0)) (locs st);
     l_locsc := map (locs_by_scope st) scope_ids |}.

Definition llz_eqb := list_eqb lz_eqb.
Definition zz_eqb (x y : Z * Z) : bool := (fst x =? fst y) && (snd x =? snd y).
Definition lzz_eqb := list_eqb zz_eqb.

Definition corr_step (m cur : obs) : list string :=
  tag (Bool.eqb (o_ok m) (o_ok cur)) "corr:accept" ++
  tag (list_eqb scope_eqb (o_scopes m) (o_scopes cur)) "corr:scopes" ++
  tag (list_eqb session_eqb (o_sessions m) (o_sessions cur)) "corr:sessions" ++
  tag (list_eqb record_eqb (o_records m) (o_records cur)) "corr:records" ++
  tag (list_eqb sspec_eqb (o_sspecs m) (o_sspecs cur)) "corr:scope_specs" ++
  tag (list_eqb cspec_eqb (o_cspecs m) (o_cspecs cur)) "corr:contract_specs" ++
  tag (list_eqb rspec_eqb (o_rspecs m) (o_rspecs cur)) "corr:record_specs" ++
  tag (list_eqb nav_eqb (o_navs m) (o_navs cur)) "corr:navs" ++
  tag (llz_eqb (l_as m) (l_as cur)) "corr:scopes_by_address" ++
  tag (llz_eqb (l_ss m) (l_ss cur)) "corr:scopes_by_scope_spec" ++
  tag (llz_eqb (l_asp m) (l_asp cur)) "corr:scope_specs_by_address" ++
  tag (llz_eqb (l_cs m) (l_cs cur)) "corr:scope_specs_by_contract_spec" ++
  tag (llz_eqb (l_ac m) (l_ac cur)) "corr:contract_specs_by_address" ++
  tag (llz_eqb (l_sess m) (l_sess cur)) "corr:sessions_of_scope" ++
  tag (llz_eqb (l_rec m) (l_rec cur)) "corr:records_of_scope" ++
  tag (llz_eqb (l_rspec m) (l_rspec cur)) "corr:record_specs_of_contract_spec" ++
  tag (lzz_eqb (o_locs m) (o_locs cur)) "corr:os_locators" ++
  tag (list_eqb (opt_eqb lzz_eqb) (l_locsc m) (l_locsc cur)) "corr:os_locators_by_scope".

(** *** The property's checker, on the implementation's observations only *)
Definition has_scope (o : obs) (id : Z) : bool := existsb (fun s => sc_id s =? id) (o_scopes o).
Definition has_session (o : obs) (su ss : Z) : bool :=
  existsb (fun s => (se_scope s =? su) && (se_uuid s =? ss)) (o_sessions o).
Definition get_record (o : obs) (su n : Z) : option record :=
  find (fun r => (r_scope r =? su) && (r_name r =? n)) (o_records o).
Definition sess_has_recs (o : obs) (su ss : Z) : bool :=
  existsb (fun r => (r_scope r =? su) && (r_sess r =? ss)) (o_records o).

(** sessions and records belong to an existing scope, records to an existing session *)
Definition p_refs (o : obs) : bool :=
  forallb (fun s => has_scope o (se_scope s)) (o_sessions o) &&
  forallb (fun r => has_scope o (r_scope r) && has_session o (r_scope r) (r_sess r)) (o_records o).

Definition nth_list (i : nat) (l : list (list Z)) : list Z := nth i l [].
Fixpoint index_of_z (x : Z) (l : list Z) : nat :=
  match l with [] => 0%nat | y :: t => if x =? y then 0%nat else S (index_of_z x t) end.

(** nothing of scope [id] is left: entry, sessions, records, lookups (and NAVs after a message) *)
Definition p_scope_gone (scope_ids : list Z) (o : obs) (id : Z) (navs_too : bool) : bool :=
  negb (has_scope o id) &&
  forallb (fun s => negb (se_scope s =? id)) (o_sessions o) &&
  forallb (fun r => negb (r_scope r =? id)) (o_records o) &&
  forallb (fun l => negb (memz id l)) (l_as o) &&
  forallb (fun l => negb (memz id l)) (l_ss o) &&
  match nth_list (index_of_z id scope_ids) (l_sess o), nth_list (index_of_z id scope_ids) (l_rec o) with
  | [], [] => true | _, _ => false end &&
  (negb navs_too || forallb (fun n => negb (fst (fst n) =? id)) (o_navs o)).

Definition p_delete_scope (scope_ids : list Z) (prev : obs) (o : op) (cur : obs) : bool :=
  if negb (o_ok cur) then true else
  match o with
  | KRemoveScope id => if has_scope prev id then p_scope_gone scope_ids cur id false else true
  | MDeleteScope id => p_scope_gone scope_ids cur id true
  | _ => true
  end.

(** the record is gone and a session left without records is gone too *)
Definition session_cleaned (cur : obs) (su ss : Z) : bool :=
  sess_has_recs cur su ss || negb (has_session cur su ss).
Definition p_last_record (prev : obs) (o : op) (cur : obs) : bool :=
  if negb (o_ok cur) then true else
  match o with
  | KRemoveRecord su n | MDeleteRecord su n =>
      match get_record prev su n with
      | Some r => negb (isSome (get_record cur su n)) && session_cleaned cur su (r_sess r)
      | None => true
      end
  | MWriteRecord r =>
      match get_record prev (r_scope r) (r_name r) with
      | Some e => if r_sess e =? r_sess r then true else session_cleaned cur (r_scope r) (r_sess e)
      | None => true
      end
  | _ => true
  end.

(** an accepted MsgDeleteContractSpecification leaves no record specification of it (nor the
    contract specification, nor an entry of it in a lookup) *)
Definition p_delete_cspec (cspec_ids : list Z) (o : op) (cur : obs) : bool :=
  if negb (o_ok cur) then true else
  match o with
  | MDeleteCSpec id =>
      negb (existsb (fun s => cs_id s =? id) (o_cspecs cur)) &&
      forallb (fun r => negb (rs_cspec r =? id)) (o_rspecs cur) &&
      match nth_list (index_of_z id cspec_ids) (l_rspec cur) with [] => true | _ => false end &&
      forallb (fun l => negb (memz id l)) (l_ac cur)
  | _ => true
  end.

(** each lookup lists exactly the entries whose stored content names the address / spec *)
Definition p_indexes (accts sspec_ids cspec_ids : list Z) (o : obs) : list string :=
  tag (llz_eqb (l_as o)
         (map (fun a => setz (map sc_id (filter (fun s => memz a (map acct (sc_owners s ++ sc_da s))) (o_scopes o)))) accts))
      "prop:scopes_by_address_exact" ++
  tag (llz_eqb (l_ss o)
         (map (fun x => setz (map sc_id (filter (fun s => sc_spec s =? x) (o_scopes o)))) sspec_ids))
      "prop:scopes_by_scope_spec_exact" ++
  tag (llz_eqb (l_asp o)
         (map (fun a => setz (map ss_id (filter (fun s => memz a (map acct (ss_owners s))) (o_sspecs o)))) accts))
      "prop:scope_specs_by_address_exact" ++
  tag (llz_eqb (l_cs o)
         (map (fun c => setz (map ss_id (filter (fun s => memz c (ss_cspecs s)) (o_sspecs o)))) cspec_ids))
      "prop:scope_specs_by_contract_spec_exact" ++
  tag (llz_eqb (l_ac o)
         (map (fun a => setz (map cs_id (filter (fun s => memz a (map acct (cs_owners s))) (o_cspecs o)))) accts))
      "prop:contract_specs_by_address_exact".

(** the per-scope / per-contract-spec iterators agree with the complete listings *)
Definition p_listings (scope_ids cspec_ids : list Z) (o : obs) : list string :=
  tag (llz_eqb (l_sess o)
         (map (fun id => setz (map se_uuid (filter (fun s => se_scope s =? id) (o_sessions o)))) scope_ids))
      "prop:sessions_of_scope_exact" ++
  tag (llz_eqb (l_rec o)
         (map (fun id => setz (map r_name (filter (fun r => r_scope r =? id) (o_records o)))) scope_ids))
      "prop:records_of_scope_exact" ++
  tag (llz_eqb (l_rspec o)
         (map (fun id => setz (map rs_name (filter (fun r => rs_cspec r =? id) (o_rspecs o)))) cspec_ids))
      "prop:record_specs_of_contract_spec_exact".

(** specification references the code keeps intact (histories without the raw keeper writers
    SetScope / SetScopeSpecification / SetRecordSpecification and the keeper's bare
    RemoveContractSpecification): a stored scope's specification, the contract specifications a
    scope specification lists, a record specification's contract specification are stored *)
Definition has_sspec (o : obs) (id : Z) : bool := existsb (fun s => ss_id s =? id) (o_sspecs o).
Definition has_cspec (o : obs) (id : Z) : bool := existsb (fun s => cs_id s =? id) (o_cspecs o).
Definition p_spec_refs (o : obs) : list string :=
  tag (forallb (fun s => has_sspec o (sc_spec s)) (o_scopes o)) "prop:scope_specification_of_scope_stored" ++
  tag (forallb (fun s => forallb (has_cspec o) (ss_cspecs s)) (o_sspecs o)) "prop:contract_specs_of_scope_spec_stored" ++
  tag (forallb (fun r => has_cspec o (rs_cspec r)) (o_rspecs o)) "prop:contract_spec_of_record_spec_stored".

(** object store locators belong to accounts: no scope operation touches them, and the
    per-scope listing is the locators of the scope's owners *)
Definition p_locators (o : op) (prev cur : obs) : bool :=
  match o with
  | MBindLoc _ _ _ | MDelLoc _ | MModLoc _ _ => true
  | _ => lzz_eqb (o_locs prev) (o_locs cur)
  end.
Definition p_locs_by_scope (scope_ids : list Z) (o : obs) : bool :=
  list_eqb (opt_eqb lzz_eqb) (l_locsc o)
    (map (fun id => match find (fun s => sc_id s =? id) (o_scopes o) with
                    | None => None
                    | Some sc => Some (flat_map (fun e => filter (fun l => fst l =? acct e) (o_locs o)) (sc_owners sc))
                    end) scope_ids).

(** ids are unique in every listing (listings are sorted by id) *)
Fixpoint strictly_sorted (l : list (Z * Z)) : bool :=
  match l with
  | a :: ((b :: _) as t) => pair_ltb a b && strictly_sorted t
  | _ => true
  end.
Definition p_unique (o : obs) : bool :=
  strictly_sorted (map (fun s => (sc_id s, 0)) (o_scopes o)) &&
  strictly_sorted (map (fun s => (se_scope s, se_uuid s)) (o_sessions o)) &&
  strictly_sorted (map (fun r => (r_scope r, r_name r)) (o_records o)) &&
  strictly_sorted (map (fun s => (ss_id s, 0)) (o_sspecs o)) &&
  strictly_sorted (map (fun s => (cs_id s, 0)) (o_cspecs o)) &&
  strictly_sorted (map (fun r => (rs_cspec r, rs_name r)) (o_rspecs o)).

Definition obs_same (x y : obs) : bool :=
  list_eqb scope_eqb (o_scopes x) (o_scopes y) && list_eqb session_eqb (o_sessions x) (o_sessions y) &&
  list_eqb record_eqb (o_records x) (o_records y) && list_eqb sspec_eqb (o_sspecs x) (o_sspecs y) &&
  list_eqb cspec_eqb (o_cspecs x) (o_cspecs y) && list_eqb rspec_eqb (o_rspecs x) (o_rspecs y) &&
  list_eqb nav_eqb (o_navs x) (o_navs y) &&
  llz_eqb (l_as x) (l_as y) && llz_eqb (l_ss x) (l_ss y) && llz_eqb (l_asp x) (l_asp y) &&
  llz_eqb (l_cs x) (l_cs y) && llz_eqb (l_ac x) (l_ac y) && lzz_eqb (o_locs x) (o_locs y).

Record item := { i_prev : obs; i_op : op; i_cur : obs; i_model : obs; i_guarded : bool;
                 i_sguarded : bool }.

Definition prop_step (accts scope_ids sspec_ids cspec_ids : list Z) (it : item) : list string :=
  let cur := i_cur it in
  tag (negb (i_guarded it) || p_refs cur) "prop:session_and_record_have_scope_and_session" ++
  tag (p_delete_scope scope_ids (i_prev it) (i_op it) cur) "prop:scope_delete_leaves_nothing" ++
  tag (p_last_record (i_prev it) (i_op it) cur) "prop:last_record_removes_session" ++
  tag (p_delete_cspec cspec_ids (i_op it) cur) "prop:contract_spec_delete_leaves_nothing" ++
  p_indexes accts sspec_ids cspec_ids cur ++
  p_listings scope_ids cspec_ids cur ++
  (if i_sguarded it then p_spec_refs cur else []) ++
  tag (p_locators (i_op it) (i_prev it) cur) "prop:scope_operations_leave_locators" ++
  tag (p_locs_by_scope scope_ids cur) "prop:locators_by_scope_are_the_owners" ++
  tag (p_unique cur) "prop:ids_unique" ++
  tag (o_ok cur || obs_same (i_prev it) cur) "prop:rejected_changes_nothing".

Fixpoint items (accts scope_ids sspec_ids cspec_ids : list Z)
    (st : state) (prev : obs) (g sg : bool) (steps : list (op * obs)) : list item :=
  match steps with
  | [] => []
  | (o, cur) :: rest =>
      let '(st', ok) := step st o in
      let g' := g && guarded o in
      let sg' := sg && spec_guarded o in
      {| i_prev := prev; i_op := o; i_cur := cur;
         i_model := model_obs accts scope_ids sspec_ids cspec_ids st' ok; i_guarded := g';
         i_sguarded := sg' |}
      :: items accts scope_ids sspec_ids cspec_ids st' cur g' sg' rest
  end.

(** *** The key set of the store at byte level *)
Definition lb_eqb := list_eqb list_N_eqb.
Definition memb (k : bytes) (K : list bytes) : bool := existsb (list_N_eqb k) K.
Definition len16 (l : list bytes) : bool := forallb (fun b => Nat.eqb (length b) 16) l.
Definition last17 (k : bytes) : bytes := skipn (length k - 17) k.
Definition check_keys (g sg : bool) (scopes sess sspecs cspecs names accts denoms : list bytes)
    (ops : list op) (keys : list bytes) : list string :=
  let e := env_of scopes sess sspecs cspecs names accts denoms in
  tag (len16 scopes && len16 sess && len16 sspecs && len16 cspecs && len16 names) "corr:env_lengths" ++
  tag (lb_eqb (sort_keys (store_keys e (run ops))) keys) "corr:store_keys" ++
  (* the property on the store's own keys: the scope computed from a session / record key is a
     stored scope key; a by-address / by-specification lookup key ends in a stored scope id *)
  tag (negb g || forallb (fun k => match k with
                          | 1%N :: _ => match as_scope_address k with Some p => memb p keys | None => false end
                          | _ => true end) keys) "prop:session_key_embeds_stored_scope" ++
  tag (negb g || forallb (fun k => match k with
                          | 2%N :: _ => match as_scope_address k with Some p => memb p keys | None => false end
                          | _ => true end) keys) "prop:record_key_embeds_stored_scope" ++
  tag (forallb (fun k => match k with
                         | 23%N :: _ | 17%N :: _ =>
                             memb (last17 k) keys && is_type TScope (last17 k)
                         | _ => true end) keys) "prop:scope_lookup_key_names_stored_scope" ++
  (* the contract specification computed from a record specification key is a stored key *)
  tag (negb sg || forallb (fun k => match k with
                          | 5%N :: _ => match as_contract_spec_address k with Some p => memb p keys | None => false end
                          | _ => true end) keys) "prop:record_spec_key_embeds_stored_contract_spec".

Definition check (c : case) : list string :=
  match c with
  | ABytes bz o => check_abytes bz o
  | ACons u1 u2 name nh o => check_acons u1 u2 name nh o
  | AText text res str => check_atext text res str
  | AHex text res => tag (ob_eqb (from_hex text) res) "corr:from_hex"
  | ADenom text res =>
      tag (ob_eqb (from_denom text) res) "corr:from_denom" ++
      match res with
      | Some bz => tag (ob_eqb (denom bz) (Some (denom_prefix ++ lower (skipn 4 text)))) "prop:denom_roundtrip"
      | None => []
      end
  | AConv from to pad data res => tag (ob_eqb (convert_bits from to pad data) res) "corr:convert_bits"
  | AEnc hrp data enc dec =>
      tag (ob_eqb (convert_and_encode hrp data) enc) "corr:bech32_encode" ++
      tag (opair_eqb (match enc with Some s => decode_and_convert s | None => None end) dec) "corr:bech32_decode_of_encoded" ++
      (* the property on the implementation: what was encoded decodes to the same hrp and data *)
      match enc with
      | Some s =>
          if negb (Nat.eqb (length hrp) 0) && forallb (fun c => (33 <=? c)%N && (c <=? 126)%N) hrp
             && Nat.leb (length s) 1023
          then tag (opair_eqb dec (Some (lower hrp, data))) "prop:bech32_roundtrip" else []
      | None => []
      end
  | ADec text dec =>
      tag (opair_eqb (decode_and_convert text) dec) "corr:bech32_decode" ++
      match dec with
      | Some (hrp, data) =>
          tag (ob_eqb (convert_and_encode hrp data) (Some (lower text))) "prop:bech32_decoded_reencodes"
      | None => []
      end
  | AConsU u1 u2 name trimmed norm nh o => check_aconsu u1 u2 name trimmed norm nh o
  | ANames u n1 norm1 n2 norm2 r1 r2 => check_anames u n1 norm1 n2 norm2 r1 r2
  | ACase bz lo up mx r_lo r_up r_mx su s_lo s_up s_mx v =>
      check_acase bz lo up mx r_lo r_up r_mx su s_lo s_up s_mx v
  | History accts scope_ids sspec_ids cspec_ids steps =>
      let o0 := model_obs accts scope_ids sspec_ids cspec_ids init true in
      first_failure
        (fun it => corr_step (i_model it) (i_cur it) ++ prop_step accts scope_ids sspec_ids cspec_ids it)
        0%N (items accts scope_ids sspec_ids cspec_ids init o0 true true steps)
  | Keys g sg scopes sess sspecs cspecs names accts denoms ops keys =>
      check_keys g sg scopes sess sspecs cspecs names accts denoms ops keys
  end.

Definition check_all := check_list check.
