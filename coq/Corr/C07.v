(** Correspondence + property checker for C07 (quarantine).
    A case is one history: the holder address, the accounts and denoms in play, the genesis given
    to the real InitGenesis, the observation after genesis, and every operation with the
    observation made after it on the implementation.
      corr:*  the model run on the same history disagrees with the observation;
      prop:*  the property's checker, evaluated on the implementation's observations alone
              (previous observation, operation, next observation, and a ledger of the receiver's
              own Accept / Decline messages kept along the history), fails.
    The three passes (model, step checker, acceptance ledger) run independently over the whole
    history; each reports its first failing step, so a model disagreement does not hide a later
    failure of the property's checker. *)
From Coq Require Import ZArith PArith NArith List String Bool.
From PV Require Export Quarantine.Quarantine Corr.CorrBase.
Import ListNotations.
Open Scope string_scope.
Open Scope list_scope.
Open Scope Z_scope.

Record orec := ORec { r_to : addr; r_unacc : list addr; r_acc : list addr; r_coins : coins; r_decl : bool }.

Record obs := Obs {
  o_ok    : bool;                         (* the operation was accepted *)
  o_rel   : coins;                        (* MsgAcceptResponse.FundsReleased *)
  o_bal   : list (addr * coins);          (* GetAllBalances of every account in play, holder included *)
  o_recs  : list orec;                    (* IterateQuarantineRecords *)
  o_optin : list addr;                    (* IsQuarantinedAddr per account *)
  o_auto  : list (addr * addr * auto);    (* IterateAutoResponses *)
  o_inv   : bool                          (* FundsHolderBalanceInvariant holds *)
}.

Inductive case :=
| CHist (h : addr) (accts : list addr) (dens : list denom) (g : genesis) (o0 : obs) (steps : list (op * obs))
  (* the real InitGenesis refused (panicked on) the genesis; nothing was written *)
| CGenRefused (h : addr) (g : genesis).

(** ** Reading an observation *)
Definition obal (o : obs) (a : addr) (d : denom) : Z :=
  match find (fun e => Pos.eqb (fst e) a) (o_bal o) with Some e => amt (snd e) d | None => 0 end.
Definition okey (r : orec) : rkey := mk_key (r_to r) (r_unacc r ++ r_acc r).
Definition ofind (k : rkey) (l : list orec) : option orec := find (fun r => rkey_eqb k (okey r)) l.
Definition ocoins (k : rkey) (l : list orec) (d : denom) : Z :=
  match ofind k l with Some r => amt (r_coins r) d | None => 0 end.
Definition oauto_raw (o : obs) (to from : addr) : auto :=
  match find (fun e => Pos.eqb (fst (fst e)) to && Pos.eqb (snd (fst e)) from) (o_auto o) with
  | Some e => snd e
  | None => AUnspec
  end.
Definition oauto (o : obs) (to from : addr) : auto := if Pos.eqb to from then AAccept else oauto_raw o to from.
Definition ooptin (o : obs) (a : addr) : bool := mem a (o_optin o).
Definition auto_eqb (x y : auto) : bool :=
  match x, y with
  | AUnspec, AUnspec | AAccept, AAccept | ADecline, ADecline | ABad, ABad => true
  | _, _ => false
  end.
Definition all2 {A B} (f : A -> B -> bool) (la : list A) (lb : list B) : bool :=
  forallb (fun a => forallb (f a) lb) la.
Definition coins_eqb (dens : list denom) (x y : coins) : bool :=
  forallb (fun d => amt x d =? amt y d) dens.
Definition only_dens (dens : list denom) (c : coins) : bool :=
  forallb (fun d => existsb (Pos.eqb d) dens) (denoms c).

(** ** corr: model state against observation *)
Definition corr_state (accts : list addr) (dens : list denom) (s : state) (o : obs) : list string :=
  tag (all2 (fun a d => s_bal s a d =? obal o a d) accts dens) "corr:balances" ++
  tag (Nat.eqb (List.length (s_recs s)) (List.length (o_recs o)) &&
       forallb (fun r => match aget rkey_eqb (okey r) (s_recs s) with
                         | Some m => addrs_eqb (q_unacc m) (r_unacc r) && addrs_eqb (q_acc m) (r_acc r)
                                     && coins_eqb dens (q_coins m) (r_coins r) && only_dens dens (r_coins r)
                                     && Bool.eqb (q_declined m) (r_decl r)
                         | None => false
                         end) (o_recs o)) "corr:records" ++
  tag (forallb (fun a => Bool.eqb (is_optin s a) (ooptin o a)) accts) "corr:opt_in" ++
  tag (all2 (fun t f => auto_eqb (get_auto s t f) (oauto o t f)) accts accts) "corr:auto_responses".

Definition corr_step (accts : list addr) (dens : list denom) (s' : state) (res : result) (o : obs) : list string :=
  tag (Bool.eqb (match res with Some _ => true | None => false end) (o_ok o)) "corr:accept_reject" ++
  tag (coins_eqb dens (match res with Some r => r | None => [] end) (o_rel o)) "corr:funds_released" ++
  corr_state accts dens s' o.

(** ** prop: the property's checker on observations only *)
Definition sum_recs (l : list orec) (d : denom) : Z := fold_right (fun r acc => amt (r_coins r) d + acc) 0 l.
Definition sum_bal (accts : list addr) (o : obs) (d : denom) : Z := fold_right (fun a acc => obal o a d + acc) 0 accts.

(* the holder's balance covers the total of all records, and the module's own invariant holds *)
Definition prop_state (h : addr) (dens : list denom) (o : obs) : list string :=
  tag (forallb (fun d => sum_recs (o_recs o) d <=? obal o h d) dens) "prop:holder_covers_records" ++
  tag (o_inv o) "prop:module_invariant_broken".

Definition orec_same (dens : list denom) (x y : orec) : bool :=
  addrs_eqb (r_unacc x) (r_unacc y) && addrs_eqb (r_acc x) (r_acc y)
  && coins_eqb dens (r_coins x) (r_coins y) && Bool.eqb (r_decl x) (r_decl y).

Definition same_balances accts dens (p o : obs) : bool := all2 (fun a d => obal p a d =? obal o a d) accts dens.
Definition same_records dens (p o : obs) : bool :=
  Nat.eqb (List.length (o_recs p)) (List.length (o_recs o)) &&
  forallb (fun r => match ofind (okey r) (o_recs o) with Some r' => orec_same dens r r' | None => false end) (o_recs p).
Definition same_settings accts (p o : obs) : bool :=
  forallb (fun a => Bool.eqb (ooptin p a) (ooptin o a)) accts &&
  all2 (fun t f => auto_eqb (oauto_raw p t f) (oauto_raw o t f)) accts accts.
(* the same record keys, each with the same coins (lists and flags may differ) *)
Definition same_record_coins dens (p o : obs) : bool :=
  Nat.eqb (List.length (o_recs p)) (List.length (o_recs o)) &&
  forallb (fun r => match ofind (okey r) (o_recs o) with
                    | Some r' => coins_eqb dens (r_coins r) (r_coins r')
                    | None => false
                    end) (o_recs p).

(* the transfers an operation asks the bank for *)
Definition transfers (o : op) : list (addr * addr * coins) :=
  match o with
  | OSend from to c => [(from, to, c)]
  | OMulti from _ outs => map (fun x => (from, fst x, snd x)) outs
  | OMultiIn ins to => map (fun x => (fst x, to, snd x)) ins
  | _ => []
  end.

(* by the previous observation: is a transfer from -> to to be quarantined? *)
Definition quarantined (h : addr) (p : obs) (from to : addr) : bool :=
  negb (Pos.eqb from to) && negb (Pos.eqb from h) && ooptin p to && negb (is_accept (oauto p to from)).

Definition expected_delta (h : addr) (p : obs) (ts : list (addr * addr * coins)) (a : addr) (d : denom) : Z :=
  fold_right (fun t acc =>
    let '(from, to, c) := t in
    let dest := if quarantined h p from to then h else to in
    (if Pos.eqb a dest then amt c d else 0) - (if Pos.eqb a from then amt c d else 0) + acc) 0 ts.

Definition expected_rec_delta (h : addr) (p : obs) (ts : list (addr * addr * coins)) (k : rkey) (d : denom) : Z :=
  fold_right (fun t acc =>
    let '(from, to, c) := t in
    (if quarantined h p from to && rkey_eqb k (mk_key to [from]) then amt c d else 0) + acc) 0 ts.

Definition prop_send (h : addr) accts dens (p : obs) (ts : list (addr * addr * coins)) (o : obs) : list string :=
  (* receivers of quarantined transfers are not credited; everything else arrives directly *)
  tag (all2 (fun a d => obal o a d =? obal p a d + expected_delta h p ts a d) accts dens)
      "prop:send_credits_wrong_account" ++
  (* quarantined amounts are added to the (to, from) record; no other record changes or disappears *)
  tag (forallb (fun r => forallb (fun d => ocoins (okey r) (o_recs o) d
                                           =? amt (r_coins r) d + expected_rec_delta h p ts (okey r) d) dens
                         && match ofind (okey r) (o_recs o) with Some _ => true | None => false end) (o_recs p)
       && forallb (fun r => forallb (fun d => amt (r_coins r) d
                                           =? ocoins (okey r) (o_recs p) d + expected_rec_delta h p ts (okey r) d) dens)
                  (o_recs o))
      "prop:quarantined_amount_not_recorded" ++
  (* ... and the record that received a quarantined amount names its sender among its senders *)
  tag (forallb (fun t => let '(from, to, _) := t in
                  negb (quarantined h p from to) ||
                  match ofind (mk_key to [from]) (o_recs o) with
                  | Some r => mem from (r_unacc r ++ r_acc r)
                  | None => true
                  end) ts)
      "prop:quarantined_funds_recorded_under_another_sender" ++
  tag (same_settings accts p o) "prop:send_changed_settings".

(* Accept(to, froms): records to [to] that name an unaccepted sender lose those senders; a record
   whose unaccepted list becomes empty is removed and its coins go holder -> to; nothing else. *)
Definition hit (to : addr) (froms : list addr) (r : orec) : bool :=
  Pos.eqb (r_to r) to && existsb (fun f => mem f froms) (r_unacc r).
Definition left_unacc (froms : list addr) (r : orec) : list addr := filter (fun a => negb (mem a froms)) (r_unacc r).
Definition paid_out (to : addr) (froms : list addr) (r : orec) : bool :=
  hit to froms r && match left_unacc froms r with [] => true | _ => false end.
Definition paid_total (to : addr) (froms : list addr) (p : obs) (d : denom) : Z :=
  sum_recs (filter (paid_out to froms) (o_recs p)) d.

Definition prop_accept (h : addr) accts dens (p : obs) (to : addr) (froms : list addr) (o : obs) : list string :=
  tag (forallb (fun r =>
         if paid_out to froms r then match ofind (okey r) (o_recs o) with None => true | Some _ => false end
         else match ofind (okey r) (o_recs o) with
              | Some r' => coins_eqb dens (r_coins r) (r_coins r')
                           && addrs_eqb (r_unacc r') (if hit to froms r then left_unacc froms r else r_unacc r)
              | None => false
              end) (o_recs p)
       && Nat.eqb (List.length (o_recs o)) (List.length (filter (fun r => negb (paid_out to froms r)) (o_recs p))))
      "prop:accept_record_handling" ++
  tag (all2 (fun a d => obal o a d =? obal p a d
                        + (if Pos.eqb a to then paid_total to froms p d else 0)
                        - (if Pos.eqb a h then paid_total to froms p d else 0)) accts dens)
      "prop:payout_not_exactly_once_in_full" ++
  tag (forallb (fun d => amt (o_rel o) d =? paid_total to froms p d) dens) "prop:funds_released_report" ++
  tag (forallb (fun a => Bool.eqb (ooptin p a) (ooptin o a)) accts) "prop:accept_changed_opt_in".

Definition prop_step (h : addr) accts dens (p : obs) (x : op) (o : obs) : list string :=
  prop_state h dens o ++
  tag (forallb (fun d => sum_bal accts o d =? sum_bal accts p d) dens) "prop:conservation" ++
  (if o_ok o then
     match x with
     | OOptIn _ | OOptOut _ | ODecline _ _ _ | OUpdate _ _ =>
         tag (same_balances accts dens p o) "prop:neutral_op_moved_funds" ++
         tag (same_record_coins dens p o) "prop:neutral_op_changed_record_coins"
     | OAccept to froms _ => prop_accept h accts dens p to froms o
     | _ => prop_send h accts dens p (transfers x) o
     end
   else
     tag (same_balances accts dens p o && same_records dens p o && same_settings accts p o)
         "prop:rejected_op_changed_state").

(** ** The acceptance ledger: which senders of each record the receiver HAS ACCEPTED, derived
    from the receiver's own accepted Accept / Decline messages only (never from the module's
    accepted list).  A record that first appears has no accepted sender (bank sends create
    single-sender records from a sender that is not auto-accepted; genesis records are all
    unaccepted).  Accept(to, froms) adds the named senders of every record to [to]; Decline(to,
    froms) removes them: the receiver's last answer counts. *)
Definition ledger := list (rkey * list addr).
Definition lget (L : ledger) (k : rkey) : list addr := match aget rkey_eqb k L with Some l => l | None => [] end.
Definition osenders (r : orec) : list addr := r_unacc r ++ r_acc r.
Definition ledger0 (o0 : obs) : ledger := map (fun r => (okey r, [])) (o_recs o0).

Definition ledger_step (L : ledger) (p : obs) (x : op) (o : obs) : ledger :=
  if o_ok o then
    map (fun r' =>
           let k := okey r' in
           let prior := match ofind k (o_recs p) with Some _ => lget L k | None => [] end in
           (k, match x with
               | OAccept to froms _ =>
                   if Pos.eqb (r_to r') to then prior ++ filter (fun f => mem f (osenders r')) froms else prior
               | ODecline to froms _ =>
                   if Pos.eqb (r_to r') to then filter (fun a => negb (mem a froms)) prior else prior
               | _ => prior
               end)) (o_recs o)
  else L.

(* a record may only be paid out (disappear at an accepted Accept) when every one of its senders
   is accepted by the ledger or named in this very Accept *)
Definition prop_payout (L : ledger) (p : obs) (x : op) (o : obs) : list string :=
  match x with
  | OAccept to froms _ =>
      if o_ok o then
        tag (forallb (fun r => match ofind (okey r) (o_recs o) with
                               | Some _ => true
                               | None => forallb (fun f => mem f froms || mem f (lget L (okey r))) (osenders r)
                               end) (o_recs p))
            "prop:payout_while_a_sender_was_last_declined_or_never_accepted"
      else []
  | _ => []
  end.

(* the module's accepted list of every record is exactly what the receiver has accepted *)
Definition prop_accepted_lists (L' : ledger) (o : obs) : list string :=
  tag (forallb (fun r => forallb (fun f => mem f (lget L' (okey r))) (r_acc r)) (o_recs o))
      "prop:sender_listed_accepted_against_receivers_last_answer" ++
  tag (forallb (fun r => forallb (fun f => mem f (r_acc r) || negb (mem f (osenders r))) (lget L' (okey r))) (o_recs o))
      "prop:accepted_sender_not_listed_accepted".

(* an Accept naming every unaccepted sender of some record must not be refused (payout liveness) *)
Definition prop_liveness (p : obs) (x : op) (o : obs) : list string :=
  match x with
  | OAccept to froms _ =>
      tag (o_ok o || negb (existsb (paid_out to froms) (o_recs p))) "prop:accept_of_all_senders_refused"
  | _ => []
  end.

(* restricted marker coins only move from a sender with Transfer access (or from the holder) *)
Definition prop_restricted (h : addr) (xf : list (denom * list addr)) (x : op) (o : obs) : list string :=
  tag (negb (o_ok o) ||
       forallb (fun t => let '(from, _, c) := t in
                  forallb (fun d => match aget Pos.eqb d xf with
                                    | None => true
                                    | Some l => mem from l || Pos.eqb from h
                                    end) (denoms c)) (transfers x))
      "prop:restricted_coin_moved_without_transfer_access".

(** ** Running the three passes along the observed history *)
Record frame := Frame { f_post : state; f_res : result; f_obs : obs }.

Fixpoint scan (h : addr) (s : state) (steps : list (op * obs)) : list frame :=
  match steps with
  | [] => []
  | (x, o) :: r =>
      let '(s', res) := step h s x in
      Frame s' res o :: scan h s' r
  end.

Record pframe := PFrame { pf_prev : obs; pf_op : op; pf_obs : obs; pf_led : ledger; pf_led' : ledger }.

Fixpoint pscan (L : ledger) (p : obs) (steps : list (op * obs)) : list pframe :=
  match steps with
  | [] => []
  | (x, o) :: r =>
      let L' := ledger_step L p x o in
      PFrame p x o L L' :: pscan L' o r
  end.

Definition check_corr accts dens (f : frame) : list string :=
  corr_step accts dens (f_post f) (f_res f) (f_obs f).

Definition check_prop (h : addr) accts dens xf (f : pframe) : list string :=
  prop_step h accts dens (pf_prev f) (pf_op f) (pf_obs f) ++
  prop_liveness (pf_prev f) (pf_op f) (pf_obs f) ++
  prop_restricted h xf (pf_op f) (pf_obs f) ++
  prop_accepted_lists (pf_led' f) (pf_obs f).

Definition check_payout (f : pframe) : list string :=
  prop_payout (pf_led f) (pf_prev f) (pf_op f) (pf_obs f).

(* the genesis' own statement of "the holder covers the imported records", on the inputs alone: every
   record has a sender and, per denom of a record, the records add up to at most what the bank says
   the holder has *)
Definition gen_covered (h : addr) (g : genesis) : bool :=
  forallb (fun e : addr * list addr * coins * bool => match snd (fst (fst e)) with [] => false | _ => true end) (g_funds g) &&
  forallb (fun d => fold_right (fun e acc => amt (snd (fst e)) d + acc) 0 (g_funds g) <=? bal_of_list (g_bal g) h d)
          (flat_map (fun e : addr * list addr * coins * bool => denoms (snd (fst e))) (g_funds g)).

Definition at_genesis (e : list string) : list string := map (fun t => String.append t " @genesis") e.

Definition check (c : case) : list string :=
  match c with
  | CHist h accts dens g o0 steps =>
      let pfs := pscan (ledger0 o0) o0 steps in
      (* the property's checker needs no model: it also runs when the model refuses the genesis *)
      let props := first_failure (check_prop h accts dens (g_xfer g)) 0 pfs ++ first_failure check_payout 0 pfs in
      let gprop := tag (gen_covered h g) "prop:genesis_accepted_although_holder_does_not_cover_records" ++ prop_state h dens o0 in
      match init_genesis h g with
      | None => "corr:genesis_rejected_by_model" :: at_genesis gprop ++ props
      | Some s0 =>
          match corr_state accts dens s0 o0 ++ gprop with
          | [] => first_failure (check_corr accts dens) 0 (scan h s0 steps) ++ props
          | e => at_genesis e
          end
      end
  | CGenRefused h g =>
      tag (match init_genesis h g with None => true | Some _ => false end) "corr:genesis_refused_by_implementation" ++
      tag (negb (gen_covered h g)) "prop:covered_genesis_refused"
  end.

Definition check_all := check_list check.
