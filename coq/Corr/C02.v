(** Correspondence + property checker for C02 (funds on hold = open exchange obligations).

    A case is a whole history: the universe (accounts x denoms) observed, the implementation's
    state before the first operation, and for every operation the operation (with the observed
    accept/reject as [adm] and, for order settlements, the observed fills and net transfers) together
    with the implementation's state observed after it: every order, commitment and payment read
    back from the real exchange store, every hold from the real hold store, the balances from the
    real bank.  An observation has exactly the shape of a model [state].

    prop:* tags evaluate the property on the implementation's own observations only;
    corr:* tags compare the model (run from the initial observation) with the implementation. *)
From Coq Require Import ZArith NArith List String Bool.
From PV Require Export Exchange.Holds Corr.CorrBase.
Import ListNotations.
Open Scope string_scope.
Open Scope list_scope.
Open Scope Z_scope.

Inductive case :=
| CHist (accts denoms : list Z) (init : state) (steps : list (op * state))
| CGenesis (g : state) (accepted : bool).   (* InitGenesis of hold + exchange on the records of [g] *)

Definition universe (accts denoms : list Z) : list key2 :=
  flat_map (fun a => map (fun d => (a, d)) denoms) accts.

(** ** The property's executable checker on one observation. *)
Definition hold_eq_obligations (u : list key2) (ob : state) : bool :=
  forallb (fun k => hold_of ob (fst k) (snd k) =? required ob (fst k) (snd k))
          (u ++ map fst (holds ob) ++ genesis_keys ob).

Definition hold_le_balance (u : list key2) (ob : state) : bool :=
  forallb (fun k => hold_of ob (fst k) (snd k) <=? bal_of ob (fst k) (snd k)) (u ++ map fst (holds ob)).

(** The hold moved by exactly the reserved amount of the item(s) the operation created/consumed
    (computed from the exchange records observed BEFORE the operation), and not at all when the
    operation was rejected. *)
Definition delta_ok (u : list key2) (prev : state) (o : op) (ob : state) : bool :=
  forallb (fun k =>
    let a := fst k in let d := snd k in
    hold_of ob a d - hold_of prev a d =? (if op_adm o then reserved_delta prev o a d else 0))
    (u ++ map fst (holds ob) ++ map fst (holds prev)).

(** ** Model versus implementation. *)
Definition same_holds (u : list key2) (m ob : state) : bool :=
  forallb (fun k => hold_of m (fst k) (snd k) =? hold_of ob (fst k) (snd k))
          (u ++ map fst (holds ob) ++ map fst (holds m)).
Definition same_bals (u : list key2) (m ob : state) : bool :=
  forallb (fun k => bal_of m (fst k) (snd k) =? bal_of ob (fst k) (snd k)) u.
Definition same_records (u : list key2) (m ob : state) : bool :=
  forallb (fun k => required m (fst k) (snd k) =? required ob (fst k) (snd k))
          (u ++ genesis_keys ob ++ genesis_keys m)
  && (Z.of_nat (List.length (orders m)) =? Z.of_nat (List.length (orders ob)))
  && (Z.of_nat (List.length (pays m)) =? Z.of_nat (List.length (pays ob))).

Definition result_ok (r : result) : bool := match r with RModelFail => false | _ => true end.

(** One step: (previous observation, model state before, operation, observation after). *)
Definition check_step (u : list key2) (x : state * state * op * state) : list string :=
  let '(prev, m, o, ob) := x in
  let '(m', r) := step m o in
  tag (hold_eq_obligations u ob) "prop:hold_eq_obligations" ++
  tag (hold_le_balance u ob) "prop:hold_le_balance" ++
  tag (delta_ok u prev o ob) "prop:hold_delta_is_reserved_amount" ++
  tag (result_ok r) "corr:accept" ++
  tag (same_holds u m' ob) "corr:holds" ++
  tag (same_bals u m' ob) "corr:balances" ++
  tag (same_records u m' ob) "corr:records".

Fixpoint walk (prev m : state) (steps : list (op * state)) : list (state * state * op * state) :=
  match steps with
  | [] => []
  | (o, ob) :: r => (prev, m, o, ob) :: walk ob (fst (step m o)) r
  end.

Definition check (c : case) : list string :=
  match c with
  | CHist accts denoms init steps =>
      let u := universe accts denoms in
      (* the theorem's hypotheses on the starting state *)
      tag (hold_eq_obligations u init) "prop:initial_hold_eq_obligations" ++
      tag (hold_le_balance u init) "prop:initial_hold_le_balance" ++
      tag (forallb (fun e => fst e <=? last_id init) (orders init)) "prop:initial_order_ids" ++
      first_failure (check_step u) 1 (walk init init steps)
  | CGenesis g accepted =>
      (* the genesis check is a coverage check: accepted iff every needed amount is on hold *)
      tag (Bool.eqb (match genesis_init g with Some _ => true | None => false end) accepted)
          "corr:genesis_accept" ++
      (if accepted
       then tag (forallb (fun k => required g (fst k) (snd k) <=? hold_of g (fst k) (snd k)) (genesis_keys g))
                "prop:genesis_accepted_without_cover"
       else [])
  end.

Definition check_all := check_list check.
