(** Correspondence + property checker for C02 (funds on hold = open exchange obligations).

    A case is a whole history: the universe (accounts x denoms) observed, the implementation's
    state before the first operation, and for every operation: the operation (with [adm] = every
    check outside the model passed, and, for order settlements, the observed fills and net
    transfers), whether the implementation ACCEPTED it, and the implementation's state observed
    after it: every order, commitment and payment read back from the real exchange store, every
    hold from the real hold store, the balances from the real bank, the vesting locks from the
    real accounts -- an observation has exactly the shape of a model [state] -- plus what the hold
    module's GetHolds gRPC query reports for every account (asked on the history's own context, in
    lower- or UPPER-case bech32).

    prop:* tags evaluate the property on the implementation's own observations only;
    corr:* tags compare the model (run from the initial observation) with the implementation.
    Acceptance is compared in BOTH directions: "corr:accept" = the implementation accepted what
    the model refuses, "corr:wrongly_rejected" = the implementation refused an operation that
    passed every check outside the model and that the model's hold-relevant checks (spendable
    funds for a new hold or fee, committed amount for a release, owner or permission for a
    cancel, existence, agreed amounts for a payment ...) admit.

    [CHist exact ..]: with [exact = true] the history starts from a state whose holds EQUAL the
    obligations (checked) and the invariant is hold = obligations; with [exact = false] it starts
    right after a genesis import whose holds exceed the obligations (the Go genesis check is a
    coverage check) and the invariant is "hold - obligations never changes"
    ([C02_surplus_constant]). *)
From Coq Require Import ZArith NArith List String Bool.
From PV Require Export Exchange.Holds Corr.CorrBase.
Import ListNotations.
Open Scope string_scope.
Open Scope list_scope.
Open Scope Z_scope.

Inductive case :=
| CHist (exact : bool) (accts denoms : list Z) (init : state)
        (steps : list (op * bool * state * list (key2 * Z)))
| CGenesis (g : state) (accepted : bool).   (* InitGenesis of hold + exchange on the records of [g] *)

Definition universe (accts denoms : list Z) : list key2 :=
  flat_map (fun a => map (fun d => (a, d)) denoms) accts.

(** ** The property's executable checker on one observation. *)
Definition surplus (s : state) (k : key2) : Z := hold_of s (fst k) (snd k) - required s (fst k) (snd k).

Definition hold_eq_obligations (u : list key2) (ob : state) : bool :=
  forallb (fun k => surplus ob k =? 0) (u ++ map fst (holds ob) ++ genesis_keys ob).

(** hold - obligations is what it was in the starting state (0 for an exact start). *)
Definition surplus_kept (u : list key2) (init ob : state) : bool :=
  forallb (fun k => surplus ob k =? surplus init k)
          (u ++ map fst (holds ob) ++ genesis_keys ob ++ map fst (holds init) ++ genesis_keys init).

Definition hold_le_balance (u : list key2) (ob : state) : bool :=
  forallb (fun k => hold_of ob (fst k) (snd k) <=? bal_of ob (fst k) (snd k)) (u ++ map fst (holds ob)).

(** The hold moved by exactly the reserved amount of the item(s) the operation created/consumed
    (computed from the exchange records observed BEFORE the operation), and not at all when the
    operation was rejected. *)
Definition delta_ok (u : list key2) (prev : state) (o : op) (accepted : bool) (ob : state) : bool :=
  forallb (fun k =>
    let a := fst k in let d := snd k in
    hold_of ob a d - hold_of prev a d =? (if accepted then reserved_delta prev o a d else 0))
    (u ++ map fst (holds ob) ++ map fst (holds prev)).

(** "the amount REPORTED as on hold": what the hold module's GetHolds query answers for every
    account of the universe ([q]) is what the hold store contains. *)
Definition reported_ok (u : list key2) (q : list (key2 * Z)) (ob : state) : bool :=
  forallb (fun k => zget k q =? hold_of ob (fst k) (snd k)) (u ++ map fst q ++
    filter (fun k => existsb (fun k' => fst k' =? fst k) u) (map fst (holds ob))).

(** ** Model versus implementation. *)
Definition same_holds (u : list key2) (m ob : state) : bool :=
  forallb (fun k => hold_of m (fst k) (snd k) =? hold_of ob (fst k) (snd k))
          (u ++ map fst (holds ob) ++ map fst (holds m)).
Definition same_bals (u : list key2) (m ob : state) : bool :=
  forallb (fun k => bal_of m (fst k) (snd k) =? bal_of ob (fst k) (snd k)) u.
Definition same_records (u : list key2) (m ob : state) : bool :=
  forallb (fun k => required m (fst k) (snd k) =? required ob (fst k) (snd k))
          (u ++ genesis_keys ob ++ genesis_keys m)
  && (Z.of_nat (List.length (orders m)) =? Z.of_nat (List.length (orders ob)))
  && (Z.of_nat (List.length (pays m)) =? Z.of_nat (List.length (pays ob))).
Definition same_vest (u : list key2) (m ob : state) : bool :=
  forallb (fun k => vlock_of m (fst k) (snd k) =? vlock_of ob (fst k) (snd k))
          (u ++ map fst (vest ob) ++ map fst (vest m)).

Definition result_accepts (r : result) : bool := match r with ROk => true | _ => false end.

(** One step: (starting observation, previous observation, model state before, operation,
    accepted by the implementation, observation after). *)
Definition check_step (exact : bool) (u : list key2) (init : state)
    (x : state * state * op * bool * state * list (key2 * Z)) : list string :=
  let '(prev, m, o, accepted, ob, q) := x in
  let '(m', r) := step m o in
  (if exact then tag (hold_eq_obligations u ob) "prop:hold_eq_obligations"
   else tag (surplus_kept u init ob) "prop:hold_surplus_changed") ++
  tag (hold_le_balance u ob) "prop:hold_le_balance" ++
  tag (delta_ok u prev o accepted ob) "prop:hold_delta_is_reserved_amount" ++
  tag (reported_ok u q ob) "prop:hold_reported_by_query" ++
  tag (negb accepted || result_accepts r) "corr:accept" ++
  tag (accepted || negb (result_accepts r)) "corr:wrongly_rejected" ++
  tag (same_holds u m' ob) "corr:holds" ++
  tag (same_bals u m' ob) "corr:balances" ++
  tag (same_records u m' ob) "corr:records" ++
  tag (same_vest u m' ob) "corr:vesting_lock_changed".

Fixpoint walk (prev m : state) (steps : list (op * bool * state * list (key2 * Z)))
  : list (state * state * op * bool * state * list (key2 * Z)) :=
  match steps with
  | [] => []
  | (o, acc, ob, q) :: r => (prev, m, o, acc, ob, q) :: walk ob (fst (step m o)) r
  end.

Definition check (c : case) : list string :=
  match c with
  | CHist exact accts denoms init steps =>
      let u := universe accts denoms in
      (* the theorems' hypotheses on the starting state *)
      (if exact then tag (hold_eq_obligations u init) "prop:initial_hold_eq_obligations"
       else tag (forallb (fun k => 0 <=? surplus init k) (u ++ map fst (holds init) ++ genesis_keys init))
                "prop:initial_hold_covers_obligations") ++
      tag (hold_le_balance u init) "prop:initial_hold_le_balance" ++
      tag (forallb (fun e => fst e <=? last_id init) (orders init)) "prop:initial_order_ids" ++
      first_failure (check_step exact u init) 1 (walk init init steps)
  | CGenesis g accepted =>
      (* the genesis check is a coverage check: accepted iff every needed amount is on hold *)
      tag (Bool.eqb (match genesis_init g with Some _ => true | None => false end) accepted)
          "corr:genesis_accept" ++
      (if accepted
       then tag (forallb (fun k => required g (fst k) (snd k) <=? hold_of g (fst k) (snd k)) (genesis_keys g))
                "prop:genesis_accepted_without_cover"
       else [])
  end.

Definition check_all := check_list check.
