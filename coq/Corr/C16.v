(** Correspondence + property checker for C16 (attributes: owner-only writes, faithful lookups
    and expiry).  A case is a whole history run on the real message handlers / begin-blocker /
    keeper; after every step the harness records: accepted?, every attribute of every holder
    (GetAllAttributesAddr), AccountsByAttribute of every name of the universe, GetRecordByName of
    every name (stored name, owner, restricted flag), Params.MaxValueLength, and — for one holder
    and one (arbitrarily spelled) name chosen per step — the gRPC queries Attributes, Attribute,
    Scan, AttributeAccounts (each followed page by page with a small page limit, by key or by
    offset, forwards or in reverse) and AccountData.

    corr:*  the model (Attribute/Attribute.v composed with Name/Name.v) run on the same
            operations disagrees with the implementation on one of these observables;
    prop:*  the property's own checker, evaluated on the implementation's observations only
            (no model state involved), fails. *)
From Coq Require Import ZArith NArith List String Ascii Bool.
From PV Require Import Name.Name.
From PV Require Export Attribute.Attribute Corr.CorrBase.
Import ListNotations.
Open Scope string_scope.
Open Scope list_scope.
Open Scope Z_scope.

(** account, name (as stored), value, type, expiration *)
Definition orec := (N * string * Z * Z * option Z)%type.
(** stored name, owner, restricted *)
Definition nrec := (string * N * bool)%type.

(** the gRPC queries made after a step *)
Record qobs := QObs {
  q_acct : N;                       (* holder queried *)
  q_name : string;                  (* name as sent in Attribute / AttributeAccounts *)
  q_suffix : string;                (* Scan suffix *)
  q_limit : Z;                      (* page limit *)
  q_attrs : list (list orec);       (* Attributes(q_acct), page by page *)
  q_attr : list (list orec);        (* Attribute(q_acct, q_name) *)
  q_scanned : list (list orec);     (* Scan(q_acct, q_suffix) *)
  q_accts : list (list N);          (* AttributeAccounts(q_name) *)
  q_totals : list Z;                (* pagination.total of the first page of the four, when requested *)
  q_adata : option Z }.             (* AccountData(q_acct): None = error, Some 0 = "", Some v *)

(** an expiration-queue entry as read from the store: time, account, name key (the name whose
    GetNameKeyBytes the key carries), value *)
Definition qent := (Z * N * string * Z)%type.
Definition qent_eqb (x y : qent) : bool :=
  let '(t1, a1, n1, v1) := x in let '(t2, a2, n2, v2) := y in
  (t1 =? t2) && N.eqb a1 a2 && String.eqb n1 n2 && (v1 =? v2).
Definition qmem (x : qent) (l : list qent) : bool := existsb (qent_eqb x) l.
Definition queue_same (x y : list qent) : bool :=
  forallb (fun e => qmem e y) x && forallb (fun e => qmem e x) y &&
  Nat.eqb (List.length x) (List.length y).

Record obs := Obs {
  o_ok : bool;                      (* the operation was accepted *)
  o_recs : list orec;               (* all attributes of all holders (keeper dump) *)
  o_accts : list (list N);          (* per name of the universe: AccountsByAttribute *)
  o_owners : list (option nrec);    (* per name of the universe: GetRecordByName *)
  o_maxlen : Z;                     (* Params.MaxValueLength *)
  o_queue : list qent;              (* the raw expiration queue (store range 0x04), decoded *)
  o_q : qobs }.

(** the constant part of a history *)
Record cfgdata := Cfg {
  d_pmin : N; d_pmax : N; d_plev : N;
  d_genesis : list (string * N * bool);
  d_have : list N;
  d_kinds : list (N * Z);
  d_vlens : list (Z * Z);
  d_aranks : list (N * Z);
  d_nranks : list (string * Z);
  d_vranks : list (Z * Z);
  d_maxlen0 : Z }.

Inductive case :=
| History (t0 : Z) (d : cfgdata) (accts : list N) (names : list string) (o0 : obs) (steps : list (op * obs)).

Fixpoint lookup {A B} (eqb : A -> A -> bool) (l : list (A * B)) (dflt : B) (x : A) : B :=
  match l with
  | [] => dflt
  | (k, v) :: t => if eqb k x then v else lookup eqb t dflt x
  end.
Definition memN (x : N) (l : list N) : bool := existsb (N.eqb x) l.

Definition mk_config (d : cfgdata) : config :=
  {| c_params := {| p_min_seg := d_pmin d; p_max_seg := d_pmax d; p_max_levels := d_plev d |};
     c_genesis := d_genesis d;
     c_has_acct := fun a => memN a (d_have d);
     c_kind := lookup N.eqb (d_kinds d) 0;
     c_vlen := lookup Z.eqb (d_vlens d) 0;
     c_arank := lookup N.eqb (d_aranks d) 0;
     c_nrank := lookup String.eqb (d_nranks d) 0;
     c_vrank := lookup Z.eqb (d_vranks d) 0;
     c_maxlen0 := d_maxlen0 d |}.

(** *** Projection of a model state onto the observables *)
Definition orec_of (r : attr) : orec := (a_acct r, a_name r, a_val r, a_type r, a_exp r).
Definition oacct (r : orec) : N := let '(a, _, _, _, _) := r in a.
Definition oname (r : orec) : string := let '(_, n, _, _, _) := r in n.
Definition oval (r : orec) : Z := let '(_, _, v, _, _) := r in v.
Definition oexp (r : orec) : option Z := let '(_, _, _, _, e) := r in e.
Definition okey (r : orec) : key := (oacct r, ank (oname r), oval r).

Definition str_ltb (x y : string) : bool := negb (String.leb y x).
Definition orec_ltb (x y : orec) : bool :=
  N.ltb (oacct x) (oacct y) ||
  (N.eqb (oacct x) (oacct y) &&
   (str_ltb (oname x) (oname y) || (String.eqb (oname x) (oname y) && (oval x <? oval y)))).
Fixpoint insert_rec (r : orec) (l : list orec) : list orec :=
  match l with
  | [] => [r]
  | x :: t => if orec_ltb r x then r :: l else x :: insert_rec r t
  end.
Definition sort_recs (l : list orec) : list orec := fold_right insert_rec [] l.

Fixpoint insertN (x : N) (l : list N) : list N :=
  match l with
  | [] => [x]
  | y :: t => if N.leb x y then x :: l else y :: insertN x t
  end.
Definition sortN (l : list N) : list N := fold_right insertN [] l.

Definition orec_eqb (x y : orec) : bool :=
  let '(a1, n1, v1, t1, e1) := x in let '(a2, n2, v2, t2, e2) := y in
  N.eqb a1 a2 && String.eqb n1 n2 && (v1 =? v2) && (t1 =? t2) && oz_eqb e1 e2.
Definition nrec_eqb (x y : nrec) : bool :=
  let '(n1, a1, r1) := x in let '(n2, a2, r2) := y in
  String.eqb n1 n2 && N.eqb a1 a2 && Bool.eqb r1 r2.
Definition recs_same (x y : list orec) : bool := list_eqb orec_eqb (sort_recs x) (sort_recs y).
Definition accts_same (x y : list N) : bool := list_eqb N.eqb (sortN x) (sortN y).

Definition to_nrec (r : record) : nrec := (r_name r, r_addr r, r_restricted r).

(** what the model predicts for the queries asked in [q] *)
Definition model_q (cfg : config) (accts : list N) (s : state) (q : qobs)
  : list orec * list orec * list orec * list N * option Z :=
  (map orec_of (q_attributes s (q_acct q)),
   map orec_of (q_attribute s (q_acct q) (q_name q)),
   map orec_of (q_scan s (q_acct q) (q_suffix q)),
   accounts_by_attribute s (q_name q) accts,
   q_account_data cfg s (q_acct q)).

(** *** The property's checker on two consecutive observations of the implementation *)
Fixpoint find_obs {A} (names : list string) (vals : list A) (n : string) : option A :=
  match names, vals with
  | m :: names', v :: vals' => if String.eqb m n then Some v else find_obs names' vals' n
  | _, _ => None
  end.

(** the owner of name [n] as observed: the record returned for [n] must carry the name [n] *)
Definition owner_in (names : list string) (o : obs) (n : string) : option N :=
  match find_obs names (o_owners o) n with
  | Some (Some (stored, ow, _)) => if String.eqb stored n then Some ow else None
  | _ => None
  end.
Definition in_universe (names : list string) (n : string) : bool := existsb (String.eqb n) names.
Definition holders_in (names : list string) (o : obs) (n : string) : list N :=
  match find_obs names (o_accts o) n with Some l => l | None => [] end.
Definition has_key (o : obs) (k : key) : bool := existsb (fun r => key_eqb (okey r) k) (o_recs o).
Definition is_owner (names : list string) (o : obs) (n : string) (c : N) : bool :=
  match owner_in names o n with Some ow => N.eqb ow c | None => false end.
Definition unowned (names : list string) (o : obs) (n : string) : bool :=
  in_universe names n && match find_obs names (o_owners o) n with Some None => true | _ => false end.

Definition normalised (p : params) (name : string) : bool :=
  match normalize p name with Some n => String.eqb n name | None => false end.

(** a rejected operation changes nothing (tx rollback) *)
Definition obs_same (x y : obs) : bool :=
  recs_same (o_recs x) (o_recs y) &&
  list_eqb accts_same (o_accts x) (o_accts y) &&
  list_eqb (opt_eqb nrec_eqb) (o_owners x) (o_owners y) &&
  (o_maxlen x =? o_maxlen y) && queue_same (o_queue x) (o_queue y).

(** only the owner's add / update / delete (and name deletion) is accepted; names are identified
    by their normal form, whatever the spelling used in the request.  PurgeAttribute as a direct
    keeper call is judged only when it is given a normalised name, as its only caller
    (DeleteName) does. *)
Definition p_only_owner (p : params) (names : list string) (prev : obs) (o : op) (cur : obs) : bool :=
  if o_ok cur then
    match o with
    | OAdd c _ name _ _ _ | OUpdate c _ name _ _ _ _ | OUpdateExp c _ name _ _
    | ODelete c _ name | ODeleteDistinct c _ name _ | ODeleteName name c =>
        match normalize p name with
        | Some n => is_owner names prev n c
        | None => false
        end
    | OPurge c name =>
        if normalised p name then is_owner names prev name c || unowned names prev name else true
    | OSetAccountData _ _ _ => is_owner names prev account_data_name mod_addr || obs_same prev cur
    | _ => true
    end
  else true.

(** may the attribute [r], present before the step, be absent after it? *)
Definition justified (p : params) (names : list string) (prev : obs) (now : Z) (o : op) (r : orec) : bool :=
  let '(a, n, v, _, e) := r in
  let names_it name := match normalize p name with Some m => String.eqb m n | None => false end in
  match o with
  | ODelete c a' name => N.eqb a a' && names_it name && is_owner names prev n c
  | ODeleteDistinct c a' name v' => N.eqb a a' && names_it name && (v =? v') && is_owner names prev n c
  | OUpdate c a' name ov _ _ _ => N.eqb a a' && names_it name && (v =? ov) && is_owner names prev n c
  | ODeleteName name c => names_it name && is_owner names prev n c
  | OPurge c name =>
      if normalised p name then String.eqb name n && is_owner names prev n c
      else String.eqb (ank name) (ank n)
  | OSetAccountData _ a' _ =>
      N.eqb a a' && String.eqb n account_data_name && is_owner names prev n mod_addr
  | OBlock dt _ => match e with Some t => t <? now + dt | None => false end
  | _ => false
  end.

Definition p_disappears (p : params) (names : list string) (prev : obs) (now : Z) (o : op) (cur : obs) : bool :=
  forallb (fun r => has_key cur (okey r) || (o_ok cur && justified p names prev now o r)) (o_recs prev).

(** every holder is listed by the accounts-by-name lookup *)
Definition p_lookup (names : list string) (cur : obs) : bool :=
  forallb (fun r => memN (oacct r) (holders_in names cur (oname r))) (o_recs cur).

(** after a block begins at time t with sweep limit [limit], nothing whose stored expiration is
    before t is left — provided no more attributes had expired than the limit allows; otherwise
    at least [limit] of them are gone *)
Definition expired_at (t : Z) (r : orec) : bool :=
  match oexp r with Some e => e <? t | None => false end.
Definition p_expired_gone (prev : obs) (now : Z) (o : op) (cur : obs) : bool :=
  match o with
  | OBlock dt limit =>
      if dt <? 0 then true else
      let ex := filter (expired_at (now + dt)) (o_recs prev) in
      let left := filter (fun r => has_key cur (okey r)) ex in
      if (limit =? 0) || (Z.of_nat (List.length ex) <=? limit)
      then match left with [] => true | _ => false end
      else limit <=? Z.of_nat (List.length ex) - Z.of_nat (List.length left)
  | _ => true
  end.

(** *** Lookup faithfulness through the public API: the queries against the keeper dump of the
    same state.  [now] is the block time at which the queries ran. *)
Definition olive (now : Z) (r : orec) : bool :=
  match oexp r with Some e => negb (e <? now) | None => true end.
Definition pages_ok {A} (limit : Z) (pages : list (list A)) : bool :=
  forallb (fun pg => Z.of_nat (List.length pg) <=? limit) pages &&
  forallb (fun pg => Z.of_nat (List.length pg) =? limit) (removelast pages).
Definition total_ok (t : Z) (n : nat) : bool := (t <? 0) || (t =? Z.of_nat n).

Definition p_queries (names : list string) (now : Z) (cur : obs) : list string :=
  let q := o_q cur in
  let mine := filter (fun r => N.eqb (oacct r) (q_acct q) && olive now r) (o_recs cur) in
  let named := filter (fun r => String.eqb (ank (oname r)) (ank (q_name q))) mine in
  let scanned := filter (fun r => has_suffix (oname r) (q_suffix q)) mine in
  let holders := map oacct (filter (fun r => String.eqb (ank (oname r)) (ank (q_name q))) (o_recs cur)) in
  tag (recs_same (List.concat (q_attrs q)) mine) "prop:query_attributes_is_the_live_keeper_dump" ++
  tag (recs_same (List.concat (q_attr q)) named) "prop:query_attribute_is_the_live_keeper_dump" ++
  tag (recs_same (List.concat (q_scanned q)) scanned) "prop:query_scan_is_the_live_keeper_dump" ++
  tag (forallb (fun a => memN a (List.concat (q_accts q))) holders) "prop:query_attribute_accounts_never_omits" ++
  tag (forallb (olive now) (List.concat (q_attrs q) ++ List.concat (q_attr q) ++ List.concat (q_scanned q)))
      "prop:expired_invisible_to_queries" ++
  tag (pages_ok (q_limit q) (q_attrs q) && pages_ok (q_limit q) (q_attr q) &&
       pages_ok (q_limit q) (q_scanned q) && pages_ok (q_limit q) (q_accts q)) "prop:query_pages" ++
  tag (match q_totals q with
       | [t1; t2; t3; t4] =>
           total_ok t1 (List.length mine) && total_ok t2 (List.length named) &&
           total_ok t3 (List.length scanned) && total_ok t4 (List.length (List.concat (q_accts q)))
       | _ => false
       end) "prop:query_totals" ++
  tag (match q_adata q with
       | Some v =>
           if v =? 0
           then negb (existsb (fun r => N.eqb (oacct r) (q_acct q) && String.eqb (oname r) account_data_name) (o_recs cur))
           else existsb (fun r => N.eqb (oacct r) (q_acct q) && String.eqb (oname r) account_data_name && (oval r =? v)) (o_recs cur)
       | None => true
       end) "prop:query_account_data".

Definition prop_core (p : params) (names : list string) (prev : obs) (now : Z) (o : op) (cur : obs) : list string :=
  tag (p_only_owner p names prev o cur) "prop:only_owner_writes" ++
  tag (p_disappears p names prev now o cur) "prop:disappears_only_when" ++
  tag (p_lookup names cur) "prop:lookup_never_omits" ++
  tag (p_expired_gone prev now o cur) "prop:expired_gone_after_sweep" ++
  tag (o_ok cur || obs_same prev cur) "prop:rejected_changes_nothing".

Definition next_now (now : Z) (o : op) (ok : bool) : Z :=
  match o with OBlock dt _ => if ok then now + dt else now | _ => now end.

(** every stored expiration has its entry in the raw queue — otherwise no later sweep can find
    the attribute ([C16_store_well_formed] on the model) *)
Definition p_queue (cur : obs) : bool :=
  forallb (fun r => match oexp r with
                    | Some e => qmem (e, oacct r, ank (oname r), oval r) (o_queue cur)
                    | None => true
                    end) (o_recs cur).

(** a run of consecutive accepted blocks: the observation before the first of them, the time at
    which the first began, the sum of the sweep limits so far, and whether one of them had no
    limit.  The clause of [C16_expired_gone_within_blocks_any_limits], evaluated on observations
    only: once some block of the run had no limit, or the limits add up to the number of
    attributes (present before the run) whose expiration has passed by now, every attribute that
    had expired when the run's FIRST block began is gone. *)
Record runst := { r_start : obs; r_t1 : Z; r_cap : Z; r_unb : bool }.
Definition run_next (run : option runst) (prev : obs) (now : Z) (o : op) (ok : bool) : option runst :=
  match o with
  | OBlock dt limit =>
      if ok && negb (dt <? 0) && negb (limit <? 0) then
        match run with
        | Some r => Some {| r_start := r_start r; r_t1 := r_t1 r; r_cap := r_cap r + limit;
                            r_unb := r_unb r || (limit =? 0) |}
        | None => Some {| r_start := prev; r_t1 := now + dt; r_cap := limit; r_unb := limit =? 0 |}
        end
      else None
  | _ => None
  end.
Definition p_run (run : option runst) (tnow : Z) (cur : obs) : bool :=
  match run with
  | None => true
  | Some r =>
      let n := List.length (filter (expired_at tnow) (o_recs (r_start r))) in
      if r_unb r || (Z.of_nat n <=? r_cap r)
      then forallb (fun x => negb (expired_at (r_t1 r) x) || negb (has_key cur (okey x))) (o_recs (r_start r))
      else true
  end.

Definition prop_step (p : params) (names : list string) (prev : obs) (now : Z) (o : op) (cur : obs)
                     (run : option runst) : list string :=
  prop_core p names prev now o cur ++
  tag (p_queue cur) "prop:stored_expiration_has_queue_entry" ++
  tag (p_run run (next_now now o (o_ok cur)) cur) "prop:expired_gone_within_blocks" ++
  p_queries names (next_now now o (o_ok cur)) cur.

(** *** model against implementation *)
Definition model_owners (names : list string) (s : state) : list (option nrec) :=
  map (fun n => option_map to_nrec (get_record idh (s_names s) n)) names.

Definition model_queue (s : state) : list qent :=
  map (fun x : entry => let '(e, (a, n, v)) := x in (e, a, n, v)) (s_queue s).

Definition corr_step (cfg : config) (accts : list N) (names : list string) (s' : state) (ok : bool) (cur : obs)
  : list string :=
  let '(m1, m2, m3, m4, m5) := model_q cfg accts s' (o_q cur) in
  let q := o_q cur in
  tag (Bool.eqb ok (o_ok cur)) "corr:accept" ++
  tag (recs_same (map orec_of (s_recs s')) (o_recs cur)) "corr:attributes" ++
  tag (list_eqb accts_same (map (fun n => accounts_by_attribute s' n accts) names) (o_accts cur))
      "corr:accounts_by_attribute" ++
  tag (list_eqb (opt_eqb nrec_eqb) (model_owners names s') (o_owners cur)) "corr:name_record" ++
  tag (s_maxlen s' =? o_maxlen cur) "corr:max_value_length" ++
  tag (queue_same (model_queue s') (o_queue cur)) "corr:expiration_queue" ++
  tag (recs_same m1 (List.concat (q_attrs q))) "corr:query_attributes" ++
  tag (recs_same m2 (List.concat (q_attr q))) "corr:query_attribute" ++
  tag (recs_same m3 (List.concat (q_scanned q))) "corr:query_scan" ++
  tag (accts_same m4 (List.concat (q_accts q))) "corr:query_attribute_accounts" ++
  tag (opt_eqb Z.eqb m5 (q_adata q)) "corr:query_account_data".

(** one item per step: everything the per-step checker needs *)
Record item := { i_prev : obs; i_now : Z; i_op : op; i_cur : obs; i_model : state; i_mok : bool;
                 i_run : option runst }.

Fixpoint items (cfg : config) (s : state) (prev : obs) (now : Z) (run : option runst)
               (steps : list (op * obs)) : list item :=
  match steps with
  | [] => []
  | (o, cur) :: rest =>
      let '(s', ok) := step cfg s o in
      let run' := run_next run prev now o (o_ok cur) in
      {| i_prev := prev; i_now := now; i_op := o; i_cur := cur; i_model := s'; i_mok := ok; i_run := run' |}
      :: items cfg s' cur (next_now now o (o_ok cur)) run' rest
  end.

Definition empty_q : qobs := QObs 0%N "" "" 0 [] [] [] [] [] None.

(** the observation of a model state (the query part [q] is carried along unchanged: the core
    checker does not look at it) *)
Definition model_obs (cfg : config) (accts : list N) (names : list string) (s : state) (ok : bool) (q : qobs) : obs :=
  Obs ok (map orec_of (s_recs s)) (map (fun n => accounts_by_attribute s n accts) names)
      (model_owners names s) (s_maxlen s) (model_queue s) q.

(** the observation of the initial state as the model sees it; the case carries the
    implementation's ([o0], the first step's [prev]) *)
Definition model_obs0 (cfg : config) (accts : list N) (names : list string) (s : state) : obs :=
  model_obs cfg accts names s true empty_q.

(** The verdict of a history names its first failing step.  The prop: tags do not involve the
    model, so when that first failing step shows only a disagreement between model and
    implementation (corr: tags), the property checker alone is ALSO run over the whole history and
    the first step at which it fails is reported as well: a divergence must not hide a later
    concrete violation of the property. *)
Definition is_prop_tag (t : string) : bool := String.prefix "prop:" t.

Definition check (c : case) : list string :=
  match c with
  | History t0 d accts names o0 steps =>
      let cfg := mk_config d in
      let s0 := init cfg t0 in
      let its := items cfg s0 o0 t0 None steps in
      let prop it := prop_step (c_params cfg) names (i_prev it) (i_now it) (i_op it) (i_cur it) (i_run it) in
      let first := first_failure
                     (fun it => corr_step cfg accts names (i_model it) (i_mok it) (i_cur it) ++ prop it) 0%N its in
      tag (obs_same (model_obs0 cfg accts names s0) o0) "corr:initial_state" ++
      first ++
      match first with
      | [] => []
      | _ => if existsb is_prop_tag first then [] else first_failure prop 0%N its
      end
  end.

Definition check_all := check_list check.
