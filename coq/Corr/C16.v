(** Correspondence + property checker for C16 (attributes: owner-only writes, faithful lookups
    and expiry).  A case is a whole history run on the real message handlers / begin-blocker;
    after every step the harness records: accepted?, every attribute of every account
    (GetAllAttributesAddr), AccountsByAttribute of every name, the owner of every name.

    corr:*  the model (Attribute/Attribute.v) run on the same operations disagrees with the
            implementation on one of these observables;
    prop:*  the property's own checker, evaluated on the implementation's observations only
            (no model involved), fails. *)
From Coq Require Import ZArith NArith List String Bool.
From PV Require Export Attribute.Attribute Corr.CorrBase.
Import ListNotations.
Open Scope string_scope.
Open Scope list_scope.
Open Scope Z_scope.

(** account, name, value, type, expiration *)
Definition orec := (Z * Z * Z * Z * option Z)%type.

Record obs := Obs {
  o_ok : bool;                      (* the operation was accepted *)
  o_recs : list orec;               (* all attributes, sorted by (account, name, value) *)
  o_accts : list (list Z);          (* per name (in the case's name order): AccountsByAttribute, sorted *)
  o_owners : list (option Z) }.     (* per name: the address the name record resolves to *)

Inductive case :=
| History (t0 : Z) (have_acct : list Z) (accts names : list Z) (steps : list (op * obs)).

Definition mem (x : Z) (l : list Z) : bool := existsb (Z.eqb x) l.

(** *** Projection of a model state onto the observables *)
Definition orec_of (r : attr) : orec := (a_acct r, a_name r, a_val r, a_type r, a_exp r).
Definition okey (r : orec) : key := let '(a, n, v, _, _) := r in (a, n, v).
Definition oexp (r : orec) : option Z := let '(_, _, _, _, e) := r in e.
Definition key_ltb (k1 k2 : key) : bool :=
  let '(a1, n1, v1) := k1 in let '(a2, n2, v2) := k2 in
  (a1 <? a2) || ((a1 =? a2) && ((n1 <? n2) || ((n1 =? n2) && (v1 <? v2)))).
Fixpoint insert_rec (r : orec) (l : list orec) : list orec :=
  match l with
  | [] => [r]
  | x :: t => if key_ltb (okey r) (okey x) then r :: l else x :: insert_rec r t
  end.
Definition sort_recs (l : list orec) : list orec := fold_right insert_rec [] l.

Definition orec_eqb (x y : orec) : bool :=
  let '(a1, n1, v1, t1, e1) := x in let '(a2, n2, v2, t2, e2) := y in
  (a1 =? a2) && (n1 =? n2) && (v1 =? v2) && (t1 =? t2) && oz_eqb e1 e2.

Definition model_obs (accts names : list Z) (s : state) (ok : bool) : obs :=
  Obs ok (sort_recs (map orec_of (s_recs s)))
      (map (fun n => accounts_by_attribute s n accts) names)
      (map (s_owner s) names).

(** *** The property's checker on two consecutive observations of the implementation *)
Fixpoint index_of (x : Z) (l : list Z) : nat :=
  match l with
  | [] => 0
  | y :: t => if x =? y then 0%nat else S (index_of x t)
  end.
Definition owner_in (names : list Z) (o : obs) (n : Z) : option Z :=
  nth (index_of n names) (o_owners o) None.
Definition holders_in (names : list Z) (o : obs) (n : Z) : list Z :=
  nth (index_of n names) (o_accts o) [].
Definition has_key (o : obs) (k : key) : bool := existsb (fun r => key_eqb (okey r) k) (o_recs o).
Definition is_owner (names : list Z) (o : obs) (n c : Z) : bool :=
  oz_eqb (owner_in names o n) (Some c).

(** who writes under which name; names are the canonical (normalised) identities, whatever the
    spelling used in the request *)
Definition writer (o : op) : option (Z * Z) :=
  match o with
  | OAdd c _ n _ _ _ _ | OUpdate c _ n _ _ _ _ _ | OUpdateExp c _ n _ _ _
  | ODelete c _ n _ | ODeleteDistinct c _ n _ _ | ODeleteName c n | OPurge c n => Some (c, n)
  | _ => None
  end.

(** only the owner's add / update / delete (and name deletion) is accepted *)
Definition p_only_owner (names : list Z) (prev : obs) (o : op) (cur : obs) : bool :=
  if o_ok cur then
    match writer o with
    | Some (c, n) =>
        match o with
        | OPurge _ _ => is_owner names prev n c || oz_eqb (owner_in names prev n) None
        | _ => is_owner names prev n c
        end
    | None => true
    end
  else true.

(** may the attribute [r], present before the step, be absent after it? *)
Definition justified (names : list Z) (prev : obs) (now : Z) (o : op) (r : orec) : bool :=
  let '(a, n, v, _, e) := r in
  match o with
  | ODelete c a' n' _ => (a =? a') && (n =? n') && is_owner names prev n c
  | ODeleteDistinct c a' n' v' _ => (a =? a') && (n =? n') && (v =? v') && is_owner names prev n c
  | OUpdate c a' n' ov _ _ _ _ => (a =? a') && (n =? n') && (v =? ov) && is_owner names prev n c
  | ODeleteName c n' | OPurge c n' => (n =? n') && is_owner names prev n c
  | OBlock dt => match e with Some t => t <? now + dt | None => false end
  | _ => false
  end.

Definition p_disappears (names : list Z) (prev : obs) (now : Z) (o : op) (cur : obs) : bool :=
  forallb (fun r => has_key cur (okey r) || (o_ok cur && justified names prev now o r)) (o_recs prev).

(** every holder is listed by the accounts-by-name lookup *)
Definition p_lookup (names : list Z) (cur : obs) : bool :=
  forallb (fun r => let '(a, n, _, _, _) := r in mem a (holders_in names cur n)) (o_recs cur).

(** after a block begins at time t, nothing whose stored expiration is before t is left *)
Definition p_expired_gone (prev : obs) (now : Z) (o : op) (cur : obs) : bool :=
  match o with
  | OBlock dt =>
      if dt <? 0 then true else
      forallb (fun r => match oexp r with
                        | Some t => negb (t <? now + dt) || negb (has_key cur (okey r))
                        | None => true
                        end) (o_recs prev)
  | _ => true
  end.

(** a rejected operation changes nothing (tx rollback) *)
Definition obs_same (x y : obs) : bool :=
  list_eqb orec_eqb (o_recs x) (o_recs y) &&
  list_eqb (list_eqb Z.eqb) (o_accts x) (o_accts y) &&
  list_eqb oz_eqb (o_owners x) (o_owners y).

Definition prop_step (names : list Z) (prev : obs) (now : Z) (o : op) (cur : obs) : list string :=
  tag (p_only_owner names prev o cur) "prop:only_owner_writes" ++
  tag (p_disappears names prev now o cur) "prop:disappears_only_when" ++
  tag (p_lookup names cur) "prop:lookup_never_omits" ++
  tag (p_expired_gone prev now o cur) "prop:expired_gone_after_sweep" ++
  tag (o_ok cur || obs_same prev cur) "prop:rejected_changes_nothing".

Definition corr_step (accts names : list Z) (s' : state) (ok : bool) (cur : obs) : list string :=
  let m := model_obs accts names s' ok in
  tag (Bool.eqb (o_ok m) (o_ok cur)) "corr:accept" ++
  tag (list_eqb orec_eqb (o_recs m) (o_recs cur)) "corr:attributes" ++
  tag (list_eqb (list_eqb Z.eqb) (o_accts m) (o_accts cur)) "corr:accounts_by_attribute" ++
  tag (list_eqb oz_eqb (o_owners m) (o_owners cur)) "corr:name_owner".

(** one item per step: everything the per-step checker needs *)
Record item := { i_prev : obs; i_now : Z; i_op : op; i_cur : obs; i_model : state; i_mok : bool }.

Definition next_now (now : Z) (o : op) : Z :=
  match o with OBlock dt => if dt <? 0 then now else now + dt | _ => now end.

Fixpoint items (s : state) (prev : obs) (now : Z) (steps : list (op * obs)) : list item :=
  match steps with
  | [] => []
  | (o, cur) :: rest =>
      let '(s', ok) := step s o in
      {| i_prev := prev; i_now := now; i_op := o; i_cur := cur; i_model := s'; i_mok := ok |}
      :: items s' cur (next_now now o) rest
  end.

Definition check (c : case) : list string :=
  match c with
  | History t0 have accts names steps =>
      let s0 := init t0 (fun a => mem a have) in
      let o0 := model_obs accts names s0 true in
      first_failure
        (fun it => corr_step accts names (i_model it) (i_mok it) (i_cur it) ++
                   prop_step names (i_prev it) (i_now it) (i_op it) (i_cur it))
        0%N (items s0 o0 t0 steps)
  end.

Definition check_all := check_list check.
