(** Correspondence + property checker for C01 (order settlement).

    Cases:
      [CSplit o k obs]            Order.Split(k) on order o; obs = (filled, unfilled) or failure
      [CBuild asks bids lk obs]   exchange.BuildSettlement; obs = the returned Settlement or failure
      [CPerm asks bids asks' bids' lk obs obs']
                                  BuildSettlement on two orderings of the same orders
      [CMulti w accts nd markets params init steps]
                                  a history over several markets through the real keepers (message
                                  router); after each operation: accepted?, every tracked account's
                                  balance and hold per denom, total supply per denom, the remaining
                                  order records, a digest of every store of the application, and
                                  (for an accepted market settlement) the per-order amounts
                                  (assets filled, price applied, fees paid) that the real
                                  BuildSettlement reports for the stored orders.
    "corr:" tags compare with the Gallina model; "prop:" tags evaluate the property's own
    checker on the implementation's observation only. *)
From Coq Require Import ZArith NArith PArith List String Bool.
From PV Require Export Exchange.Arith Exchange.Settle Exchange.SettleMulti Exchange.SurplusSpec Corr.CorrBase.
Import ListNotations.
Open Scope string_scope.
Open Scope list_scope.
Open Scope Z_scope.

(** ** Term builders used by the harness (plain Z literals). *)
Definition P (z : Z) : positive := Z.to_pos z.
Definition cs (l : list (Z * Z)) : coins := map (fun x => (P (fst x), snd x)) l.
Definition Od (id : Z) (ask : bool) (owner ad assets pd price : Z) (fees : list (Z * Z)) (partial : bool) : order :=
  {| o_id := P id; o_ask := ask; o_owner := P owner; o_ad := P ad; o_assets := assets;
     o_pd := P pd; o_price := price; o_fees := cs fees; o_partial := partial |}.
Definition ix (l : list (Z * list (Z * Z))) : indexed := map (fun e => (P (fst e), cs (snd e))) l.
Definition T (ins outs : list (Z * list (Z * Z))) : transfer := {| t_in := ix ins; t_out := ix outs |}.
Definition F (o : order) (p : Z) (fees : list (Z * Z)) : filled :=
  {| fo_order := o; fo_price := p; fo_fees := cs fees |}.
Definition Stl (ts : list transfer) (fi : list (Z * list (Z * Z))) (full : list filled)
    (part : option filled) (lft : option order) : settlement :=
  {| s_transfers := ts; s_fee_inputs := ix fi; s_full := full; s_partial := part; s_left := lft |}.
Definition R (x : Z * Z * Z * Z) : ratio :=
  let '(pd, p, fd, f) := x in {| r_pd := P pd; r_p := p; r_fd := P fd; r_f := f |}.
Definition oc (x : option (Z * Z)) : option coin :=
  match x with Some (d, z) => Some (P d, z) | None => None end.
Definition Mk (a : Z) (acc us : bool) (cask cbid sflat : list (Z * Z)) (sr : list (Z * Z * Z * Z))
    (bflat : list (Z * Z)) (br : list (Z * Z * Z * Z)) : market :=
  {| mk_addr := P a; mk_accepting := acc; mk_user_settle := us;
     mk_create_ask := cs cask; mk_create_bid := cs cbid;
     mk_seller_flat := cs sflat; mk_seller_ratios := map R sr;
     mk_buyer_flat := cs bflat; mk_buyer_ratios := map R br |}.
Definition Mr (a d : Z) (restricted : bool) (tr wd dp : list Z) : marker :=
  {| mr_addr := P a; mr_denom := P d; mr_restricted := restricted;
     mr_transfer := map P tr; mr_withdraw := map P wd; mr_deposit := map P dp |}.
Definition Wd (feecol : Z) (blocked : list Z) (markers : list marker) : world :=
  {| w_feecol := P feecol; w_blocked := map P blocked; w_markers := markers |}.
Definition Pm (def : Z) (splits : list (Z * Z)) : params :=
  {| pr_default := def; pr_splits := map (fun x => (P (fst x), snd x)) splits |}.
Definition MpCreate (mid : Z) (o : order) (cfee : option (Z * Z)) (acc : bool) : mop := MCreate (P mid) o (oc cfee) acc.
Definition MpSettle (mid admin : Z) (a b : list Z) (e : bool) : mop := MSettle (P mid) (P admin) (map P a) (map P b) e.
Definition MpFillBids (mid s : Z) (ids : list Z) (ta : list (Z * Z)) (fl cf : option (Z * Z)) : mop :=
  MFillBids (P mid) (P s) (map P ids) (cs ta) (oc fl) (oc cf).
Definition MpFillAsks (mid b : Z) (ids : list Z) (tp : Z * Z) (fs : list (Z * Z)) (cf : option (Z * Z)) : mop :=
  MFillAsks (P mid) (P b) (map P ids) (P (fst tp), snd tp) (cs fs) (oc cf).
Definition MpParams (p : params) : mop := MSetParams p.
Definition MpAccepting (mid : Z) (b : bool) : mop := MSetAccepting (P mid) b.
Definition MpUserSettle (mid : Z) (b : bool) : mop := MSetUserSettle (P mid) b.
Definition MpSanction (a : Z) (on : bool) : mop := MSanction (P a) on.

Record sobs := {
  so_ok : bool; so_bal : list Z; so_hold : list Z; so_supply : list Z;
  so_orders : list order; so_fills : list (Z * Z * Z * list (Z * Z)); so_digest : Z }.
Definition SO ok bal hold sup orders fills digest : sobs :=
  {| so_ok := ok; so_bal := bal; so_hold := hold; so_supply := sup; so_orders := orders; so_fills := fills;
     so_digest := digest |}.

(** Observations after a step are transmitted as differences to the previous observation (the
    full vectors are rebuilt by [apply_delta]): changed (index, value) entries of the balance,
    hold and supply vectors, ids of the orders that are gone, and new or changed order records
    (a changed record keeps its place, a new one is appended: creation order). *)
Record dobs := {
  do_ok : bool; do_bal : list (Z * Z); do_hold : list (Z * Z); do_sup : list (Z * Z);
  do_gone : list Z; do_upd : list order; do_fills : list (Z * Z * Z * list (Z * Z)); do_digest : Z }.
Definition DO ok bal hold sup gone upd fills digest : dobs :=
  {| do_ok := ok; do_bal := bal; do_hold := hold; do_sup := sup; do_gone := gone; do_upd := upd;
     do_fills := fills; do_digest := digest |}.

Fixpoint set_nth (l : list Z) (i : nat) (v : Z) : list Z :=
  match l, i with
  | [], _ => []
  | _ :: r, O => v :: r
  | x :: r, S i' => x :: set_nth r i' v
  end.
Definition patch (l : list Z) (ch : list (Z * Z)) : list Z :=
  fold_left (fun l c => set_nth l (Z.to_nat (fst c)) (snd c)) ch l.
Definition upsert (os : list order) (o : order) : list order :=
  if existsb (fun x => Pos.eqb (o_id x) (o_id o)) os
  then map (fun x => if Pos.eqb (o_id x) (o_id o) then o else x) os
  else os ++ [o].
Definition apply_delta (prev : sobs) (d : dobs) : sobs :=
  {| so_ok := do_ok d; so_bal := patch (so_bal prev) (do_bal d); so_hold := patch (so_hold prev) (do_hold d);
     so_supply := patch (so_supply prev) (do_sup d);
     so_orders := fold_left upsert (do_upd d)
                    (filter (fun o => negb (existsb (fun g => Pos.eqb (o_id o) (P g)) (do_gone d))) (so_orders prev));
     so_fills := do_fills d; so_digest := do_digest d |}.

Inductive case :=
| CSplit (o : order) (k : Z) (obs : option (order * order))
| CBuild (asks bids : list order) (lookup : res (option ratio)) (obs : option settlement)
| CPerm (asks bids asks' bids' : list order) (lookup : res (option ratio)) (obs obs' : option settlement)
| CMulti (w : world) (accts : list Z) (ndenoms : Z) (markets : list (Z * market)) (pr : params)
         (init : sobs) (steps : list (mop * dobs)).

(** ** Equalities *)
Definition order_eqb (x y : order) : bool :=
  Pos.eqb (o_id x) (o_id y) && Bool.eqb (o_ask x) (o_ask y) && Pos.eqb (o_owner x) (o_owner y) &&
  Pos.eqb (o_ad x) (o_ad y) && Z.eqb (o_assets x) (o_assets y) && Pos.eqb (o_pd x) (o_pd y) &&
  Z.eqb (o_price x) (o_price y) && coins_eqb (o_fees x) (o_fees y) && Bool.eqb (o_partial x) (o_partial y).
Definition indexed_eqb : indexed -> indexed -> bool := list_eqb (pair_eqb Pos.eqb coins_eqb).
Definition transfer_eqb (x y : transfer) : bool :=
  indexed_eqb (t_in x) (t_in y) && indexed_eqb (t_out x) (t_out y).
Definition filled_eqb (x y : filled) : bool :=
  order_eqb (fo_order x) (fo_order y) && Z.eqb (fo_price x) (fo_price y) && coins_eqb (fo_fees x) (fo_fees y).
Definition res_opt {A} (r : res A) : option A := match r with Ok a => Some a | _ => None end.

(** ** Helpers for the property checkers *)
Definition ceil_ok (num den x : Z) : bool := (den * (x - 1) <? num) && (num <=? den * x) && (0 <=? x).
Definition last_id (l : list order) : option positive :=
  match rev l with o :: _ => Some (o_id o) | [] => None end.
Definition pos_opt_eqb := opt_eqb Pos.eqb.
Definition sumZ (l : list Z) : Z := fold_left Z.add l 0.

(** what is left of an order keeps its identity and the assets:price:fees proportions *)
Definition same_identity (o l : order) : bool :=
  Pos.eqb (o_id o) (o_id l) && Bool.eqb (o_ask o) (o_ask l) && Pos.eqb (o_owner o) (o_owner l) &&
  Pos.eqb (o_ad o) (o_ad l) && Pos.eqb (o_pd o) (o_pd l) && Bool.eqb (o_partial o) (o_partial l).
Definition proportional (o l : order) : bool :=
  (0 <? o_assets l) && (o_assets l <? o_assets o) &&
  (o_price l * o_assets o =? o_price o * o_assets l) &&
  forallb (fun c => amount_of (o_fees l) (fst c) * o_assets o =? snd c * o_assets l) (o_fees o) &&
  forallb (fun c => negb (amount_of (o_fees o) (fst c) =? 0)) (o_fees l).

(** expected net movements, as a map (address, denom) -> delta *)
Definition add_cs (m : amap) (a : addr) (c : coins) (sign : Z) : amap :=
  fold_left (fun m x => aadd m a (fst x) (sign * snd x)) c m.

Definition amap_of_idx (m : amap) (i : indexed) (sign : Z) : amap :=
  fold_left (fun m e => add_cs m (fst e) (snd e) sign) i m.

Definition keys_eq (keys : list (addr * denom)) (m1 m2 : amap) : bool :=
  forallb (fun k => aget m1 (fst k) (snd k) =? aget m2 (fst k) (snd k)) keys.

Definition all_denoms (nd : Z) : list denom := map (fun n => Pos.of_nat n) (seq 1 (Z.to_nat nd)).
Definition cross (accts : list addr) (ds : list denom) : list (addr * denom) :=
  flat_map (fun a => map (fun d => (a, d)) ds) accts.

(** the seller ratio fee the property allows for price [p]: any x with x = ceil(p*rf/rp) *)
Definition ratio_of (rs : list ratio) (d : denom) : option ratio :=
  find (fun r => Pos.eqb (r_pd r) d) rs.

Definition fees_match (base paid : coins) (r : option ratio) (p : Z) : bool :=
  match r with
  | None => coins_eqb paid base
  | Some rt =>
      let x := amount_of paid (r_fd rt) - amount_of base (r_fd rt) in
      coins_eqb paid (coins_add1 base (r_fd rt) x) && ceil_ok (p * r_f rt) (r_p rt) x
  end.

Definition zlist_eqb := list_eqb Z.eqb.
Definition fill_of (fills : list filled) (id : positive) : option filled :=
  find (fun f => Pos.eqb (o_id (fo_order f)) id) fills.
Definition fills_in_order (fills : list filled) (os : list order) : list filled :=
  flat_map (fun o => match fill_of fills (o_id o) with Some f => [f] | None => [] end) os.

(** price applied to every ask = price of its filled part + its share of the surplus *)
Definition prop_surplus (asks bids : list order) (fills : list filled) : list string :=
  let fa := fills_in_order fills asks in
  let fb := fills_in_order fills bids in
  let own := fun f => o_price (fo_order f) in
  let L := sumZ (map own fb) - sumZ (map own fa) in
  tag (zlist_eqb (map fo_price fa)
                 (zip_add (map own fa) (surplus L (map (fun f => o_assets (fo_order f)) fa))))
      "prop:surplus_distribution".

(** ** Property checker for a settlement returned by BuildSettlement *)
Definition prop_build (asks bids : list order) (lookup : res (option ratio)) (s : settlement) : list string :=
  let inputs := asks ++ bids in
  let fills := filled_list s in
  let r := match lookup with Ok x => x | _ => None end in
  let uniq := nodup_ids (map o_id inputs) in
  let find_in id := find_order inputs id in
  (* every input order is filled exactly once, fully filled ones unchanged *)
  tag (Nat.eqb (List.length fills) (List.length inputs) &&
       forallb (fun o => existsb (fun f => Pos.eqb (o_id (fo_order f)) (o_id o)) fills) inputs)
      "prop:orders_filled_once" ++
  (if uniq then
     tag (forallb (fun f => match find_in (o_id (fo_order f)) with
                            | Some o => order_eqb o (fo_order f) | None => false end) (s_full s))
         "prop:fully_filled_order_differs"
   else []) ++
  (* the partial order *)
  (match s_partial s, s_left s with
   | None, None => []
   | Some pf, Some l =>
       if uniq then
         match find_in (o_id l) with
         | None => ["prop:partial_unknown_order"]
         | Some o =>
             let fo := fo_order pf in
             tag (o_partial o) "prop:partial_not_allowed" ++
             tag (if o_ask o then pos_opt_eqb (last_id asks) (Some (o_id o))
                  else pos_opt_eqb (last_id bids) (Some (o_id o))) "prop:partial_not_last" ++
             tag (same_identity o l && same_identity o fo) "prop:partial_identity" ++
             tag ((o_assets fo + o_assets l =? o_assets o) && (o_price fo + o_price l =? o_price o) &&
                  coins_eqb (coins_add (o_fees fo) (o_fees l)) (o_fees o)) "prop:partial_parts_add_up" ++
             tag (proportional o l) "prop:partial_proportions"
         end
       else []
   | _, _ => ["prop:partial_filled_left_mismatch"]
   end) ++
  (* per order amounts *)
  tag (forallb (fun f =>
         let o := fo_order f in
         if o_ask o then (o_price o <=? fo_price f) && fees_match (o_fees o) (fo_fees f) r (fo_price f)
         else (o_price o =? fo_price f) && coins_eqb (fo_fees f) (o_fees o)) fills)
      "prop:order_price_or_fees" ++
  tag (sumZ (map fo_price (filter (fun f => o_ask (fo_order f)) fills)) =?
       sumZ (map fo_price (filter (fun f => negb (o_ask (fo_order f))) fills)))
      "prop:price_paid_ne_price_received" ++
  (* the price improvement goes to the sellers by the documented rule (Exchange/SurplusSpec.v) *)
  (if uniq then prop_surplus asks bids fills else []) ++
  (* transfers: each balanced and positive; together exactly the agreed movements *)
  tag (forallb (fun t => coins_eqb (idx_total (t_in t)) (idx_total (t_out t)) &&
                         forallb (fun e => coins_all_pos (snd e)) (t_in t ++ t_out t) &&
                         negb (Nat.eqb (List.length (t_in t)) 0) && negb (Nat.eqb (List.length (t_out t)) 0))
               (s_transfers s))
      "prop:transfer_unbalanced" ++
  (let moved := fold_left (fun m t => amap_of_idx (amap_of_idx m (t_in t) (-1)) (t_out t) 1) (s_transfers s) [] in
   let agreed := fold_left (fun m f =>
                   let o := fo_order f in
                   if o_ask o then aadd (aadd m (o_owner o) (o_ad o) (- o_assets o)) (o_owner o) (o_pd o) (fo_price f)
                   else aadd (aadd m (o_owner o) (o_ad o) (o_assets o)) (o_owner o) (o_pd o) (- fo_price f)) fills [] in
   let keys := flat_map (fun o => [(o_owner o, o_ad o); (o_owner o, o_pd o)]) inputs ++
               map (fun x => (fst (fst x), snd (fst x))) moved in
   tag (keys_eq keys moved agreed) "prop:transfers_ne_agreed_movements") ++
  (* fee inputs: per owner the sum of the fees of its orders *)
  (let paid := amap_of_idx [] (s_fee_inputs s) 1 in
   let owed := fold_left (fun m f => add_cs m (o_owner (fo_order f)) (fo_fees f) 1) fills [] in
   let keys := map (fun x => (fst (fst x), snd (fst x))) (paid ++ owed) in
   tag (keys_eq keys paid owed && forallb (fun e => coins_all_pos (snd e)) (s_fee_inputs s))
       "prop:fee_inputs_ne_fees_owed").

(** ** Property checker for Order.Split *)
Definition prop_split (o : order) (k : Z) (fu : order * order) : list string :=
  let '(f, u) := fu in
  tag (o_partial o) "prop:split_not_allowed" ++
  tag (same_identity o f && same_identity o u) "prop:split_identity" ++
  tag ((o_assets f =? k) && (o_assets f + o_assets u =? o_assets o) &&
       (o_price f + o_price u =? o_price o) &&
       coins_eqb (coins_add (o_fees f) (o_fees u)) (o_fees o)) "prop:split_parts_add_up" ++
  tag (proportional o u) "prop:split_proportions".

(** ** Stateful: projections *)
Definition mk_amap (accts : list addr) (ds : list denom) (vals : list Z) : amap :=
  map (fun kv => (fst (fst kv), snd (fst kv), snd kv)) (combine (cross accts ds) vals).
Definition project (m : amap) (accts : list addr) (ds : list denom) : list Z :=
  map (fun k => aget m (fst k) (snd k)) (cross accts ds).
Definition orders_eqb := list_eqb order_eqb.

(** the exchange's share of collected fees: rounded up, per denom, on the total *)
Definition share_of (cfg : config) (total : coins) : coins :=
  fold_left (fun acc c => coins_add1 acc (fst c) (exchange_split (snd c) (get_split cfg (fst c)))) total [].

(** a fill as the property sees it: order (as stored before), assets filled, price applied, fees *)
Record pfill := { pf_order : order; pf_assets : Z; pf_price : Z; pf_fees : coins }.

Definition expected_moves (cfg : config) (fills : list pfill) (extra : amap) (extra_fees : coins) : amap :=
  let m := fold_left (fun m f =>
             let o := pf_order f in
             let m1 := if o_ask o
                       then aadd (aadd m (o_owner o) (o_ad o) (- pf_assets f)) (o_owner o) (o_pd o) (pf_price f)
                       else aadd (aadd m (o_owner o) (o_ad o) (pf_assets f)) (o_owner o) (o_pd o) (- pf_price f) in
             add_cs m1 (o_owner o) (pf_fees f) (-1)) fills extra in
  let total := fold_left (fun acc f => coins_add acc (pf_fees f)) fills extra_fees in
  let share := share_of cfg total in
  add_cs (add_cs (add_cs m (c_market cfg) total 1) (c_market cfg) share (-1)) (c_feecol cfg) share 1.

(** an order creation fee is collected on its own: payer -> market, the market's rounded-up share
    of THAT fee -> fee collector *)
Definition cfee_moves (cfg : config) (payer : addr) (cfee : option coin) (m : amap) : amap :=
  match cfee with
  | None => m
  | Some c =>
      let fee := [c] in
      let share := share_of cfg fee in
      add_cs (add_cs (add_cs (add_cs m payer fee (-1)) (c_market cfg) fee 1) (c_market cfg) share (-1))
             (c_feecol cfg) share 1
  end.

Definition order_after (post : list order) (id : positive) : option order := find_order post id.

(** hold released = hold of the order before minus hold of what is left of it *)
Definition expected_hold (fills : list pfill) (post : list order) : amap :=
  fold_left (fun m f =>
    let o := pf_order f in
    let m1 := add_cs m (o_owner o) (hold_amount o) (-1) in
    match order_after post (o_id o) with
    | Some l => add_cs m1 (o_owner o) (hold_amount l) 1
    | None => m1
    end) fills [].

Definition prop_fills (cfg : config) (askids bidids : list positive) (fills : list pfill) (post : list order)
  : list string :=
  let partials := filter (fun f => match order_after post (o_id (pf_order f)) with Some _ => true | None => false end) fills in
  tag (Nat.leb (List.length partials) 1) "prop:more_than_one_partial" ++
  tag (forallb (fun f =>
         let o := pf_order f in
         match order_after post (o_id o) with
         | None =>   (* fully filled *)
             (pf_assets f =? o_assets o) &&
             (if o_ask o then (o_price o <=? pf_price f) &&
                              fees_match (o_fees o) (pf_fees f) (ratio_of (c_ratios cfg) (o_pd o)) (pf_price f)
              else (pf_price f =? o_price o) && coins_eqb (pf_fees f) (o_fees o))
         | Some l => (* partially filled: l is what is left *)
             o_partial o && same_identity o l && proportional o l &&
             (pf_assets f =? o_assets o - o_assets l) &&
             (if o_ask o then pos_opt_eqb (nth_error askids (pred (List.length askids))) (Some (o_id o))
              else pos_opt_eqb (nth_error bidids (pred (List.length bidids))) (Some (o_id o))) &&
             (let pp := o_price o - o_price l in
              let fp := coins_sub (o_fees o) (o_fees l) in
              if o_ask o then (pp <=? pf_price f) &&
                              fees_match fp (pf_fees f) (ratio_of (c_ratios cfg) (o_pd o)) (pf_price f)
              else (pf_price f =? pp) && coins_eqb (pf_fees f) fp)
         end) fills) "prop:order_amounts" ++
  tag (sumZ (map pf_price (filter (fun f => o_ask (pf_order f)) fills)) =?
       sumZ (map pf_price (filter (fun f => negb (o_ask (pf_order f))) fills)))
      "prop:price_paid_ne_price_received" ++
  (* the surplus goes to the sellers by the documented rule: on the filled parts *)
  (let asks := filter (fun f => o_ask (pf_order f)) fills in
   let own := fun f => match order_after post (o_id (pf_order f)) with
                       | Some l => o_price (pf_order f) - o_price l
                       | None => o_price (pf_order f) end in
   let fa := flat_map (fun id => filter (fun f => Pos.eqb (o_id (pf_order f)) id) asks) askids in
   let L := sumZ (map pf_price (filter (fun f => negb (o_ask (pf_order f))) fills)) - sumZ (map own fa) in
   tag (zlist_eqb (map pf_price fa) (zip_add (map own fa) (surplus L (map pf_assets fa))))
       "prop:surplus_distribution").

(** orders not involved stay as they were; filled ones disappear or are replaced by what is left *)
Definition prop_orders (pre post : list order) (ids : list positive) : list string :=
  tag (forallb (fun o => if existsb (Pos.eqb (o_id o)) ids then true
                         else match find_order post (o_id o) with Some o' => order_eqb o o' | None => false end) pre &&
       forallb (fun o' => match find_order pre (o_id o') with Some _ => true | None => false end) post)
      "prop:uninvolved_order_changed".

Definition pfills_of_obs (pre : list order) (l : list (Z * Z * Z * list (Z * Z))) : option (list pfill) :=
  fold_right (fun x acc =>
    let '(id, af, pa, fees) := x in
    match acc, find_order pre (P id) with
    | Some r, Some o => Some ({| pf_order := o; pf_assets := af; pf_price := pa; pf_fees := cs fees |} :: r)
    | _, _ => None
    end) (Some []) l.

Definition ceil_div (a b : Z) : Z := (a + b - 1) / b.
Definition spec_ratio_fee (cfg : config) (d : denom) (p : Z) : coins :=
  match ratio_of (c_ratios cfg) d with
  | Some rt => coins_add1 [] (r_fd rt) (ceil_div (p * r_f rt) (r_p rt))
  | None => []
  end.

(** What the checker knows about the configuration: taken from the operations the
    IMPLEMENTATION accepted (never from the model's verdicts).  Only the configuration fields of
    [mstate] are used. *)
Definition ck_update (c : mstate) (o : mop) (ok : bool) : mstate :=
  if negb ok then c
  else
    let st0 := {| st_bal := []; st_hold := []; st_orders := [] |} in
    match o with
    | MCreate mid ord _ _ =>
        {| ms_st := st0; ms_market_of := ms_market_of c ++ [(o_id ord, mid)]; ms_markets := ms_markets c;
           ms_params := ms_params c; ms_sanctioned := ms_sanctioned c |}
    | MSetParams p =>
        {| ms_st := st0; ms_market_of := ms_market_of c; ms_markets := ms_markets c;
           ms_params := stored_params p; ms_sanctioned := ms_sanctioned c |}
    | MSetAccepting mid b =>
        match lookup (ms_markets c) mid with
        | Some m => with_market c mid (set_flags m b (mk_user_settle m))
        | None => c
        end
    | MSetUserSettle mid b =>
        match lookup (ms_markets c) mid with
        | Some m => with_market c mid (set_flags m (mk_accepting m) b)
        | None => c
        end
    | MSanction a on =>
        {| ms_st := st0; ms_market_of := ms_market_of c; ms_markets := ms_markets c; ms_params := ms_params c;
           ms_sanctioned := if on then a :: ms_sanctioned c else filter (fun x => negb (Pos.eqb x a)) (ms_sanctioned c) |}
    | _ => c
    end.

Definition prop_mstep (w : world) (c : mstate) (keys : list (addr * denom)) (accts : list addr) (ds : list denom)
    (pre : sobs) (o : mop) (post : sobs) : list string :=
  let bal0 := mk_amap accts ds (so_bal pre) in
  let bal1 := mk_amap accts ds (so_bal post) in
  let hold0 := mk_amap accts ds (so_hold pre) in
  let hold1 := mk_amap accts ds (so_hold post) in
  let dbal := fun m => forallb (fun k => aget bal1 (fst k) (snd k) - aget bal0 (fst k) (snd k) =? aget m (fst k) (snd k)) keys in
  let dhold := fun m => forallb (fun k => aget hold1 (fst k) (snd k) - aget hold0 (fst k) (snd k) =? aget m (fst k) (snd k)) keys in
  let cfg_for := fun mid => match lookup (ms_markets c) mid with
                            | Some m => Some (cfg_of w m (ms_params c)) | None => None end in
  let foreign := fun mid ids => negb (forallb (in_market c mid) ids) in
  let untouched := zlist_eqb (so_bal pre) (so_bal post) && zlist_eqb (so_hold pre) (so_hold post) &&
                   orders_eqb (so_orders pre) (so_orders post) in
  tag (zlist_eqb (so_supply pre) (so_supply post)) "prop:supply_changed" ++
  tag (forallb (fun d => sumZ (map (fun a => aget bal1 a d - aget bal0 a d) accts) =? 0) ds)
      "prop:coins_created_or_destroyed" ++
  if negb (so_ok post) then
    tag untouched "prop:rejected_operation_changed_state" ++
    tag (so_digest pre =? so_digest post) "prop:rejected_operation_changed_store"
  else
    match o with
    | MCreate mid ord cfee _ =>
        match cfg_for mid with
        | None => ["prop:unknown_market"]
        | Some cfg =>
            tag (dbal (cfee_moves cfg (o_owner ord) cfee [])) "prop:create_moved_funds" ++
            tag (dhold (add_cs [] (o_owner ord) (hold_amount ord) 1)) "prop:create_hold" ++
            tag (orders_eqb (so_orders post) (so_orders pre ++ [ord])) "prop:create_orders"
        end
    | MSettle mid _ askids bidids _ =>
        match cfg_for mid, pfills_of_obs (so_orders pre) (so_fills post) with
        | None, _ => ["prop:unknown_market"]
        | _, None => ["prop:fill_of_unknown_order"]
        | Some cfg, Some fills =>
            let ids := askids ++ bidids in
            tag (negb (foreign mid ids)) "prop:order_of_other_market_settled" ++
            tag (Nat.eqb (List.length fills) (List.length ids) &&
                 forallb (fun id => existsb (fun f => Pos.eqb (o_id (pf_order f)) id) fills) ids &&
                 forallb (fun f => Bool.eqb (o_ask (pf_order f)) (existsb (Pos.eqb (o_id (pf_order f))) askids)) fills)
                "prop:orders_filled_once" ++
            prop_fills cfg askids bidids fills (so_orders post) ++
            prop_orders (so_orders pre) (so_orders post) ids ++
            tag (dbal (expected_moves cfg fills [] [])) "prop:balance_deltas" ++
            tag (dhold (expected_hold fills (so_orders post))) "prop:hold_deltas"
        end
    | MFillBids mid seller ids total_assets flat cfee =>
        match cfg_for mid,
              fold_right (fun id acc => match acc, find_order (so_orders pre) id with
                                        | Some r, Some b => Some (b :: r) | _, _ => None end) (Some []) ids with
        | None, _ => ["prop:unknown_market"]
        | _, None => ["prop:fill_of_unknown_order"]
        | Some cfg, Some bids =>
            let fills := map (fun b => {| pf_order := b; pf_assets := o_assets b; pf_price := o_price b; pf_fees := o_fees b |}) bids in
            let tp := sum_price bids in
            let sfee := fold_left (fun acc c => coins_add acc (spec_ratio_fee cfg (fst c) (snd c))) tp
                          (match flat with Some (d, z) => coins_add1 [] d z | None => [] end) in
            let extra := add_cs (add_cs (add_cs [] seller (sum_assets bids) (-1)) seller tp 1) seller sfee (-1) in
            tag (negb (foreign mid ids)) "prop:order_of_other_market_settled" ++
            tag (forallb (fun b => negb (o_ask b) && negb (Pos.eqb (o_owner b) seller)) bids) "prop:fill_bids_wrong_orders" ++
            tag (forallb (fun b => match find_order (so_orders post) (o_id b) with None => true | Some _ => false end) bids)
                "prop:filled_order_remains" ++
            prop_orders (so_orders pre) (so_orders post) ids ++
            tag (dbal (cfee_moves cfg seller cfee (expected_moves cfg fills extra sfee))) "prop:balance_deltas" ++
            tag (dhold (expected_hold fills (so_orders post))) "prop:hold_deltas"
        end
    | MFillAsks mid buyer ids total_price fees cfee =>
        match cfg_for mid,
              fold_right (fun id acc => match acc, find_order (so_orders pre) id with
                                        | Some r, Some b => Some (b :: r) | _, _ => None end) (Some []) ids with
        | None, _ => ["prop:unknown_market"]
        | _, None => ["prop:fill_of_unknown_order"]
        | Some cfg, Some asks =>
            let fills := map (fun a => {| pf_order := a; pf_assets := o_assets a; pf_price := o_price a;
                                          pf_fees := coins_add (o_fees a) (spec_ratio_fee cfg (o_pd a) (o_price a)) |}) asks in
            let extra := add_cs (add_cs (add_cs [] buyer (sum_assets asks) 1) buyer (sum_price asks) (-1)) buyer fees (-1) in
            tag (negb (foreign mid ids)) "prop:order_of_other_market_settled" ++
            tag (forallb (fun a => o_ask a && negb (Pos.eqb (o_owner a) buyer)) asks) "prop:fill_asks_wrong_orders" ++
            tag (forallb (fun a => match find_order (so_orders post) (o_id a) with None => true | Some _ => false end) asks)
                "prop:filled_order_remains" ++
            prop_orders (so_orders pre) (so_orders post) ids ++
            tag (dbal (cfee_moves cfg buyer cfee (expected_moves cfg fills extra fees))) "prop:balance_deltas" ++
            tag (dhold (expected_hold fills (so_orders post))) "prop:hold_deltas"
        end
    | MSetParams _ | MSetAccepting _ _ | MSetUserSettle _ _ | MSanction _ _ =>
        tag untouched "prop:configuration_change_moved_funds"
    end.

Definition corr_step (accts : list addr) (ds : list denom) (st : state) (ok : bool) (ob : sobs) : list string :=
  tag (Bool.eqb ok (so_ok ob)) "corr:accepted" ++
  tag (zlist_eqb (project (st_bal st) accts ds) (so_bal ob)) "corr:balances" ++
  tag (zlist_eqb (project (st_hold st) accts ds) (so_hold ob)) "corr:holds" ++
  tag (orders_eqb (st_orders st) (so_orders ob)) "corr:orders".

Fixpoint check_msteps (w : world) (keys : list (addr * denom)) (accts : list addr) (ds : list denom)
    (i : N) (ms : mstate) (c : mstate) (prev : sobs) (steps : list (mop * dobs)) : list string :=
  match steps with
  | [] => []
  | (o, d) :: r =>
      let ob := apply_delta prev d in
      let '(ms', ok) := mstep w ms o in
      match corr_step accts ds (ms_st ms') ok ob ++ prop_mstep w c keys accts ds prev o ob with
      | [] => check_msteps w keys accts ds (N.succ i) ms' (ck_update c o (so_ok ob)) ob r
      | errs => map (fun t => String.append t (String.append " @step " (N_to_string i))) errs
      end
  end.

Definition settlement_corr (m : settlement) (s : settlement) : list string :=
  tag (list_eqb transfer_eqb (s_transfers m) (s_transfers s)) "corr:transfers" ++
  tag (indexed_eqb (s_fee_inputs m) (s_fee_inputs s)) "corr:fee_inputs" ++
  tag (list_eqb filled_eqb (s_full m) (s_full s)) "corr:fully_filled" ++
  tag (opt_eqb filled_eqb (s_partial m) (s_partial s)) "corr:partial_filled" ++
  tag (opt_eqb order_eqb (s_left m) (s_left s)) "corr:partial_left".

Definition check_build (asks bids : list order) (lookup : res (option ratio)) (obs : option settlement) : list string :=
  (match res_opt (build asks bids lookup), obs with
   | Some m, Some s => settlement_corr m s
   | None, None => []
   | _, _ => ["corr:build_accepted"]
   end) ++
  (match build asks bids lookup with OutOfFuel => ["corr:model_out_of_fuel"] | _ => [] end) ++
  (match obs with Some s => prop_build asks bids lookup s | None => [] end).

(** Two orderings of the same orders (the harness permutes the id lists).  What may NOT depend on
    the order, when neither settlement splits an order: every bid's amounts; every ask's price
    applied up to the remainder units (fewer than there are asks), and its floor share exactly;
    the total paid to the asks.  (Which order is split, and whether the settlement is accepted
    at all, does depend on the order: only the last of a list may be split.) *)
Definition prop_perm (asks bids asks' bids' : list order) (s s' : settlement) : list string :=
  match s_left s, s_left s' with
  | None, None =>
      let f1 := filled_list s in
      let f2 := filled_list s' in
      let n := Z.of_nat (List.length asks) in
      tag (forallb (fun o => match fill_of f1 (o_id o), fill_of f2 (o_id o) with
                             | Some x, Some y => filled_eqb x y | _, _ => false end) bids)
          "prop:bid_amounts_depend_on_order" ++
      tag (forallb (fun o => match fill_of f1 (o_id o), fill_of f2 (o_id o) with
                             | Some x, Some y => Z.abs (fo_price x - fo_price y) <? Z.max n 1
                             | _, _ => false end) asks)
          "prop:ask_price_depends_on_order_beyond_remainder" ++
      tag (sumZ (map fo_price (fills_in_order f1 asks)) =? sumZ (map fo_price (fills_in_order f2 asks)))
          "prop:total_paid_depends_on_order"
  | _, _ => []
  end.

Definition check (c : case) : list string :=
  match c with
  | CSplit o k obs =>
      (match res_opt (split o k), obs with
       | Some (f, u), Some (f', u') =>
           tag (order_eqb f f') "corr:split_filled" ++ tag (order_eqb u u') "corr:split_unfilled"
       | None, None => []
       | _, _ => ["corr:split_accepted"]
       end) ++
      (match obs with Some fu => prop_split o k fu | None => [] end)
  | CBuild asks bids lookup obs => check_build asks bids lookup obs
  | CPerm asks bids asks' bids' lookup obs obs' =>
      check_build asks bids lookup obs ++ check_build asks' bids' lookup obs' ++
      (if nodup_ids (map o_id (asks ++ bids)) then
         match obs, obs' with
         | Some s, Some s' => prop_perm asks bids asks' bids' s s'
         | _, _ => []
         end
       else [])
  | CMulti w accts nd markets pr init steps =>
      let accts := map P accts in
      let ds := all_denoms nd in
      let st0 := {| st_bal := mk_amap accts ds (so_bal init); st_hold := mk_amap accts ds (so_hold init);
                    st_orders := so_orders init |} in
      let ms0 := {| ms_st := st0; ms_market_of := []; ms_markets := map (fun x => (P (fst x), snd x)) markets;
                    ms_params := pr; ms_sanctioned := [] |} in
      check_msteps w (cross accts ds) accts ds 0%N ms0 ms0 init steps
  end.

Definition check_all := check_list check.
