(** Correspondence + property checker for C09 (a scope has one value owner, changed only with the
    current owner's consent).  A case is a whole history: the start environment (scope
    specifications, markers, contracts, blocked addresses), and per step the message given to the
    real handler together with what the real keepers/queries showed afterwards. *)
From Coq Require Import ZArith NArith List String Bool.
From PV Require Export Metadata.ValueOwner Corr.CorrBase.
Import ListNotations.
Open Scope string_scope.
Open Scope list_scope.
Open Scope Z_scope.

(** Observation after a step.  [o_bal]: for every scope id every account holding its denom with the
    amount (from iterating ALL bank balances, unknown accounts folded into one index); [o_sup]: bank
    supply; [o_vo]: keeper GetScopeValueOwner ([None] also when it errors); [o_q]: gRPC Scope query,
    [None] = scope not found, [Some v] = found with value_owner_address v; [o_own]: gRPC
    ValueOwnership per account (all pages); [o_gr]: every grant in the authz store (authz keeper
    IterateGrants) with expiration and remaining uses; [o_qr]: every quarantine record (quarantine
    keeper IterateQuarantineRecords) with its scope coins. *)
Record obs := {
  o_ok : bool;
  o_bal : list (sid * list (addr * Z));
  o_sup : list (sid * Z);
  o_vo : list (sid * option addr);
  o_q : list (sid * option (option addr));
  o_own : list (addr * list sid);
  o_gr : list grant;
  o_qr : list qrec }.

Definition obal (o : obs) (d : sid) : list (addr * Z) := match get (o_bal o) d with Some l => l | None => [] end.
Definition osup (o : obs) (d : sid) : Z := match get (o_sup o) d with Some z => z | None => 0 end.
Definition ovo (o : obs) (d : sid) : option addr := match get (o_vo o) d with Some v => v | None => None end.
Definition oq (o : obs) (d : sid) : option (option addr) := match get (o_q o) d with Some v => v | None => None end.
Definition oown (o : obs) (a : addr) : list sid := match get (o_own o) a with Some l => l | None => [] end.

(** The holder as the balances show it. *)
Definition oholder (o : obs) (d : sid) : option addr :=
  match obal o d with [(a, _)] => Some a | _ => None end.

Definition same_sids (l1 l2 : list sid) : bool :=
  forallb (fun a => mem a l2) l1 && forallb (fun a => mem a l1) l2.

Definition optZ_eqb (x y : option Z) : bool :=
  match x, y with Some a, Some b => Z.eqb a b | None, None => true | _, _ => false end.
Definition grant_eqb (g h : grant) : bool :=
  g_is (g_granter g) (g_grantee g) (g_kind g) h && optZ_eqb (g_exp g) (g_exp h) && optZ_eqb (g_left g) (g_left h).
Definition grants_same (l1 l2 : list grant) : bool :=
  forallb (fun g => existsb (grant_eqb g) l2) l1 && forallb (fun g => existsb (grant_eqb g) l1) l2.

(** Amount of scope [d] in a coin list. *)
Definition coins_amt (c : list (sid * Z)) (d : sid) : Z :=
  fold_left (fun acc e => if N.eqb (fst e) d then acc + snd e else acc) c 0.
Definition qrec_eqb (ids : list sid) (r r' : qrec) : bool :=
  q_is (q_to r) (q_from r) r' && forallb (fun d => Z.eqb (coins_amt (q_coins r) d) (coins_amt (q_coins r') d)) ids.
Definition qrecs_same (ids : list sid) (l1 l2 : list qrec) : bool :=
  forallb (fun r => existsb (qrec_eqb ids r) l2) l1 && forallb (fun r => existsb (qrec_eqb ids r) l1) l2.

(** *** corr: model state against the observation *)
Definition corr_step (ids : list sid) (accts : list addr) (s' : state) (ok : bool) (o : obs) : list string :=
  tag (Bool.eqb ok (o_ok o)) "corr:accepted/rejected" ++
  tag (forallb (fun d => forallb (fun a => Z.eqb (balance s' a d) (bal_of (obal o d) a)) accts) ids) "corr:scope token balances" ++
  tag (forallb (fun d => Z.eqb (sup s' d) (osup o d)) ids) "corr:scope token supply" ++
  tag (forallb (fun d => opt_addr_eqb (value_owner s' d) (ovo o d)) ids) "corr:value owner" ++
  tag (forallb (fun d => Bool.eqb (match scope_of s' d with Some _ => true | None => false end)
                                  (match oq o d with Some _ => true | None => false end)) ids) "corr:scope existence" ++
  tag (grants_same (grants s') (o_gr o)) "corr:authz grants (expiration, remaining uses)" ++
  tag (qrecs_same ids (qrecs s') (o_qr o)) "corr:quarantine records".

(** *** prop: the property's checker on the observation alone *)
Definition unique_ok (ids : list sid) (o : obs) : bool :=
  forallb (fun d =>
    match obal o d with
    | [] => Z.eqb (osup o d) 0
    | [(_, v)] => Z.eqb v 1 && Z.eqb (osup o d) 1
    | _ => false
    end) ids.

Definition token_has_scope (ids : list sid) (o : obs) : bool :=
  forallb (fun d => match obal o d, oq o d with
                    | _ :: _, None => false
                    | _, _ => true
                    end) ids.

Definition query_is_holder (ids : list sid) (accts : list addr) (o : obs) : bool :=
  forallb (fun d => opt_addr_eqb (ovo o d) (oholder o d) &&
                    match oq o d with Some v => opt_addr_eqb v (oholder o d) | None => true end) ids &&
  forallb (fun a => same_sids (oown o a) (filter (fun d => opt_is (oholder o d) a) ids)) accts.

(** Every quarantine record is backed by the funds holder's balance. *)
Definition records_backed (ids : list sid) (o : obs) : bool :=
  forallb (fun d => Z.leb (fold_left (fun acc r => acc + coins_amt (q_coins r) d) (o_qr o) 0)
                          (bal_of (obal o d) QHOLD)) ids.

(** Executable forms of [consent] / [deposit_ok].  The environment is read from the history's own
    inputs (markers, sanctions and block time change only by environment steps that cannot fail)
    and, for the authz grants and the quarantine records, from the implementation's observation
    BEFORE the step ([gr], [qr]).  For a marker the checker insists on the marker clause (theorem
    C09_marker_out_needs_withdraw shows the model always provides it). *)
Definition consent_b (s : state) (gr : list grant) (qr : list qrec) (op0 : op) (d : sid) (h : addr)
  (h1 : option addr) : bool :=
  let sg := signers_of op0 in
  match marker_of s h with
  | Some m => any_in sg (mk_withdraw m) && negb (is_accept op0)
  | None =>
      mem h sg ||
      (match kind_of op0 with Some k => existsb (fun g => usable (now s) gr h g k) sg | None => false end) ||
      (N.eqb h QHOLD &&
       match op0 with
       | OAccept to froms _ =>
           opt_is h1 to &&
           existsb (fun r => accepted to froms r && mem d (map fst (q_coins r))) qr
       | _ => false
       end)
  end.

(** The grant through which a holder's consent was given (the holder neither signed nor is a marker)
    was live before the message and has been used once by it (theorem C09_grant_use_is_consumed):
    read from the implementation's grants before ([gr]) and after ([gr']) the step. *)
Definition opt_grant_eqb (x y : option grant) : bool :=
  match x, y with Some a, Some b => grant_eqb a b | None, None => true | _, _ => false end.
Definition grant_used_b (s : state) (gr gr' : list grant) (op0 : op) (h : addr) : bool :=
  let sg := signers_of op0 in
  match kind_of op0, marker_of s h with
  | Some k, None =>
      mem h sg ||
      existsb (fun g => match lookup gr h g k with
                        | Some g0 => live (now s) g0 && opt_grant_eqb (lookup gr' h g k) (after_use g0)
                        | None => false
                        end) sg
  | _, _ => true
  end.

Definition deposit_b (s : state) (op0 : op) (n : addr) : bool :=
  match marker_of s n with
  | Some m => if mk_restricted m
              then any_in (signers_of op0) (mk_deposit m) || (is_accept op0 && mem QHOLD (mk_deposit m))
              else true
  | None => true
  end.

Definition oq_eqb (x y : option (option addr)) : bool :=
  match x, y with
  | None, None => true
  | Some a, Some b => opt_addr_eqb a b
  | _, _ => false
  end.

Definition same_obs (ids : list sid) (accts : list addr) (a b : obs) : bool :=
  forallb (fun d => forallb (fun x => Z.eqb (bal_of (obal a d) x) (bal_of (obal b d) x)) accts &&
                    Z.eqb (osup a d) (osup b d) && opt_addr_eqb (ovo a d) (ovo b d) &&
                    oq_eqb (oq a d) (oq b d)) ids &&
  grants_same (o_gr a) (o_gr b) && qrecs_same ids (o_qr a) (o_qr b).

(** Every scope whose holder (by the balances) differs from the one before the step: the previous
    holder, if any, consented; a new holder that is a restricted marker got it from someone with
    deposit access. *)
Definition changes_justified (ids : list sid) (s : state) (op0 : op) (prev cur : obs) : bool :=
  forallb (fun d =>
    let h0 := oholder prev d in
    let h1 := oholder cur d in
    if opt_addr_eqb h0 h1 then true else
    (match h0 with Some h => consent_b s (o_gr prev) (o_qr prev) op0 d h h1 | None => true end) &&
    (match h1 with Some n => deposit_b s op0 n | None => true end)) ids.

(** The tokens of a sanctioned holder stay where they are (theorem C09_sanctioned_owner_keeps_token). *)
Definition grants_used (ids : list sid) (s : state) (op0 : op) (prev cur : obs) : bool :=
  forallb (fun d =>
    match oholder prev d with
    | Some h => if opt_is (oholder cur d) h then true else grant_used_b s (o_gr prev) (o_gr cur) op0 h
    | None => true
    end) ids.

Definition sanctioned_keep (ids : list sid) (s : state) (prev cur : obs) : bool :=
  forallb (fun d => match oholder prev d with
                    | Some h => if mem h (sanctioned s) then opt_is (oholder cur d) h else true
                    | None => true
                    end) ids.

Definition delete_burns (op0 : op) (o : obs) : bool :=
  match op0 with
  | ODelete _ d => if o_ok o then Z.eqb (osup o d) 0 && is_nil (obal o d) && (match oq o d with None => true | Some _ => false end)
                   else true
  | _ => true
  end.

(** An accepted bulk change moved EVERY listed scope (every scope of the migrated owner) to the new
    owner or, when that owner quarantines the sender, to the quarantine funds holder. *)
Definition to_new (o : obs) (p : addr) (d : sid) : bool :=
  opt_is (oholder o d) p || opt_is (oholder o d) QHOLD.
Definition bulk_all (ids : list sid) (op0 : op) (prev cur : obs) : bool :=
  if negb (o_ok cur) then true else
  match op0 with
  | OUpdate _ ds p => forallb (to_new cur p) ds
  | OMigrate _ e p => forallb (fun d => if opt_is (oholder prev d) e then to_new cur p d else true) ids
  | _ => true
  end.

Definition prop_step (ids : list sid) (accts : list addr) (s : state) (op0 : op) (prev cur : obs) : list string :=
  tag (unique_ok ids cur) "prop:scope token not unique (supply or holders)" ++
  tag (token_has_scope ids cur) "prop:token exists for a scope that does not exist" ++
  tag (query_is_holder ids accts cur) "prop:reported value owner is not the token holder" ++
  tag (if o_ok cur then true else same_obs ids accts prev cur) "prop:rejected message changed state" ++
  tag (changes_justified ids s op0 prev cur) "prop:value owner changed without the owner's consent" ++
  tag (grants_used ids s op0 prev cur) "prop:the authz grant that gave the consent was not used up" ++
  tag (sanctioned_keep ids s prev cur) "prop:token left a sanctioned value owner" ++
  tag (bulk_all ids op0 prev cur) "prop:accepted bulk change did not move every scope" ++
  tag (records_backed ids cur) "prop:quarantine record without the token in escrow" ++
  tag (delete_burns op0 cur) "prop:deleted scope keeps its token".

(** After a step on which only the correspondence failed, the property's checkers go on alone: they
    read the model state only for what the history's own inputs determine (markers, sanctions, block
    time), so the first "prop:" failure of the rest of the history is still meaningful. *)
Fixpoint props_only (ids : list sid) (accts : list addr) (s : state) (prev : obs) (i : N)
  (steps : list (op * obs)) : list string :=
  match steps with
  | [] => []
  | (op0, o) :: rest =>
      match prop_step ids accts s op0 prev o with
      | [] => props_only ids accts (run_op s op0) o (N.succ i) rest
      | e => map (fun t => (t ++ " @step " ++ N_to_string i)%string) e
      end
  end.

Definition is_prop_tag (t : string) : bool := prefix "prop:" t.

Fixpoint check_hist (ids : list sid) (accts : list addr) (s : state) (prev : obs) (i : N)
  (steps : list (op * obs)) : list string :=
  match steps with
  | [] => []
  | (op0, o) :: rest =>
      let '(s', ok) := step s op0 in
      match corr_step ids accts s' ok o ++ prop_step ids accts s op0 prev o with
      | [] => check_hist ids accts s' o (N.succ i) rest
      | e => map (fun t => (t ++ " @step " ++ N_to_string i)%string) e ++
             (if existsb is_prop_tag e then [] else props_only ids accts s' o (N.succ i) rest)
      end
  end.

(** [CHist ids accts start obs0 steps]: [obs0] is the observation of the start state. *)
Inductive case :=
| CHist (ids : list sid) (accts : list addr) (start : state) (obs0 : obs) (steps : list (op * obs)).

Definition check (c : case) : list string :=
  match c with
  | CHist ids accts start obs0 steps =>
      corr_step ids accts start true obs0 ++ check_hist ids accts start obs0 0%N steps
  end.

Definition check_all := check_list check.
