(** Correspondence + property checker for C09 (a scope has one value owner, changed only with the
    current owner's consent).  A case is a whole history: the start environment (scope
    specifications, markers, contracts, blocked addresses), and per step the message given to the
    real handler together with what the real keepers/queries showed afterwards. *)
From Coq Require Import ZArith NArith List String Bool.
From PV Require Export Metadata.ValueOwner Corr.CorrBase.
Import ListNotations.
Open Scope string_scope.
Open Scope list_scope.
Open Scope Z_scope.

(** Observation after a step.  [o_bal]: for every scope id every account holding its denom with the
    amount (from iterating ALL bank balances, unknown accounts folded into one index); [o_sup]: bank
    supply; [o_vo]: keeper GetScopeValueOwner ([None] also when it errors); [o_q]: gRPC Scope query,
    [None] = scope not found, [Some v] = found with value_owner_address v; [o_own]: gRPC
    ValueOwnership per account. *)
Record obs := {
  o_ok : bool;
  o_bal : list (sid * list (addr * Z));
  o_sup : list (sid * Z);
  o_vo : list (sid * option addr);
  o_q : list (sid * option (option addr));
  o_own : list (addr * list sid) }.

Definition obal (o : obs) (d : sid) : list (addr * Z) := match get (o_bal o) d with Some l => l | None => [] end.
Definition osup (o : obs) (d : sid) : Z := match get (o_sup o) d with Some z => z | None => 0 end.
Definition ovo (o : obs) (d : sid) : option addr := match get (o_vo o) d with Some v => v | None => None end.
Definition oq (o : obs) (d : sid) : option (option addr) := match get (o_q o) d with Some v => v | None => None end.
Definition oown (o : obs) (a : addr) : list sid := match get (o_own o) a with Some l => l | None => [] end.

(** The holder as the balances show it. *)
Definition oholder (o : obs) (d : sid) : option addr :=
  match obal o d with [(a, _)] => Some a | _ => None end.

Definition same_sids (l1 l2 : list sid) : bool :=
  forallb (fun a => mem a l2) l1 && forallb (fun a => mem a l1) l2.

(** *** corr: model state against the observation *)
Definition corr_step (ids : list sid) (accts : list addr) (s' : state) (ok : bool) (o : obs) : list string :=
  tag (Bool.eqb ok (o_ok o)) "corr:accepted/rejected" ++
  tag (forallb (fun d => forallb (fun a => Z.eqb (balance s' a d) (bal_of (obal o d) a)) accts) ids) "corr:scope token balances" ++
  tag (forallb (fun d => Z.eqb (sup s' d) (osup o d)) ids) "corr:scope token supply" ++
  tag (forallb (fun d => opt_addr_eqb (value_owner s' d) (ovo o d)) ids) "corr:value owner" ++
  tag (forallb (fun d => Bool.eqb (match scope_of s' d with Some _ => true | None => false end)
                                  (match oq o d with Some _ => true | None => false end)) ids) "corr:scope existence".

(** *** prop: the property's checker on the observation alone *)
Definition unique_ok (ids : list sid) (o : obs) : bool :=
  forallb (fun d =>
    match obal o d with
    | [] => Z.eqb (osup o d) 0
    | [(_, v)] => Z.eqb v 1 && Z.eqb (osup o d) 1
    | _ => false
    end) ids.

Definition token_has_scope (ids : list sid) (o : obs) : bool :=
  forallb (fun d => match obal o d, oq o d with
                    | _ :: _, None => false
                    | _, _ => true
                    end) ids.

Definition query_is_holder (ids : list sid) (accts : list addr) (o : obs) : bool :=
  forallb (fun d => opt_addr_eqb (ovo o d) (oholder o d) &&
                    match oq o d with Some v => opt_addr_eqb v (oholder o d) | None => true end) ids &&
  forallb (fun a => same_sids (oown o a) (filter (fun d => opt_is (oholder o d) a) ids)) accts.

(** Executable forms of [consent] / [deposit_ok]; the environment (grants, markers) is an input of
    the history (only the environment steps change it), read from the state before the step. *)
Definition consent_b (s : state) (op0 : op) (h : addr) : bool :=
  let sg := signers_of op0 in
  mem h sg ||
  (match kind_of op0 with Some k => existsb (fun g => has_grant s h g k) sg | None => false end) ||
  (match marker_of s h with Some m => any_in sg (mk_withdraw m) | None => false end).

Definition deposit_b (s : state) (op0 : op) (n : addr) : bool :=
  match marker_of s n with
  | Some m => if mk_restricted m then any_in (signers_of op0) (mk_deposit m) else true
  | None => true
  end.

Definition oq_eqb (x y : option (option addr)) : bool :=
  match x, y with
  | None, None => true
  | Some a, Some b => opt_addr_eqb a b
  | _, _ => false
  end.

Definition same_obs (ids : list sid) (accts : list addr) (a b : obs) : bool :=
  forallb (fun d => forallb (fun x => Z.eqb (bal_of (obal a d) x) (bal_of (obal b d) x)) accts &&
                    Z.eqb (osup a d) (osup b d) && opt_addr_eqb (ovo a d) (ovo b d) &&
                    oq_eqb (oq a d) (oq b d)) ids.

(** Every scope whose holder (by the balances) differs from the one before the step: the previous
    holder, if any, consented; a new holder that is a restricted marker got it from someone with
    deposit access. *)
Definition changes_justified (ids : list sid) (s : state) (op0 : op) (prev cur : obs) : bool :=
  forallb (fun d =>
    let h0 := oholder prev d in
    let h1 := oholder cur d in
    if opt_addr_eqb h0 h1 then true else
    (match h0 with Some h => consent_b s op0 h | None => true end) &&
    (match h1 with Some n => deposit_b s op0 n | None => true end)) ids.

Definition delete_burns (op0 : op) (o : obs) : bool :=
  match op0 with
  | ODelete _ d => if o_ok o then Z.eqb (osup o d) 0 && is_nil (obal o d) && (match oq o d with None => true | Some _ => false end)
                   else true
  | _ => true
  end.

Definition prop_step (ids : list sid) (accts : list addr) (s : state) (op0 : op) (prev cur : obs) : list string :=
  tag (unique_ok ids cur) "prop:scope token not unique (supply or holders)" ++
  tag (token_has_scope ids cur) "prop:token exists for a scope that does not exist" ++
  tag (query_is_holder ids accts cur) "prop:reported value owner is not the token holder" ++
  tag (if o_ok cur then true else same_obs ids accts prev cur) "prop:rejected message changed state" ++
  tag (changes_justified ids s op0 prev cur) "prop:value owner changed without the owner's consent" ++
  tag (delete_burns op0 cur) "prop:deleted scope keeps its token".

Fixpoint check_hist (ids : list sid) (accts : list addr) (s : state) (prev : obs) (i : N)
  (steps : list (op * obs)) : list string :=
  match steps with
  | [] => []
  | (op0, o) :: rest =>
      let '(s', ok) := step s op0 in
      match corr_step ids accts s' ok o ++ prop_step ids accts s op0 prev o with
      | [] => check_hist ids accts s' o (N.succ i) rest
      | e => map (fun t => (t ++ " @step " ++ N_to_string i)%string) e
      end
  end.

(** [CHist ids accts start obs0 steps]: [obs0] is the observation of the start state. *)
Inductive case :=
| CHist (ids : list sid) (accts : list addr) (start : state) (obs0 : obs) (steps : list (op * obs)).

Definition check (c : case) : list string :=
  match c with
  | CHist ids accts start obs0 steps =>
      corr_step ids accts start true obs0 ++ check_hist ids accts start obs0 0%N steps
  end.

Definition check_all := check_list check.
