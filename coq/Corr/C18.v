(** Correspondence + property checker for C18 (genesis export/import; determinism and restart
    outcomes recorded by the harness).

    The harness runs cross-module histories on the real application, exports genesis, initialises
    a fresh application from the export, exports again (and once more), and projects the genesis
    of the modelled modules (quarantine, sanction, name, attribute, msgfees, hold, trigger) into
    Coq terms.  Hash-built store keys and bank balances the model takes as external functions
    come along as lookup tables filled from the real key constructors / bank keeper.

      corr:*   model [app_import] on the observed genesis disagrees with what the real InitGenesis
               did (accept / reject, or the genesis the real module exports afterwards); for
               exchange / marker / metadata (Corr/C18Gen.v) also: the secondary-index table the
               model's import builds differs from the raw index entries read from the imported
               chain's store, or the exporting chain's raw index entries are not the ones derived
               from its exported records (the premise of the round-trip theorems);
      prop:*   the property's own check on the implementation's observations: the export after
               import differs from the export before, a fresh chain rejects the export, module
               queries differ, raw index entries or raw store contents differ, a scripted
               scenario's observation fails, (validation:) app hashes / results / events of two
               runs or of a restarted run differ. *)
From Coq Require Import ZArith NArith List String Bool Ascii.
From PV Require Export Genesis.RoundTrip Genesis.QuarantineAccept Genesis.FullProduct Corr.CorrBase Corr.C18Gen
                       Gen.GenStorePrefixes Genesis.StorePrefixDoc.
Import ListNotations.
Open Scope string_scope.
Open Scope list_scope.
Open Scope Z_scope.

(* ---------- byte strings written as hex ---------- *)

Definition hexval (c : ascii) : N :=
  let n := N_of_ascii c in
  if (48 <=? n)%N && (n <=? 57)%N then (n - 48)%N
  else if (97 <=? n)%N && (n <=? 102)%N then (n - 87)%N
  else if (65 <=? n)%N && (n <=? 70)%N then (n - 55)%N
  else 0%N.

Fixpoint hx (s : string) : key :=
  match s with
  | String a (String b r) => (16 * hexval a + hexval b)%N :: hx r
  | _ => []
  end.

(* ---------- decidable equality of genesis values ---------- *)

Definition key_eqb : key -> key -> bool := list_eqb N.eqb.
Definition coins_eqb : coins -> coins -> bool := list_eqb (pair_eqb key_eqb Z.eqb).
Definition optZ_eqb := opt_eqb Z.eqb.

Definition acct_hold_eqb (a b : acct_hold) : bool :=
  key_eqb (ah_addr a) (ah_addr b) && coins_eqb (ah_coins a) (ah_coins b).
Definition name_rec_eqb (a b : name_rec) : bool :=
  key_eqb (nr_name a) (nr_name b) && key_eqb (nr_addr a) (nr_addr b) && Bool.eqb (nr_restricted a) (nr_restricted b).
Definition name_params_eqb (a b : name_params) : bool :=
  (np_max_seg a =? np_max_seg b)%N && (np_min_seg a =? np_min_seg b)%N &&
  (np_max_levels a =? np_max_levels b)%N && Bool.eqb (np_allow_unrestricted a) (np_allow_unrestricted b).
Definition attr_eqb (a b : attr) : bool :=
  key_eqb (at_name a) (at_name b) && key_eqb (at_value a) (at_value b) && (at_type a =? at_type b)%N &&
  key_eqb (at_addr a) (at_addr b) && optZ_eqb (at_exp a) (at_exp b) && key_eqb (at_ctype a) (at_ctype b).
Definition auto_resp_eqb (a b : auto_resp) : bool :=
  key_eqb (ar_to a) (ar_to b) && key_eqb (ar_from a) (ar_from b) && (ar_resp a =? ar_resp b)%N.
Definition qfunds_eqb (a b : qfunds) : bool :=
  key_eqb (qf_to a) (qf_to b) && list_eqb key_eqb (qf_unaccepted a) (qf_unaccepted b) &&
  coins_eqb (qf_coins a) (qf_coins b) && Bool.eqb (qf_declined a) (qf_declined b).
Definition temp_entry_eqb (a b : temp_entry) : bool :=
  key_eqb (te_addr a) (te_addr b) && (te_prop a =? te_prop b)%N && (te_status a =? te_status b)%N.
Definition sanc_params_eqb (a b : sanc_params) : bool :=
  coins_eqb (sp_sanction_min a) (sp_sanction_min b) && coins_eqb (sp_unsanction_min a) (sp_unsanction_min b).
Definition msgfee_eqb (a b : msgfee) : bool :=
  key_eqb (mf_url a) (mf_url b) && key_eqb (mf_denom a) (mf_denom b) && (mf_amt a =? mf_amt b) &&
  key_eqb (mf_recipient a) (mf_recipient b) && (mf_bips a =? mf_bips b)%N.
Definition msgfee_params_eqb (a b : msgfee_params) : bool :=
  key_eqb (mp_floor_denom a) (mp_floor_denom b) && (mp_floor_amt a =? mp_floor_amt b) &&
  (mp_nhash_per_usd_mil a =? mp_nhash_per_usd_mil b)%N && key_eqb (mp_conv_denom a) (mp_conv_denom b).
Definition trig_eqb (a b : trig) : bool :=
  (tr_id a =? tr_id b)%N && key_eqb (tr_owner a) (tr_owner b) && key_eqb (tr_body a) (tr_body b).
Definition qtrig_eqb (a b : qtrig) : bool :=
  (qt_height a =? qt_height b)%N && (qt_time a =? qt_time b) && trig_eqb (qt_trig a) (qt_trig b).
Definition gaslim_eqb (a b : gaslim) : bool := (gl_id a =? gl_id b)%N && (gl_amt a =? gl_amt b)%N.

Definition quar_genesis_eqb (a b : quar_genesis) : bool :=
  list_eqb key_eqb (qg_addrs a) (qg_addrs b) && list_eqb auto_resp_eqb (qg_autos a) (qg_autos b) &&
  list_eqb qfunds_eqb (qg_funds a) (qg_funds b).
Definition sanc_genesis_eqb (a b : sanc_genesis) : bool :=
  opt_eqb sanc_params_eqb (sg_params a) (sg_params b) && list_eqb key_eqb (sg_addrs a) (sg_addrs b) &&
  list_eqb temp_entry_eqb (sg_temps a) (sg_temps b).
Definition name_genesis_eqb (a b : name_genesis) : bool :=
  name_params_eqb (ng_params a) (ng_params b) && list_eqb name_rec_eqb (ng_bindings a) (ng_bindings b).
Definition attr_genesis_eqb (a b : attr_genesis) : bool :=
  (ag_maxlen a =? ag_maxlen b)%N && list_eqb attr_eqb (ag_attrs a) (ag_attrs b).
Definition msgfee_genesis_eqb (a b : msgfee_genesis) : bool :=
  msgfee_params_eqb (mg_params a) (mg_params b) && list_eqb msgfee_eqb (mg_fees a) (mg_fees b).
Definition hold_genesis_eqb : hold_genesis -> hold_genesis -> bool := list_eqb acct_hold_eqb.
Definition trig_genesis_eqb (a b : trig_genesis) : bool :=
  (tg_trigger_id a =? tg_trigger_id b)%N && (tg_qstart a =? tg_qstart b)%N &&
  list_eqb trig_eqb (tg_triggers a) (tg_triggers b) && list_eqb gaslim_eqb (tg_gas a) (tg_gas b) &&
  list_eqb qtrig_eqb (tg_queue a) (tg_queue b).

(** The modules on which two genesis values differ. *)
Definition genesis_diff (a b : app_genesis) : list string :=
  tag (quar_genesis_eqb (g_quar a) (g_quar b)) "quarantine" ++
  tag (sanc_genesis_eqb (g_sanc a) (g_sanc b)) "sanction" ++
  tag (name_genesis_eqb (g_name a) (g_name b)) "name" ++
  tag (attr_genesis_eqb (g_attr a) (g_attr b)) "attribute" ++
  tag (msgfee_genesis_eqb (g_fees a) (g_fees b)) "msgfees" ++
  tag (hold_genesis_eqb (g_hold a) (g_hold b)) "hold" ++
  tag (trig_genesis_eqb (g_trig a) (g_trig b)) "trigger".

(* ---------- the external functions, as tables filled by the harness ---------- *)

Record tables := {
  t_name_keys : list (key * key);                 (* name -> types.GetNameKeyPrefix(name) *)
  t_attr_keys : list (key * key * key * key);     (* (address string, name, value) -> AddrAttributeKey *)
  t_fee_keys : list (key * key);                  (* msg type url -> GetMsgFeeKey *)
  t_spend : list (key * key * Z);                 (* (addr, denom) -> bank balance not counting holds *)
  t_holder : list (key * Z);                      (* denom -> balance of the quarantine funds holder *)
  t_now : Z;                                      (* genesis time of the importing chain, unix seconds *)
  t_acctdata : key; t_modaddr : key;
  t_unsanctionable : list key }.

Fixpoint lookup1 {V} (d : V) (l : list (key * V)) (k : key) : V :=
  match l with
  | [] => d
  | (k', v) :: r => if key_eqb k k' then v else lookup1 d r k
  end.
Fixpoint lookup2 {V} (d : V) (l : list (key * key * V)) (k1 k2 : key) : V :=
  match l with
  | [] => d
  | (a, b, v) :: r => if key_eqb k1 a && key_eqb k2 b then v else lookup2 d r k1 k2
  end.
Fixpoint lookup3 {V} (d : V) (l : list (key * key * key * V)) (k1 k2 k3 : key) : V :=
  match l with
  | [] => d
  | (a, b, c, v) :: r => if key_eqb k1 a && key_eqb k2 b && key_eqb k3 c then v else lookup3 d r k1 k2 k3
  end.

Definition ext_of (t : tables) : ext :=
  {| x_name_key := lookup1 [] (t_name_keys t);
     x_name_norm := fun _ n => Some n;
     x_addr_valid := fun a => negb (Nat.eqb (List.length a) 0);
     x_attr_key := fun a => lookup3 [] (t_attr_keys t) (at_addr a) (at_name a) (at_value a);
     x_attr_valid := fun _ => true;
     x_attr_norm := fun n => Some n;
     x_rec_id := fun l => List.concat (ksort l);     (* senders sorted, as createRecordSuffix hashes them *)
     x_unsanctionable := fun a => existsb (key_eqb a) (t_unsanctionable t);
     x_msgfee_key := lookup1 [] (t_fee_keys t);
     x_msgfee_valid := fun _ => true;
     x_trig_valid := fun _ => true;
     x_spend := lookup2 0 (t_spend t);
     x_holder := lookup1 0 (t_holder t);
     x_now := t_now t;
     x_acctdata := t_acctdata t; x_attr_modaddr := t_modaddr t |}.

(* ---------- cases ---------- *)

Inductive case :=
(** g1 = export of a chain's state; g2 = what the modules of a fresh chain initialised from g1
    export (before any block runs).  Emitted for the history's final state and once more for the
    re-imported chain one block later (second generation). *)
| CRound (label : string) (t : tables) (g1 g2 : app_genesis)
(** a perturbed genesis (duplicates, reordering, zero / negative / expired / unspecified entries)
    given to the real InitChain: did it come up, and what do the modules export then. *)
| CImport (label : string) (t : tables) (g : app_genesis) (obs : option app_genesis)
(** canonical-JSON equality of a module's exported genesis: before import vs after the first
    import, and after the first vs after the second import (all custom modules, modelled or not). *)
| CJson (label modname : string) (eq12 eq23 : bool)
(** names of the module queries whose answers differ between the exporting chain and the
    chain initialised from the export. *)
| CQueries (label : string) (differing : list string)
(** a fresh chain initialised from the export came up; so did one from the second export. *)
| CAccepts (label : string) (first second : bool)
(** validation, not proof: per-block digests (app hash, tx results, events) of a reference run
    and of another run of the same history ([kind] = "rerun", "process", "restart"); with
    [kind] = "postimport": results and events of the blocks the exporting chain and the chain
    initialised from its export run next (import-then-continue equals continue). *)
| CDigests (label kind : string) (ref other : list string)
(** exchange / marker / metadata: genesis exported by a chain (g1) and by the modules of a fresh
    chain initialised from it (g2, before any block), with the raw secondary-index entries of
    the three stores on both sides. *)
| CDeepRound (label : string) (t : deep_tables) (g1 g2 : deep_genesis) (ix1 ix2 : deep_index)
(** a perturbed exchange / marker / metadata genesis through the real InitChain *)
| CDeepImport (label : string) (t : deep_tables) (g : deep_genesis) (obs : option (deep_genesis * deep_index))
(** raw key/value content of a module's store on the exporting chain and on the chain
    initialised from its export, after both ran the same blocks: number of differing entries *)
| CStore (label modname : string) (differing : N)
(** a scripted scenario on the real application: named boolean observations that must all hold *)
| CScenario (label : string) (observations : list (string * bool))
(** one life-cycle marker: the record MsgAddMarker stored, then every finalize / activate / cancel /
    delete asked of it with the caller, whether the real chain accepted it, and the marker's status
    and manager after the block (Genesis/MarkerLifecycle.v) *)
| CMarkerLife (label : string) (init : lmarker) (ops : list lobs)
(** the first key bytes present in a module's store on the exporting chain: each must be a prefix
    the module declares (Gen/GenStorePrefixes.v, regenerated from the source, reviewed in
    Genesis/StorePrefixDoc.v) *)
| CPrefixes (label modname : string) (first_bytes : list N).

Definition model_roundtrip (t : tables) (g : app_genesis) : option app_genesis :=
  match app_import (ext_of t) g with
  | Some s => Some (app_export (ext_of t) s)
  | None => None
  end.

Definition prefix_all (p : string) (l : list string) : list string := map (fun s => (p ++ s)%string) l.

Definition check (c : case) : list string :=
  match c with
  | CRound _ t g1 g2 =>
      (match model_roundtrip t g1 with
       | None => ["corr:model_import_rejects_real_export"]
       | Some g' => prefix_all "corr:model_export_of_import:" (genesis_diff g' g1)
       end) ++
      prefix_all "prop:export_after_import_differs:" (genesis_diff g1 g2)
  | CImport _ t g obs =>
      match model_roundtrip t g, obs with
      | None, None => []
      | Some g', Some o => prefix_all "corr:perturbed_import_state:" (genesis_diff g' o)
      | None, Some _ => ["corr:perturbed_import_model_rejects"]
      | Some _, None => ["corr:perturbed_import_model_accepts"]
      end
  | CJson _ m eq12 eq23 =>
      tag eq12 ("prop:module_genesis_differs_after_import:" ++ m)%string ++
      tag eq23 ("prop:module_genesis_differs_after_second_import:" ++ m)%string
  | CQueries _ d => prefix_all "prop:query_differs_after_import:" d
  | CAccepts _ a b =>
      tag a "prop:fresh_chain_rejects_export" ++ tag b "prop:reimported_chain_export_rejected"
  | CDeepRound _ t g1 g2 ix1 ix2 => deep_round t g1 g2 ix1 ix2
  | CDeepImport _ t g obs =>
      match exch_model t (dg_exch g), marker_model t (dg_marker g), md_model t (dg_md g), obs with
      | Some ex, Some mk, Some md, Some (o, ixo) =>
          module_import "exchange" exch_genesis_q (exch_model t) (dg_exch g) (Some (dg_exch o, di_exch ixo)) ++
          module_import "marker" marker_genesis_q (marker_model t) (dg_marker g) (Some (dg_marker o, di_marker ixo)) ++
          module_import "metadata" md_genesis_q (md_model t) (dg_md g) (Some (dg_md o, di_md ixo))
      | Some _, Some _, Some _, None => ["corr:perturbed_import_model_accepts:deep"]
      | _, _, _, Some _ => ["corr:perturbed_import_model_rejects:deep"]
      | _, _, _, None => []
      end
  | CStore _ m d => tag (d =? 0)%N ("prop:store_differs_after_import:" ++ m)%string
  | CScenario _ obs => flat_map (fun ob => tag (snd ob) ("prop:" ++ fst ob)%string) obs
  | CMarkerLife _ m ops =>
      match lm_check 0 m ops with
      | None => []
      | Some i => [("corr:marker_lifecycle_step:" ++ N_to_string (N.of_nat i))%string]
      end
  | CPrefixes _ m bs =>
      tag (forallb (fun b => existsb (N.eqb b) (module_prefix_bytes gen_store_prefixes m)) bs)
          ("corr:store_holds_undeclared_prefix:" ++ m)%string
  | CDigests _ kind r o =>
      tag (list_eqb String.eqb r o)
          (if String.eqb kind "restart" then "prop:restart_digests_differ"
           else if String.eqb kind "shadow" then "prop:state_depends_on_process_history"
           else if String.eqb kind "postimport" then "prop:blocks_after_import_differ"
           else ("prop:determinism_digests_differ:" ++ kind)%string)
  end.

Definition check_all := check_list check.
