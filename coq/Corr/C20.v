(** Correspondence + property checker for C20 (market admission: flags, attributes, fees).
    A case is one market as handed to MsgGovCreateMarket (fee tables, flags, the three required
    attribute lists exactly as given), whether the real code created it, and a list of probes made
    against it through the real keeper / message handlers, each with the observed accept (true) /
    reject (false).  When the market was not created the probes ran against an unknown market id.
    Account attributes are the names AttributeKeeper.GetAllAttributesAddr returned for the account. *)
From Coq Require Import ZArith NArith List String Bool.
From PV Require Export Exchange.Arith Exchange.ReqAttr Exchange.FeeCheck Exchange.AdmitSpec Corr.CorrBase.
Import ListNotations.
Open Scope string_scope.
Open Scope list_scope.
Open Scope Z_scope.

Inductive flat_kind := KCreateAsk | KCreateBid | KCreateCom | KSellerFlat.
Inductive attr_kind := RAsk | RBid | RCom.

Inductive probe :=
| PFlat (k : flat_kind) (fee : option coin) (obs : bool)         (* Keeper.ValidateCreate*FlatFee / ValidateSellerSettlementFlatFee *)
| PBuyer (price : coin) (fee : list coin) (obs : bool)           (* Keeper.ValidateBuyerSettlementFee *)
| PAskPrice (price : coin) (flat : option coin) (obs : bool)     (* Keeper.ValidateAskPrice *)
| PCan (k : attr_kind) (accs : list string) (obs : bool)         (* Keeper.CanCreateAsk/Bid/Commitment *)
| PAct (accs : list string) (a : action) (obs : bool)            (* message handler, funds available *)
| PFlags (ao us ac : bool).                                       (* Keeper.Update*: the flags from here on *)

Inductive case := CMarket (m : market) (created : bool) (probes : list probe).

Definition flat_table (m : market) (k : flat_kind) : list coin :=
  match k with
  | KCreateAsk => m_create_ask m | KCreateBid => m_create_bid m
  | KCreateCom => m_create_com m | KSellerFlat => m_seller_flat m
  end.
Definition stored_reqs (s : stored) (k : attr_kind) : list bytes :=
  match k with RAsk => s_req_ask s | RBid => s_req_bid s | RCom => s_req_com s end.
Definition raw_reqs (m : market) (k : attr_kind) : list string :=
  match k with RAsk => m_req_ask m | RBid => m_req_bid m | RCom => m_req_com m end.

(** Both directions of the property, named separately so that a failing tag says which one broke. *)
Definition tag2 (spec obs : bool) (admitted refused : string) : list string :=
  match spec, obs with
  | false, true => [admitted]
  | true, false => [refused]
  | _, _ => []
  end.

Definition check_probe (m : market) (created : bool) (mk : option stored) (p : probe) : list string :=
  let s := tables mk in
  let sm := s_mkt s in
  (* the market the property speaks about: the configuration as given, or nothing *)
  let pm := if created then m else empty_market in
  match p with
  | PFlat k fee obs =>
      tag (Bool.eqb (validate_flat_fee (flat_table sm k) fee) obs) "corr:validate_flat_fee" ++
      tag2 (flat_fee_spec (flat_table pm k) fee) obs
           "prop:insufficient_flat_fee_accepted" "prop:sufficient_flat_fee_refused"
  | PBuyer price fee obs =>
      tag (Bool.eqb (validate_buyer_settlement_fee (m_buyer_flat sm) (m_buyer_ratios sm) price fee) obs)
          "corr:validate_buyer_settlement_fee" ++
      tag2 (buyer_fee_spec (m_buyer_flat pm) (m_buyer_ratios pm) price fee) obs
           "prop:insufficient_buyer_fee_accepted" "prop:sufficient_buyer_fee_refused"
  | PAskPrice price flat obs =>
      tag (Bool.eqb (validate_ask_price (m_seller_ratios sm) price flat) obs) "corr:validate_ask_price" ++
      tag2 (ask_price_spec (m_seller_ratios pm) price flat) obs
           "prop:ask_price_below_fees_accepted" "prop:ask_price_above_fees_refused"
  | PCan k accs obs =>
      let al := map bytes_of accs in
      tag (Bool.eqb (acct_has_req_attrs (stored_reqs s k) al) obs) "corr:can_create" ++
      tag2 (attrs_spec (raw_reqs pm k) al) obs
           "prop:account_without_required_attributes_allowed" "prop:account_with_required_attributes_refused"
  | PAct accs a obs =>
      let al := map bytes_of accs in
      tag (Bool.eqb (admits mk al a) obs) "corr:admission" ++
      tag2 (admit_spec created m al a) obs
           "prop:ineligible_request_admitted" "prop:eligible_request_refused"
  | PFlags _ _ _ => []
  end.

(** The probes in order; a [PFlags] probe changes the flags for the probes after it.  The failures
    of the first failing probe are reported with its position. *)
Fixpoint check_probes (m : market) (created : bool) (mk : option stored) (i : N) (ps : list probe)
  : list string :=
  match ps with
  | [] => []
  | PFlags ao us ac :: r =>
      check_probes (set_flags m ao us ac) created
                   (match mk with Some s => Some (set_flags_stored s ao us ac) | None => None end)
                   (N.succ i) r
  | p :: r =>
      match check_probe m created mk p with
      | [] => check_probes m created mk (N.succ i) r
      | e => map (fun t => (t ++ " @step " ++ N_to_string i)%string) e
      end
  end.

Definition check (c : case) : list string :=
  match c with
  | CMarket m created probes =>
      let mk := create_market m in
      if Bool.eqb (is_some mk) created then
        check_probes m created mk 0%N probes
      else ["corr:create_market"]
  end.

Definition check_all := check_list check.
