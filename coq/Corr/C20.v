(** Correspondence + property checker for C20 (market admission: flags, attributes, fees).
    A case is one market as handed to MsgGovCreateMarket (fee tables, flags, bips, intermediary
    denom, the three required attribute lists exactly as given), whether the real code created it,
    and a list of probes made against it through the real keeper / message handlers / query
    server, in order, each with what was observed.  Some probes CHANGE the market (flag updates,
    MsgGovManageFees, MsgMarketManageReqAttrs): the probes after them meet the changed market.
    When the market was not created the probes ran against an unknown market id.
    Account attributes are the names AttributeKeeper.GetAllAttributesAddr returned for the account. *)
From Coq Require Import ZArith NArith List String Bool.
From PV Require Export Exchange.Arith Exchange.ReqAttr Exchange.FeeCheck Exchange.AdmitSpec Corr.CorrBase.
Import ListNotations.
Open Scope string_scope.
Open Scope list_scope.
Open Scope Z_scope.

Inductive flat_kind := KCreateAsk | KCreateBid | KCreateCom | KSellerFlat | KBuyerFlat.
Inductive attr_kind := RAsk | RBid | RCom.

(** What a quote-derived request claims about itself. *)
Inductive quoted := QExact | QExactZero | QBelowSingle.

Inductive probe :=
| PFlat (k : flat_kind) (fee : option coin) (obs : bool)         (* Keeper.ValidateCreate*FlatFee / ValidateSellerSettlementFlatFee *)
| PBuyer (price : coin) (fee : list coin) (obs : bool)           (* Keeper.ValidateBuyerSettlementFee *)
| PAskPrice (price : coin) (flat : option coin) (obs : bool)     (* Keeper.ValidateAskPrice *)
| PCan (k : attr_kind) (accs : list string) (obs : bool)         (* Keeper.CanCreateAsk/Bid/Commitment *)
| PAct (accs : list string) (a : action) (obs : bool)            (* ValidateBasic + message handler, funds available *)
| PFlags (ao us ac : bool)                                        (* Keeper.Update*: the flags from here on *)
| PFees (f : fee_msg) (obs : bool)                                (* MsgGovManageFees: ValidateBasic + handler *)
| PAttrs (a : attr_msg) (obs : bool)                              (* MsgMarketManageReqAttrs: ValidateBasic + handler *)
| PReqs (k : attr_kind) (obs : list string)                       (* Keeper.GetReqAttrsAsk/Bid/Commitment *)
| PTable (k : flat_kind) (obs : list coin)                        (* Keeper.Get*FlatFees *)
| PRatios (seller : bool) (obs : list ratio)                      (* Keeper.GetSeller/BuyerSettlementRatios *)
| PBips (obs : Z)                                                 (* Keeper.GetCommitmentSettlementBips *)
| PFlagState (ao us ac : bool)                                    (* the three indicator entries as the keeper reads them *)
| PQuoteAsk (price : coin) (obs : option quote)                   (* QueryServer.OrderFeeCalc, ask *)
| PQuoteBid (price : coin) (obs : option quote)                   (* QueryServer.OrderFeeCalc, bid *)
| PQuoted (q : quoted) (accs : list string) (a : action) (obs : bool)   (* a request whose fees were taken from the observed quote *)
| PComQuote (fee_denom : string) (navs : list nav) (total : list coin)
            (obs : option (option Z)) (settle : option bool).     (* CommitmentSettlementFeeCalc; MsgMarketCommitmentSettle *)

(** [CMarketPre]: before the market was created with an explicit id, the governance authority sent
    the configuration messages [pre] for that (not yet existing) id, each with the observed outcome. *)
Inductive case :=
| CMarket (m : market) (created : bool) (probes : list probe)
| CMarketPre (pre : list (pre_op * bool)) (m : market) (created : bool) (probes : list probe).

Definition flat_table (m : market) (k : flat_kind) : list coin :=
  match k with
  | KCreateAsk => m_create_ask m | KCreateBid => m_create_bid m
  | KCreateCom => m_create_com m | KSellerFlat => m_seller_flat m
  | KBuyerFlat => m_buyer_flat m
  end.
Definition stored_reqs (s : stored) (k : attr_kind) : list bytes :=
  match k with RAsk => s_req_ask s | RBid => s_req_bid s | RCom => s_req_com s end.
Definition raw_reqs (m : market) (k : attr_kind) : list string :=
  match k with RAsk => m_req_ask m | RBid => m_req_bid m | RCom => m_req_com m end.

(** Both directions of the property, named separately so that a failing tag says which one broke. *)
Definition tag2 (spec obs : bool) (admitted refused : string) : list string :=
  match spec, obs with
  | false, true => [admitted]
  | true, false => [refused]
  | _, _ => []
  end.

(** Listings come out of the store in key order: compared as sets of equal size. *)
Definition same_set {A} (eqb : A -> A -> bool) (l1 l2 : list A) : bool :=
  Nat.eqb (List.length l1) (List.length l2) &&
  forallb (fun a => existsb (eqb a) l2) l1 && forallb (fun a => existsb (eqb a) l1) l2.
Definition quote_eqb (a b : quote) : bool :=
  let '(c1, f1, r1) := a in
  let '(c2, f2, r2) := b in
  same_set coin_eqb c1 c2 && same_set coin_eqb f1 f2 && same_set coin_eqb r1 r2.
Definition optZ_eqb (a b : option Z) : bool := opt_eqb Z.eqb a b.

(** The stored lists must be normalised (fixed points of NormalizeName), valid and duplicate-free. *)
Definition reqs_normalised (l : list bytes) : bool :=
  forallb (fun e => bytes_eqb (normalize_name e) e && is_valid_req_attr e) l && nodup_bytes l.

Definition check_probe (m : market) (created : bool) (mk : option stored) (p : probe) : list string :=
  let s := tables mk in
  let sm := s_mkt s in
  (* the market the property speaks about: the configuration as given and changed, or nothing *)
  let pm := if created then m else empty_market in
  match p with
  | PFlat k fee obs =>
      tag (Bool.eqb (validate_flat_fee (flat_table sm k) fee) obs) "corr:validate_flat_fee" ++
      tag2 (flat_fee_spec (flat_table pm k) fee) obs
           "prop:insufficient_flat_fee_accepted" "prop:sufficient_flat_fee_refused"
  | PBuyer price fee obs =>
      tag (Bool.eqb (validate_buyer_settlement_fee (m_buyer_flat sm) (m_buyer_ratios sm) price fee) obs)
          "corr:validate_buyer_settlement_fee" ++
      tag2 (buyer_fee_spec (m_buyer_flat pm) (m_buyer_ratios pm) price fee) obs
           "prop:insufficient_buyer_fee_accepted" "prop:sufficient_buyer_fee_refused"
  | PAskPrice price flat obs =>
      tag (Bool.eqb (validate_ask_price (m_seller_ratios sm) price flat) obs) "corr:validate_ask_price" ++
      tag2 (ask_price_spec (m_seller_ratios pm) price flat) obs
           "prop:ask_price_below_fees_accepted" "prop:ask_price_above_fees_refused"
  | PCan k accs obs =>
      let al := map bytes_of accs in
      tag (Bool.eqb (acct_has_req_attrs (stored_reqs s k) al) obs) "corr:can_create" ++
      tag2 (attrs_spec (raw_reqs pm k) al) obs
           "prop:account_without_required_attributes_allowed" "prop:account_with_required_attributes_refused"
  | PAct accs a obs =>
      let al := map bytes_of accs in
      tag (Bool.eqb (admits_msg mk al a) obs) "corr:admission" ++
      tag2 (admit_spec_msg created m al a) obs
           "prop:ineligible_request_admitted" "prop:eligible_request_refused"
  | PQuoted q accs a obs =>
      let al := map bytes_of accs in
      tag (Bool.eqb (admits_msg mk al a) obs) "corr:admission_of_quoted_fee" ++
      match q with
      | QExact =>
          (* the fees were put together from the options the query returned: an eligible,
             well-formed request paying them must be admitted *)
          if request_wf a && eligible_spec created m al a && negb obs
          then ["prop:quoted_fee_refused"] else []
      | QExactZero => []     (* judged in [check_probes]: a known finding must not hide later probes *)
      | QBelowSingle =>
          (* one coin, one unit below flat + ratio of its denom as quoted: must be refused *)
          if obs then ["prop:less_than_quoted_fee_admitted"] else []
      end
  | PReqs k obs =>
      let ol := map bytes_of obs in
      tag (list_bytes_eqb (stored_reqs s k) ol) "corr:stored_required_attributes" ++
      tag (reqs_normalised ol) "prop:stored_required_attributes_not_normalised" ++
      (* what is stored is the normalised form of the configuration as written and changed *)
      tag (list_bytes_eqb (map (fun r => normalize_name (bytes_of r)) (raw_reqs pm k)) ol)
          "prop:stored_required_attributes_differ_from_configuration"
  | PTable k obs =>
      tag (same_set coin_eqb (flat_table sm k) obs) "corr:flat_fee_table" ++
      tag (same_set coin_eqb (flat_table pm k) obs) "prop:flat_fee_table_differs_from_configuration"
  | PRatios seller obs =>
      tag (same_set ratio_eqb (if seller then m_seller_ratios sm else m_buyer_ratios sm) obs) "corr:ratio_table" ++
      tag (same_set ratio_eqb (if seller then m_seller_ratios pm else m_buyer_ratios pm) obs)
          "prop:ratio_table_differs_from_configuration"
  | PBips obs => tag (m_bips sm =? obs) "corr:commitment_settlement_bips" ++
                 tag (m_bips pm =? obs) "prop:commitment_bips_differ_from_configuration"
  | PFlagState ao us ac =>
      tag (Bool.eqb (m_accepting_orders sm) ao && Bool.eqb (m_user_settle sm) us &&
           Bool.eqb (m_accepting_commitments sm) ac) "corr:flag_entries" ++
      (if created then
         tag (Bool.eqb (m_accepting_orders pm) ao && Bool.eqb (m_user_settle pm) us &&
              Bool.eqb (m_accepting_commitments pm) ac) "prop:flags_differ_from_configuration"
       else [])
  | PQuoteAsk price obs =>
      tag (opt_eqb quote_eqb (quote_ask mk price) obs) "corr:order_fee_calc_ask" ++
      tag (opt_eqb quote_eqb (quote_ask_spec created m price) obs) "prop:order_fee_calc_differs_from_required_fees"
  | PQuoteBid price obs =>
      tag (opt_eqb quote_eqb (quote_bid mk price) obs) "corr:order_fee_calc_bid" ++
      tag (opt_eqb quote_eqb (quote_bid_spec created m price) obs) "prop:order_fee_calc_differs_from_required_fees"
  | PComQuote fd navs total obs settle =>
      let q := commitment_quote mk fd navs total in
      tag (opt_eqb optZ_eqb q obs) "corr:commitment_settlement_fee_calc" ++
      match settle with
      | Some b => tag (Bool.eqb (is_some q) b) "corr:commitment_settle_fee_step" ++
                  tag (Bool.eqb (is_some obs) b) "prop:commitment_settlement_charge_differs_from_quote"
      | None => []
      end
  | PFlags _ _ _ | PFees _ _ | PAttrs _ _ => []
  end.

(** The quote offered a ratio option of amount zero (a buyer ratio for the price denom whose charge
    for this price is 0) and the request, paying exactly the quoted options, carries no coin for
    it (a zero coin cannot be sent).  The unchanged code refuses such a request: findings/C20.md. *)
Definition zero_ratio_quoted (m : market) (a : action) : bool :=
  let z price := existsb (fun r => String.eqb (r_pd r) (denom_of price) &&
                                   opt_eqb Z.eqb (apply_to_loosely (r_pa r) (r_fa r) (amt_of price)) (Some 0))
                         (m_buyer_ratios m) in
  match a with
  | ACreateBid price _ _ => z price
  | AFillAsks _ price _ _ => z price
  | _ => false
  end.
Definition soft_tag : string := "prop:quoted_fee_with_zero_ratio_option_refused".
Definition check_zero_quote (m : market) (created : bool) (accs : list string) (a : action) (obs : bool)
  : list string * list string :=                                   (* (hard, soft) *)
  let al := map bytes_of accs in
  if request_wf a && eligible_spec created m al a && negb obs then
    if zero_ratio_quoted m a then ([], [soft_tag]) else (["corr:zero_ratio_option_claimed"], [])
  else ([], []).

Definition with_step (t : list string) (i : N) : list string :=
  map (fun x => (x ++ " @step " ++ N_to_string i)%string) t.

(** The probes in order; [PFlags], [PFees] and [PAttrs] change the market for the probes after
    them: [m] is the configuration (changed declaratively, [step_cfg]), [mk] the model's store
    (changed by the transcription, [step_stored]).  The failures of the first failing probe are
    reported with its position. *)
Fixpoint check_probes (m : market) (created : bool) (mk : option stored) (i : N) (soft : list string)
         (ps : list probe) : list string :=
  match ps with
  | [] => soft
  | PFlags ao us ac :: r =>
      check_probes (step_cfg m (UFlags ao us ac)) created
                   (option_map (fun s => step_stored s (UFlags ao us ac)) mk) (N.succ i) soft r
  | PFees f obs :: r =>
      (* the handler does not look at the market: accepted iff ValidateBasic passes *)
      if Bool.eqb (fee_msg_valid f) obs then
        check_probes (step_cfg m (UFees f)) created
                     (option_map (fun s => step_stored s (UFees f)) mk) (N.succ i) soft r
      else with_step ["corr:manage_fees_accepted"] i
  | PAttrs a obs :: r =>
      let model_ok := match mk with Some s => is_some (manage_req_attrs s a) | None => false end in
      let cfg_ok := created && is_some (cfg_manage_req_attrs m a) in
      match tag (Bool.eqb model_ok obs) "corr:manage_req_attrs_accepted" ++
            tag (Bool.eqb cfg_ok obs) "prop:required_attribute_change_not_as_configured" with
      | [] => check_probes (step_cfg m (UAttrs a)) created
                           (option_map (fun s => step_stored s (UAttrs a)) mk) (N.succ i) soft r
      | e => with_step e i
      end
  | p :: r =>
      match check_probe m created mk p with
      | [] =>
          match p with
          | PQuoted QExactZero accs a obs =>
              (* the known finding is remembered (first occurrence) and the later probes are still
                 checked: any other failure is reported instead of it *)
              match check_zero_quote m created accs a obs with
              | ([], sf) =>
                  check_probes m created mk (N.succ i)
                               (match soft with [] => with_step sf i | _ => soft end) r
              | (hard, _) => with_step hard i
              end
          | _ => check_probes m created mk (N.succ i) soft r
          end
      | e => with_step e i
      end
  end.

(** The operations sent before the creation: the model's store under the id after them, or the
    position of the first operation whose outcome the model does not predict. *)
Fixpoint check_pre (s : stored) (i : N) (pre : list (pre_op * bool)) : stored + list string :=
  match pre with
  | [] => inl s
  | (o, obs) :: r =>
      let '(s', ok) := pre_step s o in
      if Bool.eqb ok obs then check_pre s' (N.succ i) r
      else inr [("corr:operation_before_creation @pre " ++ N_to_string i)%string]
  end.

Definition check_from (mk : option stored) (m : market) (created : bool) (probes : list probe) : list string :=
  if Bool.eqb (is_some mk) created then
    check_probes m created mk 0%N [] probes
  else ["corr:create_market"].

Definition check (c : case) : list string :=
  match c with
  | CMarket m created probes => check_from (create_market m) m created probes
  | CMarketPre pre m created probes =>
      match check_pre blank_stored 0%N pre with
      | inl old => check_from (store_market old m) m created probes
      | inr e => e
      end
  end.

Definition check_all := check_list check.
