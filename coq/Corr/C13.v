(** Correspondence + property checker for C13 (exchange records, lookups, listings).

    A case is a whole history.  Every step carries the model operation the harness performed
    through the real message handlers, whether the implementation accepted it, and the
    observations made through the real gRPC query server afterwards:
      - GetOrder for every id probed, all ten listing endpoints as one big page, external-id
        lookups, GetPayment probes;
      - paging sessions: the pages obtained by following next_key / offsets.
    "corr:*"  the model (Exchange/Index.v + Exchange/Paging.v run on the same operations) and the
              implementation disagree on an observable;
    "prop:*"  the property's own checker fails on the implementation's answers alone (lookups
              compared with GetOrder / GetAllPayments, pages concatenated and compared with the
              complete listing).
    "prop:known:*" is the reported known finding (findings/C13.md), kept apart from the rest.
    Operations are joint operations [xop] (Exchange/Commit.v): order / payment operations of
    Exchange/Index.v and commitment / market operations of Exchange/Commit.v; the observations also
    carry the market listing (GetAllMarkets / GetMarket) and the four commitment lookups. *)
From Coq Require Import ZArith NArith List String Bool.
From PV Require Export Exchange.KV Exchange.Index Exchange.Paging Exchange.Commit Exchange.GenesisImport Corr.CorrBase.
Import ListNotations.
Open Scope string_scope.
Open Scope list_scope.
Open Scope N_scope.

(** Short constructors for the generated terms. *)
Definition O (bid : bool) (m : N) (own asset : bytes) (amt : Z) (ext : bytes) : order :=
  {| o_bid := bid; o_market := m; o_owner := own; o_asset := asset; o_amount := amt; o_ext := ext |}.
(** [P source source-is-upper-case external-id target target-is-upper-case amount] *)
Definition P (src : bytes) (sup : bool) (ext tgt : bytes) (tup : bool) (amt : Z) : payment :=
  {| p_source := src; p_src_up := sup; p_ext := ext; p_target := tgt; p_tgt_up := tup; p_amount := amt |}.
Definition G (mk : list (N * bool)) (lm : N) (os : list (N * order)) (lo : N)
             (cs : list (N * bytes * coins)) (ps : list payment) : genesis :=
  {| g_markets := mk; g_last_market := lm; g_orders := os; g_last_order := lo; g_commits := cs; g_pays := ps |}.

Inductive endpoint :=
| EMarket (m : N) | EOwner (a : bytes) | EAsset (d : bytes) | EAll
| EPaySrc (a : bytes) | EPayTgt (a : bytes) | EPayAll
| ECommitMkt (m : N) | ECommitAll | EMarkets.

(** A listed item: an order id, a payment identified by (source, external id), or a commitment
    identified by (market, account) with its amount. *)
Inductive item := IO (id : N) | IP (src ext : bytes) | IC (m : N) (a : bytes) (c : coins) | IM (m : N).

(** One observed page: request key/offset, whether the call succeeded, items, next_key, total. *)
Inductive pageobs := Pg (k : key) (offset : N) (ok : bool) (items : list item) (next : key) (total : N).

(** One paging session: endpoint, order-type filter, after-order id, limit, reverse, key mode
    (false = offsets), count_total, pages in the order they were requested. *)
Inductive session :=
  Se (ep : endpoint) (otype : option N) (after : N) (limit : N) (reverse keymode ctotal : bool)
     (pages : list pageobs).

Record obs := {
  ob_probed : list N;                         (* order ids asked of GetOrder *)
  ob_orders : list (N * order);               (* those found, ascending *)
  ob_mismatch : N;                            (* listing entries that differ from GetOrder(id) *)
  ob_all : list N;
  ob_mkt : list (N * list N);
  ob_own : list (bytes * list N);
  ob_asset : list (bytes * list N);
  ob_ext : list (N * bytes * option N);
  ob_pays : list payment;                     (* GetAllPayments *)
  ob_psrc : list (bytes * list payment);
  ob_ptgt : list (bytes * list payment);
  ob_pget : list (bytes * bytes * option payment);
  ob_markets : list N;                        (* GetAllMarkets: ids in listing order *)
  ob_mnames : list (N * N);                   (* GetMarket(id): the name tag the harness gave at creation *)
  ob_commits : list (N * bytes * coins);      (* GetAllCommitments *)
  ob_cmkt : list (N * list (bytes * coins));  (* GetMarketCommitments *)
  ob_cacct : list (bytes * list (N * coins)); (* GetAccountCommitments *)
  ob_cget : list (N * bytes * coins)          (* GetCommitment probes *)
}.

(** op, accepted?, id handed out (order or market creations), observations, sessions *)
Inductive hstep := St (o : xop) (ok : bool) (created : option N) (ob : obs) (ss : list session).

(** [CHist]: a history from the empty store.  [CGen g names ok steps]: InitGenesis of [g] on the empty
    store ([ok] = it did not panic and Validate passed; [names] = the name tags of its markets),
    then a history from the imported state (the first step is an observation of that state). *)
Inductive case :=
| CHist (steps : list hstep)
| CGen (g : genesis) (names : list (N * N)) (ok : bool) (steps : list hstep).

(** ---- equality tests ---- *)
Definition order_eqb (a b : order) : bool :=
  Bool.eqb (o_bid a) (o_bid b) && (o_market a =? o_market b) && bytes_eqb (o_owner a) (o_owner b) &&
  bytes_eqb (o_asset a) (o_asset b) && Z.eqb (o_amount a) (o_amount b) && bytes_eqb (o_ext a) (o_ext b).
Definition pay_eqb (a b : payment) : bool :=
  bytes_eqb (p_source a) (p_source b) && Bool.eqb (p_src_up a) (p_src_up b) &&
  bytes_eqb (p_ext a) (p_ext b) &&
  bytes_eqb (p_target a) (p_target b) && Bool.eqb (p_tgt_up a) (p_tgt_up b) &&
  Z.eqb (p_amount a) (p_amount b).
Definition item_eqb (a b : item) : bool :=
  match a, b with
  | IO x, IO y => x =? y
  | IP s e, IP s' e' => bytes_eqb s s' && bytes_eqb e e'
  | IC m a c, IC m' a' c' => (m =? m') && bytes_eqb a a' && coins_eqb c c'
  | IM m, IM m' => m =? m'
  | _, _ => false
  end.
Definition ac_eqb (x y : bytes * coins) : bool := bytes_eqb (fst x) (fst y) && coins_eqb (snd x) (snd y).
Definition mc_eqb (x y : N * coins) : bool := (fst x =? fst y) && coins_eqb (snd x) (snd y).
Definition mac_eqb (x y : N * bytes * coins) : bool :=
  (fst (fst x) =? fst (fst y)) && bytes_eqb (snd (fst x)) (snd (fst y)) && coins_eqb (snd x) (snd y).
Definition ids_eqb := list_eqb N.eqb.
Definition pays_eqb := list_eqb pay_eqb.
Definition items_eqb := list_eqb item_eqb.
Definition pay_item (p : payment) : item := IP (p_source p) (p_ext p).

(** ---- the model side ---- *)
Definition model_page (xs : xstate) (ep : endpoint) (otype : option N) (after : N) (rq : page_req)
  : option (list item * page_resp) :=
  let s := fst xs in
  let kv := cs_kv (snd xs) in
  let ord (r : option (list (N * order) * page_resp)) :=
    match r with Some (l, resp) => Some (map (fun x => IO (fst x)) l, resp) | None => None end in
  let pay (r : option (list payment * page_resp)) :=
    match r with Some (l, resp) => Some (map pay_item l, resp) | None => None end in
  match ep with
  | EMarket m => ord (page_of_orders_from_index s (p_mkt m) rq otype after)
  | EOwner a => ord (page_of_orders_from_index s (p_addr a) rq otype after)
  | EAsset d => ord (page_of_orders_from_index s (p_asset d) rq otype after)
  | EAll => ord (page_of_all_orders s rq)
  | EPaySrc a => pay (page_of_payments_source s a rq)
  | EPayTgt a => pay (page_of_payments_target s a rq)
  | EPayAll => pay (page_of_all_payments s rq)
  | ECommitMkt m =>
      match page_of_market_commitments kv m rq with
      | Some (l, resp) => Some (map (fun x => IC m (fst x) (snd x)) l, resp)
      | None => None
      end
  | ECommitAll =>
      match page_of_all_commitments kv rq with
      | Some (l, resp) => Some (map (fun x => IC (fst (fst x)) (snd (fst x)) (snd x)) l, resp)
      | None => None
      end
  | EMarkets =>
      match page_of_all_markets kv rq with
      | Some (l, resp) => Some (map IM l, resp)
      | None => None
      end
  end.

Definition corr_page (s : xstate) (ep : endpoint) (otype : option N) (after limit : N)
           (reverse ctotal : bool) (p : pageobs) : bool :=
  let '(Pg k offset ok items next total) := p in
  let rq := {| pr_key := k; pr_offset := offset; pr_limit := limit; pr_count_total := ctotal;
               pr_reverse := reverse |} in
  match model_page s ep otype after rq with
  | None => negb ok
  | Some (mitems, resp) =>
      ok && items_eqb mitems items && bytes_eqb (ps_next resp) next && (ps_total resp =? total)
  end.

Definition corr_session (s : xstate) (se : session) : bool :=
  let '(Se ep otype after limit reverse keymode ctotal pages) := se in
  forallb (corr_page s ep otype after limit reverse ctotal) pages.

(** ---- the property side: evaluated on the implementation's answers only ---- *)

(** The complete listing a session must deliver, from the implementation's own unpaged answers. *)
Definition expected_items (ob : obs) (ep : endpoint) (otype : option N) (after : N) (reverse : bool)
  : list item :=
  let type_ok (o : order) := match otype with None => true | Some t => ty_byte o =? t end in
  let after_ok (id : N) := (after <? id) && negb (after =? u64max) in
  let ords (f : order -> bool) :=
    map (fun x => IO (fst x))
        (filter (fun x => f (snd x) && type_ok (snd x) && after_ok (fst x)) (ob_orders ob)) in
  let find {A} (eqb : A -> A -> bool) (k : A) (l : list (A * list payment)) :=
    match List.find (fun x => eqb k (fst x)) l with Some x => snd x | None => [] end in
  let fwd :=
    match ep with
    | EMarket m => ords (fun o => o_market o =? m)
    | EOwner a => ords (fun o => bytes_eqb (o_owner o) a)
    | EAsset d => ords (fun o => bytes_eqb (o_asset o) d)
    | EAll => map (fun x => IO (fst x)) (ob_orders ob)
    | EPaySrc a => map pay_item (find bytes_eqb a (ob_psrc ob))
    | EPayTgt a => map pay_item (find bytes_eqb a (ob_ptgt ob))
    | EPayAll => map pay_item (ob_pays ob)
    | ECommitMkt m =>
        map (fun x => IC m (fst x) (snd x))
            (match List.find (fun x => fst x =? m) (ob_cmkt ob) with Some x => snd x | None => [] end)
    | ECommitAll => map (fun x => IC (fst (fst x)) (snd (fst x)) (snd x)) (ob_commits ob)
    | EMarkets => map IM (ob_markets ob)
    end in
  if reverse then rev fwd else fwd.

Definition page_items (p : pageobs) : list item := let '(Pg _ _ _ items _ _) := p in items.
Definition page_ok (p : pageobs) : bool := let '(Pg _ _ ok _ _ _) := p in ok.
Definition page_total (p : pageobs) : N := let '(Pg _ _ _ _ _ total) := p in total.

Definition is_empty_ext_payment (i : item) : bool :=
  match i with IP _ [] => true | _ => false end.

(** Tags of one session: [] = complete; the known finding = a reverse payments-of-a-source
    session that returned everything except a final payment whose external id is empty. *)
Definition prop_session (ob : obs) (se : session) : list string :=
  let '(Se ep otype after limit reverse keymode ctotal pages) := se in
  let want := expected_items ob ep otype after reverse in
  let got := List.concat (map page_items pages) in
  let all_ok := forallb page_ok pages in
  let total_ok :=
    match pages with
    | p :: _ => if ctotal && negb keymode then page_total p =? N.of_nat (List.length want) else true
    | [] => false
    end in
  (* a page that announces a next page must be full *)
  let eff := if limit =? 0 then default_limit else limit in
  let full_ok :=
    forallb (fun p => let '(Pg _ _ _ items next _) := p in
                      is_nil next || (N.of_nat (List.length items) =? eff)) pages in
  if all_ok && items_eqb got want then tag total_ok "prop:count_total" ++ tag full_ok "prop:page_with_next_key_is_full"
  else
    match ep, reverse, rev want with
    | EPaySrc _, true, last :: rest =>
        if all_ok && is_empty_ext_payment last && items_eqb got (rev rest)
        then ["prop:known:payments_with_source_reverse_drops_empty_external_id"]
        else ["prop:paging_complete:payments_with_source"]
    | EPaySrc _, _, _ => ["prop:paging_complete:payments_with_source"]
    | EMarket _, _, _ => ["prop:paging_complete:market_orders"]
    | EOwner _, _, _ => ["prop:paging_complete:owner_orders"]
    | EAsset _, _, _ => ["prop:paging_complete:asset_orders"]
    | EAll, _, _ => ["prop:paging_complete:all_orders"]
    | EPayTgt _, _, _ => ["prop:paging_complete:payments_with_target"]
    | EPayAll, _, _ => ["prop:paging_complete:all_payments"]
    | ECommitMkt _, _, _ => ["prop:paging_complete:market_commitments"]
    | ECommitAll, _, _ => ["prop:paging_complete:all_commitments"]
    | EMarkets, _, _ => ["prop:paging_complete:all_markets"]
    end.

Fixpoint strictly_ascending (l : list N) : bool :=
  match l with
  | x :: ((y :: _) as r) => (x <? y) && strictly_ascending r
  | _ => true
  end.

Fixpoint nodup_by {A} (eqb : A -> A -> bool) (l : list A) : bool :=
  match l with
  | [] => true
  | x :: r => negb (existsb (eqb x) r) && nodup_by eqb r
  end.

Definition same_set {A} (eqb : A -> A -> bool) (a b : list A) : bool :=
  forallb (fun x => existsb (eqb x) b) a && forallb (fun x => existsb (eqb x) a) b.

(** Lookups compared with GetOrder: each open order exactly once where it belongs, nothing else. *)
Definition prop_obs (prev_max : N) (prev_ids : list N) (ob : obs) : list string :=
  let ids_where (f : order -> bool) := map fst (filter (fun x => f (snd x)) (ob_orders ob)) in
  tag (strictly_ascending (map fst (ob_orders ob)) &&
       forallb (fun x => existsb (N.eqb (fst x)) (ob_probed ob)) (ob_orders ob))
      "prop:get_order_probe" ++
  tag (ob_mismatch ob =? 0) "prop:listed_order_equals_get_order" ++
  tag (ids_eqb (ob_all ob) (map fst (ob_orders ob))) "prop:all_orders_lookup" ++
  tag (forallb (fun x => ids_eqb (snd x) (ids_where (fun o => o_market o =? fst x))) (ob_mkt ob))
      "prop:market_lookup" ++
  tag (forallb (fun x => ids_eqb (snd x) (ids_where (fun o => bytes_eqb (o_owner o) (fst x)))) (ob_own ob))
      "prop:owner_lookup" ++
  tag (forallb (fun x => ids_eqb (snd x) (ids_where (fun o => bytes_eqb (o_asset o) (fst x)))) (ob_asset ob))
      "prop:asset_lookup" ++
  tag (forallb (fun x => let '(m, e, r) := x in
                         opt_eqb N.eqb r
                           (match ids_where (fun o => (o_market o =? m) && bytes_eqb (o_ext o) e
                                                      && negb (Nat.eqb (List.length e) 0)) with
                            | [id] => Some id
                            | _ => None
                            end)) (ob_ext ob))
      "prop:external_id_lookup" ++
  tag (nodup_by (fun a b => (o_market (snd a) =? o_market (snd b)) && bytes_eqb (o_ext (snd a)) (o_ext (snd b)))
                (filter (fun x => negb (Nat.eqb (List.length (o_ext (snd x))) 0)) (ob_orders ob)))
      "prop:external_id_unique" ++
  tag (forallb (fun x => existsb (N.eqb (fst x)) prev_ids || (prev_max <? fst x)) (ob_orders ob))
      "prop:order_ids_fresh" ++
  tag (nodup_by (fun a b => bytes_eqb (p_source a) (p_source b) && bytes_eqb (p_ext a) (p_ext b)) (ob_pays ob))
      "prop:payment_unique_per_source_and_external_id" ++
  tag (forallb (fun x => same_set pay_eqb (snd x)
                           (filter (fun p => bytes_eqb (p_source p) (fst x)) (ob_pays ob))
                         && nodup_by pay_eqb (snd x)) (ob_psrc ob))
      "prop:payments_with_source_lookup" ++
  tag (forallb (fun x => same_set pay_eqb (snd x)
                           (filter (fun p => bytes_eqb (p_target p) (fst x)) (ob_pays ob))
                         && nodup_by pay_eqb (snd x)) (ob_ptgt ob))
      "prop:payments_listed_only_under_current_target" ++
  tag (forallb (fun x => let '(src, e, r) := x in
                         opt_eqb pay_eqb r
                           (List.find (fun p => bytes_eqb (p_source p) src && bytes_eqb (p_ext p) e) (ob_pays ob)))
               (ob_pget ob))
      "prop:get_payment".

(** Markets and commitments, from the implementation's answers alone.
    [prev] = the (id, name tag) pairs observed after the previous step. *)
Definition coins_ok (c : coins) : bool := cvalid c && nonempty c.

Definition prop_markets (prev : list (N * N)) (o : xop) (ok : bool) (created : option N) (ob : obs)
  : list string :=
  let prev_ids := map fst prev in
  let is_create := match o with XC (CMarketCreate _ _) => true | _ => false end in
  tag (strictly_ascending (ob_markets ob)) "prop:market_listing_has_no_duplicates" ++
  tag (ids_eqb (map fst (ob_mnames ob)) (ob_markets ob)) "prop:every_listed_market_can_be_fetched" ++
  (* a market id keeps identifying the same market *)
  tag (forallb (fun x => existsb (fun y => (fst x =? fst y) && (snd x =? snd y)) (ob_mnames ob)) prev)
      "prop:market_id_identifies_one_market:existing_market_replaced_or_lost" ++
  tag (if is_create && ok
       then match created with
            | Some id => negb (existsb (N.eqb id) prev_ids) && existsb (N.eqb id) (ob_markets ob) &&
                         (List.length (ob_markets ob) =? S (List.length prev_ids))%nat
            | None => false
            end
       else ids_eqb (ob_markets ob) prev_ids)
      "prop:market_id_identifies_one_market:creation_must_use_a_fresh_id" ++
  tag (match o, ok, created with
       | XC (CMarketCreate id _), true, Some got => (id =? 0) || (got =? id)
       | _, _, _ => true
       end) "prop:market_created_under_requested_id".

Definition prop_commits (ob : obs) : list string :=
  let cs := ob_commits ob in
  tag (nodup_by (fun x y => (fst (fst x) =? fst (fst y)) && bytes_eqb (snd (fst x)) (snd (fst y))) cs)
      "prop:commitment_unique_per_market_and_account" ++
  tag (forallb (fun x => coins_ok (snd x)) cs) "prop:listed_commitment_amount_is_valid_and_nonzero" ++
  tag (forallb (fun x => existsb (N.eqb (fst (fst x))) (ob_markets ob)) cs)
      "prop:commitment_market_exists" ++
  tag (forallb (fun x => list_eqb ac_eqb (snd x)
                           (map (fun y => (snd (fst y), snd y)) (filter (fun y => fst (fst y) =? fst x) cs)))
               (ob_cmkt ob)) "prop:market_commitments_lookup" ++
  tag (forallb (fun x => list_eqb mc_eqb (snd x)
                           (map (fun y => (fst (fst y), snd y))
                                (filter (fun y => bytes_eqb (snd (fst y)) (fst x)) cs)))
               (ob_cacct ob)) "prop:account_commitments_lookup" ++
  tag (forallb (fun x => let '(m, a, c) := x in
                         coins_eqb c (match List.find (fun y => (fst (fst y) =? m) && bytes_eqb (snd (fst y)) a) cs with
                                      | Some y => snd y | None => [] end))
               (ob_cget ob)) "prop:get_commitment".

(** External ids can be re-used: an order creation / external-id change that is well formed and
    asks for an external id that NO open order of that market carried before the step (by the
    implementation's own GetOrder answers, [prev]) must not be refused.  The harness keeps every
    other acceptance condition satisfied (funds, permissions, existing markets accepting orders). *)
Definition ext_carried (prev : list (N * order)) (m : N) (e : bytes) : bool :=
  existsb (fun x => (o_market (snd x) =? m) && bytes_eqb (o_ext (snd x)) e) prev.

Definition prop_ext_reuse (prev : list (N * order)) (o : xop) (ok : bool) : list string :=
  tag (match o with
       | XO (OCreate ord) =>
           if wf_order ord && negb (Nat.eqb (List.length (o_ext ord)) 0)
              && negb (ext_carried prev (o_market ord) (o_ext ord))
           then ok else true
       | XO (OSetExt m id e) =>
           match List.find (fun x => fst x =? id) prev with
           | Some x =>
               if (o_market (snd x) =? m) && ext_ok e && negb (Nat.eqb (List.length e) 0)
                  && negb (ext_carried prev m e)
               then ok else true
           | None => true
           end
       | _ => true
       end) "prop:external_id_not_carried_by_any_open_order_was_refused".

(** Payments are unique per (source, external id): a creation naming a (source account, external id)
    under which the implementation itself listed a payment before the step ([prev] = its previous
    GetAllPayments answer) must be refused -- otherwise the older payment is replaced. *)
Definition prop_pay_unique (prev : list payment) (o : xop) (ok : bool) : list string :=
  tag (match o with
       | XO (OPayCreate p) =>
           if existsb (fun q => bytes_eqb (p_source q) (p_source p) && bytes_eqb (p_ext q) (p_ext p)) prev
           then negb ok else true
       | _ => true
       end) "prop:payment_unique_per_source_and_external_id:creation_over_an_existing_payment_accepted".

(** Model listings = implementation listings. *)
Definition corr_obs (s : st) (ob : obs) : list string :=
  tag (forallb (fun id => opt_eqb order_eqb (get_order s id)
                            (match List.find (fun x => fst x =? id) (ob_orders ob) with
                             | Some x => Some (snd x) | None => None end)) (ob_probed ob))
      "corr:get_order" ++
  tag (ids_eqb (all_orders s) (ob_all ob)) "corr:all_orders" ++
  tag (forallb (fun x => ids_eqb (by_market s (fst x)) (snd x)) (ob_mkt ob)) "corr:market_orders" ++
  tag (forallb (fun x => ids_eqb (by_owner s (fst x)) (snd x)) (ob_own ob)) "corr:owner_orders" ++
  tag (forallb (fun x => ids_eqb (by_asset s (fst x)) (snd x)) (ob_asset ob)) "corr:asset_orders" ++
  tag (forallb (fun x => let '(m, e, r) := x in
                         opt_eqb N.eqb (match get_order_by_ext s m e with
                                        | Some (id, _) => Some id | None => None end) r) (ob_ext ob))
      "corr:order_by_external_id" ++
  tag (pays_eqb (all_payments s) (ob_pays ob)) "corr:all_payments" ++
  tag (forallb (fun x => pays_eqb (payments_of_source s (fst x)) (snd x)) (ob_psrc ob))
      "corr:payments_with_source" ++
  tag (forallb (fun x => pays_eqb (payments_of_target s (fst x)) (snd x)) (ob_ptgt ob))
      "corr:payments_with_target" ++
  tag (forallb (fun x => let '(src, e, r) := x in opt_eqb pay_eqb (get_payment s src e) r) (ob_pget ob))
      "corr:get_payment".

Definition corr_cobs (c : cstate) (ob : obs) : list string :=
  let kv := cs_kv c in
  tag (ids_eqb (known_markets kv) (ob_markets ob)) "corr:known_markets" ++
  tag (list_eqb mac_eqb (all_commitments kv) (ob_commits ob)) "corr:all_commitments" ++
  tag (forallb (fun x => list_eqb ac_eqb (market_commitments kv (fst x)) (snd x)) (ob_cmkt ob))
      "corr:market_commitments" ++
  tag (forallb (fun x => list_eqb mc_eqb (account_commitments kv (fst x)) (snd x)) (ob_cacct ob))
      "corr:account_commitments" ++
  tag (forallb (fun x => let '(m, a, r) := x in coins_eqb (get_commitment kv m a) r) (ob_cget ob))
      "corr:get_commitment".

Definition is_known (t : string) : bool := String.prefix "prop:known:" t.

(** One step: (new model state, tags that are not the known finding, known-finding tags). *)
Definition check_step (s : xstate) (prev_max : N) (prev_ids : list N) (prev_mk : list (N * N))
           (prev_orders : list (N * order)) (prev_pays : list payment) (h : hstep)
  : xstate * list string * list string :=
  let '(St o ok created ob ss) := h in
  let model_created :=
    match o with
    | XO (OCreate ord) => match create_order (fst s) ord with Some (_, id) => Some id | None => None end
    | XC (CMarketCreate id acc) => match create_market (snd s) id acc with Some (_, mid) => Some mid | None => None end
    | _ => None
    end in
  let '(s', mok) := xstep s o in
  let sess := flat_map (prop_session ob) ss in
  let tags :=
    tag (Bool.eqb mok ok) "corr:accepted" ++
    tag (opt_eqb N.eqb (if ok then model_created else None) created) "corr:created_id" ++
    corr_obs (fst s') ob ++
    corr_cobs (snd s') ob ++
    tag (forallb (corr_session s') ss) "corr:page" ++
    prop_obs prev_max prev_ids ob ++
    prop_markets prev_mk o ok created ob ++
    prop_ext_reuse prev_orders o ok ++
    prop_pay_unique prev_pays o ok ++
    prop_commits ob ++
    filter (fun t => negb (is_known t)) sess in
  (s', tags, filter is_known sess).

Definition stamp (i : N) (l : list string) : list string :=
  map (fun t => (t ++ " @step " ++ N_to_string i)%string) l.

Fixpoint dedup_str (l : list string) : list string :=
  match l with
  | [] => []
  | x :: r => x :: filter (fun y => negb (String.eqb x y)) (dedup_str r)
  end.

(** Whole history: the tags of the first failing step (with its number), plus the known-finding
    tag if the known shape was met anywhere. *)
Fixpoint check_steps (s : xstate) (prev_max : N) (prev_ids : list N) (prev_mk : list (N * N))
         (prev_orders : list (N * order)) (prev_pays : list payment) (i : N) (l : list hstep)
         (first : list string) (known : list string) : list string :=
  match l with
  | [] => first ++ dedup_str known
  | h :: r =>
      let '(s', tags, kn) := check_step s prev_max prev_ids prev_mk prev_orders prev_pays h in
      let '(St _ _ _ ob _) := h in
      let ids := map fst (ob_orders ob) in
      let mx := fold_left N.max ids prev_max in
      let first' := match first, tags with
                    | [], _ :: _ => stamp i tags
                    | _, _ => first
                    end in
      check_steps s' mx ids (ob_mnames ob) (ob_orders ob) (ob_pays ob) (N.succ i) r first' (known ++ kn)
  end.

(** After an import every order, payment and commitment of the genesis file must be there (the
    lookups are then compared with these by [prop_obs] / [prop_commits] as after any other step). *)
Definition prop_imported (g : genesis) (names : list (N * N)) (h : hstep) : list string :=
  let '(St _ _ _ ob _) := h in
  tag (forallb (fun io => existsb (fun x => (fst x =? fst io) && order_eqb (snd x) (snd io)) (ob_orders ob))
               (g_orders g) &&
       (List.length (ob_orders ob) =? List.length (g_orders g))%nat)
      "prop:genesis_orders_imported" ++
  tag (forallb (fun p => existsb (pay_eqb p) (ob_pays ob)) (g_pays g) &&
       (List.length (ob_pays ob) =? List.length (g_pays g))%nat)
      "prop:genesis_payments_imported" ++
  tag (same_set N.eqb (ob_markets ob) (map fst (g_markets g)) &&
       forallb (fun x => existsb (fun y => (fst x =? fst y) && (snd x =? snd y)) (ob_mnames ob)) names)
      "prop:genesis_markets_imported" ++
  tag (forallb (fun c => existsb (fun x => (fst (fst x) =? fst (fst c)) && bytes_eqb (snd (fst x)) (snd (fst c)))
                                 (ob_commits ob) || cis_zero (snd c)) (g_commits g))
      "prop:genesis_commitments_imported".

Definition check (c : case) : list string :=
  match c with
  | CHist steps => check_steps xinit 0 [] [] [] [] 0 steps [] []
  | CGen g names ok steps =>
      match init_genesis xinit g with
      | Some xs =>
          if ok then
            (match steps with h :: _ => prop_imported g names h | [] => ["corr:genesis_not_observed"] end) ++
            check_steps xs (g_last_order g) (map fst (g_orders g)) names (g_orders g) (g_pays g) 0 steps [] []
          else ["corr:genesis_accepted"]
      | None => tag (negb ok) "corr:genesis_accepted"
      end
  end.

Definition check_all := check_list check.
