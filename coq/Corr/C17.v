(** Correspondence + property checker for C17 (triggers).
    A case is one chain history: the static configuration (who may transfer the restricted coin, who owns
    the root name), the initial balances, the trigger state InitGenesis was given (registry, queue, next id),
    the tracked accounts, and per block the model input (height, time, oracles, transactions, projected
    event history) together with what the real chain showed after that block. *)
From Coq Require Import ZArith NArith List String Bool.
From PV Require Export Trigger.Trigger Corr.CorrBase.
Import ListNotations.
Open Scope string_scope.
Open Scope list_scope.
Open Scope N_scope.

Record obs := {
  ob_exec : list (N * bool);          (* EventTriggerExecuted of the block, in order: id, success *)
  ob_txres : list (option (N * N));   (* per transaction: None = rejected; Some (id, gas used) — id 0 unless a create *)
  ob_reg : list (N * N * N);          (* registry in store order: id, owner, gas limit *)
  ob_queue : list (N * N);            (* queue in order: id, gas limit *)
  ob_bal : list (N * Z);              (* action coin of the tracked accounts *)
  ob_rbal : list (N * Z);             (* restricted coin of the tracked accounts *)
  ob_names : list (N * N);            (* bound names of the pool: name, owner *)
  ob_grants : list (N * N);           (* grants between tracked accounts: granter, grantee *)
  ob_nested : list (N * N * N);       (* triggers created by trigger actions in this block: parent id, new id, its gas limit *)
  ob_same : option (bool * bool)      (* only for blocks without any transaction: the digest of the bank (two coins),
                                         marker, authz and name stores is the same before and after the block;
                                         the digest of trigger records + listeners + next id is the same *)
}.

Definition bank_of (l : list (N * Z)) : bank_t :=
  fun a => match find (fun p => N.eqb (fst p) a) l with Some (_, v) => v | None => 0%Z end.

Definition nn_eqb := pair_eqb N.eqb N.eqb.
Definition nnn_eqb (x y : N * N * N) : bool := nn_eqb (fst x) (fst y) && N.eqb (snd x) (snd y).
Definition nb_eqb := pair_eqb N.eqb Bool.eqb.

Definition bal_agree (accts : list N) (b : bank_t) (l : list (N * Z)) : bool :=
  forallb (fun a => Z.eqb (b a) (bank_of l a)) accts.

Definition nn_mem (x : N * N) (l : list (N * N)) : bool := existsb (nn_eqb x) l.
Definition nn_same_set (a b : list (N * N)) : bool :=
  forallb (fun x => nn_mem x b) a && forallb (fun x => nn_mem x a) b.

(** ** corr: the model's next state and outputs against the observation *)
(** an action never needs more than this much gas (ample bound; a nested creation is never "ample") *)
Definition gas_hi0 (a : act0) : N :=
  match a with
  | ASend _ _ _ => 45000
  | AMulti _ _ outs => 40000 + 25000 * N.of_nat (List.length outs)
  | AMarker _ _ _ _ => 60000
  | ABind _ _ _ => 60000
  | AGrant _ _ _ => 40000
  | ADestroy _ _ => 30000
  end.

Fixpoint gas_ample (acts : list action) (lim : N) : bool :=
  match acts with
  | [] => true
  | ABasic a :: r => (gas_hi0 a <=? lim) && gas_ample r (lim - gas_hi0 a)
  | ACreate _ _ _ :: _ => false
  end.

(** an observed failure that the model cannot explain: the oracle says "failed", yet the gas limit is
    ample for certain and every action was acceptable at that point *)
Fixpoint unexplained (h : N) (t : Z) (s : state) (d : list (entry * bool)) (oracle : list N) (nest : list (N * N)) : bool :=
  match d with
  | [] => false
  | (e, ok) :: r =>
      let '(s1, _) := run_actions h t s e oracle nest in
      (negb ok && mem (eid e) oracle && gas_ample (t_actions (fst e)) (snd e)
       && match exec_all h t (t_root (fst e)) (snd e) (lookupN (eid e) nest) s (t_actions (fst e)) with
          | Some _ => true | None => false end)
      || unexplained h t s1 r oracle nest
  end.

Definition corr_block (accts : list N) (s : state) (b : block) (o : obs) : state * list string :=
  let '(s', out) := step s b in
  (s',
   tag (list_eqb nb_eqb (map (fun x => (eid (fst x), snd x)) (o_disp out)) (ob_exec o)) "corr:executed triggers" ++
   tag (negb (unexplained (b_height b) (b_time b) s (o_disp out) (b_oracle b) (b_nest b)))
       "corr:trigger failed although gas limit sufficed and every action was acceptable" ++
   tag (list_eqb Bool.eqb (o_txres out) (map (fun r => match r with Some _ => true | None => false end) (ob_txres o)))
       "corr:transactions accepted/rejected" ++
   tag (list_eqb nnn_eqb (map (fun e => (eid e, t_owner (fst e), snd e)) (reg s')) (ob_reg o)) "corr:registry" ++
   tag (list_eqb nn_eqb (map (fun e => (eid e, snd e)) (queue s')) (ob_queue o)) "corr:queue" ++
   tag (bal_agree accts (bank s') (ob_bal o)) "corr:balances" ++
   tag (bal_agree accts (rbank s') (ob_rbal o)) "corr:restricted coin balances" ++
   tag (nn_same_set (names s') (ob_names o)) "corr:bound names" ++
   tag (nn_same_set (grants s') (ob_grants o)) "corr:authz grants").

(** ** prop: the clauses evaluated on the observations alone *)
Record known := { k_id : N; k_owner : N; k_event : event; k_actions : list action; k_auths : list N;
                  k_signers : list N; k_txgas : N; k_gasused : N }.

Record pstate := {
  p_known : list known;          (* accepted creations so far (and what genesis brought) *)
  p_reg : list (N * N * N);      (* observation after the previous block *)
  p_queue : list (N * N);
  p_bal : bank_t;
  p_rbal : bank_t;
  p_names : list (N * N);
  p_grants : list (N * N);
  p_done : list N;               (* executed so far *)
  p_gone : list N;               (* executed, destroyed or otherwise vanished so far *)
  p_cal : N                      (* calibrated on the same binary in this run: the least gas one successful
                                    bank-send action costs through the router's handler (0 = not calibrated) *)
}.

Definition known_of_entry (e : entry) : known :=
  {| k_id := eid e; k_owner := t_owner (fst e); k_event := t_event (fst e); k_actions := t_actions (fst e);
     k_auths := t_auths (fst e); k_signers := t_root (fst e); k_txgas := snd e + SetGasLimitCost;
     k_gasused := snd e + SetGasLimitCost |}.

Definition pinit (s0 : state) (cal : N) : pstate :=
  {| p_known := map known_of_entry (reg s0 ++ queue s0);
     p_reg := map (fun e => (eid e, t_owner (fst e), snd e)) (reg s0);
     p_queue := map (fun e => (eid e, snd e)) (queue s0);
     p_bal := bank s0; p_rbal := rbank s0; p_names := []; p_grants := [];
     p_done := []; p_gone := []; p_cal := cal |}.

(** least prepaid gas with which the actions can all have run: every action at least [gas_lo]; a bank send
    at least the calibrated cost of one (less 5 % tolerance) *)
Definition min_gas_for (cal : N) (acts : list action) : N :=
  fold_right (fun a acc => (match a with
                            | ABasic (ASend _ _ _) => N.max gas_lo (cal * 95 / 100)
                            | ACreate _ _ _ => SetGasLimitCost
                            | _ => gas_lo end) + acc) 0 acts.

Definition lookup (i : N) (l : list known) : option known := find (fun k => k_id k =? i) l.

Fixpoint nodup_b (l : list N) : bool :=
  match l with [] => true | x :: r => negb (mem x r) && nodup_b r end.

Definition sumN (l : list N) : N := fold_right N.add 0 l.

(** transactions of the block zipped with their results *)
Definition accepted_creates (txs : list tx) (res : list (option (N * N))) : list known :=
  flat_map (fun p =>
    match p with
    | (TCreate sg au ev acts g _, Some (i, used)) =>
        [{| k_id := i; k_owner := hd 0 au; k_event := ev; k_actions := acts; k_auths := au;
            k_signers := sg; k_txgas := g; k_gasused := used |}]
    | _ => []
    end) (combine txs res).

Definition accepted_destroys (txs : list tx) (res : list (option (N * N))) : list (N * N) :=
  flat_map (fun p => match p with (TDestroy who i, Some _) => [(who, i)] | _ => [] end) (combine txs res).

Definition accepted_sends (txs : list tx) (res : list (option (N * N))) : list action :=
  flat_map (fun p => match p with
                     | (TSend f t a, Some _) => [ABasic (ASend f t a)]
                     | _ => [] end) (combine txs res).

Definition cond_met (b : block) (ev : event) : bool :=
  match ev with
  | EvHeight h => h <=? b_height b
  | EvTime t => (t <=? b_time b)%Z
  | EvTx name _ attrs => existsb (tx_matches name attrs) (b_events b)
  end.

(** the effect of a complete action list on the observable world (banks, names, grants) *)
Definition world_eff (s : state) (a : action) : state :=
  match a with
  | ABasic (ADestroy _ _) => s
  | ABasic b => eff0 s b
  | ACreate _ _ _ => s
  end.

Definition world_of (p : pstate) : state :=
  {| cfg := cfg0; reg := []; queue := []; next_id := 1; bank := p_bal p; rbank := p_rbal p;
     names := p_names p; grants := p_grants p |}.

Definition action_destroys (acts : list action) : list (N * N) :=
  flat_map (fun a => match a with ABasic (ADestroy who i) => [(who, i)] | _ => [] end) acts.

(** the triggers created by actions of this block, as [known] records *)
Definition nested_known (kn : list known) (prevq : list (N * N)) (nested : list (N * N * N)) : list known :=
  flat_map (fun x : N * N * N =>
    let '(p, c, lim) := x in
    match lookup p kn, find (fun q => fst q =? p) prevq with
    | Some k, Some q =>
        match last (k_actions k) (ABasic (ADestroy 0 0)) with
        | ACreate au ev acts =>
            [{| k_id := c; k_owner := hd 0 au; k_event := ev; k_actions := map ABasic acts; k_auths := au;
                k_signers := k_signers k; k_txgas := snd q; k_gasused := snd q |}]
        | _ => []
        end
    | _, _ => []
    end) nested.

(** the order in which the end blocker must queue what it detects, computed from the observed event list
    alone: transaction-event triggers by the position of the FIRST event that meets their condition (then by
    id: the listener order under one prefix), then height triggers by height, then time triggers by their
    listener order key; ties by id *)
Fixpoint find_idx {A} (f : A -> bool) (l : list A) (i : N) : N :=
  match l with [] => i | x :: r => if f x then i else find_idx f r (N.succ i) end.

Definition det_key (b : block) (k : known) : N * N * N :=
  match k_event k with
  | EvTx name _ attrs => (0, find_idx (tx_matches name attrs) (b_events b) 0, k_id k)
  | EvHeight v => (1, v, k_id k)
  | EvTime v => (2, Z.to_N (v mod two64), k_id k)
  end.

Definition key3_le (x y : N * N * N) : bool :=
  let '(a1, b1, c1) := x in let '(a2, b2, c2) := y in
  (a1 <? a2) || ((a1 =? a2) && ((b1 <? b2) || ((b1 =? b2) && (c1 <=? c2)))).

Fixpoint sorted3 (l : list (N * N * N)) : bool :=
  match l with
  | x :: ((y :: _) as r) => key3_le x y && sorted3 r
  | _ => true
  end.

Definition prop_block (accts : list N) (p : pstate) (b : block) (o : obs) : pstate * list string :=
  let exec_ids := map fst (ob_exec o) in
  let nex := List.length exec_ids in
  let prevq := map fst (p_queue p) in
  let creates := accepted_creates (b_txs b) (ob_txres o) in
  let nested := nested_known (p_known p) (p_queue p) (ob_nested o) in
  let known' := p_known p ++ nested ++ creates in
  let ok_acts := flat_map (fun x : N * bool =>
                             if snd x then match lookup (fst x) known' with
                                           | Some k => k_actions k | None => [] end else [])
                          (ob_exec o) in
  let destroys := action_destroys ok_acts ++ accepted_destroys (b_txs b) (ob_txres o) in
  let reg_ids := map (fun x => fst (fst x)) (ob_reg o) in
  let q_ids := map fst (ob_queue o) in
  let carried := skipn nex (p_queue p) in
  let newq := skipn (List.length carried) (ob_queue o) in
  let prev_reg_ids := map (fun x => fst (fst x)) (p_reg p) in
  let new_ids := map k_id nested ++ map k_id creates in
  (* all-or-nothing: exactly the complete action lists of the successfully executed triggers, plus the
     accepted plain sends, account for the change of every tracked balance, bound name and grant *)
  let expect := fold_left world_eff (ok_acts ++ accepted_sends (b_txs b) (ob_txres o)) (world_of p) in
  let destroyed_ids := map snd destroys in
  let vanished := filter (fun i => negb (mem i reg_ids) && negb (mem i q_ids))
                         (prev_reg_ids ++ prevq ++ new_ids) in
  let all_failed := forallb (fun x : N * bool => negb (snd x)) (ob_exec o) in
  let still_waiting (f : known -> bool) :=
      forallb (fun i => match lookup i known' with Some k => negb (f k) | None => true end) reg_ids in
  let errs :=
    tag (list_eqb N.eqb exec_ids (firstn nex prevq) && (nex <=? List.length prevq)%nat)
        "prop:executed out of queue order or before being queued" ++
    tag (forallb (fun i => negb (mem i (p_done p))) exec_ids && nodup_b exec_ids) "prop:trigger executed twice" ++
    tag ((nex <=? MaximumActions)%nat) "prop:more than MaximumActions executed in one block" ++
    tag (sumN (map snd (firstn nex (p_queue p))) <=? MaximumQueueGas) "prop:more than MaximumQueueGas executed in one block" ++
    tag ((0 <? nex)%nat || match p_queue p with [] => true | q :: _ => MaximumQueueGas <? snd q end)
        "prop:queued trigger starved: nothing executed although the queue head fits the block's gas cap" ++
    tag (nodup_b (reg_ids ++ q_ids)) "prop:trigger in two places" ++
    tag (forallb (fun i => negb (mem i (p_gone p)) && negb (mem i exec_ids) && negb (mem i destroyed_ids)) (reg_ids ++ q_ids))
        "prop:gone trigger is back" ++
    tag (forallb (fun i => mem i prev_reg_ids || mem i prevq || mem i new_ids) (reg_ids ++ q_ids))
        "prop:trigger appeared without an accepted creation" ++
    tag (forallb (fun i => mem i exec_ids || mem i destroyed_ids) vanished)
        "prop:trigger vanished without being executed or destroyed" ++
    tag (list_eqb nn_eqb (firstn (List.length carried) (ob_queue o)) carried)
        "prop:queue lost, reordered or kept an executed item" ++
    tag (forallb (fun q => match lookup (fst q) known' with
                           | Some k => cond_met b (k_event k) && (mem (fst q) prev_reg_ids || mem (fst q) new_ids)
                           | None => false end) newq)
        "prop:queued without its condition being met" ++
    tag (sorted3 (flat_map (fun q => match lookup (fst q) known' with Some k => [det_key b k] | None => [] end) newq))
        "prop:triggers queued in another order than their conditions were met" ++
    tag (still_waiting (fun k => match k_event k with EvHeight _ => cond_met b (k_event k) | _ => false end))
        "prop:height trigger not detected although its height is reached" ++
    tag (still_waiting (fun k => match k_event k with EvTime _ => cond_met b (k_event k) | _ => false end))
        "prop:time trigger not detected although its time is reached" ++
    tag (still_waiting (fun k => match k_event k with EvTx _ _ _ => cond_met b (k_event k) | _ => false end))
        "prop:transaction-event trigger not detected although a matching event was emitted" ++
    tag (bal_agree accts (bank expect) (ob_bal o) && bal_agree accts (rbank expect) (ob_rbal o)
         && nn_same_set (names expect) (ob_names o) && nn_same_set (grants expect) (ob_grants o))
        "prop:effects are not all-or-nothing" ++
    tag (match ob_same o with
         | Some (m, tr) => negb all_failed || (m && (tr || negb (match newq with [] => true | _ => false end)))
         | None => true end)
        "prop:a failed trigger changed the stores" ++
    (* a nested creation: by a successful trigger whose last action it is, within that trigger's own limit,
       with authorities that are authorities of the parent *)
    tag (forallb (fun x : N * N * N =>
                    let '(pid, c, lim) := x in
                    mem pid (map fst (filter (fun y : N * bool => snd y) (ob_exec o)))
                    && match lookup pid (p_known p), find (fun q => fst q =? pid) (p_queue p), lookup c nested with
                       | Some k, Some q, Some kc =>
                           (lim + SetGasLimitCost <=? snd q) && forallb (fun a => mem a (k_auths k)) (k_auths kc)
                           && negb (mem c (map k_id (p_known p)))
                       | _, _, _ => false
                       end) (ob_nested o))
        "prop:trigger created by an action outside its parent's gas or authority" ++
    (* within the prepaid gas: the gas of ALL actions is charged to the one limit; a successful trigger ran
       every one of its actions, each costing at least its minimum *)
    tag (forallb (fun x : N * bool =>
                    negb (snd x) ||
                    match lookup (fst x) known', find (fun q => fst q =? fst x) (p_queue p) with
                    | Some k, Some q => min_gas_for (p_cal p) (k_actions k) <=? snd q
                    | _, _ => true
                    end) (ob_exec o))
        "prop:actions succeeded beyond the trigger's gas limit" ++
    tag (forallb (fun d => match lookup (snd d) known' with
                           | Some k => k_owner k =? fst d
                           | None => false end) destroys) "prop:destroyed by someone other than the owner" ++
    tag (forallb (fun d => negb (mem (snd d) prevq) && negb (mem (snd d) (p_gone p)) && negb (mem (snd d) q_ids)
                           && negb (mem (snd d) reg_ids)) destroys)
        "prop:destroyed after being queued or still present after destroy" ++
    tag (forallb (fun k => addrs_eqb (k_signers k) (k_auths k)
                           && forallb (fun a => forallb (fun x => mem x (k_auths k)) (a_signers a)) (k_actions k)
                           && negb (mem (k_id k) (map k_id (p_known p)))) creates
         && forallb (fun k => forallb (fun a => forallb (fun x => mem x (k_auths k)) (a_signers a)) (k_actions k)
                              && forallb (fun x => mem x (k_signers k)) (k_auths k)) nested)
        "prop:action signer did not sign the creating transaction" ++
    tag (forallb (fun x => match lookup (fst x) known' with
                           | Some k => (snd x <=? MaximumTriggerGas) && (snd x + SetGasLimitCost <=? k_gasused k)
                                       && (k_gasused k <=? k_txgas k)
                           | None => false end)
                 (map (fun x => (fst (fst x), snd x)) (ob_reg o) ++ ob_queue o))
        "prop:gas limit above what the creator prepaid"
  in
  ({| p_known := known'; p_reg := ob_reg o; p_queue := ob_queue o; p_bal := bank_of (ob_bal o);
      p_rbal := bank_of (ob_rbal o); p_names := ob_names o; p_grants := ob_grants o;
      p_done := exec_ids ++ p_done p; p_gone := exec_ids ++ destroyed_ids ++ vanished ++ p_gone p;
      p_cal := p_cal p |}, errs).

(** ** histories *)
(** the property checker alone, on the rest of a history whose model comparison has already failed *)
Fixpoint prop_hist (accts : list N) (p : pstate) (i : N) (l : list (block * obs)) : list string :=
  match l with
  | [] => []
  | (b, o) :: rest =>
      let '(p', e2) := prop_block accts p b o in
      match e2 with
      | [] => prop_hist accts p' (N.succ i) rest
      | e => map (fun t => (t ++ " @block " ++ N_to_string i)%string) e
      end
  end.

(** first failing block; when only the model comparison failed there, the property clauses are still
    evaluated on the remaining observations (they do not need the model) *)
Fixpoint check_hist (accts : list N) (s : state) (p : pstate) (i : N) (l : list (block * obs)) : list string :=
  match l with
  | [] => []
  | (b, o) :: rest =>
      let '(s', e1) := corr_block accts s b o in
      let '(p', e2) := prop_block accts p b o in
      match e1 ++ e2 with
      | [] => check_hist accts s' p' (N.succ i) rest
      | e => map (fun t => (t ++ " @block " ++ N_to_string i)%string) e
             ++ match e2 with [] => prop_hist accts p' (N.succ i) rest | _ => [] end
      end
  end.

(** the start of a history: configuration, balances of the two coins, what InitGenesis was given *)
Record start := { st_cfg : config; st_bal : list (N * Z); st_rbal : list (N * Z);
                  st_reg : list entry; st_queue : list entry; st_next : N }.

Definition state_of (g : start) : state :=
  init_gen (st_cfg g) (bank_of (st_bal g)) (bank_of (st_rbal g)) (st_reg g) (st_queue g) (st_next g).

(** [CHalt]: the chain could not produce the block after the ones shown (FinalizeBlock failed: a begin
    or end blocker panicked). *)
Inductive case :=
| CHist (accts : list N) (g : start) (cal : N) (blocks : list (block * obs))
| CHalt (accts : list N) (g : start) (cal : N) (blocks : list (block * obs)).

Definition check (c : case) : list string :=
  match c with
  | CHist accts g cal blocks => check_hist accts (state_of g) (pinit (state_of g) cal) 0 blocks
  | CHalt accts g cal blocks =>
      match check_hist accts (state_of g) (pinit (state_of g) cal) 0 blocks with
      | [] => [("prop:chain halted: the trigger begin/end blocker failed after block " ++ nat_to_string (List.length blocks))%string]
      | e => e
      end
  end.

Definition check_all := check_list check.
