(** Correspondence + property checker for C17 (triggers).
    A case is one chain history: the initial balances of the action denomination, the tracked accounts,
    and per block the model input (height, time, oracle, transactions, projected event history) together
    with what the real chain showed after that block. *)
From Coq Require Import ZArith NArith List String Bool.
From PV Require Export Trigger.Trigger Corr.CorrBase.
Import ListNotations.
Open Scope string_scope.
Open Scope list_scope.
Open Scope N_scope.

Record obs := {
  ob_exec : list (N * bool);          (* EventTriggerExecuted of the block, in order: id, success *)
  ob_txres : list (option (N * N));   (* per transaction: None = rejected; Some (id, gas used) — id 0 unless a create *)
  ob_reg : list (N * N * N);          (* registry in store order: id, owner, gas limit *)
  ob_queue : list (N * N);            (* queue in order: id, gas limit *)
  ob_bal : list (N * Z)               (* balances of the tracked accounts *)
}.

Definition bank_of (l : list (N * Z)) : bank_t :=
  fun a => match find (fun p => N.eqb (fst p) a) l with Some (_, v) => v | None => 0%Z end.

Definition nn_eqb := pair_eqb N.eqb N.eqb.
Definition nnn_eqb (x y : N * N * N) : bool := nn_eqb (fst x) (fst y) && N.eqb (snd x) (snd y).
Definition nb_eqb := pair_eqb N.eqb Bool.eqb.

Definition bal_agree (accts : list N) (b : bank_t) (l : list (N * Z)) : bool :=
  forallb (fun a => Z.eqb (b a) (bank_of l a)) accts.

(** ** corr: the model's next state and outputs against the observation *)
Definition gas_hi : N := 45000.       (* a bank send never needs more than this much gas *)

(** an observed failure that the model cannot explain: the oracle says "failed", yet the gas limit is
    ample for certain and every send was affordable at that point *)
Fixpoint unexplained (b : bank_t) (d : list (entry * bool)) (oracle : list N) : bool :=
  match d with
  | [] => false
  | (e, ok) :: r =>
      let acts := t_actions (fst e) in
      if ok then unexplained (apply_all b acts) r oracle
      else (mem (eid e) oracle && (gas_hi * N.of_nat (List.length acts) <=? snd e)
            && match send_all b acts with Some _ => true | None => false end)
           || unexplained b r oracle
  end.

Definition corr_block (accts : list N) (s : state) (b : block) (o : obs) : state * list string :=
  let '(s', out) := step s b in
  (s',
   tag (list_eqb nb_eqb (map (fun x => (eid (fst x), snd x)) (o_disp out)) (ob_exec o)) "corr:executed triggers" ++
   tag (negb (unexplained (bank s) (o_disp out) (b_oracle b))) "corr:trigger failed although gas limit and funds sufficed" ++
   tag (list_eqb Bool.eqb (o_txres out) (map (fun r => match r with Some _ => true | None => false end) (ob_txres o)))
       "corr:transactions accepted/rejected" ++
   tag (list_eqb nnn_eqb (map (fun e => (eid e, t_owner (fst e), snd e)) (reg s')) (ob_reg o)) "corr:registry" ++
   tag (list_eqb nn_eqb (map (fun e => (eid e, snd e)) (queue s')) (ob_queue o)) "corr:queue" ++
   tag (bal_agree accts (bank s') (ob_bal o)) "corr:balances").

(** ** prop: the clauses evaluated on the observations alone *)
Record known := { k_id : N; k_owner : N; k_event : event; k_actions : list action; k_auths : list N;
                  k_signers : list N; k_txgas : N; k_gasused : N }.

Record pstate := {
  p_known : list known;          (* accepted creations so far *)
  p_reg : list (N * N * N);      (* observation after the previous block *)
  p_queue : list (N * N);
  p_bal : bank_t;
  p_done : list N;               (* executed so far *)
  p_gone : list N;               (* executed, destroyed or otherwise vanished so far *)
  p_cal : N                      (* calibrated on the same binary in this run: the least gas one successful
                                    bank-send action costs through the router's handler (0 = not calibrated) *)
}.

Definition pinit (b : bank_t) (cal : N) : pstate :=
  {| p_known := []; p_reg := []; p_queue := []; p_bal := b; p_done := []; p_gone := []; p_cal := cal |}.

(** least prepaid gas with which [n] send actions can all have run: n times the cost of one (the
    calibrated one less 5 % tolerance, and never below the model's [gas_lo]) *)
Definition min_gas_for (cal : N) (n : nat) : N :=
  N.of_nat n * N.max gas_lo (cal * 95 / 100).

Definition lookup (i : N) (l : list known) : option known := find (fun k => k_id k =? i) l.

Fixpoint nodup_b (l : list N) : bool :=
  match l with [] => true | x :: r => negb (mem x r) && nodup_b r end.

Definition sumN (l : list N) : N := fold_right N.add 0 l.

(** transactions of the block zipped with their results *)
Definition accepted_creates (txs : list tx) (res : list (option (N * N))) : list known :=
  flat_map (fun p =>
    match p with
    | (TCreate sg au ev acts g _, Some (i, used)) =>
        [{| k_id := i; k_owner := hd 0 au; k_event := ev; k_actions := acts; k_auths := au;
            k_signers := sg; k_txgas := g; k_gasused := used |}]
    | _ => []
    end) (combine txs res).

Definition accepted_destroys (txs : list tx) (res : list (option (N * N))) : list (N * N) :=
  flat_map (fun p => match p with (TDestroy who i, Some _) => [(who, i)] | _ => [] end) (combine txs res).

Definition accepted_sends (txs : list tx) (res : list (option (N * N))) : list action :=
  flat_map (fun p => match p with
                     | (TSend f t a, Some _) => [{| a_from := f; a_to := t; a_amt := a; a_co := [] |}]
                     | _ => [] end) (combine txs res).

Definition cond_met (b : block) (ev : event) : bool :=
  match ev with
  | EvHeight h => h <=? b_height b
  | EvTime t => t <=? b_time b
  | EvTx name attrs => existsb (tx_matches name attrs) (b_events b)
  end.

Definition prop_block (accts : list N) (p : pstate) (b : block) (o : obs) : pstate * list string :=
  let exec_ids := map fst (ob_exec o) in
  let nex := List.length exec_ids in
  let prevq := map fst (p_queue p) in
  let creates := accepted_creates (b_txs b) (ob_txres o) in
  let destroys := accepted_destroys (b_txs b) (ob_txres o) in
  let known' := p_known p ++ creates in
  let reg_ids := map (fun x => fst (fst x)) (ob_reg o) in
  let q_ids := map fst (ob_queue o) in
  let carried := skipn nex (p_queue p) in
  let newq := skipn (List.length carried) (ob_queue o) in
  let prev_reg_ids := map (fun x => fst (fst x)) (p_reg p) in
  (* all-or-nothing: exactly the complete action lists of the successfully executed triggers, plus the
     accepted plain sends, account for the change of every tracked balance *)
  let ok_acts := flat_map (fun x : N * bool =>
                             if snd x then match lookup (fst x) known' with
                                           | Some k => k_actions k | None => [] end else [])
                          (ob_exec o) in
  let expect := apply_all (apply_all (p_bal p) ok_acts) (accepted_sends (b_txs b) (ob_txres o)) in
  let destroyed_ids := map snd destroys in
  let vanished := filter (fun i => negb (mem i reg_ids) && negb (mem i q_ids))
                         (prev_reg_ids ++ prevq ++ map k_id creates) in
  let errs :=
    tag (list_eqb N.eqb exec_ids (firstn nex prevq) && (nex <=? List.length prevq)%nat)
        "prop:executed out of queue order or before being queued" ++
    tag (forallb (fun i => negb (mem i (p_done p))) exec_ids && nodup_b exec_ids) "prop:trigger executed twice" ++
    tag ((nex <=? MaximumActions)%nat) "prop:more than MaximumActions executed in one block" ++
    tag (sumN (map snd (firstn nex (p_queue p))) <=? MaximumQueueGas) "prop:more than MaximumQueueGas executed in one block" ++
    tag (nodup_b (reg_ids ++ q_ids)) "prop:trigger in two places" ++
    tag (forallb (fun i => negb (mem i (p_gone p)) && negb (mem i exec_ids) && negb (mem i destroyed_ids)) (reg_ids ++ q_ids))
        "prop:gone trigger is back" ++
    tag (list_eqb nn_eqb (firstn (List.length carried) (ob_queue o)) carried)
        "prop:queue lost, reordered or kept an executed item" ++
    tag (forallb (fun q => match lookup (fst q) known' with
                           | Some k => cond_met b (k_event k) && (mem (fst q) prev_reg_ids || mem (fst q) (map k_id creates))
                           | None => false end) newq)
        "prop:queued without its condition being met" ++
    tag (bal_agree accts expect (ob_bal o)) "prop:effects are not all-or-nothing" ++
    (* within the prepaid gas: the gas of ALL actions is charged to the one limit; a successful trigger ran
       every one of its n actions, each costing at least the calibrated cost of one send, so its limit
       cannot be below n times that *)
    tag (forallb (fun x : N * bool =>
                    negb (snd x) ||
                    match lookup (fst x) known', find (fun q => fst q =? fst x) (p_queue p) with
                    | Some k, Some q => min_gas_for (p_cal p) (List.length (k_actions k)) <=? snd q
                    | _, _ => true
                    end) (ob_exec o))
        "prop:actions succeeded beyond the trigger's gas limit" ++
    tag (forallb (fun d => match lookup (snd d) known' with
                           | Some k => k_owner k =? fst d
                           | None => false end) destroys) "prop:destroyed by someone other than the owner" ++
    tag (forallb (fun d => negb (mem (snd d) prevq) && negb (mem (snd d) (p_gone p)) && negb (mem (snd d) q_ids)
                           && negb (mem (snd d) reg_ids)) destroys)
        "prop:destroyed after being queued or still present after destroy" ++
    tag (forallb (fun k => addrs_eqb (k_signers k) (k_auths k)
                           && forallb (fun a => forallb (fun x => mem x (k_auths k)) (a_signers a)) (k_actions k)
                           && negb (mem (k_id k) (map k_id (p_known p)))) creates)
        "prop:action signer did not sign the creating transaction" ++
    tag (forallb (fun x => match lookup (fst x) known' with
                           | Some k => (snd x <=? MaximumTriggerGas) && (snd x + SetGasLimitCost <=? k_gasused k)
                                       && (k_gasused k <=? k_txgas k)
                           | None => false end)
                 (map (fun x => (fst (fst x), snd x)) (ob_reg o) ++ ob_queue o))
        "prop:gas limit above what the creator prepaid"
  in
  ({| p_known := known'; p_reg := ob_reg o; p_queue := ob_queue o; p_bal := bank_of (ob_bal o);
      p_done := exec_ids ++ p_done p; p_gone := exec_ids ++ destroyed_ids ++ vanished ++ p_gone p;
      p_cal := p_cal p |}, errs).

(** ** histories *)
Fixpoint check_hist (accts : list N) (s : state) (p : pstate) (i : N) (l : list (block * obs)) : list string :=
  match l with
  | [] => []
  | (b, o) :: rest =>
      let '(s', e1) := corr_block accts s b o in
      let '(p', e2) := prop_block accts p b o in
      match e1 ++ e2 with
      | [] => check_hist accts s' p' (N.succ i) rest
      | e => map (fun t => (t ++ " @block " ++ N_to_string i)%string) e
      end
  end.

(** [CHalt]: the chain could not produce the block after the ones shown (FinalizeBlock failed: a begin
    or end blocker panicked). *)
Inductive case :=
| CHist (accts : list N) (bal0 : list (N * Z)) (cal : N) (blocks : list (block * obs))
| CHalt (accts : list N) (bal0 : list (N * Z)) (cal : N) (blocks : list (block * obs)).

Definition check (c : case) : list string :=
  match c with
  | CHist accts bal0 cal blocks => check_hist accts (init (bank_of bal0)) (pinit (bank_of bal0) cal) 0 blocks
  | CHalt accts bal0 cal blocks =>
      match check_hist accts (init (bank_of bal0)) (pinit (bank_of bal0) cal) 0 blocks with
      | [] => [("prop:chain halted: the trigger begin/end blocker failed after block " ++ nat_to_string (List.length blocks))%string]
      | e => e
      end
  end.

Definition check_all := check_list check.
