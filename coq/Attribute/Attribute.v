(** Model of the attribute module's write paths, its two lookups and the begin-block expiry
    sweep, together with the part of the name module that decides "who owns a name"
    (property C16).

    Go sources transcribed here (function by function, branch by branch):
      x/attribute/keeper/keeper.go      SetAttribute, UpdateAttribute, UpdateAttributeExpiration,
                                        DeleteAttribute (by name / distinct by value),
                                        PurgeAttribute, AccountsByAttribute,
                                        IncAttrNameAddressLookup, DecAttrNameAddressLookup,
                                        addAttributeExpireLookup, deleteAttributeExpireLookup,
                                        DeleteExpiredAttributes, ValidateExpirationDate
      x/attribute/keeper/msg_server.go  AddAttribute, UpdateAttribute, UpdateAttributeExpiration,
                                        DeleteAttribute, DeleteDistinctAttribute
      x/attribute/types/keys.go         AddrAttributeKey, AttributeExpireKey,
                                        AttributeNameAddrKeyPrefix, GetAttributeExpireTimePrefix
      x/attribute/abci.go               BeginBlocker
      x/name/keeper/msg_server.go       BindName, ModifyName, DeleteName (which purges)
      x/name/keeper/keeper.go           ResolvesTo, NameExists

    State of the attribute store, as three maps:
      records   AddrAttributeKey = 0x02 | len,account | sha256(name) | sha256(value)  -> Attribute
      counters  0x03 | sha256(name) | len,account -> uint64   (key absent = 0 here)
      queue     0x04 | unix seconds (8 bytes BE) | len,account | sha256(name) | sha256(value) -> {}
    Accounts, names and values are interned integers.  ASSUMED: SHA-256 is injective on the
    names and values that occur (so a record key is the triple (account, name, value) itself);
    a name is the interned id of its NORMALISED form (lower case, every segment trimmed) and the
    attribute messages additionally carry the SPELLING class [sp] of the name string in the
    request (0 canonical; 1 spaces around the whole name; 2 letter case differs, possibly with
    outer spaces; 3 spaces inside, next to a dot; 4 inside spaces and case) — see "Spelling"
    below for which code path normalises and which uses the raw string; values are short decimal numerals, which
    are valid for the types JSON(2) String(3) Int(5) Float(6) Proto(7) Bytes(8) and invalid for
    UUID(1) Uri(4) and Unspecified(0) ([type_ok]); the value length limit is not reached; all
    times are whole seconds (keys hold [Unix()]); uint64 counters do not overflow; protobuf
    (un)marshalling never fails; fewer than MaxExpiredAttributionCount = 100000 queue entries fall
    due in one block (the [limit] cut-off of DeleteExpiredAttributes is not modelled).

    Name ownership is the abstract map [s_owner : name -> option owner]; of the name module only
    the acceptance conditions of bind (by the owner of a restricted parent, so: accepted iff the
    name is free), modify (authority is the governance account [gov] or the current owner) and
    delete (the signer is the current owner; then DeleteRecord; then PurgeAttribute) are
    transcribed.  [s_acct] says which addresses have an auth account (every keeper entry point
    requires one for the caller).

    An operation that errors returns the OLD state (tx rollback).  No proofs in this file. *)
From Coq Require Import ZArith List Bool.
Import ListNotations.
Open Scope Z_scope.

(** ** Records, keys *)
Definition key := (Z * Z * Z)%type.           (* account, name, value(hash) *)
Record attr := { a_acct : Z; a_name : Z; a_val : Z; a_type : Z; a_exp : option Z }.
Definition akey (r : attr) : key := (a_acct r, a_name r, a_val r).

Definition key_eqb (k1 k2 : key) : bool :=
  let '(a1, n1, v1) := k1 in let '(a2, n2, v2) := k2 in
  (a1 =? a2) && (n1 =? n2) && (v1 =? v2).
Definition oz_eqb (x y : option Z) : bool :=
  match x, y with
  | Some a, Some b => a =? b
  | None, None => true
  | _, _ => false
  end.
Definition entry := (Z * key)%type.            (* expiration time, record key *)
Definition entry_eqb (x y : entry) : bool := (fst x =? fst y) && key_eqb (snd x) (snd y).

Record state := {
  s_now : Z;                      (* ctx.BlockTime().Unix() *)
  s_acct : Z -> bool;             (* authKeeper.GetAccount(addr) != nil *)
  s_owner : Z -> option Z;        (* name record: name -> address *)
  s_recs : list attr;             (* attribute records, at most one per key *)
  s_cnt : Z -> Z -> Z;            (* name -> account -> lookup counter *)
  s_queue : list entry }.         (* expiration queue (a set) *)

Definition init (t0 : Z) (accts : Z -> bool) : state :=
  {| s_now := t0; s_acct := accts; s_owner := fun _ => None; s_recs := [];
     s_cnt := fun _ _ => 0; s_queue := [] |}.

Definition set_owner (s : state) (f : Z -> option Z) : state :=
  {| s_now := s_now s; s_acct := s_acct s; s_owner := f; s_recs := s_recs s;
     s_cnt := s_cnt s; s_queue := s_queue s |}.
Definition set_store (s : state) (recs : list attr) (cnt : Z -> Z -> Z) (q : list entry) : state :=
  {| s_now := s_now s; s_acct := s_acct s; s_owner := s_owner s; s_recs := recs;
     s_cnt := cnt; s_queue := q |}.
Definition set_now (s : state) (t : Z) : state :=
  {| s_now := t; s_acct := s_acct s; s_owner := s_owner s; s_recs := s_recs s;
     s_cnt := s_cnt s; s_queue := s_queue s |}.

(** store.Get(attrKey) / store.Delete(attrKey) *)
Definition find_rec (k : key) (recs : list attr) : option attr :=
  find (fun r => key_eqb (akey r) k) recs.
Definition remove_key (k : key) (recs : list attr) : list attr :=
  filter (fun r => negb (key_eqb (akey r) k)) recs.

(** ** The name -> account lookup counters *)
Definition cnt_upd (f : Z -> Z -> Z) (n a v : Z) : Z -> Z -> Z :=
  fun n' a' => if (n' =? n) && (a' =? a) then v else f n' a'.
(* IncAttrNameAddressLookup: missing key counts as 0 *)
Definition cnt_inc (f : Z -> Z -> Z) (n a : Z) : Z -> Z -> Z := cnt_upd f n a (f n a + 1).
(* DecAttrNameAddressLookup: no key: nothing; value <= 1: key deleted; else value - 1 *)
Definition cnt_dec (f : Z -> Z -> Z) (n a : Z) : Z -> Z -> Z :=
  let c := f n a in
  if c <=? 0 then f else if c <=? 1 then cnt_upd f n a 0 else cnt_upd f n a (c - 1).

(** ** The expiration queue *)
(* addAttributeExpireLookup / deleteAttributeExpireLookup: no-ops without an expiration *)
Definition q_remove (x : entry) (q : list entry) : list entry :=
  filter (fun y => negb (entry_eqb y x)) q.
Definition q_add (q : list entry) (r : attr) : list entry :=
  match a_exp r with
  | Some e => if existsb (entry_eqb (e, akey r)) q then q else (e, akey r) :: q
  | None => q
  end.
Definition q_del (q : list entry) (r : attr) : list entry :=
  match a_exp r with
  | Some e => q_remove (e, akey r) q
  | None => q
  end.

(** ** Guards *)
(* ValidateExpirationDate: error iff an expiration is given and lies before the block time *)
Definition exp_ok (now : Z) (e : option Z) : bool :=
  match e with Some t => negb (t <? now) | None => true end.
(* Attribute.ValidateBasic on the generated values (see header) *)
Definition type_ok (ty : Z) : bool :=
  (ty =? 2) || (ty =? 3) || (ty =? 5) || (ty =? 6) || (ty =? 7) || (ty =? 8).
(* nameKeeper.ResolvesTo / NameExists *)
Definition resolves (s : state) (n c : Z) : bool :=
  match s_owner s n with Some o => o =? c | None => false end.
Definition name_exists (s : state) (n : Z) : bool :=
  match s_owner s n with Some _ => true | None => false end.
Definition gov : Z := 0.

(** ** Spelling of the name in a request
    SetAttribute and UpdateAttributeExpiration replace the name by nameKeeper.Normalize(name)
    before anything else, so every spelling behaves like the canonical one.
    UpdateAttribute normalises the name for the ownership check and for the new record, but
    looks the existing record up under AddrAttributeKey(originalAttribute) with the RAW name;
    GetNameKeyBytes lower-cases and trims only the WHOLE name, so a spelling with inside spaces
    gives another key: nothing found.
    DeleteAttribute uses the raw name throughout: ResolvesTo / NameExists go through the name
    module's key, which trims every segment but is case sensitive (another case = "no such
    name", the permission check is skipped); the scan prefix is GetNameKeyBytes(raw) (inside
    spaces: another prefix); and a scanned record counts only if attr.Name == raw name, i.e.
    only for the canonical spelling. *)
Definition sp_case (sp : Z) : bool := (sp =? 2) || (sp =? 4).
Definition sp_inner (sp : Z) : bool := (sp =? 3) || (sp =? 4).

(** ** Keeper operations.  [None] = error. *)

(* The tail of SetAttribute (also the second half of UpdateAttribute): store.Set(key, attr);
   IncAttrNameAddressLookup; addAttributeExpireLookup.  An existing record under the same key
   is overwritten; its old queue entry is NOT removed and the counter is incremented again. *)
Definition put (s : state) (r : attr) : state :=
  set_store s (r :: remove_key (akey r) (s_recs s))
              (cnt_inc (s_cnt s) (a_name r) (a_acct r))
              (q_add (s_queue s) r).

Definition set_attribute (s : state) (c : Z) (r : attr) : option state :=
  if exp_ok (s_now s) (a_exp r) && type_ok (a_type r) && s_acct s c && resolves s (a_name r) c
  then Some (put s r) else None.

(* store.Delete(key); DecAttrNameAddressLookup; and, when [dq], deleteAttributeExpireLookup —
   the per-record body of UpdateAttribute (first half), DeleteAttribute, the sweep ([dq = true])
   and PurgeAttribute ([dq = false]: purge leaves the queue entries behind). *)
Definition del_rec (dq : bool) (s : state) (r : attr) : state :=
  set_store s (remove_key (akey r) (s_recs s))
              (cnt_dec (s_cnt s) (a_name r) (a_acct r))
              (if dq then q_del (s_queue s) r else s_queue s).

Definition update_attribute (s : state) (c a n ov oty nv nty sp : Z) : option state :=
  if type_ok oty && type_ok nty && s_acct s c && resolves s n c then
    if sp_inner sp then None else   (* raw-name key: no such record *)
    match find_rec (a, n, ov) (s_recs s) with
    | Some cur =>
        if a_type cur =? oty then
          (* the replacement carries no expiration: MsgUpdateAttributeRequest has none *)
          Some (put (del_rec true s cur)
                    {| a_acct := a; a_name := n; a_val := nv; a_type := nty; a_exp := None |})
        else None
    | None => None
    end
  else None.

Definition with_exp (r : attr) (e : option Z) : attr :=
  {| a_acct := a_acct r; a_name := a_name r; a_val := a_val r; a_type := a_type r; a_exp := e |}.

Definition update_expiration (s : state) (c a n v : Z) (e : option Z) : option state :=
  if exp_ok (s_now s) e && s_acct s c && resolves s n c then
    match find_rec (a, n, v) (s_recs s) with
    | Some cur =>
        let cur' := with_exp cur e in
        Some (set_store s (cur' :: remove_key (akey cur) (s_recs s)) (s_cnt s)
                        (q_add (q_del (s_queue s) cur) cur'))
    | None => None
    end
  else None.

(* the ownership gate shared by DeleteAttribute and PurgeAttribute: the caller must be the
   owner, unless the name does not exist (any more), in which case nothing is enforced *)
Definition may_remove (s : state) (c n : Z) : bool :=
  s_acct s c && (resolves s n c || negb (name_exists s n)).

(* DeleteAttribute's gate evaluated on the raw name *)
Definition may_remove_raw (s : state) (c n sp : Z) : bool :=
  let resolves_raw := if sp_case sp then false else resolves s n c in
  let exists_raw := if sp_case sp then false else name_exists s n in
  s_acct s c && (resolves_raw || negb exists_raw).

Definition delete_attribute (s : state) (c a n : Z) (ov : option Z) (sp : Z) : option state :=
  if may_remove_raw s c n sp then
    let del := filter (fun r => (a_acct r =? a) && (a_name r =? n) &&
                                match ov with Some v => a_val r =? v | None => true end &&
                                (* prefix scan by GetNameKeyBytes(raw); attr.Name == raw *)
                                (negb (sp_inner sp) && (sp =? 0)))
                      (s_recs s) in
    match del with
    | [] => None
    | _ => Some (fold_left (del_rec true) del s)
    end
  else None.

(* PurgeAttribute: for every account AccountsByAttribute lists (counter key present), every
   record of (account, name) is deleted and the counter decremented once per record.  The
   records to delete are exactly those of that name whose account has a counter key. *)
Definition purge_attribute (s : state) (c n : Z) : option state :=
  if may_remove s c n then
    let del := filter (fun r => (a_name r =? n) && (0 <? s_cnt s n (a_acct r))) (s_recs s) in
    Some (fold_left (del_rec false) del s)
  else None.

(** DeleteExpiredAttributes: the queue entries with time < block time (the iterator's end bound
    is exclusive) are collected first, then processed one by one: an entry whose record is gone,
    or whose record's stored expiration is not the entry's time (a stale entry), is just
    dropped; otherwise the record is deleted and the counter decremented. *)
Definition sweep_entry (s : state) (x : entry) : state :=
  let '(e, k) := x in
  match find_rec k (s_recs s) with
  | Some r =>
      if oz_eqb (a_exp r) (Some e)
      then del_rec true s r
      else set_store s (s_recs s) (s_cnt s) (q_remove x (s_queue s))
  | None => set_store s (s_recs s) (s_cnt s) (q_remove x (s_queue s))
  end.

Definition due (t : Z) (q : list entry) : list entry := filter (fun x => fst x <? t) q.
Definition sweep (s : state) : state := fold_left sweep_entry (due (s_now s) (s_queue s)) s.

(** AccountsByAttribute restricted to a given finite universe of accounts. *)
Definition accounts_by_attribute (s : state) (n : Z) (universe : list Z) : list Z :=
  filter (fun a => 0 <? s_cnt s n a) universe.

(** ** Messages and blocks *)
Inductive op :=
| OBind (n o : Z)                               (* MsgBindName signed by the parent's owner *)
| OModifyName (auth n o : Z)                    (* MsgModifyName: transfer name n to o *)
| ODeleteName (c n : Z)                         (* MsgDeleteName signed by c *)
| OAdd (c a n v ty : Z) (e : option Z) (sp : Z) (* MsgAddAttribute: caller, account, name, value, type, expiration, spelling *)
| OUpdate (c a n ov oty nv nty sp : Z)          (* MsgUpdateAttribute *)
| OUpdateExp (c a n v : Z) (e : option Z) (sp : Z) (* MsgUpdateAttributeExpiration *)
| ODelete (c a n sp : Z)                        (* MsgDeleteAttribute *)
| ODeleteDistinct (c a n v sp : Z)              (* MsgDeleteDistinctAttribute *)
| OPurge (c n : Z)                              (* keeper.PurgeAttribute called directly *)
| OBlock (dt : Z).                              (* block time += dt; BeginBlocker *)

Definition upd_owner (f : Z -> option Z) (n : Z) (o : option Z) : Z -> option Z :=
  fun n' => if n' =? n then o else f n'.

Definition exec (s : state) (o : op) : option state :=
  match o with
  | OBind n ow =>
      if name_exists s n then None else Some (set_owner s (upd_owner (s_owner s) n (Some ow)))
  | OModifyName auth n ow =>
      match s_owner s n with
      | Some cur => if (auth =? gov) || (auth =? cur)
                    then Some (set_owner s (upd_owner (s_owner s) n (Some ow))) else None
      | None => None
      end
  | ODeleteName c n =>
      if resolves s n c
      then purge_attribute (set_owner s (upd_owner (s_owner s) n None)) c n
      else None
  | OAdd c a n v ty e _ =>
      set_attribute s c {| a_acct := a; a_name := n; a_val := v; a_type := ty; a_exp := e |}
  | OUpdate c a n ov oty nv nty sp => update_attribute s c a n ov oty nv nty sp
  | OUpdateExp c a n v e _ => update_expiration s c a n v e
  | ODelete c a n sp => delete_attribute s c a n None sp
  | ODeleteDistinct c a n v sp => delete_attribute s c a n (Some v) sp
  | OPurge c n => purge_attribute s c n
  | OBlock dt => if dt <? 0 then None else Some (sweep (set_now s (s_now s + dt)))
  end.

(** [step] returns the new state and whether the operation was accepted. *)
Definition step (s : state) (o : op) : state * bool :=
  match exec s o with Some s' => (s', true) | None => (s, false) end.

Definition run_from (s : state) (ops : list op) : state :=
  fold_left (fun st o => fst (step st o)) ops s.
Definition run (t0 : Z) (accts : Z -> bool) (ops : list op) : state := run_from (init t0 accts) ops.

(** Number of records of name [n] on account [a]. *)
Definition count_recs (n a : Z) (recs : list attr) : Z :=
  Z.of_nat (length (filter (fun r => (a_name r =? n) && (a_acct r =? a)) recs)).
