(** Model of the attribute module's write paths, its lookups (keeper level and gRPC queries) and
    the begin-block expiry sweep, COMPOSED with the model of the name module (Name/Name.v, the
    model behind property C15) for everything that decides "who owns a name"  (property C16).

    Go sources transcribed here (function by function, branch by branch):
      x/attribute/keeper/keeper.go      SetAttribute, UpdateAttribute, UpdateAttributeExpiration,
                                        DeleteAttribute (by name / distinct by value),
                                        PurgeAttribute, AccountsByAttribute, GetAttributes,
                                        GetAccountData, SetAccountData,
                                        IncAttrNameAddressLookup, DecAttrNameAddressLookup,
                                        addAttributeExpireLookup, deleteAttributeExpireLookup,
                                        DeleteExpiredAttributes (with its [limit] argument),
                                        ValidateExpirationDate, GetMaxValueLength
      x/attribute/keeper/msg_server.go  AddAttribute, UpdateAttribute, UpdateAttributeExpiration,
                                        DeleteAttribute, DeleteDistinctAttribute, SetAccountData,
                                        UpdateParams
      x/attribute/keeper/query_server.go Attribute, Attributes, Scan, AttributeAccounts, AccountData
                                        (the filter; pagination is the SDK's FilteredPaginate)
      x/attribute/types/msgs.go         ValidateBasic of the seven messages
      x/attribute/types/attribute.go    ValidateBasic, ValidateAttributeAddress
      x/attribute/types/keys.go         AddrAttributeKey, AttributeExpireKey, GetNameKeyBytes,
                                        AttributeNameAddrKeyPrefix, GetAttributeExpireTimePrefix
      x/attribute/abci.go               BeginBlocker (limit MaxExpiredAttributionCount = 100000)
      x/name/keeper/msg_server.go       BindName, ModifyName, DeleteName: these ARE Name/Name.v's
                                        [bind], [modify], [delete]; DeleteName's final call of
                                        PurgeAttribute is added here
      x/name/keeper/keeper.go           ResolvesTo, NameExists, Normalize, GetRecordByName: Name/Name.v's
                                        [resolves_to], [name_exists], [normalize], [get_record]

    Names are byte strings (ASCII, see Name/Name.v) exactly as sent in the request; nothing about
    spelling is assumed: the model applies the same normalisations as the code at the same places.
    There are TWO key functions for a name:
      - the name module's key, SHA-256 of [name_key_preimage] (segments trimmed, reversed,
        concatenated WITHOUT separator, case sensitive) — used by ResolvesTo / NameExists;
        the model keys name records by the pre-image itself ([idh]), so names whose pre-images
        coincide (aa.bbcc / ccaa.bb, C15's known finding) share a record here as in the code;
      - the attribute module's GetNameKeyBytes, SHA-256 of the reversed segments (joined with
        dots) of ToLower(TrimSpace(name)) — used in the record key, the per-name counter key and
        the expiration queue key.  Reversal of the dot-separated segments is a bijection on
        strings, so this key is the injective image of [ank name] = ToLower(TrimSpace(name)).
    ASSUMED: SHA-256 is injective on the [ank] images and on the values that occur, so the
    attribute record key is the triple (account, ank name, value) itself.

    Accounts are abstract ids [N] (as in Name/Name.v; 0 = governance authority).  [c_kind] says
    what kind of address an id stands for: 0 an account address, 1 a scope metadata address (both
    are valid attribute holders), anything else is not a valid attribute address (e.g. a session
    or record metadata address).  [c_has_acct] says which ids have an auth account.
    Values are interned integers with a byte length [c_vlen]; they are decimal numerals without
    surrounding white space (NewAttribute's trimming is the identity), valid for the types
    JSON(2) String(3) Int(5) Float(6) Proto(7) Bytes(8), invalid for UUID(1) Uri(4)
    Unspecified(0) ([type_ok]).  Times are whole seconds; uint64 counters do not overflow;
    protobuf (un)marshalling never fails.

    The store's iteration order matters in exactly two places and is supplied by the harness as
    rank functions computed from the real key bytes: the order in which DeleteExpiredAttributes
    walks the queue entries that are due (time, then length-prefixed account bytes [c_arank],
    name hash [c_nrank], value hash [c_vrank]) — it decides WHICH entries a finite [limit] cuts
    off — and "the first" accountdata attribute returned by GetAccountData.

    An operation that errors or panics returns the OLD state (tx rollback).  No proofs here. *)
From Coq Require Import ZArith NArith List Bool String Ascii.
From PV Require Import Name.Name.
Import ListNotations.
Open Scope Z_scope.

(** the hash of Name/Name.v instantiated with the identity: name records keyed by pre-image *)
Definition idh (s : string) : string := s.

(** ** Records, keys *)
Definition key := (N * string * Z)%type.        (* account, ank name, value(hash) *)
Record attr := { a_acct : N; a_name : string; a_val : Z; a_type : Z; a_exp : option Z }.
(* GetNameKeyBytes up to the injective reversal + hash: ToLower(TrimSpace(name)) *)
Definition ank (name : string) : string := to_lower (trim name).
Definition akey (r : attr) : key := (a_acct r, ank (a_name r), a_val r).

Definition key_eqb (k1 k2 : key) : bool :=
  let '(a1, n1, v1) := k1 in let '(a2, n2, v2) := k2 in
  N.eqb a1 a2 && String.eqb n1 n2 && (v1 =? v2).
Definition oz_eqb (x y : option Z) : bool :=
  match x, y with
  | Some a, Some b => a =? b
  | None, None => true
  | _, _ => false
  end.
Definition entry := (Z * key)%type.            (* expiration time, record key *)
Definition entry_eqb (x y : entry) : bool := (fst x =? fst y) && key_eqb (snd x) (snd y).

(** ** Configuration: everything that does not change during a history *)
Record config := {
  c_params : params;                     (* name module params (segment lengths, levels) *)
  c_genesis : list (string * N * bool);  (* names bound before the history (SetNameRecord): name, owner, restricted *)
  c_has_acct : N -> bool;                (* authKeeper.GetAccount(addr) != nil *)
  c_kind : N -> Z;                       (* 0 account address, 1 scope address, else invalid holder *)
  c_vlen : Z -> Z;                       (* len(value) *)
  c_arank : N -> Z;                      (* order of the length-prefixed account bytes *)
  c_nrank : string -> Z;                 (* order of GetNameKeyBytes, argument already [ank]ed *)
  c_vrank : Z -> Z;                      (* order of sha256(value) *)
  c_maxlen0 : Z }.                       (* Params.MaxValueLength at the start *)

Definition gov : N := 0%N.                (* the governance module account = Name.gov_authority *)
Definition mod_addr : N := 8%N.           (* the attribute module account, owner of "accountdata" *)
Definition account_data_name : string := "accountdata".

Record state := {
  s_now : Z;                      (* ctx.BlockTime().Unix() *)
  s_names : Name.state;           (* the name module's store *)
  s_maxlen : Z;                   (* Params.MaxValueLength *)
  s_recs : list attr;             (* attribute records, at most one per key *)
  s_cnt : string -> N -> Z;       (* ank name -> account -> lookup counter (key absent = 0) *)
  s_queue : list entry }.         (* expiration queue (a set) *)

Definition genesis_names (cfg : config) : Name.state :=
  fold_left (fun ns x => let '(n, o, r) := x in
                         match set_name_record idh (c_params cfg) ns n o r with
                         | Some ns' => ns'
                         | None => ns
                         end) (c_genesis cfg) Name.init.

Definition init (cfg : config) (t0 : Z) : state :=
  {| s_now := t0; s_names := genesis_names cfg; s_maxlen := c_maxlen0 cfg; s_recs := [];
     s_cnt := fun _ _ => 0; s_queue := [] |}.

Definition set_names (s : state) (ns : Name.state) : state :=
  {| s_now := s_now s; s_names := ns; s_maxlen := s_maxlen s; s_recs := s_recs s;
     s_cnt := s_cnt s; s_queue := s_queue s |}.
Definition set_store (s : state) (recs : list attr) (cnt : string -> N -> Z) (q : list entry) : state :=
  {| s_now := s_now s; s_names := s_names s; s_maxlen := s_maxlen s; s_recs := recs;
     s_cnt := cnt; s_queue := q |}.
Definition set_now (s : state) (t : Z) : state :=
  {| s_now := t; s_names := s_names s; s_maxlen := s_maxlen s; s_recs := s_recs s;
     s_cnt := s_cnt s; s_queue := s_queue s |}.
Definition set_maxlen (s : state) (m : Z) : state :=
  {| s_now := s_now s; s_names := s_names s; s_maxlen := m; s_recs := s_recs s;
     s_cnt := s_cnt s; s_queue := s_queue s |}.

(** store.Get(attrKey) / store.Delete(attrKey) *)
Definition find_rec (k : key) (recs : list attr) : option attr :=
  find (fun r => key_eqb (akey r) k) recs.
Definition remove_key (k : key) (recs : list attr) : list attr :=
  filter (fun r => negb (key_eqb (akey r) k)) recs.

(** ** The name -> account lookup counters (keyed by GetNameKeyBytes(name), i.e. [ank name]) *)
Definition cnt_upd (f : string -> N -> Z) (n : string) (a : N) (v : Z) : string -> N -> Z :=
  fun n' a' => if String.eqb n' n && N.eqb a' a then v else f n' a'.
(* IncAttrNameAddressLookup: missing key counts as 0 *)
Definition cnt_inc (f : string -> N -> Z) (n : string) (a : N) : string -> N -> Z :=
  cnt_upd f n a (f n a + 1).
(* DecAttrNameAddressLookup: no key: nothing; value <= 1: key deleted; else value - 1 *)
Definition cnt_dec (f : string -> N -> Z) (n : string) (a : N) : string -> N -> Z :=
  let c := f n a in
  if c <=? 0 then f else if c <=? 1 then cnt_upd f n a 0 else cnt_upd f n a (c - 1).

(** ** The expiration queue *)
(* addAttributeExpireLookup / deleteAttributeExpireLookup: no-ops without an expiration *)
Definition q_remove (x : entry) (q : list entry) : list entry :=
  filter (fun y => negb (entry_eqb y x)) q.
Definition q_add (q : list entry) (r : attr) : list entry :=
  match a_exp r with
  | Some e => if existsb (entry_eqb (e, akey r)) q then q else (e, akey r) :: q
  | None => q
  end.
Definition q_del (q : list entry) (r : attr) : list entry :=
  match a_exp r with
  | Some e => q_remove (e, akey r) q
  | None => q
  end.

(** ** Guards *)
(* ValidateExpirationDate: error iff an expiration is given and lies before the block time *)
Definition exp_ok (now : Z) (e : option Z) : bool :=
  match e with Some t => negb (t <? now) | None => true end.
(* ValidAttributeType && isValidValueForType on the generated values (see header) *)
Definition type_ok (ty : Z) : bool :=
  (ty =? 2) || (ty =? 3) || (ty =? 5) || (ty =? 6) || (ty =? 7) || (ty =? 8).
(* ValidateAttributeAddress *)
Definition holder_ok (cfg : config) (a : N) : bool := (c_kind cfg a =? 0) || (c_kind cfg a =? 1).
(* sdk.AccAddressFromBech32 succeeds *)
Definition plain_acct (cfg : config) (a : N) : bool := c_kind cfg a =? 0.
(* nameKeeper.ResolvesTo / NameExists / Normalize, on the name exactly as given *)
Definition resolves (s : state) (name : string) (c : N) : bool := resolves_to idh (s_names s) name c.
Definition nexists (s : state) (name : string) : bool := name_exists idh (s_names s) name.
Definition norm (cfg : config) (name : string) : option string := normalize (c_params cfg) name.

(** ** Keeper operations.  [None] = error or panic. *)

(* The tail of SetAttribute (also the second half of UpdateAttribute): store.Set(key, attr);
   IncAttrNameAddressLookup; addAttributeExpireLookup.  An existing record under the same key
   is overwritten; its old queue entry is NOT removed and the counter is incremented again. *)
Definition put (s : state) (r : attr) : state :=
  set_store s (r :: remove_key (akey r) (s_recs s))
              (cnt_inc (s_cnt s) (ank (a_name r)) (a_acct r))
              (q_add (s_queue s) r).

(* Attribute.ValidateBasic: name not blank, valid holder address, valid type and value *)
Definition attr_basic (cfg : config) (a : N) (name : string) (ty : Z) : bool :=
  negb (blank name) && holder_ok cfg a && type_ok ty.

(* keeper.SetAttribute: expiration, ValidateBasic, value length, Normalize, owner account,
   ResolvesTo on the NORMALISED name; the record is stored under the normalised name *)
Definition set_attribute (cfg : config) (s : state) (c a : N) (name : string) (v ty : Z) (e : option Z)
  : option state :=
  if exp_ok (s_now s) e && attr_basic cfg a name ty && (c_vlen cfg v <=? s_maxlen s) then
    match norm cfg name with
    | Some n =>
        if c_has_acct cfg c && resolves s n c
        then Some (put s {| a_acct := a; a_name := n; a_val := v; a_type := ty; a_exp := e |})
        else None
    | None => None
    end
  else None.

(* store.Delete(key); DecAttrNameAddressLookup; and, when [dq], deleteAttributeExpireLookup —
   the per-record body of UpdateAttribute (first half), DeleteAttribute, the sweep ([dq = true])
   and PurgeAttribute ([dq = false]: purge leaves the queue entries behind). *)
Definition del_rec (dq : bool) (s : state) (r : attr) : state :=
  set_store s (remove_key (akey r) (s_recs s))
              (cnt_dec (s_cnt s) (ank (a_name r)) (a_acct r))
              (if dq then q_del (s_queue s) r else s_queue s).

(* keeper.UpdateAttribute (after MsgUpdateAttributeRequest.ValidateBasic, which validates the
   update attribute): both attributes validated, length of the new value, Normalize (both names
   are the same request field), owner account, ResolvesTo on the normalised name; the existing
   record is looked up under AddrAttributeKey(originalAttribute), i.e. with the RAW name, of
   which GetNameKeyBytes lower-cases and trims only the whole. *)
Definition update_attribute (cfg : config) (s : state) (c a : N) (name : string) (ov oty nv nty : Z)
  : option state :=
  if attr_basic cfg a name oty && type_ok nty && (c_vlen cfg nv <=? s_maxlen s) then
    match norm cfg name with
    | Some n =>
        if c_has_acct cfg c && resolves s n c then
          match find_rec (a, ank name, ov) (s_recs s) with
          | Some cur =>
              if a_type cur =? oty then
                (* the replacement carries no expiration: MsgUpdateAttributeRequest has none *)
                Some (put (del_rec true s cur)
                          {| a_acct := a; a_name := n; a_val := nv; a_type := nty; a_exp := None |})
              else None
          | None => None
          end
        else None
    | None => None
    end
  else None.

Definition with_exp (r : attr) (e : option Z) : attr :=
  {| a_acct := a_acct r; a_name := a_name r; a_val := a_val r; a_type := a_type r; a_exp := e |}.

(* keeper.UpdateAttributeExpiration (after its message's ValidateBasic: name not blank, valid
   holder address): the record is looked up under the NORMALISED name *)
Definition update_expiration (cfg : config) (s : state) (c a : N) (name : string) (v : Z) (e : option Z)
  : option state :=
  if exp_ok (s_now s) e && negb (blank name) && holder_ok cfg a then
    match norm cfg name with
    | Some n =>
        if c_has_acct cfg c && resolves s n c then
          match find_rec (a, ank n, v) (s_recs s) with
          | Some cur =>
              let cur' := with_exp cur e in
              Some (set_store s (cur' :: remove_key (akey cur) (s_recs s)) (s_cnt s)
                              (q_add (q_del (s_queue s) cur) cur'))
          | None => None
          end
        else None
    | None => None
    end
  else None.

(* the ownership gate shared by DeleteAttribute and PurgeAttribute, evaluated on the name AS
   GIVEN: the caller must be the owner, unless the name does not exist (any more), in which case
   nothing is enforced *)
Definition may_remove (cfg : config) (s : state) (c : N) (name : string) : bool :=
  c_has_acct cfg c && (resolves s name c || negb (nexists s name)).

(* keeper.DeleteAttribute: the raw name throughout — the gate goes through the name module's
   key (every segment trimmed, case sensitive), the scan prefix is GetNameKeyBytes(raw), and a
   scanned record counts only if attr.Name == raw name *)
Definition delete_matches (a : N) (name : string) (ov : option Z) (r : attr) : bool :=
  N.eqb (a_acct r) a && String.eqb (ank (a_name r)) (ank name) && String.eqb (a_name r) name &&
  match ov with Some v => a_val r =? v | None => true end.

Definition delete_attribute_k (cfg : config) (s : state) (c a : N) (name : string) (ov : option Z)
  : option state :=
  if may_remove cfg s c name then
    match filter (delete_matches a name ov) (s_recs s) with
    | [] => None
    | del => Some (fold_left (del_rec true) del s)
    end
  else None.

(* MsgDeleteAttributeRequest / MsgDeleteDistinctAttributeRequest: ValidateBasic (name not blank,
   valid holder address) + the message server's own ValidateAttributeAddress *)
Definition delete_attribute (cfg : config) (s : state) (c a : N) (name : string) (ov : option Z)
  : option state :=
  if negb (blank name) && holder_ok cfg a then delete_attribute_k cfg s c a name ov else None.

(* keeper.PurgeAttribute, name as given: for every account AccountsByAttribute lists (counter
   key under GetNameKeyBytes(name) present), every record under the prefix
   (account, GetNameKeyBytes(name)) is deleted and the counter decremented once per record.
   No comparison of the stored name.  A blank name panics in GetNameKeyBytes. *)
Definition purge_attribute (cfg : config) (s : state) (c : N) (name : string) : option state :=
  if may_remove cfg s c name && negb (blank name) then
    let del := filter (fun r => String.eqb (ank (a_name r)) (ank name) &&
                                (0 <? s_cnt s (ank name) (a_acct r))) (s_recs s) in
    Some (fold_left (del_rec false) del s)
  else None.

(** keeper.GetAttributes: the name is lower-cased and trimmed as a whole, must exist in the name
    module, prefix scan, predicate strings.EqualFold(attr.Name, name). *)
Definition get_attributes (s : state) (a : N) (name : string) : option (list attr) :=
  let n := ank name in
  match get_record idh (s_names s) n with
  | None => None
  | Some _ =>
      Some (filter (fun r => N.eqb (a_acct r) a && String.eqb (ank (a_name r)) (ank n) &&
                             String.eqb (to_lower (a_name r)) (to_lower n)) (s_recs s))
  end.

(** keeper.SetAccountData (reached from MsgSetAccountDataRequest, [via_msg], whose ValidateBasic
    wants a plain account address, and from the metadata module for scopes): existing
    accountdata attributes are deleted as the module account, then the new value (if not empty;
    [v = 0] stands for the empty string) is set as a String attribute without expiration. *)
Definition set_account_data (cfg : config) (s : state) (via_msg : bool) (a : N) (v : Z) : option state :=
  if via_msg && negb (plain_acct cfg a) then None else
  match get_attributes s a account_data_name with
  | None => None
  | Some ex =>
      let s1 := match ex with
                | [] => Some s
                | _ => delete_attribute_k cfg s mod_addr a account_data_name None
                end in
      match s1 with
      | None => None
      | Some s1 => if v =? 0 then Some s1
                   else set_attribute cfg s1 mod_addr a account_data_name v 3 None
      end
  end.

(** ** DeleteExpiredAttributes(ctx, limit)
    The queue entries with time < block time (the iterator's end bound is exclusive) are
    collected first, in store order; then processed one by one: an entry whose record exists
    but whose stored expiration is not the entry's time (a stale entry) is dropped and the loop
    CONTINUES without looking at the limit; an entry whose record is gone is dropped; otherwise
    the record is deleted, the counter decremented, [count] incremented and the entry dropped.
    After a non-stale entry: [if limit != 0 && count >= limit { break }]. *)
Definition sweep_entry (s : state) (x : entry) : state :=
  let '(e, k) := x in
  match find_rec k (s_recs s) with
  | Some r =>
      if oz_eqb (a_exp r) (Some e)
      then del_rec true s r
      else set_store s (s_recs s) (s_cnt s) (q_remove x (s_queue s))
  | None => set_store s (s_recs s) (s_cnt s) (q_remove x (s_queue s))
  end.

(* does processing [x] in [s] delete a record (count++), and is [x] a stale entry (continue)? *)
Definition sweep_deletes (s : state) (x : entry) : bool :=
  match find_rec (snd x) (s_recs s) with
  | Some r => oz_eqb (a_exp r) (Some (fst x))
  | None => false
  end.
Definition sweep_stale (s : state) (x : entry) : bool :=
  match find_rec (snd x) (s_recs s) with
  | Some r => negb (oz_eqb (a_exp r) (Some (fst x)))
  | None => false
  end.

Fixpoint sweep_loop (limit count : Z) (l : list entry) (s : state) : state :=
  match l with
  | [] => s
  | x :: t =>
      let count' := if sweep_deletes s x then count + 1 else count in
      let s' := sweep_entry s x in
      if negb (sweep_stale s x) && negb (limit =? 0) && (limit <=? count') then s'
      else sweep_loop limit count' t s'
  end.

(* store order of the queue keys *)
Definition entry_ltb (cfg : config) (x y : entry) : bool :=
  let '(t1, (a1, n1, v1)) := x in let '(t2, (a2, n2, v2)) := y in
  (t1 <? t2) || ((t1 =? t2) &&
    ((c_arank cfg a1 <? c_arank cfg a2) || ((c_arank cfg a1 =? c_arank cfg a2) &&
      ((c_nrank cfg n1 <? c_nrank cfg n2) || ((c_nrank cfg n1 =? c_nrank cfg n2) &&
        (c_vrank cfg v1 <? c_vrank cfg v2)))))).
Fixpoint insert_entry (cfg : config) (x : entry) (l : list entry) : list entry :=
  match l with
  | [] => [x]
  | y :: t => if entry_ltb cfg y x then y :: insert_entry cfg x t else x :: l
  end.
Definition sort_entries (cfg : config) (l : list entry) : list entry :=
  fold_right (insert_entry cfg) [] l.

Definition due (t : Z) (q : list entry) : list entry := filter (fun x => fst x <? t) q.
Definition sweep (cfg : config) (limit : Z) (s : state) : state :=
  sweep_loop limit 0 (sort_entries cfg (due (s_now s) (s_queue s))) s.

(** ** Lookups *)
(** AccountsByAttribute / the AttributeAccounts query, restricted to a finite universe of accounts *)
Definition accounts_by_attribute (s : state) (name : string) (universe : list N) : list N :=
  filter (fun a => 0 <? s_cnt s (ank name) a) universe.

(** the gRPC queries' filter: an attribute whose expiration lies before the block time is not
    returned (ctx.BlockTime().After(expiration)) *)
Definition live (now : Z) (r : attr) : bool :=
  match a_exp r with Some e => negb (e <? now) | None => true end.
Definition q_attributes (s : state) (a : N) : list attr :=
  filter (fun r => N.eqb (a_acct r) a && live (s_now s) r) (s_recs s).
Definition q_attribute (s : state) (a : N) (name : string) : list attr :=
  filter (fun r => N.eqb (a_acct r) a && String.eqb (ank (a_name r)) (ank name) && live (s_now s) r)
         (s_recs s).
(* strings.HasSuffix *)
Definition has_suffix (s suf : string) : bool :=
  (String.length suf <=? String.length s)%nat &&
  String.eqb (substring (String.length s - String.length suf) (String.length suf) s) suf.
Definition q_scan (s : state) (a : N) (suf : string) : list attr :=
  filter (fun r => N.eqb (a_acct r) a && has_suffix (a_name r) suf && live (s_now s) r) (s_recs s).
(* GetAccountData: the first accountdata attribute in store order (by value hash); [Some 0] = "" *)
Definition min_by_vrank (cfg : config) (l : list attr) : option attr :=
  fold_left (fun best r => match best with
                           | None => Some r
                           | Some b => if c_vrank cfg (a_val r) <? c_vrank cfg (a_val b) then Some r else Some b
                           end) l None.
Definition q_account_data (cfg : config) (s : state) (a : N) : option Z :=
  match get_attributes s a account_data_name with
  | None => None
  | Some l => match min_by_vrank cfg l with Some r => Some (a_val r) | None => Some 0 end
  end.

(** ** Messages and blocks *)
Inductive op :=
| OBind (parent : string) (signer : N) (child : string) (owner : N) (restr : bool)  (* MsgBindNameRequest *)
| OModifyName (signer : N) (name : string) (owner : N) (restr : bool)               (* MsgModifyNameRequest *)
| ODeleteName (name : string) (signer : N)                                          (* MsgDeleteNameRequest *)
| OAdd (c a : N) (name : string) (v ty : Z) (e : option Z)     (* MsgAddAttribute: caller, account, name, value, type, expiration *)
| OUpdate (c a : N) (name : string) (ov oty nv nty : Z)        (* MsgUpdateAttribute *)
| OUpdateExp (c a : N) (name : string) (v : Z) (e : option Z)  (* MsgUpdateAttributeExpiration *)
| ODelete (c a : N) (name : string)                            (* MsgDeleteAttribute *)
| ODeleteDistinct (c a : N) (name : string) (v : Z)            (* MsgDeleteDistinctAttribute *)
| OPurge (c : N) (name : string)                               (* keeper.PurgeAttribute called directly *)
| OSetAccountData (via_msg : bool) (a : N) (v : Z)             (* MsgSetAccountData / keeper.SetAccountData *)
| OSetMaxLen (auth : N) (m : Z)                                (* MsgUpdateParams *)
| OBlock (dt limit : Z).                                       (* block time += dt; DeleteExpiredAttributes(limit) *)

Definition exec (cfg : config) (s : state) (o : op) : option state :=
  match o with
  | OBind parent signer child owner restr =>
      match bind idh (c_params cfg) (s_names s) parent signer child owner restr with
      | Some ns => Some (set_names s ns)
      | None => None
      end
  | OModifyName signer name owner restr =>
      match modify idh (c_params cfg) (s_names s) signer name owner restr with
      | Some ns => Some (set_names s ns)
      | None => None
      end
  | ODeleteName name signer =>
      (* DeleteName: ... DeleteRecord(name); attrKeeper.PurgeAttribute(ctx, name, address) with
         name = Normalize(msg.Record.Name) *)
      match delete idh (c_params cfg) (s_names s) name signer, norm cfg name with
      | Some ns, Some n => purge_attribute cfg (set_names s ns) signer n
      | _, _ => None
      end
  | OAdd c a name v ty e => set_attribute cfg s c a name v ty e
  | OUpdate c a name ov oty nv nty => update_attribute cfg s c a name ov oty nv nty
  | OUpdateExp c a name v e => update_expiration cfg s c a name v e
  | ODelete c a name => delete_attribute cfg s c a name None
  | ODeleteDistinct c a name v => delete_attribute cfg s c a name (Some v)
  | OPurge c name => purge_attribute cfg s c name
  | OSetAccountData via_msg a v => set_account_data cfg s via_msg a v
  | OSetMaxLen auth m => if N.eqb auth gov then Some (set_maxlen s m) else None
  | OBlock dt limit => if dt <? 0 then None else Some (sweep cfg limit (set_now s (s_now s + dt)))
  end.

(** [step] returns the new state and whether the operation was accepted. *)
Definition step (cfg : config) (s : state) (o : op) : state * bool :=
  match exec cfg s o with Some s' => (s', true) | None => (s, false) end.

Definition run_from (cfg : config) (s : state) (ops : list op) : state :=
  fold_left (fun st o => fst (step cfg st o)) ops s.
Definition run (cfg : config) (t0 : Z) (ops : list op) : state := run_from cfg (init cfg t0) ops.

(** Number of records of name key [n] on account [a]. *)
Definition count_recs (n : string) (a : N) (recs : list attr) : Z :=
  Z.of_nat (List.length (filter (fun r => String.eqb (ank (a_name r)) n && N.eqb (a_acct r) a) recs)).

(** ** The specified notion of ownership: the owner of name [n] is the address in the name
    record whose STORED name is [n] (not merely a record found under [n]'s key). *)
Definition owner_of (s : state) (n : string) : option N :=
  match get_record idh (s_names s) n with
  | Some r => if String.eqb (r_name r) n then Some (r_addr r) else None
  | None => None
  end.
