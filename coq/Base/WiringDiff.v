(* Prints the differences between the GENERATED and the REVIEWED bypass-site / wiring tables as lines
   "table|added/removed/changed|flag-or-fact|package|function|shape".  checks/wiring.py compiles this
   file on every run and reads the output to decide WHICH property a change concerns; the
   obligations themselves are the theorems of Properties/Wiring.v.  Nothing is proved here. *)
From Coq Require Import List String.
From PV Require Import Base.WiringTypes Gen.GenBypassSites Gen.GenWiring Base.WiringDoc.
Import ListNotations.
Open Scope string_scope.

Definition WIRING_DIFF : list string := Eval vm_compute in
  (sites_diff "sites" generated_bypass_sites reviewed_bypass_sites
   ++ sites_diff "readers" generated_flag_readers reviewed_flag_readers
   ++ sites_diff "key_uses" generated_flag_key_uses reviewed_flag_key_uses
   ++ sites_diff "regs" generated_hook_registrations reviewed_hook_registrations
   ++ facts_diff generated_wiring reviewed_wiring)%list.
Print WIRING_DIFF.
