(* Types and executable helpers shared by the GENERATED tables (Gen/GenBypassSites.v, Gen/GenWiring.v),
   the REVIEWED tables (Base/WiringDoc.v) and the obligations over them (Properties/Wiring.v).

   A [site] is one occurrence, in non-test Go code of the repository, of a function that sets or reads
   a context flag which lets code skip a protection (hold.WithBypass, markertypes.WithBypass,
   markertypes.WithTransferAgents, quarantine.WithBypass, sanction.WithBypass,
   banktypes.WithVestingLockedBypass, internalsdk.WithFeeGrantInUse, and their readers), keyed by
   (flag function, package directory, enclosing function) — never by file or line.
   A [fact] is a named list of strings read from app/app.go.  No proofs in this file. *)
From Coq Require Import List String Bool.
Import ListNotations.
Open Scope string_scope.

Record site := { s_flag : string; s_pkg : string; s_func : string; s_shape : string }.

Definition fact := (string * list string)%type.

Definition site_eqb (a b : site) : bool :=
  String.eqb (s_flag a) (s_flag b) && String.eqb (s_pkg a) (s_pkg b) &&
  String.eqb (s_func a) (s_func b) && String.eqb (s_shape a) (s_shape b).

(* remove the first occurrence of [x]; None when absent *)
Fixpoint remove_one (x : site) (l : list site) : option (list site) :=
  match l with
  | [] => None
  | y :: r => if site_eqb x y then Some r
              else match remove_one x r with Some r' => Some (y :: r') | None => None end
  end.

(* multiset difference a - b (two sites in one function are two rows) *)
Fixpoint sites_minus (a b : list site) : list site :=
  match a with
  | [] => []
  | x :: r => match remove_one x b with
              | Some b' => sites_minus r b'
              | None => x :: sites_minus r b
              end
  end.

Fixpoint sites_eqb (a b : list site) : bool :=
  match a, b with
  | [], [] => true
  | x :: a', y :: b' => site_eqb x y && sites_eqb a' b'
  | _, _ => false
  end.

Fixpoint strings_eqb (a b : list string) : bool :=
  match a, b with
  | [], [] => true
  | x :: a', y :: b' => String.eqb x y && strings_eqb a' b'
  | _, _ => false
  end.

Definition mem (x : string) (l : list string) : bool := existsb (String.eqb x) l.

(* value of a fact; a missing fact reads as the explicit marker row so that nothing is silently empty *)
Fixpoint lookup_opt (n : string) (w : list fact) : option (list string) :=
  match w with
  | [] => None
  | (k, v) :: r => if String.eqb k n then Some v else lookup_opt n r
  end.

Definition lookup (n : string) (w : list fact) : list string :=
  match lookup_opt n w with Some v => v | None => ["Unrecognised: fact missing"] end.

(* parallel lists <prefix>.params / <prefix>.args of a constructor call: the argument passed for a parameter *)
Fixpoint assoc (k : string) (ks vs : list string) : option string :=
  match ks, vs with
  | k' :: ks', v :: vs' => if String.eqb k k' then Some v else assoc k ks' vs'
  | _, _ => None
  end.

Definition ctor_arg (pkg param : string) (w : list fact) : option string :=
  assoc param (lookup ("ctor." ++ pkg ++ ".params") w) (lookup ("ctor." ++ pkg ++ ".args") w).

(* The bank keeper composes hooks in registration order: Append* runs the new hook AFTER the ones
   already registered, Prepend* BEFORE them, Clear* drops all of them.  [effective_order] replays
   the registrations found in app.New (in source order) and returns the packages in run order. *)
Fixpoint effective_order (methods pkgs : list string) (acc : list string) : list string :=
  match methods, pkgs with
  | m :: ms, p :: ps =>
      if String.eqb m "AppendSendRestriction" || String.eqb m "AppendLockedCoinsGetter"
      then effective_order ms ps (app acc [p])
      else if String.eqb m "PrependSendRestriction" || String.eqb m "PrependLockedCoinsGetter"
      then effective_order ms ps (p :: acc)
      else if String.eqb m "ClearSendRestriction" || String.eqb m "ClearLockedCoinsGetter"
      then effective_order ms ps []
      else effective_order ms ps (app acc ["Unrecognised: " ++ m ++ " " ++ p])
  | [], [] => acc
  | _, _ => app acc ["Unrecognised: method and package lists differ in length"]
  end.

Definition send_restriction_order (w : list fact) : list string :=
  effective_order (lookup "send_restrictions.method" w) (lookup "send_restrictions.pkg" w) [].

Definition locked_coins_getter_order (w : list fact) : list string :=
  effective_order (lookup "locked_coins_getters.method" w) (lookup "locked_coins_getters.pkg" w) [].

(* every site of [flag] is a plain call inside (pkg, func) *)
Definition flag_only_in (flag pkg func : string) (l : list site) : bool :=
  forallb (fun s => if String.eqb (s_flag s) flag
                    then String.eqb (s_pkg s) pkg && String.eqb (s_func s) func && String.eqb (s_shape s) "call"
                    else true) l.

(* every site of [flag] lies in one of the packages *)
Definition flag_only_in_pkgs (flag : string) (pkgs : list string) (l : list site) : bool :=
  forallb (fun s => if String.eqb (s_flag s) flag then mem (s_pkg s) pkgs && String.eqb (s_shape s) "call" else true) l.

Definition recognised_site (s : site) : bool :=
  negb (String.prefix "Unrecognised" (s_shape s)) && negb (String.prefix "?" (s_flag s)).

Definition recognised_fact (f : fact) : bool :=
  forallb (fun v => negb (String.prefix "Unrecognised" v)) (snd f).

(* the symbolic contents of unsanctionableAddrs: one entry per key of the ranged map, then the appended ones *)
Definition unsanctionable_exprs (w : list fact) : list string :=
  app
  (if strings_eqb (lookup "unsanctionable_addrs.init" w) ["empty"]
      && strings_eqb (lookup "unsanctionable_addrs.each_key_of" w) ["maccPerms"]
      && strings_eqb (lookup "unsanctionable_addrs.each_key_elem" w) ["authtypes.NewModuleAddress(<key>)"]
      && strings_eqb (lookup "macc_perms.writes" w) []
   then map (fun k => "authtypes.NewModuleAddress(" ++ k ++ ")") (lookup "macc_perms.keys" w)
   else [])
  (lookup "unsanctionable_addrs.elems" w).

(* ---- differences, printed by Base/WiringDiff.v and read by checks/wiring.py ------------------- *)
Definition site_line (tag : string) (s : site) : string :=
  tag ++ "|" ++ s_flag s ++ "|" ++ s_pkg s ++ "|" ++ s_func s ++ "|" ++ s_shape s.

Definition sites_diff (table : string) (gen rev : list site) : list string :=
  let d := app (map (site_line (table ++ "|added")) (sites_minus gen rev))
               (map (site_line (table ++ "|removed")) (sites_minus rev gen)) in
  match d with
  | [] => if sites_eqb gen rev then [] else [table ++ "|reordered||||"]
  | _ => d
  end.

Fixpoint facts_eqb (a b : list fact) : bool :=
  match a, b with
  | [], [] => true
  | x :: a', y :: b' => String.eqb (fst x) (fst y) && strings_eqb (snd x) (snd y) && facts_eqb a' b'
  | _, _ => false
  end.

Definition facts_diff (gen rev : list fact) : list string :=
  let d := app (
  flat_map (fun f => match lookup_opt (fst f) rev with
                     | Some v => if strings_eqb (snd f) v then [] else ["wiring|changed|" ++ fst f ++ "|||"]
                     | None => ["wiring|added|" ++ fst f ++ "|||"]
                     end) gen) (
  flat_map (fun f => match lookup_opt (fst f) gen with
                        | Some _ => []
                        | None => ["wiring|removed|" ++ fst f ++ "|||"]
                        end) rev) in
  match d with
  | [] => if facts_eqb gen rev then [] else ["wiring|reordered||||"]
  | _ => d
  end.
